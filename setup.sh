#!/bin/sh
# Build the framework from files on disk only (offline): Lean model + theorems + driver, Rust harness.
set -e
cd "$(dirname "$0")"
python3 tools/extract.py /repo lean/Minimq/Generated.lean
(cd lean && lake build Minimq.All driver)
[ -f harness/Cargo.lock ] || cp /repo/Cargo.lock harness/Cargo.lock
(cd harness && CARGO_NET_OFFLINE=true cargo build --offline --release)
