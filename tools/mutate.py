#!/usr/bin/env python3
"""mutate.py gen <outdir> : enumerate single-point mutants of /repo/src (classic operators), one unified diff each.
   mutate.py survive <outdir> <worker> <nworkers> : in a scratch worktree /tmp/mut/w<worker>, keep the mutants that
   compile and pass the repository's test suite (the ones the existing tests cannot see)."""
import re, sys, subprocess, hashlib, os, shutil
from pathlib import Path
REPO = Path("/repo")
FILES = ["src/mqtt_client/outbound.rs", "src/mqtt_client/session/drive.rs", "src/mqtt_client/session/operations.rs",
         "src/mqtt_client/session/handshake.rs", "src/mqtt_client/session/inbound.rs", "src/mqtt_client/session/state.rs",
         "src/mqtt_client/session/mod.rs", "src/mqtt_client/mod.rs", "src/de/packet_reader.rs", "src/de/deserializer.rs",
         "src/de/received_packet.rs", "src/ser/mod.rs", "src/properties.rs", "src/varint.rs", "src/packets.rs", "src/publication.rs",
         "src/wire.rs", "src/types.rs", "src/will.rs"]
OPS = [
    (r"(?<![<>=!-])<=(?!=)", "<"), (r"(?<![<>=!-])>=(?!=)", ">"), (r"(?<![<=>-])<(?![<=])", "<="), (r"(?<![-=>])>(?![>=])", ">="),
    (r"==", "!="), (r"!=", "=="), (r"&&", "||"), (r"\|\|", "&&"),
    (r"\+ 1\b", "+ 2"), (r"- 1\b", "- 0"), (r"\+ 1\b", "+ 0"), (r"\bsaturating_sub\b", "wrapping_sub"),
    (r"\btrue\b", "false"), (r"\bfalse\b", "true"), (r"\.min\(", ".max("), (r"\.max\(", ".min("),
    (r"\bremove\(", "swap_remove("), (r"\bSome\((\w+)\)\s*=>", None),
]
def in_test(lines, i):
    # skip everything from the first `#[cfg(test)]` on
    for j in range(i + 1):
        if "#[cfg(test)]" in lines[j]:
            return True
    return False
def gen(out):
    out.mkdir(parents=True, exist_ok=True)
    n = 0
    for f in FILES:
        p = REPO / f
        if not p.exists():
            continue
        lines = p.read_text().split("\n")
        for i, line in enumerate(lines):
            s = line.strip()
            if not s or s.startswith(("//", "#[", "use ", "pub use", "trace!", "debug!", "warn!", "info!", "error!", "debug_assert")) or in_test(lines, i):
                continue
            if "trace!(" in line or "warn!(" in line or "debug!(" in line or "info!(" in line:
                continue
            code = line.split("//")[0]
            for k, (pat, rep) in enumerate(OPS):
                if rep is None:
                    continue
                for m in re.finditer(pat, code):
                    # generics / arrows / lifetimes are not comparisons
                    if rep in ("<=", ">=", "<", ">") and (re.search(r"(impl|fn|struct|enum|Vec|Option|Result|Box|&'|::<|->|=>|<'|: \w+<|String<|\bas\b)", code)):
                        continue
                    new = code[:m.start()] + rep + code[m.end():] + line[len(code):]
                    if new == line:
                        continue
                    ml = lines[:i] + [new] + lines[i + 1:]
                    (REPO / f).with_suffix(".mut.tmp")
                    a = "\n".join(lines); b = "\n".join(ml)
                    tmpa = Path("/tmp/mut/a.tmp"); tmpb = Path("/tmp/mut/b.tmp")
                    tmpa.write_text(a); tmpb.write_text(b)
                    d = subprocess.run(["diff", "-u", "--label", f"a/{f}", "--label", f"b/{f}", str(tmpa), str(tmpb)], capture_output=True, text=True).stdout
                    h = hashlib.sha1(d.encode()).hexdigest()[:10]
                    (out / f"m{n:04d}-{h}.diff").write_text(d)
                    n += 1
        # statement deletion: lines that are a single call statement `self.xyz(...);` or `x = y;`
        for i, line in enumerate(lines):
            s = line.strip()
            if in_test(lines, i) or not re.match(r"^(self\.[\w\.]+\([^;]*\);|[\w\.]+\.[\w_]+\([^;]*\);|[\w\.]+ [+\-]?= [^;]+;)$", s):
                continue
            if s.startswith(("trace!", "debug!", "warn!", "info!", "let ")):
                continue
            ml = lines[:i] + lines[i + 1:]
            tmpa = Path("/tmp/mut/a.tmp"); tmpb = Path("/tmp/mut/b.tmp")
            tmpa.write_text("\n".join(lines)); tmpb.write_text("\n".join(ml))
            d = subprocess.run(["diff", "-u", "--label", f"a/{f}", "--label", f"b/{f}", str(tmpa), str(tmpb)], capture_output=True, text=True).stdout
            h = hashlib.sha1(d.encode()).hexdigest()[:10]
            (out / f"m{n:04d}-{h}.diff").write_text(d)
            n += 1
    print(n, "mutants")
def survive(out, worker, nworkers):
    wt = Path(f"/tmp/mut/w{worker}")
    if not wt.exists():
        subprocess.run(["git", "-C", str(REPO), "worktree", "add", "--detach", str(wt)], capture_output=True)
    sv = out / "survivors"; sv.mkdir(exist_ok=True)
    log = open(out / f"log{worker}.txt", "a")
    ds = sorted(out.glob("m*.diff"))
    for k, d in enumerate(ds):
        if k % nworkers != worker:
            continue
        subprocess.run(["git", "-C", str(wt), "checkout", "-q", "--", "."])
        if subprocess.run(["git", "-C", str(wt), "apply", str(d)], capture_output=True).returncode != 0:
            log.write(f"{d.name} noapply\n"); log.flush(); continue
        env = dict(os.environ, CARGO_NET_OFFLINE="true")
        b = subprocess.run(["cargo", "build", "--offline", "--features", "verif-hooks"], cwd=wt, capture_output=True, text=True, env=env)
        if b.returncode != 0:
            log.write(f"{d.name} nobuild\n"); log.flush(); continue
        # own process group, so that test binaries stuck in an endless loop die with cargo on timeout
        import signal
        pr = subprocess.Popen(["cargo", "test", "--workspace", "--no-fail-fast", "--offline"], cwd=wt, stdout=subprocess.PIPE,
                              stderr=subprocess.PIPE, text=True, env=env, start_new_session=True)
        try:
            so, se = pr.communicate(timeout=300)
        except subprocess.TimeoutExpired:
            os.killpg(pr.pid, signal.SIGKILL)
            pr.communicate()
            log.write(f"{d.name} timeout(killed by tests)\n"); log.flush(); continue
        class T: pass
        t = T(); t.stdout = so; t.returncode = pr.returncode
        oks = len(re.findall(r"^test result: ok", t.stdout, re.M))
        fails = len(re.findall(r"^test result: FAILED", t.stdout, re.M))
        if t.returncode == 0 and oks >= 4 and fails == 0:
            shutil.copy(d, sv / d.name)
            log.write(f"{d.name} SURVIVED\n")
        else:
            log.write(f"{d.name} killed\n")
        log.flush()
    subprocess.run(["git", "-C", str(wt), "checkout", "-q", "--", "."])
if __name__ == "__main__":
    if sys.argv[1] == "gen":
        gen(Path(sys.argv[2]))
    else:
        survive(Path(sys.argv[2]), int(sys.argv[3]), int(sys.argv[4]))
