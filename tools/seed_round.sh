#!/bin/bash
# seed_round.sh <Cxx> <V1> [V2 …]: confirm each variant in the scratch worktree, then evaluate it against the checks.
P=$1; shift
for V in "$@"; do
  v=$(echo $V | tr A-Z a-z)
  out=$(/verif/tools/seed_confirm.sh $P $V 2>&1)
  echo "$out" | tail -8
  if echo "$out" | grep -q "^CONFIRMED"; then
    echo "$out" > /verif/seeded/$P-$v/confirm.log
    /verif/tools/seed_eval.sh $P-$v $P
    python3 /verif/tools/seed_meta.py /verif/seeded/$P-$v
  fi
done
