#!/usr/bin/env python3
"""runmon.py <dir> [props...]: run monitors on all .prog/.itrace pairs of a directory; summary."""
import sys, collections
from pathlib import Path
sys.path.insert(0, str(Path(__file__).resolve().parent))
import monitors
from trace import Run
d = Path(sys.argv[1])
props = sys.argv[2:] or sorted(monitors.MONITORS)
cnt = collections.Counter()
ex = {}
err = 0
for p in sorted(d.glob("*.prog")):
    it = p.with_suffix(".itrace")
    if not it.exists():
        continue
    try:
        run = Run(p.read_text(errors="replace"), it.read_text(errors="replace"), name=p.name)
    except Exception as e:
        print("PARSE", p.name, repr(e)); err += 1; continue
    for pr in props:
        try:
            vs = monitors.MONITORS[pr](run)
        except Exception as e:
            import traceback
            print("MONERR", pr, p.name, repr(e)); traceback.print_exc(limit=3); err += 1; continue
        for v in vs:
            key = (pr, v["kind"], v["finding"])
            cnt[key] += 1
            ex.setdefault(key, (p.name, v["step"], v["detail"][:220]))
for k, n in sorted(cnt.items(), key=lambda x: str(x[0])):
    print(n, k, ex[k])
print("errors", err)
