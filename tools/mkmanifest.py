#!/usr/bin/env python3
"""Regenerate MANIFEST.json from the per-property table below and the files present."""
import json
import subprocess
from pathlib import Path

ROOT = Path(__file__).resolve().parent.parent

# property -> (technique, what the theorems prove, what is only tied-and-monitored)
TEXT = {
}

def main():
    props = [json.loads(l) for l in (ROOT / "properties.jsonl").read_text().splitlines() if l.strip()]
    notes = json.loads((ROOT / "tools" / "manifest_text.json").read_text())
    hooks_commits = subprocess.run(["git", "-C", "/repo", "log", "--format=%h %s"], capture_output=True, text=True).stdout.splitlines()
    hook_ids = [l.split(" ")[0] for l in hooks_commits if "verif-hooks" in l]
    checks = []
    na = []
    for p in props:
        pid = p["id"]
        n = notes.get(pid)
        if n is None or n.get("not_applicable"):
            na.append({"property_id": pid, "reason": (n or {}).get("reason", "no check registered yet")})
            continue
        has_thm = (ROOT / "lean" / "Minimq" / "Theorems" / f"{pid}.lean").exists()
        cat = "proof" if has_thm else "translation_validation"
        checks.append({
            "property_id": pid,
            "quick_cmd": f"./check {pid} quick",
            "thorough_cmd": f"./check {pid} thorough",
            "evidence_file": f"/verif/evidence/{pid}.json",
            "replay_cmd_template": f"./check {pid} --replay {{path}}",
            "engine": "lean-model+harness",
            "level_claimed": {"category": cat, "text": n["text"], "design_ref": n.get("design_ref", "DESIGN.md §8 " + pid)},
            "level_note": n["note"],
            "technique": n["technique"],
        })
    m = {
        "version": 1,
        "setup_cmd": "./setup.sh",
        "hooks": {
            "guard": "verif-hooks",
            "enable": "cargo feature verif-hooks of minimq, enabled by the harness crate: minimq = { path = \"/repo\", default-features = false, features = [\"verif-hooks\"] }",
            "baseline_off_cmd": "cd /repo && (cargo nextest run --workspace --no-fail-fast --offline || cargo test --workspace --no-fail-fast --offline)",
            "source_commits": hook_ids,
            "add_only": True,
        },
        "engines": [
            {"name": "lean-model+harness", "path": "/verif/check",
             "serves_properties": [c["property_id"] for c in checks],
             "kind_free_text": "Lean 4 model of minimq with machine-checked theorems (lean/Minimq/Theorems), tables regenerated from /repo/src by tools/extract.py, tied to the code by differential execution of the model driver and the Rust harness on generated programs; Python monitors search the implementation's traces for a concrete failing input"},
        ],
        "checks": checks,
        "notes": "See DESIGN.md. Known findings: known_findings.json. Seeded changes used to evaluate the checks: seeded/.",
        "not_applicable": na,
    }
    (ROOT / "MANIFEST.json").write_text(json.dumps(m, indent=1))
    print(f"{len(checks)} checks, {len(na)} not claimed")

if __name__ == "__main__":
    main()
