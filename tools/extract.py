#!/usr/bin/env python3
"""Translator: regenerate lean/Minimq/Generated.lean from /repo/src.

Every constant and table the Lean proofs depend on is re-read from the Rust source on every check.
The parser is deliberately strict: it recognises exactly the shapes the code has today and fails
(exit 2, message on stderr) on anything else, so that a stale table can never be used silently.
"""
import re
import sys
from pathlib import Path


class ExtractError(Exception):
    pass


def need(cond, msg):
    if not cond:
        raise ExtractError(msg)


def read(repo, rel):
    p = Path(repo) / rel
    need(p.exists(), f"missing source file {rel}")
    return p.read_text()


def strip_comments(src):
    src = re.sub(r"//[^\n]*", "", src)
    return src


def const(src, name, rel):
    m = re.search(rf"\bconst\s+{name}\s*:\s*\w+\s*=\s*([0-9a-fA-Fx_]+)\s*;", src)
    need(m, f"{rel}: const {name} not found")
    return int(m.group(1).replace("_", ""), 0)


def block_after(src, header_re, rel, what):
    """Return the text of the brace block that follows the first match of header_re."""
    m = re.search(header_re, src)
    need(m, f"{rel}: {what} not found")
    i = src.index("{", m.end() - 1) if src[m.end() - 1] != "{" else m.end() - 1
    depth = 0
    for j in range(i, len(src)):
        if src[j] == "{":
            depth += 1
        elif src[j] == "}":
            depth -= 1
            if depth == 0:
                return src[i + 1 : j]
    raise ExtractError(f"{rel}: unbalanced braces in {what}")


def split_arms(body):
    """Split a match body into (pattern, expr) arms at top level."""
    arms = []
    depth = 0
    cur = ""
    i = 0
    n = len(body)
    pat = None
    while i < n:
        c = body[i]
        if c in "([{":
            depth += 1
        elif c in ")]}":
            depth -= 1
        if depth == 0 and body.startswith("=>", i) and pat is None:
            pat = cur.strip()
            cur = ""
            i += 2
            continue
        if pat is not None and depth == 0 and c == ",":
            arms.append((pat, cur.strip()))
            pat = None
            cur = ""
            i += 1
            continue
        if pat is not None and depth == 0 and c == "}" and cur.strip().startswith("{"):
            cur += c
            arms.append((pat, cur.strip()))
            pat = None
            cur = ""
            i += 1
            # optional trailing comma
            k = i
            while k < n and body[k].isspace():
                k += 1
            if k < n and body[k] == ",":
                i = k + 1
            continue
        cur += c
        i += 1
    if pat is not None and cur.strip():
        arms.append((pat, cur.strip()))
    return arms


SHAPE_OF_TYPE = {
    "u8": "u8",
    "u16": "u16",
    "u32": "u32",
    "&'a str": "str",
    "&'a [u8]": "bin",
    "&'a str, &'a str": "pair",
}


def extract_properties(repo):
    rel = "src/properties.rs"
    src = strip_comments(read(repo, rel))

    # PropertyIdentifier discriminants
    body = block_after(src, r"pub\(crate\)\s+enum\s+PropertyIdentifier\s*\{", rel, "enum PropertyIdentifier")
    ids = {}
    for name, val in re.findall(r"(\w+)\s*=\s*([0-9a-fA-Fx_:uMAX32]+)\s*,", body):
        if name == "Invalid":
            continue
        ids[name] = int(val.replace("_", ""), 0)
    need(len(ids) == 27, f"{rel}: expected 27 property identifiers, found {len(ids)}")

    # enum Property declaration, in order
    body = block_after(src, r"pub\s+enum\s+Property<'a>\s*\{", rel, "enum Property")
    decl = []
    for name, ty in re.findall(r"(\w+)\(([^)]*)\)\s*,", body):
        ty = " ".join(ty.split())
        need(ty in SHAPE_OF_TYPE, f"{rel}: unknown payload type '{ty}' of Property::{name}")
        decl.append((name, SHAPE_OF_TYPE[ty]))
    kinds = [k for k, _ in decl]
    need(len(kinds) == 27 and set(kinds) == set(ids), f"{rel}: Property variants and identifiers differ")

    # From<&Property> for PropertyIdentifier must map each variant to the identifier of the same name
    body = block_after(src, r"impl<'a>\s+From<&Property<'a>>\s+for\s+PropertyIdentifier\s*\{", rel, "From<&Property>")
    pairs = re.findall(r"Property::(\w+)\([^)]*\)\s*=>\s*\{?\s*PropertyIdentifier::(\w+)", body)
    need(len(pairs) == 27, f"{rel}: From<&Property> has {len(pairs)} arms")
    idmap = dict(pairs)
    need(set(idmap) == set(kinds), f"{rel}: From<&Property> does not cover all variants")
    kind_id = {k: ids[idmap[k]] for k in kinds}

    # Serialize arms
    body = block_after(src, r"impl\s+serde::Serialize\s+for\s+Property<'_>\s*\{", rel, "Serialize for Property")
    mbody = block_after(body, r"match\s+self\s*\{", rel, "Serialize match")
    ser = {}
    for pat, expr in split_arms(mbody):
        m = re.fullmatch(r"Property::(\w+)\(([^)]*)\)", pat)
        need(m, f"{rel}: unrecognised Serialize pattern '{pat}'")
        name = m.group(1)
        elems = re.findall(r"serialize_element\(([^;]*?)\)\?", expr)
        need(elems, f"{rel}: no serialize_element in arm {name}")
        shapes = []
        for e in elems:
            e = e.strip()
            if re.fullmatch(r"&Utf8String\(\w+\)", e):
                shapes.append("str")
            elif re.fullmatch(r"&BinaryData\(\w+\)", e):
                shapes.append("bin")
            elif re.fullmatch(r"&Varint\(\*\w+\)", e):
                shapes.append("varint")
            elif re.fullmatch(r"\w+", e):
                shapes.append("decl")
            else:
                raise ExtractError(f"{rel}: unrecognised serialize_element argument '{e}' in {name}")
        if shapes == ["str", "str"]:
            ser[name] = "pair"
        else:
            need(len(shapes) == 1, f"{rel}: arm {name} writes {shapes}")
            ser[name] = dict(decl)[name] if shapes[0] == "decl" else shapes[0]
    need(set(ser) == set(kinds), f"{rel}: Serialize arms do not cover all variants")
    # the identifier is written first, as a Varint
    need(re.search(r"serialize_element\(&Varint\(id as u32\)\)\?", body), f"{rel}: identifier is not written as Varint")

    # Deserialize arms (PropertyVisitor::visit_enum)
    body = block_after(src, r"impl<'a,\s*'de:\s*'a>\s+serde::de::Visitor<'de>\s+for\s+PropertyVisitor<'a>\s*\{", rel, "PropertyVisitor")
    mbody = block_after(body, r"let\s+property\s*=\s*match\s+field\s*\{", rel, "visit_enum match")
    de = {}
    for pat, expr in split_arms(mbody):
        if pat == "_":
            need("return Err" in expr, f"{rel}: default arm of visit_enum is not an error")
            continue
        m = re.fullmatch(r"PropertyIdentifier::(\w+)", pat)
        need(m, f"{rel}: unrecognised visit_enum pattern '{pat}'")
        ident = m.group(1)
        names = [k for k in kinds if idmap[k] == ident]
        need(len(names) == 1, f"{rel}: identifier {ident} has no unique variant")
        name = names[0]
        need(f"Property::{name}(" in expr, f"{rel}: visit_enum arm {ident} does not build Property::{name}")
        if "tuple_variant(" in expr:
            need("UserPropertyVisitor" in expr, f"{rel}: unexpected tuple variant in {ident}")
            de[name] = "pair"
        elif re.search(r"let\s+value:\s*Utf8String<'a>\s*=\s*variant\.newtype_variant\(\)\?", expr):
            de[name] = "str"
        elif re.search(r"let\s+value:\s*BinaryData<'a>\s*=\s*variant\.newtype_variant\(\)\?", expr):
            de[name] = "bin"
        elif re.search(r"let\s+value:\s*Varint\s*=\s*variant\.newtype_variant\(\)\?", expr):
            de[name] = "varint"
        elif re.search(rf"Property::{name}\(variant\.newtype_variant\(\)\?\)", expr):
            de[name] = dict(decl)[name]
        else:
            raise ExtractError(f"{rel}: unrecognised visit_enum arm for {ident}: {expr[:80]}")
    need(set(de) == set(kinds), f"{rel}: visit_enum arms do not cover all variants")

    # size() arms
    body = block_after(src, r"pub\(crate\)\s+fn\s+size\(&self\)\s*->\s*usize\s*\{", rel, "Property::size")
    need(re.search(r"let\s+identifier_length\s*=\s*Varint\(identifier as u32\)\.encoded_len\(\);", body),
         f"{rel}: identifier_length is not Varint(identifier).encoded_len()")
    mbody = block_after(body, r"match\s+self\s*\{", rel, "size match")
    size = {}
    for pat, expr in split_arms(mbody):
        names = re.findall(r"Property::(\w+)\(([^)]*)\)", pat)
        need(names, f"{rel}: unrecognised size pattern '{pat}'")
        e = expr.strip().strip("{}").strip()
        for name, binders in names:
            binders = [x.strip() for x in binders.split(",")]
            t = e
            if len(binders) == 2:
                t = re.sub(rf"\b{binders[0]}\.len\(\)", "len1", t)
                t = re.sub(rf"\b{binders[1]}\.len\(\)", "len2", t)
            elif binders[0] != "_":
                t = re.sub(rf"\b{binders[0]}\.len\(\)", "len1", t)
                t = re.sub(rf"Varint\(\*{binders[0]}\)\.encoded_len\(\)", "vlen", t)
            t = t.replace("identifier_length", "idLen")
            need(re.fullmatch(r"[\s0-9+()a-zA-Z]*", t) and not re.search(r"[a-zA-Z_]\w*\(", t.replace("len1", "").replace("len2", "").replace("vlen", "").replace("idLen", "")),
                 f"{rel}: unrecognised size expression for {name}: '{expr}'")
            for tok in re.findall(r"[A-Za-z_]\w*", t):
                need(tok in ("len1", "len2", "vlen", "idLen"), f"{rel}: unknown term '{tok}' in size of {name}")
            size[name] = " ".join(t.split())
    need(set(size) == set(kinds), f"{rel}: size arms do not cover all variants")

    # has_valid_value
    body = block_after(src, r"fn\s+has_valid_value\(&self\)\s*->\s*bool\s*\{", rel, "has_valid_value")
    mbody = block_after(body, r"match\s+self\s*\{", rel, "has_valid_value match")
    valid = {}
    default_true = False
    for pat, expr in split_arms(mbody):
        e = " ".join(expr.split())
        if pat == "_":
            need(e == "true", f"{rel}: default arm of has_valid_value is '{e}'")
            default_true = True
            continue
        names = re.findall(r"Property::(\w+)\((\w+)\)", pat)
        need(names, f"{rel}: unrecognised has_valid_value pattern '{pat}'")
        for name, binder in names:
            m = re.fullmatch(rf"\*{binder} <= (\d+)", e)
            if m:
                valid[name] = f"v ≤ {m.group(1)}"
                continue
            m = re.fullmatch(rf"\*{binder} != (\d+)", e)
            if m:
                valid[name] = f"v != {m.group(1)}"
                continue
            m = re.fullmatch(rf"\((\d+)\.\.=MQTT_VARINT_MAX\)\.contains\({binder}\)", e)
            if m:
                valid[name] = f"{m.group(1)} ≤ v && v ≤ MQTT_VARINT_MAX"
                continue
            raise ExtractError(f"{rel}: unrecognised value check for {name}: '{e}'")
    need(default_true, f"{rel}: has_valid_value has no default arm")
    for name in valid:
        need(dict(decl)[name] in ("u8", "u16", "u32"), f"{rel}: value check on non-numeric {name}")

    # is_valid_for
    body = block_after(src, r"pub\(crate\)\s+fn\s+is_valid_for\(&self,\s*context:\s*PropertyContext\)\s*->\s*bool\s*\{", rel, "is_valid_for")
    need(re.search(r"if\s+!self\.has_valid_value\(\)\s*\{\s*return\s+false;\s*\}", body), f"{rel}: is_valid_for does not start with has_valid_value")
    m = re.search(r"matches!\(\s*\(context,\s*self\.into\(\)\),(.*)\)\s*$", body.strip(), re.S)
    need(m, f"{rel}: matches! table not found in is_valid_for")
    table_src = m.group(1)
    # split top-level alternatives "( ctxs , ids )" separated by |
    alts = []
    depth = 0
    cur = ""
    for c in table_src:
        if c == "(":
            depth += 1
        elif c == ")":
            depth -= 1
        if c == "|" and depth == 0:
            alts.append(cur)
            cur = ""
        else:
            cur += c
    alts.append(cur)
    table = []
    for alt in alts:
        alt = alt.strip().rstrip(",").strip()
        if not alt:
            continue
        need(alt.startswith("(") and alt.endswith(")"), f"{rel}: unrecognised table alternative '{alt[:60]}'")
        inner = alt[1:-1]
        ctxs = re.findall(r"PropertyContext::(\w+)", inner)
        idents = re.findall(r"PropertyIdentifier::(\w+)", inner)
        rest = re.sub(r"Property(Context|Identifier)::\w+", "", inner)
        need(re.fullmatch(r"[\s|,]*", rest), f"{rel}: unrecognised tokens in table alternative: '{rest.strip()}'")
        need(ctxs and idents, f"{rel}: empty table alternative")
        for c in ctxs:
            for ident in idents:
                names = [k for k in kinds if idmap[k] == ident]
                need(len(names) == 1, f"{rel}: table uses unknown identifier {ident}")
                table.append((c, names[0]))
    body = block_after(src, r"pub\(crate\)\s+enum\s+PropertyContext\s*\{", rel, "enum PropertyContext")
    ctx_names = re.findall(r"(\w+)\s*,", body)
    need(ctx_names == ["Publish", "Subscribe", "Unsubscribe", "Disconnect", "Will"], f"{rel}: PropertyContext variants changed: {ctx_names}")

    return dict(kinds=kinds, kind_id=kind_id, decl=dict(decl), ser=ser, de=de, size=size, valid=valid, table=table)


def extract_wire(repo):
    rel = "src/wire.rs"
    src = strip_comments(read(repo, rel))
    body = block_after(src, r"pub\(crate\)\s+enum\s+MessageType\s*\{", rel, "enum MessageType")
    mts = [(n, int(v)) for n, v in re.findall(r"(\w+)\s*=\s*(\d+)\s*,", body)]
    need([n for n, _ in mts] == ["Connect", "ConnAck", "Publish", "PubAck", "PubRec", "PubRel", "PubComp", "Subscribe",
                                 "SubAck", "Unsubscribe", "UnsubAck", "PingReq", "PingResp", "Disconnect", "Auth"],
         f"{rel}: MessageType variants changed")
    # default flags
    m = re.search(r"fn\s+fixed_header_flags\(&self\)\s*->\s*u8\s*\{\s*(\w+)\s*\}", block_after(src, r"pub\(crate\)\s+trait\s+ControlPacket\s*\{", rel, "trait ControlPacket"))
    need(m, f"{rel}: default fixed_header_flags not found")
    default_flags = int(m.group(1), 0)
    flags = {}
    for typ in ["Connect", "PubAck", "PubRec", "PubRel", "PubComp", "Subscribe", "Unsubscribe", "PingReq", "Disconnect"]:
        m = re.search(rf"impl\s+ControlPacket\s+for\s+{typ}(?:<'_>)?\s*\{{", src)
        need(m, f"{rel}: impl ControlPacket for {typ} not found")
        body = block_after(src, rf"impl\s+ControlPacket\s+for\s+{typ}(?:<'_>)?\s*\{{", rel, f"ControlPacket for {typ}")
        need(re.search(rf"const\s+MESSAGE_TYPE:\s*MessageType\s*=\s*MessageType::{typ};", body), f"{rel}: MESSAGE_TYPE of {typ}")
        fm = re.search(r"fn\s+fixed_header_flags\(&self\)\s*->\s*u8\s*\{(.*?)\}", body, re.S)
        if not fm:
            flags[typ] = default_flags
            continue
        e = " ".join(fm.group(1).split())
        if re.fullmatch(r"0b[01]+", e):
            flags[typ] = int(e, 0)
        else:
            m2 = re.fullmatch(r"(0b[01]+) \| \(\(self\.dup as u8\) << 3\)", e)
            need(m2, f"{rel}: unrecognised fixed_header_flags of {typ}: '{e}'")
            flags[typ] = int(m2.group(1), 0)  # DUP handled separately in the model (always false when encoded)
    # PublishHeader flags
    body = block_after(src, r"impl\s+PublishHeader<'_>\s*\{", rel, "impl PublishHeader")
    e = " ".join(body.split())
    need("let mut flags = (self.qos as u8) << 1;" in e and "flags |= 1;" in e and "flags |= 1 << 3;" in e
         and "if self.retain == Retain::Retained" in e and "if self.dup" in e,
         f"{rel}: PublishHeader::fixed_header_flags changed")
    return dict(mts=mts, flags=flags)


def extract_received(repo):
    rel = "src/de/received_packet.rs"
    src = strip_comments(read(repo, rel))
    body = block_after(src, r"let\s+valid_flags\s*=\s*match\s+packet_type\s*\{", rel, "valid_flags match")
    inbound = {}
    default_any = False
    for pat, expr in split_arms(body):
        e = " ".join(expr.split())
        if pat.strip() == "_":
            need(e == "true", f"{rel}: default arm of valid_flags is '{e}'")
            default_any = True
            continue
        names = re.findall(r"MessageType::(\w+)", pat)
        need(names, f"{rel}: unrecognised valid_flags pattern '{pat}'")
        for n in names:
            if e == "true":
                inbound[n] = None
            else:
                m = re.fullmatch(r"flags == (0b[01]+|\d+)", e)
                need(m, f"{rel}: unrecognised flags condition '{e}'")
                inbound[n] = int(m.group(1), 0)
    need(default_any, f"{rel}: valid_flags has no default arm")
    body = block_after(src, r"let\s+packet\s*=\s*match\s+packet_type\s*\{", rel, "packet match")
    types = []
    for pat, expr in split_arms(body):
        if pat.strip() == "_":
            need("return Err" in expr, f"{rel}: default arm of packet match is not an error")
            continue
        m = re.fullmatch(r"MessageType::(\w+)", pat.strip())
        need(m, f"{rel}: unrecognised packet pattern '{pat}'")
        types.append(m.group(1))
    return dict(inbound=inbound, types=types)


def extract_reason_codes(repo):
    rel = "src/reason_codes.rs"
    src = strip_comments(read(repo, rel))
    body = block_after(src, r"pub\s+enum\s+ReasonCode\s*\{", rel, "enum ReasonCode")
    codes = [(n, int(v, 0)) for n, v in re.findall(r"(\w+)\s*=\s*(0x[0-9a-fA-F]+)\s*,", body)]
    need(("Unknown", 0xFF) in codes, f"{rel}: Unknown = 0xFF missing")
    need(re.search(r"#\[num_enum\(default\)\]\s*Unknown", body), f"{rel}: Unknown is not the num_enum default")
    body2 = block_after(src, r"pub\s+fn\s+success\(&self\)\s*->\s*bool\s*\{", rel, "ReasonCode::success")
    need("value < 0x80" in body2, f"{rel}: ReasonCode::success changed")
    return codes


def extract_varint_len(repo):
    """`Varint::encoded_len`: a match on contiguous ranges starting at 0 with a final `_` arm."""
    rel = "src/varint.rs"
    src = strip_comments(read(repo, rel))
    body = block_after(src, r"pub\(crate\)\s+fn\s+encoded_len\(&self\)\s*->\s*usize\s*\{", rel, "Varint::encoded_len")
    mbody = block_after(body, r"match\s+self\.0\s*\{", rel, "encoded_len match")
    arms = split_arms(mbody)
    need(len(arms) >= 2 and arms[-1][0].strip() == "_", f"{rel}: encoded_len must end with a `_` arm")
    out = []
    expect_lo = 0
    for pat, expr in arms[:-1]:
        m = re.fullmatch(r"(0x[0-9A-Fa-f_]+|\d[\d_]*)\s*\.\.=\s*(0x[0-9A-Fa-f_]+|\d[\d_]*)", pat.strip())
        need(m, f"{rel}: unrecognised encoded_len pattern '{pat}'")
        lo, hi = int(m.group(1).replace("_", ""), 0), int(m.group(2).replace("_", ""), 0)
        need(lo == expect_lo and hi >= lo, f"{rel}: encoded_len ranges are not contiguous at {pat}")
        need(re.fullmatch(r"\d+", expr.strip()), f"{rel}: unrecognised encoded_len result '{expr}'")
        out.append((hi, int(expr.strip())))
        expect_lo = hi + 1
    need(re.fullmatch(r"\d+", arms[-1][1].strip()), f"{rel}: unrecognised encoded_len default '{arms[-1][1]}'")
    return out, int(arms[-1][1].strip())


def lean_nat(n):
    return hex(n) if n > 255 else str(n)


def generate(repo):
    varint = strip_comments(read(repo, "src/varint.rs"))
    ser = strip_comments(read(repo, "src/ser/mod.rs"))
    outb = strip_comments(read(repo, "src/mqtt_client/outbound.rs"))
    state = strip_comments(read(repo, "src/mqtt_client/session/state.rs"))
    config = strip_comments(read(repo, "src/config.rs"))
    will = strip_comments(read(repo, "src/will.rs"))
    sess = strip_comments(read(repo, "src/mqtt_client/session/mod.rs"))

    consts = {
        "MQTT_VARINT_MAX": const(varint, "MQTT_VARINT_MAX", "src/varint.rs"),
        "MAX_FIXED_HEADER_SIZE": const(ser, "MAX_FIXED_HEADER_SIZE", "src/ser/mod.rs"),
        "CONTROL_PACKET_LEN": const(outb, "CONTROL_PACKET_LEN", "src/mqtt_client/outbound.rs"),
        "MAX_RETAINED": const(outb, "MAX_RETAINED", "src/mqtt_client/outbound.rs"),
        "MAX_PENDING_CONTROL": const(outb, "MAX_PENDING_CONTROL", "src/mqtt_client/outbound.rs"),
        "MAX_PENDING_RELEASE": const(outb, "MAX_PENDING_RELEASE", "src/mqtt_client/outbound.rs"),
        "MAX_INBOUND_QOS2": const(state, "MAX_INBOUND_QOS2", "src/mqtt_client/session/state.rs"),
        "ROUND_TRIP_TIMEOUT_MS": const(state, "ROUND_TRIP_TIMEOUT_MS", "src/mqtt_client/session/state.rs"),
        "WILL_TOPIC_CAPACITY": const(will, "TOPIC_CAPACITY", "src/will.rs"),
    }
    m = re.search(r"client_id:\s*String<(\d+)>", sess)
    need(m, "src/mqtt_client/session/mod.rs: client_id: String<N> not found")
    consts["CLIENT_ID_CAPACITY"] = int(m.group(1))
    m = re.search(r"keepalive_interval:\s*Duration::from_secs\((\d+)\)", config)
    need(m, "src/config.rs: default keepalive not found")
    consts["DEFAULT_KEEPALIVE_S"] = int(m.group(1))

    props = extract_properties(repo)
    wire = extract_wire(repo)
    recv = extract_received(repo)
    codes = extract_reason_codes(repo)

    vl_arms, vl_default = extract_varint_len(repo)
    kinds = props["kinds"]
    L = []
    A = L.append
    A("/- GENERATED by tools/extract.py from /repo/src — do not edit by hand; rewritten on every check. -/")
    A("namespace Minimq.Gen")
    A("")
    order = ["MQTT_VARINT_MAX", "MAX_FIXED_HEADER_SIZE", "CONTROL_PACKET_LEN", "MAX_RETAINED", "MAX_PENDING_CONTROL",
             "MAX_PENDING_RELEASE", "MAX_INBOUND_QOS2", "ROUND_TRIP_TIMEOUT_MS", "CLIENT_ID_CAPACITY",
             "WILL_TOPIC_CAPACITY", "DEFAULT_KEEPALIVE_S"]
    for k in order:
        A(f"def {k} : Nat := {lean_nat(consts[k])}")
    A("")
    A("/-- `Varint::encoded_len` (src/varint.rs). -/")
    A("def varintLen (n : Nat) : Nat :=")
    A("  " + " ".join(f"if n ≤ {lean_nat(hi)} then {v} else" for hi, v in vl_arms) + f" {vl_default}")
    A("")
    A("/-- `enum Property` / `enum PropertyIdentifier` (src/properties.rs). -/")
    A("inductive PropKind where")
    for k in kinds:
        A(f"  | {k}")
    A("  deriving DecidableEq, Repr, Inhabited")
    A("")
    A("def PropKind.all : List PropKind :=")
    A("  [" + ", ".join("." + k for k in kinds) + "]")
    A("")
    A("/-- `PropertyIdentifier` discriminants, through `From<&Property> for PropertyIdentifier`. -/")
    A("def PropKind.id : PropKind → Nat")
    for k in kinds:
        A(f"  | .{k} => 0x{props['kind_id'][k]:02X}")
    A("")
    A("/-- Wire shapes of a property value. -/")
    A("inductive Shape where")
    A("  | u8 | u16 | u32 | varint | str | bin | pair")
    A("  deriving DecidableEq, Repr, Inhabited")
    for fn, key, doc in [("declShape", "decl", "Payload types in the declaration of `enum Property`."),
                         ("serShape", "ser", "What `impl Serialize for Property` writes after the identifier."),
                         ("deShape", "de", "What `PropertyVisitor::visit_enum` reads after the identifier.")]:
        A("")
        A(f"/-- {doc} -/")
        A(f"def PropKind.{fn} : PropKind → Shape")
        for k in kinds:
            A(f"  | .{k} => .{props[key][k]}")
    A("")
    A("/-- `Property::size` arms: `len1`/`len2` are the byte lengths of the (first/second) string or")
    A("binary payload, `vlen` the encoded length of a varint payload, `idLen` the identifier length. -/")
    A("def PropKind.sizeExpr (k : PropKind) (len1 len2 vlen idLen : Nat) : Nat :=")
    A("  match k with")
    for k in kinds:
        A(f"  | .{k} => {props['size'][k]}")
    A("")
    A("/-- `Property::has_valid_value` on the numeric payload `v` (`true` for the `_` arm). -/")
    A("def PropKind.validValue (k : PropKind) (v : Nat) : Bool :=")
    A("  match k with")
    for k in kinds:
        if k in props["valid"]:
            A(f"  | .{k} => {props['valid'][k]}")
    A("  | _ => true")
    A("")
    A("/-- `enum PropertyContext`. -/")
    A("inductive Ctx where")
    A("  | Publish | Subscribe | Unsubscribe | Disconnect | Will")
    A("  deriving DecidableEq, Repr, Inhabited")
    A("")
    A("/-- The `matches!((context, self.into()), …)` table of `Property::is_valid_for`. -/")
    A("def validCtx : Ctx → PropKind → Bool")
    seen = set()
    for c, k in props["table"]:
        if (c, k) in seen:
            continue
        seen.add((c, k))
        A(f"  | .{c}, .{k} => true")
    A("  | _, _ => false")
    A("")
    A("/-- `enum MessageType` discriminants (src/wire.rs). -/")
    for n, v in wire["mts"]:
        A(f"def MT_{n} : Nat := {v}")
    A("")
    A("/-- `ControlPacket::fixed_header_flags` of the packets (without the DUP bit). -/")
    for typ in ["Connect", "PubAck", "PubRec", "PubRel", "PubComp", "Subscribe", "Unsubscribe", "PingReq", "Disconnect"]:
        A(f"def FLAGS_{typ} : Nat := {wire['flags'][typ]}")
    A("")
    mt = dict(wire["mts"])
    A("/-- The `valid_flags` match of `ControlPacketVisitor::visit_seq`: `none` = any flags accepted,")
    A("`some f` = exactly `f`. Index = message type. -/")
    A("def inboundFlags : Nat → Option Nat")
    for n, f in recv["inbound"].items():
        A(f"  | {mt[n]} => {'none' if f is None else f'some {f}'}")
    A("  | _ => none")
    A("")
    A("/-- Message types that `visit_seq` decodes (others: \"Unsupported message type\"). -/")
    A("def inboundTypes : List Nat := [" + ", ".join(str(mt[n]) for n in recv["types"]) + "]")
    A("")
    A("/-- `ReasonCode` discriminants below 0xFF (src/reason_codes.rs); any other byte maps to Unknown=0xFF. -/")
    A("def reasonCodes : List Nat :=")
    A("  [" + ", ".join(f"0x{v:02x}" for n, v in codes if n != "Unknown") + "]")
    cd = dict(codes)
    for n in ["Success", "PacketIdInUse", "PacketIdNotFound", "ReceiveMaxExceeded", "DisconnectWithWill"]:
        need(n in cd, f"src/reason_codes.rs: {n} missing")
        A(f"def RC_{n} : Nat := 0x{cd[n]:02x}")
    A("")
    A("end Minimq.Gen")
    return "\n".join(L) + "\n"


def main():
    repo = sys.argv[1] if len(sys.argv) > 1 else "/repo"
    out = sys.argv[2] if len(sys.argv) > 2 else "/verif/lean/Minimq/Generated.lean"
    try:
        text = generate(repo)
    except ExtractError as e:
        print(f"extract: {e}", file=sys.stderr)
        sys.exit(2)
    p = Path(out)
    if not p.exists() or p.read_text() != text:
        p.write_text(text)
        print(f"extract: wrote {out}")
    else:
        print(f"extract: {out} unchanged")


if __name__ == "__main__":
    main()
