#!/bin/bash
# mut_eval.sh <dir with survivor diffs> <out tsv>: for each surviving mutant apply it to /repo, run the quick checks in a fixed
# order until one reports a violation WITH a failing input (or all twenty have run), revert, record the outcome.
set -u
D=$1; OUT=$2
ORDER="C01 C16 C02 C05 C06 C10 C04 C12 C13 C14 C17 C18 C19 C03 C07 C11 C09 C20 C08 C15"
cd /repo && git diff --quiet || { echo "/repo is dirty"; exit 2; }
for f in $(ls $D/*.diff | sort); do
  n=$(basename $f .diff)
  grep -q "^$n	" $OUT 2>/dev/null && continue
  git -C /repo apply $f || { printf "%s\tnoapply\n" $n >> $OUT; continue; }
  verdict="missed"; by=""; tie=""
  for p in $ORDER; do
    out=$(cd /verif && timeout -k 5 900 ./check $p quick 2>&1); rc=$?
    if echo "$out" | grep "^VIOLATION" | grep -qv "no-failing-input-found"; then
      verdict="caught"; by="$p $(echo "$out" | grep -A1 -m1 '^VIOLATION' | tail -1 | cut -c1-120)"; break
    elif [ $rc -eq 124 ] || [ $rc -eq 137 ]; then
      verdict="timeout"; by="$p (check did not finish in 15 min: the mutant makes runs explode)"; break
    elif echo "$out" | grep -q "^VIOLATION"; then
      tie="$tie $p"
    fi
  done
  [ "$verdict" = missed ] && [ -n "$tie" ] && verdict="tie-only"
  printf "%s\t%s\t%s\t%s\t%s\n" "$n" "$verdict" "$by" "$tie" "$(grep '^[-+][^-+]' $f | tr '\n' ' ' | cut -c1-200)" >> $OUT
  git -C /repo checkout -- .
done
(cd /verif/lean && python3 /verif/tools/extract.py /repo /verif/lean/Minimq/Generated.lean >/dev/null)
(cd /verif/harness && cargo build --offline --release >/dev/null 2>&1)
(cd /verif/lean && lake build driver >/dev/null 2>&1)
