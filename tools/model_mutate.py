#!/usr/bin/env python3
"""model_mutate.py <lean copy> <corpus dir> <out tsv> [worker k of n]: how strong is the tie?

Mutates the hand-written Lean MODEL (not the crate) one token at a time, rebuilds the model driver and
runs it on a corpus of programs whose implementation traces (.itrace) are already there. A mutant that
produces the implementation's trace on every program SURVIVES: the generated programs do not exercise the
mutated spot of the model, so the correspondence check would not notice if the model were wrong there
(and theorems about that spot would rest on the reading of the code alone). Killed mutants are the
measure of how tightly the programs pin the model to the code. Only model files are touched; proofs are
not built (the driver does not import them)."""
import re, subprocess, sys, time, shutil, os, glob, random
from pathlib import Path

LEAN = Path(sys.argv[1]); CORPUS = Path(sys.argv[2]); OUT = Path(sys.argv[3])
K, N = (int(sys.argv[4]), int(sys.argv[5])) if len(sys.argv) > 5 else (0, 1)
FILES = ["Out.lean", "Session.lean", "SessOps.lean", "Ops.lean", "Reader.lean", "De.lean", "Packets.lean",
         "Ser.lean", "Props.lean", "Varint.lean", "Utf8.lean", "Reply.lean", "World.lean", "Directive.lean"]
OPS = [(r" < ", " ≤ "), (r" ≤ ", " < "), (r" > ", " ≥ "), (r" ≥ ", " > "), (r" == ", " != "), (r" != ", " == "),
       (r" && ", " || "), (r" \|\| ", " && "), (r"\btrue\b", "false"), (r"\bfalse\b", "true"),
       (r" \+ 1\b", " + 2"), (r" - 1\b", " - 0"), (r"\bmin\b", "max"), (r"\.isSome\b", ".isNone"), (r"\.isNone\b", ".isSome"),
       (r"\.isEmpty\b", ".isEmpty.not"), (r"if !", "if "), (r" = 0 then", " ≠ 0 then"), (r" ≠ 0 then", " = 0 then")]


def mutants():
    out = []
    for f in FILES:
        p = LEAN / "Minimq" / f
        lines = p.read_text().split("\n")
        incomment = False
        for i, l in enumerate(lines):
            s = l.strip()
            if s.startswith("/-"):
                incomment = True
            if incomment:
                if "-/" in s:
                    incomment = False
                continue
            if s.startswith("--") or s.startswith("theorem") or s.startswith("import") or "deriving" in s:
                continue
            code = l.split("--")[0]
            for (pat, rep) in OPS:
                for m in re.finditer(pat, code):
                    out.append((f, i, m.start(), m.end(), rep))
    return out


def sh(cmd, cwd=None, timeout=900):
    try:
        p = subprocess.run(cmd, cwd=cwd, capture_output=True, text=True, timeout=timeout)
        return p.returncode, p.stdout + p.stderr
    except subprocess.TimeoutExpired:
        return 124, "timeout"


def main():
    ms = mutants()
    random.Random(7).shuffle(ms)
    ms = ms[int(os.environ.get("MM_SKIP", "0")):int(os.environ.get("MM_SAMPLE", "150"))]
    only = os.environ.get("MM_ONLY")
    if only:
        keys = {l.strip() for l in open(only) if l.strip()}
        ms = [m for m in mutants() if f"{m[0]}:{m[1]+1}:{m[2]}" in keys]
    ms = [m for j, m in enumerate(ms) if j % N == K]
    done = set()
    if OUT.exists():
        done = {l.split("\t")[0] for l in OUT.read_text().split("\n") if l}
    dirs = sorted(d for d in CORPUS.iterdir() if d.is_dir())
    for (f, i, a, b, rep) in ms:
        key = f"{f}:{i+1}:{a}"
        if key in done:
            continue
        p = LEAN / "Minimq" / f
        orig = p.read_text()
        lines = orig.split("\n")
        old = lines[i]
        lines[i] = old[:a] + rep + old[b:]
        p.write_text("\n".join(lines))
        t0 = time.time()
        rc, out = sh(["lake", "build", "driver"], cwd=LEAN)
        verdict, detail = "", ""
        if rc != 0:
            verdict = "nobuild"
        else:
            verdict = "survived"
            for d in dirs:
                for mt in d.glob("*.mtrace"):
                    mt.unlink()
                rc2, o2 = sh([str(LEAN / ".lake/build/bin/driver"), "batch", str(d)], timeout=600)
                if rc2 != 0:
                    verdict, detail = "killed", f"driver failed on {d.name}"
                    break
                diff = None
                for it in sorted(d.glob("*.itrace")):
                    mt = it.with_suffix(".mtrace")
                    if not mt.exists() or mt.read_bytes() != it.read_bytes():
                        diff = it.stem
                        break
                if diff:
                    verdict, detail = "killed", f"{d.name}/{diff}"
                    break
        p.write_text(orig)
        with OUT.open("a") as fh:
            fh.write(f"{key}\t{verdict}\t{detail}\t{old.strip()[:120]}\t=> {rep.strip()}\t{time.time()-t0:.0f}s\n")
    sh(["lake", "build", "driver"], cwd=LEAN)


main()
