#!/bin/sh
# cmpdir.sh <dir>: run impl and model on every program of <dir>, list programs whose full traces differ
d=$1
/verif/harness/target/release/vh batch $d >/dev/null
/verif/lean/.lake/build/bin/driver batch $d
n=0; k=0
for f in $d/*.prog; do n=$((n+1)); if ! cmp -s ${f%.prog}.itrace ${f%.prog}.mtrace; then k=$((k+1)); echo "DIFF $f"; fi; done | head -${2:-10}
echo "$(ls $d/*.prog | wc -l) programs"
