#!/usr/bin/env python3
"""List the property theorems (name + first sentence of the doc comment) per Theorems/*.lean file, as markdown."""
import re, sys
from pathlib import Path
root = Path(__file__).resolve().parent.parent / "lean" / "Minimq" / "Theorems"
out = []
for f in sorted(root.glob("*.lean")):
    txt = f.read_text()
    out.append(f"### {f.stem}\n")
    for m in re.finditer(r"(?:/--((?:(?!-/).)*)-/\s*)?^theorem\s+(\S+)", txt, flags=re.S | re.M):
        doc = (m.group(1) or "").strip().replace("\n", " ")
        doc = re.sub(r"\s+", " ", doc)
        first = re.split(r"(?<=[.:]) ", doc)[0] if doc else ""
        out.append(f"* `{m.group(2)}` — {first[:220]}")
    out.append("")
print("\n".join(out))
