#!/usr/bin/env python3
"""seed_meta.py <seed dir>: write meta.json from notes.md, the confirmation log and result.txt."""
import json, sys, re
from pathlib import Path
d = Path(sys.argv[1])
notes = (d / "notes.md").read_text() if (d / "notes.md").exists() else ""
lines = [l for l in notes.splitlines() if l.strip()]
summary = lines[0] if lines else ""
needs = ""
m = re.search(r"(?i)(what (is|it) need[^\n]*manifest[^\n]*|needs? to manifest[^\n]*|trigger[^\n]*)", notes)
if m:
    needs = notes[m.start():m.start() + 700].replace("\n", " ")
res = (d / "result.txt").read_text().splitlines() if (d / "result.txt").exists() else []
conf = (d / "confirm.log").read_text() if (d / "confirm.log").exists() else ""
meta = {
    "id": d.name, "property": d.name.split("-")[0], "summary": summary,
    "needs_to_manifest": "see notes.md (written by the seeding sub-agent): " + needs,
    "confirmed": {
        "how": "tools/seed_confirm.sh in the sub-agent's scratch worktree (/tmp/seed/<Cxx>, removed afterwards)",
        "log": [l for l in conf.splitlines() if l.startswith(("ORIG-DEMO", "WITH-DEMO", "SUITE", "CONFIRMED", "NOT"))],
    },
    "evaluation": {
        "how": f"tools/seed_eval.sh {d.name}: git -C /repo apply patch.diff; ./check <prop> quick; git -C /repo checkout -- .",
        "results": [l[:400] for l in res],
    },
}
(d / "meta.json").write_text(json.dumps(meta, indent=1))
