#!/bin/bash
# seed_confirm.sh <Cxx> <A|B>: confirm a seeded change in the agent's scratch worktree:
#  (1) it applies and compiles, (2) the existing suite (without the seed demos) passes with it,
#  (3) the demo fails with it, (4) the demo passes without it.
# On success copy it to /verif/seeded/<Cxx>-<a|b>/ (patch.diff, demo_test.rs, notes.md).
set -u
P=$1; V=$2; v=$(echo $V | tr A-Z a-z)
WT=/tmp/seed/$P; OUT=$WT/seed_out
cd $WT || exit 2
git checkout -q -- src 2>/dev/null
[ -f $OUT/$V.diff ] || { echo "no $OUT/$V.diff"; exit 2; }
mkdir -p /tmp/seed/aside-$P; mv tests/seed_*.rs /tmp/seed/aside-$P/ 2>/dev/null
cp $OUT/seed_$v.rs tests/seed_$v.rs
orig=$(cargo test --offline --test seed_$v 2>&1 | grep -E "^test result" | head -1)
git apply $OUT/$V.diff || { echo "patch does not apply"; exit 2; }
withc=$(cargo test --offline --test seed_$v 2>&1 | grep -E "^test result" | head -1)
rm tests/seed_$v.rs
suite=$(cargo test --workspace --no-fail-fast --offline 2>&1 | grep -E "^test result|^error" )
git checkout -q -- src
mv /tmp/seed/aside-$P/seed_*.rs tests/ 2>/dev/null
echo "ORIG-DEMO: $orig"
echo "WITH-DEMO: $withc"
echo "$suite" | sed 's/^/SUITE: /'
ok=1
echo "$orig" | grep -q "ok\." || ok=0
echo "$withc" | grep -q "FAILED" || ok=0
[ "$(echo "$suite" | grep -c 'test result: ok')" = "4" ] || ok=0
echo "$suite" | grep -q "FAILED\|^error" && ok=0
if [ $ok = 1 ]; then
  D=/verif/seeded/$P-$v; mkdir -p $D
  cp $OUT/$V.diff $D/patch.diff; cp $OUT/seed_$v.rs $D/demo_test.rs; cp $OUT/$V.md $D/notes.md
  echo "CONFIRMED -> $D"
else
  echo "NOT CONFIRMED"
fi
