"""Parsing of programs and traces (PROTOCOL.md) into steps with derived views."""
import re

IO_PREFIXES = ("w ", "wz ", "we ", "wp ", "f ", "fe ", "fp ", "r ", "rs ", "rp ", "rz ", "re ")


def unhex(s):
    return b"" if s == "-" else bytes.fromhex(s)


def parse_kv(line):
    out = {}
    for tok in line.split(" ")[1:]:
        if "=" in tok:
            k, v = tok.split("=", 1)
            out[k] = v
    return out


def parse_list(s):
    return [] if s == "-" else s.split(",")


class State:
    __slots__ = ("raw", "live", "pid", "gen", "sp", "res", "used", "ret", "rel", "ctl", "in2", "q", "qmax", "mps",
                 "mq", "ka", "np", "pt", "rd")

    def __init__(self, line):
        kv = parse_kv(line)
        self.raw = line
        self.live = kv["live"]
        self.pid = int(kv["pid"])
        self.gen = int(kv["gen"])
        self.sp = kv["sp"] == "1"
        self.res = kv["res"] == "1"
        self.used = int(kv["used"])
        self.ret = []
        for it in parse_list(kv["ret"]):
            i, off, ln, st = it.split(":")
            self.ret.append((int(i), int(off), int(ln), st))
        self.rel = []
        for it in parse_list(kv["rel"]):
            i, rc, st = it.split(":")
            self.rel.append((int(i), int(rc, 16), st))
        self.ctl = []
        for it in parse_list(kv["ctl"]):
            t, i, rc, st = it.split(":")
            self.ctl.append((int(t), int(i), int(rc, 16), st))
        self.in2 = [int(x) for x in parse_list(kv["in2"])]
        q, qm = kv["q"].split("/")
        self.q, self.qmax = int(q), int(qm)
        self.mps = None if kv["mps"] == "-" else int(kv["mps"])
        self.mq = None if kv["mq"] == "-" else int(kv["mq"])
        self.ka = int(kv["ka"])
        self.np = None if kv["np"] == "-" else int(kv["np"])
        self.pt = None if kv["pt"] == "-" else int(kv["pt"])
        self.rd = kv["rd"]

    def ret_ids(self):
        return [e[0] for e in self.ret]

    def rel_ids(self):
        return [e[0] for e in self.rel]


class Step:
    def __init__(self, idx, directive):
        self.idx = idx
        self.directive = directive
        self.tok = directive.split(" ")
        self.events = []
        self.state = None
        self.h = ""
        self.caps = {}
        self.comments = []          # comment lines that preceded this directive in the program

    @property
    def op(self):
        return self.tok[0]

    def rets(self):
        return [e for e in self.events if e.startswith("ret ")]

    def io(self):
        return [e for e in self.events if e.startswith(IO_PREFIXES)]


class Run:
    def __init__(self, prog_text, trace_text, name=""):
        self.name = name
        self.tags = {}
        self.cfg = {}
        self.steps = []
        self.ended = None          # None | "panic" | "budget" | "bad-cfg" | "cfgerr"
        self.prog_text = prog_text
        self._parse_prog(prog_text)
        self._parse_trace(trace_text)
        self._derive()

    def _parse_prog(self, text):
        pending_comments = []
        seen_cfg = False
        idx = 0
        for raw in text.split("\n"):
            line = raw.rstrip(" \t\r\n")
            if line == "":
                continue
            if line.startswith("#"):
                if not seen_cfg:
                    for tok in line[1:].split():
                        if "=" in tok:
                            k, v = tok.split("=", 1)
                            self.tags[k] = v
                pending_comments.append(line)
                continue
            if not seen_cfg:
                seen_cfg = True
                self.cfg_line = line
                self.cfg = parse_kv(line)
                pending_comments = []
                continue
            st = Step(idx, line)
            st.comments = pending_comments
            pending_comments = []
            self.steps.append(st)
            idx += 1

    def _parse_trace(self, text):
        lines = [l for l in text.split("\n") if l != ""]
        if lines and lines[0] in ("bad-cfg",) or (lines and lines[0].startswith("cfgerr")):
            self.ended = lines[0].split(" ")[0]
            self.steps = []
            return
        i = 0
        for st in self.steps:
            if i >= len(lines):
                st.missing = True
                continue
            while i < len(lines):
                l = lines[i]
                i += 1
                if l.startswith("s live="):
                    st.state = State(l)
                elif l.startswith("h "):
                    st.h = "" if l == "h -" else l[2:]
                elif l.startswith("c cp="):
                    st.caps = parse_kv(l)
                    break
                elif l.startswith("panic") or l == "budget":
                    st.events.append(l)
                    self.ended = l.split(" ")[0]
                    break
                else:
                    st.events.append(l)
            if self.ended:
                break
        self.steps = [s for s in self.steps if s.state is not None or s.events]
        self.trailing = lines[i:]

    def _derive(self):
        """Per transport: wire with per-write positions, rx stream, consumption positions."""
        self.nets = []
        cur = -1
        for st in self.steps:
            st.net_before = cur
            if st.op == "rx" and cur >= 0 and len(st.tok) == 2:
                try:
                    self.nets[cur]["rx"] += unhex(st.tok[1])
                except ValueError:
                    pass
            for ei, e in enumerate(st.events):
                if e.startswith("net "):
                    cur = int(e.split(" ")[1])
                    while len(self.nets) <= cur:
                        self.nets.append({"wire": bytearray(), "rx": bytearray(), "consumed": 0, "writes": [],
                                          "flushes": [], "reads": [], "open_step": st.idx})
                elif e.startswith("w "):
                    _, t, hx = e.split(" ")
                    n = self.nets[int(t)]
                    n["writes"].append((st.idx, ei, len(n["wire"]), len(unhex(hx))))
                    n["wire"] += unhex(hx)
                elif e.startswith("f ") and " ok @" in e:
                    parts = e.split(" ")
                    n = self.nets[int(parts[1])]
                    n["flushes"].append((st.idx, ei, len(n["wire"]), int(parts[3][1:])))
                elif e.startswith("r "):
                    _, t, c = e.split(" ")
                    n = self.nets[int(t)]
                    n["consumed"] += int(c)
                    n["reads"].append((st.idx, ei, n["consumed"]))
            st.net_after = cur

    def time_of(self, st):
        """Virtual time of the last timestamped event of the step, or None."""
        for e in reversed(st.events):
            m = re.search(r"@(\d+)$", e)
            if m:
                return int(m.group(1))
        return None


def load_run(prog_path, trace_path):
    with open(prog_path, errors="replace") as f:
        p = f.read()
    with open(trace_path, errors="replace") as f:
        t = f.read()
    return Run(p, t, name=str(prog_path))
