#!/usr/bin/env python3
"""Markdown table of the seeded changes and what the checks reported for each."""
import re
from pathlib import Path
root = Path(__file__).resolve().parent.parent / "seeded"
rows = []
for d in sorted(root.iterdir()):
    if not d.is_dir() or d.name == "harmless":
        continue
    notes = (d / "notes.md").read_text().splitlines() if (d / "notes.md").exists() else [""]
    title = re.sub(r"^#+\s*", "", notes[0]).strip()
    title = re.sub(r"^(Seed\s+)?[A-D]\s*(\([^)]*\))?\s*[—:-]+\s*", "", title)
    title = re.sub(r"^C\d\d seed [A-D]\s*[—-]+\s*", "", title)
    res = (d / "result.txt").read_text().splitlines() if (d / "result.txt").exists() else []
    cells = []
    for l in res:
        m = re.match(r"(C\d\d) rc=(\d+) (VIOLATION property=\S+ replay=\S+( no-failing-input-found)?|no-violation)( :: *(.*))?", l)
        if not m:
            continue
        if m.group(3).startswith("no-violation"):
            cells.append(f"{m.group(1)}: **missed**")
        elif m.group(4):
            cells.append(f"{m.group(1)}: tie broken, no failing input found ({(m.group(6) or '')[:60]})")
        else:
            kind = (m.group(6) or "").split(":")[0].strip()
            cells.append(f"{m.group(1)}: failing input, `{kind}`")
    rows.append(f"| {d.name} | {title[:110]} | {'; '.join(cells) or 'not evaluated'} |")
print("| change | what it does | reported by |\n|---|---|---|")
print("\n".join(rows))
