#!/usr/bin/env python3
"""Regenerate Appendix C and D of DESIGN.md."""
import subprocess, re
from pathlib import Path
root = Path(__file__).resolve().parent.parent
s = (root / "DESIGN.md").read_text()
thm = subprocess.run(["python3", str(root / "tools" / "thmtable.py")], capture_output=True, text=True).stdout
seeds = subprocess.run(["python3", str(root / "tools" / "seedtable.py")], capture_output=True, text=True).stdout
harm = []
hd = root / "seeded" / "harmless"
if hd.exists():
    for d in sorted(hd.iterdir()):
        r = (d / "result.txt").read_text().splitlines() if (d / "result.txt").exists() else []
        note = ((d / "notes.md").read_text().splitlines() or [""])[0] if (d / "notes.md").exists() else ""
        loud = [l for l in r if "quiet" not in l]
        harm.append(f"| {d.name} | {re.sub(r'^#+ *', '', note)[:110]} | {'all 20 checks quiet' if r and not loud else ('; '.join(l[:120] for l in loud) or 'not evaluated')} |")
seeds += "\n\nHarmless rewrites (expected: silence):\n\n| rewrite | what it does | result |\n|---|---|---|\n" + "\n".join(harm) + "\n"
s = re.sub(r"<!-- BEGIN THEOREMS -->.*?<!-- END THEOREMS -->", lambda m: "<!-- BEGIN THEOREMS -->\n" + thm + "\n<!-- END THEOREMS -->", s, flags=re.S)
s = re.sub(r"<!-- BEGIN SEEDS -->.*?<!-- END SEEDS -->", lambda m: "<!-- BEGIN SEEDS -->\n" + seeds + "\n<!-- END SEEDS -->", s, flags=re.S)
(root / "DESIGN.md").write_text(s)
