#!/bin/bash
# harmless_eval.sh [Hn…]: apply each behaviour-preserving rewrite to /repo, run all twenty quick checks, revert.
# Expected: every check exits 0 without a VIOLATION line.
set -u
cd /repo && git diff --quiet || { echo "/repo is dirty"; exit 2; }
LIST=${*:-H1 H2 H3 H4 H5 H6 H7 H8}
for H in $LIST; do
  D=/verif/seeded/harmless/$H
  git -C /repo apply $D/patch.diff || { echo "$H: patch does not apply" | tee $D/result.txt; continue; }
  : > $D/result.txt
  for i in 01 02 03 04 05 06 07 08 09 10 11 12 13 14 15 16 17 18 19 20; do
    out=$(cd /verif && ./check C$i quick 2>&1); rc=$?
    line=$(echo "$out" | grep -m1 "^VIOLATION")
    echo "$H C$i rc=$rc ${line:-quiet}" | tee -a $D/result.txt
  done
  git -C /repo checkout -- .
done
(cd /verif/lean && python3 /verif/tools/extract.py /repo /verif/lean/Minimq/Generated.lean >/dev/null)
(cd /verif/harness && cargo build --offline --release >/dev/null 2>&1)
(cd /verif/lean && lake build driver >/dev/null 2>&1)
