#!/bin/bash
# seed_eval.sh <seed dir name, e.g. C03-a> [props...]: apply the seeded change to /repo, run the checks (quick),
# undo it, and record which checks report a violation in /verif/seeded/<name>/result.txt
set -u
N=$1; shift
D=/verif/seeded/$N
P=${N%%-*}
PROPS=${*:-$P}
cd /repo && git diff --quiet || { echo "/repo is dirty"; exit 2; }
git -C /repo apply $D/patch.diff || { echo "patch does not apply"; exit 2; }
: > $D/result.txt
for p in $PROPS; do
  out=$(cd /verif && ./check $p quick 2>&1)
  rc=$?
  line=$(echo "$out" | grep -m1 "^VIOLATION" )
  detail=$(echo "$out" | grep -A1 -m1 "^VIOLATION" | tail -1 | cut -c1-220)
  echo "$p rc=$rc ${line:-no-violation} :: ${detail}" | tee -a $D/result.txt
done
git -C /repo checkout -- .
(cd /verif/lean && python3 /verif/tools/extract.py /repo /verif/lean/Minimq/Generated.lean >/dev/null)
(cd /verif/harness && cargo build --offline --release >/dev/null 2>&1)
(cd /verif/lean && lake build driver >/dev/null 2>&1)
