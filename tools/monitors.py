"""Property monitors C01..C20 over implementation traces (the executable side of the oracle).

Each monitor takes a Run (tools/trace.py) — or a group of twin runs — and returns a list of
violation records {prop, kind, detail, step, finding}. `finding` is the id of the known finding the
record matches (decided by the predicates below, from known_findings.json), or None.
Monitors only flag what contradicts the property text; anything they cannot decide is skipped.
"""
import re
from mqtt import (parse_client_stream, parse_server_stream, parse_client_packet, parse_server_packet, Malformed,
                  Incomplete, props_block_items, PROPS, CLIENT_ALLOWED, valid_value, varint_encode)
from trace import unhex, IO_PREFIXES


def V(prop, kind, detail, step=None, finding=None):
    return {"prop": prop, "kind": kind, "detail": detail, "step": step, "finding": finding}


# ------------------------------------------------------------------------------------------------
# shared analysis
# ------------------------------------------------------------------------------------------------

class Analysis:
    """Timeline of completed client packets and consumed server packets per transport."""

    def __init__(self, run):
        self.run = run
        self.nets = []
        for t, n in enumerate(run.nets):
            wire = bytes(n["wire"])
            cp, ctail, cerr = parse_client_stream_tolerant(wire)
            for p in cp:
                p["t"] = t
                p["when"] = when_pos(n["writes"], p["end"])
                p["flush_time"] = flush_time(n["flushes"], p["end"])
            consumed = bytes(n["rx"][: n["consumed"]])
            sp, stail, serr = parse_server_stream(consumed)
            for p in sp:
                p["t"] = t
                p["when"] = when_read(n["reads"], p["end"])
            self.nets.append({"client": cp, "ctail": ctail, "cerr": cerr, "server": sp, "stail": stail, "serr": serr,
                              "wire": wire})
        ev = []
        for t, n in enumerate(self.nets):
            for p in n["client"]:
                ev.append((p["when"], "C", p))
            for k, p in enumerate(n["server"]):
                # the first packet on a transport is the answer to CONNECT: it is consumed by the
                # handshake and never reaches the session's packet handler
                if k == 0 and p["type"] != "CONNACK":
                    p["handshake_garbage"] = True
                    continue
                ev.append((p["when"], "S", p))
        ev.sort(key=lambda x: (x[0], 0 if x[1] == "S" else 1))
        self.events = ev

    def connack(self, t):
        for p in self.nets[t]["server"]:
            return p if p["type"] == "CONNACK" else None
        return None


def when_pos(writes, end):
    for (si, ei, pos, ln) in writes:
        if pos + ln >= end:
            return (si, ei)
    return (10 ** 9, 0)


def flush_time(flushes, end):
    for (si, ei, pos, tm) in flushes:
        if pos >= end:
            return tm
    return None


def when_read(reads, end):
    for (si, ei, cum) in reads:
        if cum >= end:
            return (si, ei)
    return (10 ** 9, 0)


def parse_client_stream_tolerant(wire):
    """Like parse_client_stream, but a SUBSCRIBE/UNSUBSCRIBE with flags 1010 is recorded (finding F1)
    and parsing continues with the DUP bit cleared."""
    pkts = []
    pos = 0
    data = bytearray(wire)
    frozen = bytes(data)          # re-made only when a byte is patched (F1), not once per packet
    while pos < len(data):
        try:
            pkt, end = parse_client_packet(frozen, pos)
        except Incomplete:
            return pkts, bytes(data[pos:]), None
        except Malformed as e:
            b0 = data[pos]
            if b0 in (0x8A, 0xAA):
                data[pos] = b0 & 0xF7
                frozen = bytes(data)
                try:
                    pkt, end = parse_client_packet(frozen, pos)
                except Incomplete:
                    return pkts, bytes(wire[pos:]), None
                except Malformed as e2:
                    return pkts, bytes(wire[pos:]), f"{e2} at byte {pos}"
                pkt["dup_on_sub"] = True
                pkt["raw"] = bytes(wire[pos:end])
            else:
                return pkts, bytes(wire[pos:]), f"{e} at byte {pos}"
        pkt["start"] = pos
        pkt["end"] = end
        pkts.append(pkt)
        pos = end
    return pkts, b"", None


def current_op_at_cancel(run):
    """For every `cancel` event: (step idx, event idx, op directive that was suspended)."""
    out = []
    suspended = None
    for st in run.steps:
        if st.op in ("connect", "publish", "subscribe", "unsubscribe", "disconnect", "poll", "recv", "drive"):
            starts = True
        else:
            starts = False
        for ei, e in enumerate(st.events):
            if e == "cancel":
                out.append((st.idx, ei, suspended))
                suspended = None
        if starts and not any(e.startswith("ret " + st.op + " err NoConnection") for e in st.events):
            suspended = st
        if any(e.startswith("ret ") and not e.endswith("NoConnection") for e in st.events):
            suspended = None
    return out


# ------------------------------------------------------------------------------------------------
# C01
# ------------------------------------------------------------------------------------------------

def interleaving(run):
    """No operation starts a packet in the middle of another one: while a queued packet is partly
    written (state wN, N >= 1), every byte accepted by the transport must continue that packet."""
    out = []
    prev = None
    for st in run.steps:
        s = st.state
        if s is None:
            continue
        if prev is not None and prev.state.live == "1" and st.net_before == st.net_after and not any(e.startswith("net ") for e in st.events):
            k = sum(len(unhex(e.split(" ")[2])) for e in st.events if e.startswith("w "))
            inprog = [("ret", e[0], e[2], e[3]) for e in prev.state.ret if e[3].startswith("w") and e[3] != "w0"]
            inprog += [("rel", e[0], 5, e[2]) for e in prev.state.rel if e[2].startswith("w") and e[2] != "w0"]
            inprog += [("ctl", (e[0], e[1], e[2]), 2 if e[0] == 12 else 5, e[3]) for e in prev.state.ctl if e[3].startswith("w") and e[3] != "w0"]
            if len(inprog) > 1:
                out.append(V("C01", "two-packets-in-progress", prev.state.raw, step=st.idx))
            if k > 0 and len(inprog) == 1:
                kind, ident, ln, state = inprog[0]
                n0 = int(state[1:])
                if kind == "ret":
                    after = [e[3] for e in s.ret if e[0] == ident]
                elif kind == "rel":
                    after = [e[2] for e in s.rel if e[0] == ident]
                else:
                    after = [e[3] for e in s.ctl if (e[0], e[1], e[2]) == ident]
                need = ln - n0
                if after and after[0].startswith("w") and after[0] != "w0":
                    if int(after[0][1:]) != n0 + k:
                        out.append(V("C01", "packet-started-inside-another", f"{kind} entry {ident} was at byte {n0} of {ln}; {k} bytes were written but it is now at {after[0]}", step=st.idx))
                elif after and after[0] in ("f", "s"):
                    if k < need:
                        out.append(V("C01", "packet-started-inside-another", f"{kind} entry {ident} needed {need} more bytes, {k} were written, yet it is marked {after[0]}", step=st.idx))
                elif s.live == "0" and k < need and any(re.match(r"ret (disconnect ok|publish ok none)", e) for e in st.events):
                    out.append(V("C01", "packet-started-inside-another", f"{kind} entry {ident} still needed {need} bytes, only {k} were written, but the operation reports its own packet sent", step=st.idx))
        # a new transport starts every queued packet from byte 0
        if any(e.startswith("ret connect ok") for e in st.events):
            bad = [e for e in s.ret if e[3] != "w0"] + [e for e in s.rel if e[2] != "w0"] + [e for e in s.ctl if e[3] != "w0"]
            if bad:
                out.append(V("C01", "replay-not-restarted", f"after connect: {s.raw}", step=st.idx))
        prev = st
    return out


def c01(run, an=None):
    an = an or Analysis(run)
    out = interleaving(run)
    cancels = current_op_at_cancel(run)
    for t, n in enumerate(an.nets):
        # positions from which the stream is excluded / explained
        taint = None       # (pos, finding or "excluded")
        wire = n["wire"]
        for (si, ei, op) in cancels:
            if op is None:
                continue
            # wire length of transport t at that moment
            ln = sum(w[3] for w in run.nets[t]["writes"] if (w[0], w[1]) < (si, ei))
            if ln == 0 or run.steps[si].net_before != t and run.steps[si].net_after != t:
                continue
            pk, tail, err = parse_client_stream_tolerant(wire[:ln])
            if err is None and tail:
                if op.op == "disconnect" and tail[0] == 0xE0:
                    cand = (ln - len(tail), "F2b")
                elif op.op == "publish" and op.tok[1] == "0" and tail[0] & 0xF6 == 0x30:
                    cand = (ln - len(tail), "excluded")     # QoS 0 publish is documented not cancel-safe
                elif op.op == "publish" and tail[0] & 0xF0 == 0x30 and (tail[0] >> 1) & 3 == 0:
                    cand = (ln - len(tail), "excluded")     # downgraded to QoS 0
                else:
                    cand = None
                if cand and taint is None:
                    # only matters if more bytes follow on this transport
                    if len(wire) > ln:
                        taint = cand
        pkts, tail, err = n["client"], n["ctail"], n["cerr"]
        if taint and taint[1] != "excluded":
            out.append(V("C01", "packet-started-inside-another", f"transport {t}: bytes were written after a partially written DISCONNECT whose operation had been cancelled (wire position {taint[0]})", finding=taint[1]))
        if err:
            pos = int(err.rsplit(" ", 1)[1])
            if not (taint and pos >= taint[0]):
                out.append(V("C01", "malformed-stream", f"transport {t}: {err}"))
        for i, p in enumerate(pkts):
            if taint and p["start"] >= taint[0]:
                continue
            if p.get("dup_on_sub"):
                out.append(V("C01", "dup-flag-on-subscribe", f"transport {t}: {p['type']} id {p['id']} first byte {p['raw'][0]:#x}",
                             step=p["when"][0], finding="F1"))
            if i == 0 and p["type"] != "CONNECT":
                out.append(V("C01", "first-not-connect", f"transport {t}: first packet is {p['type']}"))
            if i > 0 and p["type"] == "CONNECT":
                out.append(V("C01", "second-connect", f"transport {t}: CONNECT at packet {i}"))
            if p["type"] == "DISCONNECT" and (i + 1 < len(pkts) or tail):
                out.append(V("C01", "bytes-after-disconnect", f"transport {t}: data follows DISCONNECT"))
    return out


# ------------------------------------------------------------------------------------------------
# token tracking shared by C02, C03, C05, C06, C07, C17, C18
# ------------------------------------------------------------------------------------------------

class Tokens:
    """Outbound operations (tokens) reconstructed from the state lines: a token is born when an id
    appears in the retained list, and lives until its terminal ack or a fresh session."""

    def __init__(self, run, an):
        self.run = run
        self.an = an
        self.tokens = []          # dicts
        live = {}                 # id -> token (retained or release phase)
        prev = None
        prev_gen = None
        for st in run.steps:
            s = st.state
            if s is None:
                continue
            if prev_gen is not None and s.gen != prev_gen:
                for tk in live.values():
                    tk["end_step"] = st.idx
                    tk["end"] = "fresh"
                live = {}
            ids_now = set(s.ret_ids()) | set(s.rel_ids())
            ids_prev = set(live.keys())
            for i in s.ret_ids():
                if i not in live:
                    tk = {"id": i, "gen": s.gen, "born": st.idx, "end_step": None, "end": None, "kind": None,
                          "tx": [], "rel_step": None}
                    live[i] = tk
                    self.tokens.append(tk)
            for i in list(live.keys()):
                if i not in ids_now:
                    live[i]["end_step"] = st.idx
                    live[i]["end"] = "acked"
                    del live[i]
                elif i in s.rel_ids() and live[i]["rel_step"] is None:
                    live[i]["rel_step"] = st.idx
            prev = s
            prev_gen = s.gen
        # attach transmissions: complete client packets carrying the id while the token is alive
        for (when, side, p) in an.events:
            if side != "C" or p["type"] not in ("PUBLISH", "SUBSCRIBE", "UNSUBSCRIBE", "PUBREL") or p.get("id") is None:
                continue
            for tk in self.tokens:
                if tk["id"] != p["id"]:
                    continue
                # the packet belongs to the token alive when its first byte could have been written:
                # born <= step of completion, and not ended before the packet started
                if tk["born"] <= when[0] and (tk["end_step"] is None or when[0] <= tk["end_step"]):
                    if p["type"] != "PUBREL":
                        if tk["kind"] is None:
                            tk["kind"] = p["type"] + (str(p["qos"]) if p["type"] == "PUBLISH" else "")
                    tk["tx"].append((when, p))
                    break


def by_transport(txs):
    d = {}
    for when, p in txs:
        d.setdefault(p["t"], []).append((when, p))
    return d


def same_but_dup(a, b):
    return len(a) == len(b) and a[0] | 8 == b[0] | 8 and a[1:] == b[1:]


def acks_consumed(an, step_lo, step_hi, types):
    out = []
    for (when, side, p) in an.events:
        if side == "S" and p["type"] in types and step_lo <= when[0] <= step_hi:
            out.append((when, p))
    return out


# ------------------------------------------------------------------------------------------------
# C02 / C03 / C17(retransmission part)
# ------------------------------------------------------------------------------------------------

def ack_effects(run, an, tk, prop, kinds):
    """A consumed acknowledgement has its effect at once: the operation leaves the in-flight state
    (PUBACK, SUBACK, UNSUBACK, failing PUBREC, PUBCOMP) or moves to the release phase (PUBREC)."""
    out = []
    for (when, side, p) in an.events:
        if side != "S" or p["type"] not in kinds:
            continue
        st = run.steps[when[0]]
        if st.state is None or when[0] == 0:
            continue
        prev = None
        for s2 in reversed(run.steps[: when[0]]):
            if s2.state is not None:
                prev = s2.state
                break
        if prev is None or prev.live != "1" or prev.gen != st.state.gen:
            continue
        if any(re.match(r"ret \w+ err (Peer.InvalidPacket|Resource.PacketTooLarge|Resource.InflightExhausted)", e) for e in st.events):
            continue
        # several acknowledgements for one id consumed within one step (a duplicate, possibly with another
        # reason code) are not judged: the state is only visible between steps
        same = [q for (w2, s2, q) in an.events if s2 == "S" and w2[0] == when[0] and w2 != when and q.get("id") == p.get("id")]
        if same:
            continue
        i = p.get("id")
        kind = None
        for t in tk.tokens:
            if t["id"] == i and t["born"] < when[0] and (t["end_step"] is None or t["end_step"] >= when[0]):
                kind = t["kind"]
        a = st.state
        if p["type"] == "PUBACK" and kind == "PUBLISH1" and i in prev.ret_ids() and i in a.ret_ids():
            out.append(V(prop, "ack-not-honoured", f"PUBACK {i} consumed but the publish is still retained: {a.raw}", step=when[0]))
        if p["type"] == "PUBREC" and kind == "PUBLISH2" and i in prev.ret_ids():
            if norm_rc(p["rc"]) < 0x80:
                if i in a.ret_ids() or i not in a.rel_ids():
                    out.append(V(prop, "ack-not-honoured", f"successful PUBREC {i} consumed but the exchange did not move to the release phase: {a.raw}", step=when[0]))
            elif i in a.ret_ids() or i in a.rel_ids():
                out.append(V(prop, "ack-not-honoured", f"failing PUBREC {i} consumed but the exchange continues: {a.raw}", step=when[0]))
        if p["type"] == "PUBCOMP" and i in prev.rel_ids() and i in a.rel_ids():
            out.append(V(prop, "ack-not-honoured", f"PUBCOMP {i} consumed but the release entry remains: {a.raw}", step=when[0]))
        if p["type"] == "SUBACK" and kind == "SUBSCRIBE" and i in prev.ret_ids() and i in a.ret_ids():
            out.append(V(prop, "ack-not-honoured", f"SUBACK {i} consumed but the SUBSCRIBE is still retained", step=when[0]))
        if p["type"] == "UNSUBACK" and kind == "UNSUBSCRIBE" and i in prev.ret_ids() and i in a.ret_ids():
            out.append(V(prop, "ack-not-honoured", f"UNSUBACK {i} consumed but the UNSUBSCRIBE is still retained", step=when[0]))
    return out


def c02(run, an=None, tk=None):
    an = an or Analysis(run)
    tk = tk or Tokens(run, an)
    out = ack_effects(run, an, tk, "C02", ("PUBACK",))
    for t in tk.tokens:
        if t["kind"] != "PUBLISH1":
            continue
        pubs = [(w, p) for (w, p) in t["tx"] if p["type"] == "PUBLISH"]
        per = by_transport(pubs)
        for tr, lst in per.items():
            if len(lst) > 1:
                out.append(V("C02", "retransmit-within-connection", f"id {t['id']} sent {len(lst)} times on transport {tr}", step=lst[1][0][0]))
        if pubs:
            first = pubs[0][1]["raw"]
            for k, (w, p) in enumerate(pubs[1:]):
                if not same_but_dup(first, p["raw"]):
                    out.append(V("C02", "retransmission-differs", f"id {t['id']}: {first.hex()} vs {p['raw'].hex()}", step=w[0]))
                elif not p["dup"]:
                    out.append(V("C02", "retransmission-without-dup", f"id {t['id']} on transport {p['t']}", step=w[0]))
    # never after its PUBACK: packets with a qos1 id that match no live token
    out += orphan_packets(run, an, tk, "C02", ("PUBLISH",), lambda p: p["qos"] == 1)
    # order of (re)transmission follows acceptance order, per transport
    out += order_check(tk, "C02", lambda t: t["kind"] == "PUBLISH1", "PUBLISH")
    # never lost: a token may leave the retained list only with its ack or a fresh session
    out += loss_check(run, an, tk, "C02", "PUBLISH1", ("PUBACK",))
    # Sent ⇒ transmitted on the current transport
    out += sent_check(run, an, tk, "C02", "PUBLISH1")
    return out


def orphan_packets(run, an, tk, prop, types, pred):
    out = []
    claimed = set()
    for t in tk.tokens:
        for (w, p) in t["tx"]:
            claimed.add(id(p))
    for (when, side, p) in an.events:
        if side == "C" and p["type"] in types and pred(p) and id(p) not in claimed:
            out.append(V(prop, "transmission-of-dead-operation", f"{p['type']} id {p.get('id')} on transport {p['t']} belongs to no live operation", step=when[0]))
    return out


def order_check(tk, prop, pred, ptype):
    out = []
    toks = [t for t in tk.tokens if pred(t)]
    rank = {id(t): i for i, t in enumerate(toks)}
    per = {}
    for t in toks:
        for (w, p) in t["tx"]:
            if p["type"] == ptype:
                per.setdefault(p["t"], []).append((w, rank[id(t)], t["id"]))
    for tr, lst in per.items():
        lst.sort(key=lambda x: x[0])
        for a, b in zip(lst, lst[1:]):
            if a[1] > b[1]:
                out.append(V(prop, "order", f"transport {tr}: {ptype} id {a[2]} sent before earlier-accepted id {b[2]}", step=b[0][0]))
    return out


def loss_check(run, an, tk, prop, kind, ack_types):
    out = []
    for t in tk.tokens:
        if t["kind"] != kind or t["end"] != "acked":
            continue
        if kind == "PUBLISH2":
            continue
        acks = [p for (w, p) in acks_consumed(an, t["born"], t["end_step"], ack_types) if p["id"] == t["id"] and w[0] == t["end_step"]]
        if not acks:
            out.append(V(prop, "lost", f"id {t['id']} left the in-flight state at step {t['end_step']} without {'/'.join(ack_types)}", step=t["end_step"]))
    return out


def sent_check(run, an, tk, prop, kind):
    out = []
    for st in run.steps:
        s = st.state
        if s is None or s.live != "1":
            continue
        tr = st.net_after
        for (i, off, ln, state) in s.ret:
            if state != "s":
                continue
            for t in tk.tokens:
                if t["id"] == i and t["kind"] == kind and t["born"] <= st.idx and (t["end_step"] is None or st.idx < t["end_step"]):
                    if not any(p["t"] == tr and w[0] <= st.idx for (w, p) in t["tx"] if p["type"] != "PUBREL"):
                        out.append(V(prop, "sent-without-transmission", f"id {i} marked sent on transport {tr} but never written there", step=st.idx))
    return out


def c03(run, an=None, tk=None):
    an = an or Analysis(run)
    tk = tk or Tokens(run, an)
    out = ack_effects(run, an, tk, "C03", ("PUBREC", "PUBCOMP"))
    for t in tk.tokens:
        if t["kind"] != "PUBLISH2":
            continue
        pubs = [(w, p) for (w, p) in t["tx"] if p["type"] == "PUBLISH"]
        rels = [(w, p) for (w, p) in t["tx"] if p["type"] == "PUBREL"]
        # successful PUBREC consumptions for this id during the token's life
        recs = [(w, p) for (w, p) in acks_consumed(an, t["born"], t["end_step"] if t["end_step"] is not None else 10 ** 9, ("PUBREC",))
                if p["id"] == t["id"]]
        ok_recs = [(w, p) for (w, p) in recs if p["rc"] < 0x80]
        bad_recs = [(w, p) for (w, p) in recs if p["rc"] >= 0x80]
        first_ok = ok_recs[0][0] if ok_recs else None
        for (w, p) in rels:
            if first_ok is None or w < first_ok:
                # a PUBREL may also legitimately answer a PUBREC after the publish phase; it needs one before it
                out.append(V("C03", "pubrel-without-pubrec", f"id {t['id']} PUBREL on transport {p['t']} before any successful PUBREC", step=w[0]))
            if pubs and w < pubs[0][0]:
                out.append(V("C03", "pubrel-before-publish", f"id {t['id']}", step=w[0]))
        if first_ok is not None:
            for (w, p) in pubs:
                # a PUBLISH completed after the PUBREC was consumed (bytes in flight before count as before)
                if w > first_ok and p["when"] > first_ok and started_after(run, p, first_ok):
                    out.append(V("C03", "publish-after-pubrec", f"id {t['id']} PUBLISH on transport {p['t']} after PUBREC", step=w[0]))
        if bad_recs and not ok_recs and rels:
            out.append(V("C03", "pubrel-after-failed-pubrec", f"id {t['id']}", step=rels[0][0][0]))
        per = by_transport(pubs)
        for tr, lst in per.items():
            if len(lst) > 1:
                out.append(V("C03", "retransmit-within-connection", f"id {t['id']} PUBLISH sent {len(lst)} times on transport {tr}", step=lst[1][0][0]))
        if pubs:
            first = pubs[0][1]["raw"]
            for (w, p) in pubs[1:]:
                if not same_but_dup(first, p["raw"]):
                    out.append(V("C03", "retransmission-differs", f"id {t['id']}", step=w[0]))
    out += orphan_packets(run, an, tk, "C03", ("PUBLISH",), lambda p: p["qos"] == 2)
    out += orphan_packets(run, an, tk, "C03", ("PUBREL",), lambda p: True)
    # the release list keeps PUBREC arrival order: entries only append at the end or disappear
    prev = None
    for st in run.steps:
        s = st.state
        if s is None:
            continue
        cur = s.rel_ids()
        if prev is not None and prev[1] == s.gen:
            old = [i for i in prev[0] if i in cur]
            new_positions = [cur.index(i) for i in old]
            if new_positions != sorted(new_positions):
                out.append(V("C03", "release-order", f"release list {prev[0]} -> {cur}", step=st.idx))
            survivors = [i for i in cur if i in prev[0]]
            added = [i for i in cur if i not in prev[0]]
            if cur != survivors + added:
                out.append(V("C03", "release-order", f"new release entry not appended: {prev[0]} -> {cur}", step=st.idx))
        prev = (cur, s.gen)
    # PUBRELs on a connection follow the release order at connection start
    out += order_check_rel(run, an, tk)
    # a successful PUBREC whose PUBREL cannot be queued drops the exchange: no PUBREL is ever sent
    # (the send window keeps the release list from filling: Theorems/C06.lean, C06_pubrec_has_room_partial)
    for st in run.steps:
        if any(re.match(r"ret (poll|recv|drive) err Resource.InflightExhausted", e) for e in st.events):
            for (when, side, p) in an.events:
                if side == "S" and when[0] == st.idx and p["type"] == "PUBREC" and norm_rc(p["rc"]) < 0x80:
                    out.append(V("C03", "pubrel-never-sent", f"successful PUBREC {p['id']} consumed but its PUBREL could not be queued (InflightExhausted): the exchange is dropped", step=st.idx))
    return out


def started_after(run, p, when):
    """Did the first byte of packet p go out after event `when`?"""
    n = run.nets[p["t"]]
    for (si, ei, pos, ln) in n["writes"]:
        if pos <= p["start"] < pos + ln:
            return (si, ei) > when
    return False


def order_check_rel(run, an, tk):
    out = []
    for tr, n in enumerate(an.nets):
        open_step = run.nets[tr]["open_step"]
        st = run.steps[open_step] if open_step < len(run.steps) else None
        # release list right before this connection opened
        before = None
        for s2 in run.steps:
            if s2.idx < open_step and s2.state is not None:
                before = s2.state
        if before is None:
            continue
        order = before.rel_ids()
        seen = [p["id"] for p in n["client"] if p["type"] == "PUBREL" and p["id"] in order]
        # replayed PUBRELs (first occurrence of each id) must respect `order`
        first_seen = []
        for i in seen:
            if i not in first_seen:
                first_seen.append(i)
        pos = [order.index(i) for i in first_seen]
        if pos != sorted(pos):
            out.append(V("C03", "pubrel-replay-order", f"transport {tr}: PUBRELs {first_seen}, PUBREC order {order}", step=open_step))
    return out


# ------------------------------------------------------------------------------------------------
# C04
# ------------------------------------------------------------------------------------------------

def parse_msg_line(line):
    kv = {}
    for tok in line.split(" ")[1:]:
        k, v = tok.split("=", 1)
        kv[k] = v
    return kv


def c04(run, an=None):
    an = an or Analysis(run)
    out = []
    pending = set()          # inbound QoS 2 ids awaiting PUBREL
    owed = []                # expected acks, in order: (type, id, rc)
    cur_t = None
    connacked = False
    for (when, side, p) in an.events:
        if side == "S":
            if p["type"] == "CONNACK":
                cur_t = p["t"]
                if p["rc"] < 0x80 and not p["session_present"]:
                    pending = set()
                    owed = []
                continue
            if p["type"] == "PUBLISH":
                st = run.steps[when[0]]
                msgs = [e for e in st.events if e.startswith("msg ")]
                rets = [e for e in st.events if e.startswith("ret ") and " ok msg" in e]
                expect_delivery = True
                # the acknowledgement could not be queued (it exceeds the broker's maximum packet size:
                # C14 closes the connection): the packet is neither delivered nor acknowledged, and —
                # since the repair recorded as F24 — not remembered either, so a retransmission counts
                # as the first arrival
                if p["qos"] > 0 and any(re.match(r"ret \w+ err (Peer.InvalidPacket|Resource.PacketTooLarge|Resource.InflightExhausted)", e) for e in st.events):
                    continue
                if p["qos"] == 1:
                    if p["id"] == 0:
                        continue      # broker misuse of an id: outside the property's quantifier
                    if p["id"] in pending:
                        # broker misuse (identifier of an unfinished inbound QoS 2 exchange): the client
                        # answers "packet identifier in use"; nothing else is judged for this packet
                        owed.append(("PUBACK", p["id"], 0x91))
                        continue
                    owed.append(("PUBACK", p["id"], 0))
                elif p["qos"] == 2:
                    if p["id"] == 0:
                        continue
                    if p["id"] in pending:
                        expect_delivery = False
                        owed.append(("PUBREC", p["id"], 0))
                    else:
                        if len(pending) >= 8:
                            # the broker exceeded the advertised Receive Maximum (outside the property's
                            # quantifier): refused with 0x93, not delivered
                            owed.append(("PUBREC", p["id"], 0x93))
                            continue
                        pending.add(p["id"])
                        owed.append(("PUBREC", p["id"], 0))
                fatal = any(re.match(r"ret \w+ err (Peer.InvalidPacket|Resource.PacketTooLarge)", e) for e in st.events)
                if fatal:
                    continue          # e.g. the ack does not fit the broker's maximum packet size (C14)
                if expect_delivery:
                    if not msgs:
                        # the packet is handled in the very step that completes it (no await lies between
                        # the last read and the hand-over), unless that step reports an error
                        if any(e.startswith("ret ") and " err " in e for e in st.events):
                            continue
                        out.append(V("C04", "not-delivered", f"PUBLISH qos {p['qos']} id {p['id']} consumed at step {when[0]} but not handed to the application", step=when[0]))
                        continue
                    kv = parse_msg_line(msgs[0])
                    exp = dict(topic=p["topic"].hex() or "-", payload=p["payload"].hex() or "-", qos=str(p["qos"]),
                               retain="1" if p["retain"] else "0", props=p["props_raw"].hex() or "-")
                    for k, v in exp.items():
                        if kv.get(k) != v:
                            out.append(V("C04", "delivered-differs", f"field {k}: sent {v} delivered {kv.get(k)}", step=when[0]))
                    # decoded properties equal the reference decoding (when the block is well-formed)
                    try:
                        items = props_block_items(p["props_raw"])
                        want = ";".join(render_prop(i, v) for i, v in items) or "-"
                        if kv.get("iter") != want:
                            out.append(V("C04", "properties-differ", f"sent {want} decoded {kv.get('iter')}", step=when[0]))
                    except Malformed:
                        pass
                else:
                    # several packets can be consumed in one step (`go` keeps polling): the message
                    # delivered in this step must be THIS packet to count as a second delivery
                    def is_this(line):
                        kv = parse_msg_line(line)
                        return kv.get("qos") == "2" and kv.get("topic") == (p["topic"].hex() or "-") and kv.get("payload") == (p["payload"].hex() or "-")
                    if rets and any(is_this(m) for m in msgs):
                        later_same = [q for (w2, s2, q) in an.events if s2 == "S" and w2[0] == when[0] and w2 != when and q["type"] == "PUBLISH" and q.get("id") == p["id"] and q.get("qos") == 2]
                        if not later_same:
                            out.append(V("C04", "duplicate-delivered", f"QoS 2 id {p['id']} delivered again before PUBREL", step=when[0]))
            elif p["type"] == "PUBREL":
                if p["id"] in pending:
                    pending.discard(p["id"])
                    owed.append(("PUBCOMP", p["id"], 0))
                else:
                    owed.append(("PUBCOMP", p["id"], 0x92))
        else:
            if p["type"] in ("PUBACK", "PUBREC", "PUBCOMP"):
                # must be the oldest owed ack (acks re-sent after a lost flush repeat the same head)
                if not owed:
                    if not getattr(c04, "_resent", None) or c04._resent != (p["type"], p["id"], p["rc"]):
                        out.append(V("C04", "unexpected-ack", f"{p['type']} id {p['id']} rc {p['rc']:#x} not owed", step=when[0]))
                    continue
                head = owed[0]
                if (p["type"], p["id"], p["rc"]) == head:
                    c04._resent = head
                    if p["flush_time"] is not None or True:
                        owed.pop(0)
                elif getattr(c04, "_resent", None) == (p["type"], p["id"], p["rc"]):
                    pass              # duplicate of the previous ack after a failed flush
                else:
                    out.append(V("C04", "ack-order", f"sent {p['type']} id {p['id']} rc {p['rc']:#x}, owed {head}", step=when[0]))
    c04._resent = None
    # a broker stream of valid packets that contains a PUBLISH must not end in the invalid-packet
    # error: the PUBLISH it was cut at (or the ones behind it) is never surfaced
    for v in valid_stream_rejected(run, an, "C04"):
        t = int(re.search(r"transport (\d+)", v["detail"]).group(1))
        pk, _, _ = parse_server_stream(bytes(run.nets[t]["rx"]))
        if any(p["type"] == "PUBLISH" for p in pk):
            out.append(v)
    return out


def next_msg(run, step):
    for st in run.steps[step:]:
        for e in st.events:
            if e.startswith("msg "):
                return e
        if any(e.startswith("net ") for e in st.events) and st.idx > step:
            return None
    return None


def undelivered_is_explained(run, step):
    """The packet was consumed but the connection ended (error/cancel/drop/end of program) before any
    operation could hand it over."""
    for st in run.steps[step:]:
        for e in st.events:
            if e.startswith("ret ") and " err " in e and not e.endswith("NoConnection"):
                return True
            if e in ("drop",) or e.startswith("net ") and st.idx > step:
                return True
    return True if step >= len(run.steps) - 1 else all(
        not any(e.startswith("ret ") and " ok" in e and e.split(" ")[1] in ("poll", "recv", "drive") for e in st.events)
        for st in run.steps[step + 1:])


def render_prop(pid, v):
    if isinstance(v, tuple):
        return f"{pid:02x}={v[0].hex() or '-'}/{v[1].hex() or '-'}"
    if isinstance(v, bytes):
        return f"{pid:02x}={v.hex() or '-'}"
    return f"{pid:02x}={v}"


# ------------------------------------------------------------------------------------------------
# C05
# ------------------------------------------------------------------------------------------------

def c05(run, an=None, tk=None):
    an = an or Analysis(run)
    tk = tk or Tokens(run, an)
    out = []
    had_ok = False
    half_accepted = False       # a success CONNACK with session-present 0 was rejected for its properties
    client_id = unhex(run.cfg.get("cid", "-"))
    for t, n in enumerate(an.nets):
        if not n["client"] or n["client"][0]["type"] != "CONNECT":
            continue
        c = n["client"][0]
        want_clean = not had_ok
        if c["clean_start"] != want_clean:
            f = "F19" if (c["clean_start"] and half_accepted) else None
            out.append(V("C05", "clean-start", f"transport {t}: clean_start={int(c['clean_start'])}, earlier successful connect={int(had_ok)}", finding=f))
        if c["client_id"] != client_id:
            out.append(V("C05", "client-id", f"transport {t}: CONNECT client id {c['client_id'].hex()} expected {client_id.hex()}"))
        ack = an.connack(t)
        # result of this connect
        open_step = run.nets[t]["open_step"]
        ret = None
        for st in run.steps[open_step:]:
            r = [e for e in st.events if e.startswith("ret connect")]
            if r:
                ret = (st, r[0])
                break
            if st.idx > open_step and any(e.startswith("net ") for e in st.events):
                break
        if ack is None or ret is None:
            continue
        if ack["rc"] >= 0x80:
            continue
        ok = " ok " in ret[1]
        if not ok:
            if not ack["session_present"]:
                half_accepted = True
            continue
        had_ok = True
        half_accepted = False
        for pid, v in ack.get("props", []):
            if pid == 0x12:
                client_id = v
        ev = "reconnected" if ack["session_present"] else "connected"
        if f"ok {ev}" not in ret[1]:
            out.append(V("C05", "connect-event", f"transport {t}: session present {int(ack['session_present'])} but {ret[1]}", step=ret[0].idx))
        st = ret[0]
        if not ack["session_present"]:
            # every earlier handle is invalidated; nothing from before is ever transmitted
            n_before = count_handles_before(run, st.idx)
            if any(ch != "i" for ch in st.h[:n_before]):
                out.append(V("C05", "handles-not-invalidated", f"after fresh session handles are {st.h}", step=st.idx))
            if st.state and (st.state.ret or st.state.rel or st.state.in2):
                out.append(V("C05", "state-not-discarded", f"after fresh session: {st.state.raw}", step=st.idx))
        else:
            # every unacknowledged PUBLISH/PUBREL/SUBSCRIBE/UNSUBSCRIBE is retransmitted before any new id-bearing packet
            pending_ids = set(st.state.ret_ids()) | set(st.state.rel_ids()) if st.state else set()
            seen = set()
            for p in n["client"][1:]:
                if p["type"] in ("PUBLISH", "SUBSCRIBE", "UNSUBSCRIBE", "PUBREL") and p.get("id") is not None:
                    if p["id"] in pending_ids:
                        seen.add(p["id"])
                    else:
                        # a new identifier-bearing packet: all replays it could be ordered against must be out,
                        # unless they were acknowledged meanwhile
                        missing = [i for i in pending_ids - seen if still_pending_at(run, an, t, i, p["when"])]
                        if missing:
                            out.append(V("C05", "new-before-replay", f"transport {t}: new {p['type']} id {p['id']} before replay of {sorted(missing)}", step=p["when"][0]))
                        break
            else:
                # no new identifier-bearing packet was seen. If that is because the client's stream stops
                # being MQTT (not: ends inside a packet) while replays are still owed, the bytes written
                # in their place are not the retransmission of anything
                if n["cerr"] and n["client"]:
                    last = n["client"][-1]["when"]
                    missing = [i for i in pending_ids - seen if still_pending_at(run, an, t, i, (last[0] + 1, 0))]
                    if missing:
                        out.append(V("C05", "replay-garbled", f"transport {t}: resumed session owes the replay of {sorted(missing)} but the stream stops being MQTT after {len(n['client'])} packets: {n['cerr']}", step=last[0]))
    return out


def count_handles_before(run, step):
    n = 0
    for st in run.steps[:step]:
        n = max(n, len(st.h))
    return n


def still_pending_at(run, an, t, ident, when):
    st = run.steps[when[0] - 1] if when[0] > 0 else None
    if st is None or st.state is None:
        return True
    return ident in st.state.ret_ids() or ident in st.state.rel_ids()


# ------------------------------------------------------------------------------------------------
# C06
# ------------------------------------------------------------------------------------------------

def c06(run, an=None):
    an = an or Analysis(run)
    out = []
    for t, n in enumerate(an.nets):
        ack = an.connack(t)
        if ack is None or ack["rc"] >= 0x80:
            continue
        rm = 65535
        for pid, v in ack.get("props", []):
            if pid == 0x21:
                rm = v
        unresolved = {}
        evs = [(p["when"], "C", p) for p in n["client"]] + [(p["when"], "S", p) for p in n["server"]]
        evs.sort(key=lambda x: (x[0], 0 if x[1] == "S" else 1))
        replay_phase_ids = None
        for (when, side, p) in evs:
            if side == "C" and p["type"] == "PUBLISH" and p["qos"] > 0:
                unresolved[p["id"]] = p
                if len(unresolved) > rm:
                    # known sub-case: the broker's window is smaller than what must be replayed
                    # known sub-case F5c: the replays carried over from earlier connections alone fill
                    # or exceed the window this CONNACK announced
                    # (the window is forgotten for the rest of the connection: the quota is restored by
                    # the acknowledgements of the replays although the window was over-subscribed from
                    # the start — so every later excess on this transport is the same finding)
                    replays = sum(1 for q in n["client"] if q["type"] == "PUBLISH" and q["qos"] > 0 and q["dup"])
                    f = "F5c" if replays > rm else None
                    out.append(V("C06", "receive-maximum-exceeded", f"transport {t}: {len(unresolved)} unresolved ids {sorted(unresolved)} > Receive Maximum {rm}", step=when[0], finding=f))
            elif side == "S":
                if p["type"] in ("PUBACK", "PUBCOMP"):
                    unresolved.pop(p["id"], None)
                elif p["type"] == "PUBREC" and p["rc"] >= 0x80:
                    unresolved.pop(p["id"], None)
    # refused publishes leave nothing behind
    prev = None
    for st in run.steps:
        if st.op == "publish" and any(e.startswith("ret publish err NotReady") for e in st.events) and prev is not None and st.state:
            a, b = prev.state, st.state
            if (a.ret_ids(), a.rel_ids(), a.q, a.qmax) != (b.ret_ids(), b.rel_ids(), b.q, b.qmax) or prev.h != st.h[:len(prev.h)] or len(st.h) != len(prev.h):
                out.append(V("C06", "refusal-left-trace", f"{a.raw} -> {b.raw}", step=st.idx))
        if any(re.match(r"ret (poll|recv|drive) err Resource.InflightExhausted", e) for e in st.events):
            out.append(V("C06", "qos2-exchange-dropped", "InflightExhausted while processing an acknowledgement", step=st.idx))
        # "refused locally with the not-ready error": when the window is full (quota 0 by the books) AND the
        # eight retained slots are full, the crate's slot check comes first and the refusal is
        # InflightExhausted (known finding F27; nothing is left behind either way)
        if st.op == "publish" and prev is not None and prev.state is not None and prev.state.live == "1" and prev.state.q == 0 \
                and any(e.startswith("ret publish err Resource.InflightExhausted") for e in st.events):
            out.append(V("C06", "beyond-window-refusal-is-not-notready", f"publish beyond the window (quota 0 of {prev.state.qmax}, {len(prev.state.ret)} retained) refused with InflightExhausted", step=st.idx, finding="F27"))
        # the remaining quota never exceeds the negotiated maximum (QuotaP; C06_quota_books_balance): a
        # quota above it lets the client start more exchanges than the broker's Receive Maximum, whatever
        # has been replayed (this is not the F5c history: there the quota is 0)
        if st.state is not None and st.state.live == "1" and st.state.q > st.state.qmax:
            out.append(V("C06", "quota-above-maximum", f"send quota {st.state.q} > maximum {st.state.qmax}: {st.state.raw[:120]}", step=st.idx))
        if st.state is not None:
            prev = st
    return out


# ------------------------------------------------------------------------------------------------
# C07
# ------------------------------------------------------------------------------------------------

def c07(run, an=None):
    """In use = accepted and still waiting for ITS final acknowledgement (decided from the history of
    consumed acknowledgements, not from the client's own bookkeeping), plus the client's own lists."""
    an = an or Analysis(run)
    out = []
    inuse = {}              # id -> dict(kind, rec)
    gen = None
    for st in run.steps:
        s = st.state
        # acknowledgements consumed in this step
        for (when, side, p) in an.events:
            if side != "S" or when[0] != st.idx:
                continue
            if p["type"] == "CONNACK":
                if p["rc"] < 0x80 and not p["session_present"]:
                    inuse = {}
                continue
            i = p.get("id")
            u = inuse.get(i)
            if u is None:
                continue
            if p["type"] == "PUBACK" and u["kind"] == "pub1":
                del inuse[i]
            elif p["type"] == "PUBREC" and u["kind"] == "pub2":
                if norm_rc(p["rc"]) >= 0x80 and not u["rec"]:
                    del inuse[i]
                else:
                    u["rec"] = True
            elif p["type"] == "PUBCOMP" and u["kind"] == "pub2" and u["rec"]:
                del inuse[i]
            elif p["type"] == "SUBACK" and u["kind"] == "sub":
                del inuse[i]
            elif p["type"] == "UNSUBACK" and u["kind"] == "unsub":
                del inuse[i]
        if s is not None and gen is not None and s.gen != gen:
            inuse = {}
        for e in st.events:
            m = re.match(r"ret (publish|subscribe|unsubscribe) ok op (\d+) (\w+) (\d+) (\d+)", e)
            if m:
                ident, kind = int(m.group(4)), m.group(3)
                if ident == 0:
                    out.append(V("C07", "zero-id", e, step=st.idx))
                if ident in inuse:
                    out.append(V("C07", "id-reused-while-in-use", f"{e}: identifier {ident} still belongs to a {inuse[ident]['kind']} operation waiting for its final acknowledgement", step=st.idx))
                inuse[ident] = {"kind": kind, "rec": False}
        if s is not None:
            ids = s.ret_ids() + s.rel_ids()
            if 0 in ids:
                out.append(V("C07", "zero-id", s.raw, step=st.idx))
            if len(ids) != len(set(ids)):
                out.append(V("C07", "duplicate-id-in-flight", f"in flight: retained {s.ret_ids()} release {s.rel_ids()}", step=st.idx))
            gen = s.gen
    return out


# ------------------------------------------------------------------------------------------------
# C08
# ------------------------------------------------------------------------------------------------

ENUMERATED = ("non-canonical variable byte integer", "variable byte integer longer than four bytes", "reserved packet type 0",
              "client-only packet type", "with flags", "PUBLISH with QoS 3", "field past end of packet", "trailing bytes",
              "invalid UTF-8 string", "variable byte integer past end of packet", "CONNACK acknowledge flags")


def framed_exactly(data):
    """First byte, a remaining length (any 1-4 byte form, canonical or not) and exactly that many bytes."""
    if len(data) < 2:
        return False
    val = 0
    for i in range(4):
        if 1 + i >= len(data):
            return False
        b = data[1 + i]
        val |= (b & 0x7F) << (7 * i)
        if not b & 0x80:
            return len(data) == 2 + i + val
    return False


def reference_decode(data):
    """Classify one complete buffer as the reference sees it: ('ok', description) / ('bad', reason) / ('skip', why).
    Frame level only: property blocks stay raw (their interior is judged separately)."""
    try:
        pkt, end = parse_server_packet(data, 0, raw_props=True)
    except Incomplete:
        return ("bad", "field past end of packet")
    except Malformed as e:
        return ("bad", str(e))
    if end != len(data):
        return ("skip", "more than one packet")
    return ("ok", pkt)


def describe(pkt):
    """The text minimq::verif::decode prints for this packet."""
    h = lambda b: b.hex() or "-"
    t = pkt["type"]
    if t == "CONNACK":
        return f"connack sp={int(pkt['session_present'])} rc={norm_rc(pkt['rc']):02x} props={h(pkt['props_raw'])}"
    if t == "PUBLISH":
        return (f"publish topic={h(pkt['topic'])} id={pkt['id'] if pkt['id'] is not None else 'none'} qos={pkt['qos']} "
                f"retain={int(pkt['retain'])} dup={int(pkt['dup'])} props={h(pkt['props_raw'])} payload={h(pkt['payload'])}")
    if t in ("PUBACK", "PUBREC", "PUBREL", "PUBCOMP"):
        body_len = pkt["len"] - 2
        if body_len == 2:
            r = " rc=none props=none"
        elif body_len == 3:
            r = f" rc={norm_rc(pkt['rc']):02x} props=none"
        else:
            r = f" rc={norm_rc(pkt['rc']):02x} props={h(pkt.get('props_raw', b''))}"
        return f"{t.lower()} id={pkt['id']}{r}"
    if t in ("SUBACK", "UNSUBACK"):
        return f"{t.lower()} id={pkt['id']} props={h(pkt['props_raw'])} codes={h(pkt['codes'])}"
    if t == "DISCONNECT":
        body_len = pkt["len"] - 2
        pr = "none" if body_len < 2 else h(pkt.get("props_raw", b""))
        return f"disconnect rc={norm_rc(pkt['rc']):02x} props={pr}"
    if t == "PINGRESP":
        return "pingresp"
    return None


KNOWN_RC = {0x00, 0x01, 0x02, 0x04, 0x10, 0x11, 0x18, 0x19, 0x80, 0x81, 0x82, 0x83, 0x84, 0x85, 0x86, 0x87, 0x88, 0x89,
            0x8c, 0x8d, 0x8e, 0x8f, 0x90, 0x91, 0x92, 0x93, 0x94, 0x95, 0x96, 0x97, 0x98, 0x99, 0x9a, 0x9b, 0x9c, 0x9d,
            0x9e, 0x9f, 0xa0, 0xa1, 0xa2}


def norm_rc(rc):
    return rc if rc in KNOWN_RC else 0xFF


def valid_stream_rejected(run, an, prop):
    """Every packet the broker sent on this transport is a valid, acceptable server packet that fits
    the receive buffer: then the client must never answer with the invalid-packet error."""
    out = []
    rxcap = int(run.cfg.get("rx", "0"))
    for t, n in enumerate(run.nets):
        data = bytes(n["rx"])
        if not data:
            continue
        pkts, tail, err = parse_server_stream(data)
        if err or tail or not pkts:
            continue
        ok = True
        for k, p in enumerate(pkts):
            if p["len"] > rxcap:
                ok = False
            if k == 0:
                if p["type"] != "CONNACK":
                    ok = False
                else:
                    try:
                        q, _ = parse_server_packet(p["raw"], 0, strict=True)
                        for pid, v in q.get("props", []):
                            if (pid == 0x12 and len(v) > 64) or (pid == 0x24 and v > 1):
                                ok = False
                    except (Malformed, Incomplete):
                        ok = False
            elif p["type"] not in ("PUBLISH", "PUBACK", "PUBREC", "PUBREL", "PUBCOMP", "SUBACK", "UNSUBACK", "PINGRESP"):
                ok = False
            elif p.get("id") == 0:
                ok = False
            if "props_raw" in p and k > 0:
                try:
                    props_block_items(p["props_raw"])
                except Malformed:
                    ok = False
        if not ok:
            continue
        for st in run.steps:
            if st.net_after == t and any(re.match(r"ret \w+ err Peer.InvalidPacket", e) for e in st.events):
                out.append(V(prop, "valid-stream-rejected", f"transport {t}: the broker sent only valid packets ({[p['type'] for p in pkts][:8]}…) but the client reported an invalid packet", step=st.idx))
                break
    return out


def c08(run, an=None):
    out = valid_stream_rejected(run, an, "C08")
    if run.ended == "panic":
        out.append(V("C08", "panic", "the client panicked", step=len(run.steps) - 1))
    for st in run.steps:
        if st.op == "decode" and len(st.tok) == 2:
            try:
                data = unhex(st.tok[1])
            except ValueError:
                continue
            dec = [e for e in st.events if e.startswith("dec ")]
            if not dec:
                continue
            got = dec[0][4:]
            if not framed_exactly(data):
                continue      # the packet reader only ever hands over exactly the declared length
            cls, info = reference_decode(data)
            if cls == "ok":
                if info["type"] == "AUTH":
                    continue
                want = describe(info)
                if want is None:
                    continue
                # beyond the frame: is the inside of the property block well-formed?
                inner_bad = False
                for key in ("props_raw",):
                    if key in info:
                        try:
                            props_block_items(info[key])
                        except Malformed:
                            inner_bad = True
                if got == "err":
                    if inner_bad:
                        continue
                    out.append(V("C08", "valid-rejected", f"{data.hex()} is a valid {info['type']} but was rejected", step=st.idx))
                elif got != want:
                    out.append(V("C08", "fields-differ", f"{data.hex()}: expected '{want}' got '{got}'", step=st.idx))
                elif inner_bad and any(k in inner_reason(info) for k in ENUMERATED):
                    out.append(V("C08", "malformed-accepted", f"{data.hex()}: the property block is malformed inside ({inner_reason(info)}) but the packet was accepted", step=st.idx, finding="F8"))
            elif cls == "bad":
                if got != "err" and any(k in info for k in ENUMERATED):
                    out.append(V("C08", "malformed-accepted", f"{data.hex()} ({info}) was accepted as '{got}'", step=st.idx))
    # API path: an invalid packet kills the handle and is not partially acted upon
    prev = None
    for st in run.steps:
        if any(re.match(r"ret (poll|recv|drive) err Peer.InvalidPacket", e) for e in st.events) and st.state:
            if st.state.live != "0":
                out.append(V("C08", "not-latched", "InvalidPacket returned but the handle is still live", step=st.idx))
        if st.state is not None:
            prev = st
    return out


def inner_reason(info):
    try:
        props_block_items(info.get("props_raw", b""))
    except Malformed as e:
        return str(e)
    return ""


# ------------------------------------------------------------------------------------------------
# C09
# ------------------------------------------------------------------------------------------------

def parse_props_arg(s):
    """Directive property list -> list of (pid, value) in the reference's representation."""
    out = []
    if s == "-":
        return out
    for item in s.split(","):
        k, v = item.split("=", 1)
        pid = int(k, 16)
        ty = PROPS[pid][1]
        if ty in ("u8", "u16", "u32", "var"):
            out.append((pid, int(v)))
        elif ty == "pair":
            a, b = v.split("/")
            out.append((pid, (unhex(a), unhex(b))))
        else:
            out.append((pid, unhex(v)))
    return out


def c09(run, an=None):
    an = an or Analysis(run)
    out = []
    cfg = run.cfg
    # whatever the broker cannot decode is not "exactly what the application asked to send"
    for v in c01(run, an):
        if v["kind"] == "malformed-stream" and v["finding"] is None:
            out.append(V("C09", "undecodable", v["detail"], step=v["step"]))
    # CONNECT of every transport
    assigned = unhex(cfg.get("cid", "-"))
    for t, n in enumerate(an.nets):
        if not n["client"] or n["client"][0]["type"] != "CONNECT":
            continue
        c = n["client"][0]
        want_props = {0x27: int(cfg["rx"]), 0x11: int(cfg["exp"]), 0x21: 8}
        got_props = dict((pid, v) for pid, v in c["props"])
        if got_props != want_props:
            out.append(V("C09", "connect-properties", f"transport {t}: {got_props} expected {want_props}"))
        if c["keepalive"] != int(cfg["ka"]):
            out.append(V("C09", "connect-keepalive", f"transport {t}: keep-alive {c['keepalive']} configured {cfg['ka']}"))
        if cfg["auth"] == "none":
            if c["user"] is not None or c["password"] is not None:
                out.append(V("C09", "connect-auth", f"transport {t}: unexpected credentials"))
        else:
            u, pw = cfg["auth"].split("/")
            if c["user"] != unhex(u) or c["password"] != unhex(pw):
                out.append(V("C09", "connect-auth", f"transport {t}: credentials differ"))
        if cfg["will"] == "none":
            if c["will"] is not None:
                out.append(V("C09", "connect-will", f"transport {t}: unexpected will"))
        else:
            parts = cfg["will"].split("/", 4)
            w = c["will"]
            if w is None or w["topic"] != unhex(parts[0]) or w["payload"] != unhex(parts[1]) or w["qos"] != int(parts[2]) \
                    or w["retain"] != (parts[3] == "1") or w["props"] != parse_props_arg(parts[4]):
                out.append(V("C09", "connect-will", f"transport {t}: will differs from the configuration"))
    # requests: the packet(s) written for an accepted request carry exactly the request
    hidx = 0
    for st in run.steps:
        for e in st.events:
            m = re.match(r"ret (publish|subscribe|unsubscribe) ok op (\d+) (\w+) (\d+) (\d+)", e)
            if not m:
                continue
            op, k, kind, ident, gen = m.group(1), int(m.group(2)), m.group(3), int(m.group(4)), int(m.group(5))
            req = find_request(run, st, op)
            if req is None:
                continue
            pk = first_packet(an, st, ident, {"publish": "PUBLISH", "subscribe": "SUBSCRIBE", "unsubscribe": "UNSUBSCRIBE"}[op], req)
            if pk is None:
                # the operation returned its handle, so its packet was written and flushed on this connection
                t = st.net_after
                if an.nets[t]["cerr"] is None and not an.nets[t]["ctail"] and not any(p2.get("id") == ident and p2["when"] <= (st.idx, 10 ** 6) for p2 in an.nets[t]["client"]):
                    out.append(V("C09", "accepted-request-not-on-wire", f"{e}: no packet with identifier {ident} was written on transport {t}", step=st.idx))
                continue
            out += compare_request(req, pk, kind, st)
        # QoS 0 publishes
        if any(e.startswith("ret publish ok none") for e in st.events):
            req = find_request(run, st, "publish")
            if req is None:
                continue
            lo = req.idx
            cand = [p for (w, s, p) in an.events if s == "C" and p["type"] == "PUBLISH" and p["qos"] == 0 and lo <= w[0] <= st.idx]
            if cand:
                out += compare_request(req, cand[-1], "pub0", st)
        if any(e.startswith("ret disconnect ok") for e in st.events):
            req = find_request(run, st, "disconnect")
            if req is None or req.state is None:
                continue
            cand = [p for (w, s, p) in an.events if s == "C" and p["type"] == "DISCONNECT" and req.idx <= w[0] <= st.idx]
            if cand:
                out += compare_disconnect(req, cand[-1], st)
    return out


def find_request(run, st, op):
    """The directive step that started the operation completing at step st."""
    for s in reversed(run.steps[: st.idx + 1]):
        if s.op == op:
            return s
        if s.op in ("connect", "publish", "subscribe", "unsubscribe", "disconnect", "poll", "recv", "drive") and s.idx != st.idx:
            return None
    return None


def first_packet(an, st, ident, ptype, req):
    for (w, s, p) in an.events:
        if s == "C" and p["type"] == ptype and p.get("id") == ident and w[0] >= req.idx and not p.get("dup"):
            return p
    return None


def compare_request(req, pk, kind, st):
    out = []
    tok = req.tok
    if req.op == "publish":
        qos_req, retain, topic, payload, props = int(tok[1]), tok[2] == "1", unhex(tok[3]), tok[4], tok[5]
        extra = tok[6:]
        want = parse_props_arg(props)
        c1 = [x[3:] for x in extra if x.startswith("c1=")]
        c2 = [x[3:] for x in extra if x.startswith("c2=")]
        corr = None
        if c1:
            corr = unhex(c1[0])
        if c2:
            corr = unhex(c2[0])
        if corr is not None:
            want = [(0x09, corr)] + want
        if pk["topic"] != topic:
            out.append(V("C09", "publish-topic", f"sent {pk['topic'].hex()} requested {topic.hex()}", step=st.idx))
        if payload not in ("fail",) and not payload.startswith("lie:") and pk["payload"] != unhex(payload):
            out.append(V("C09", "publish-payload", f"sent {pk['payload'].hex()} requested {payload}", step=st.idx))
        if pk["retain"] != retain:
            out.append(V("C09", "publish-retain", "", step=st.idx))
        if pk["props"] != want:
            out.append(V("C09", "publish-properties", f"sent {pk['props']} requested {want}", step=st.idx))
        kq = {"pub0": 0, "pub1": 1, "pub2": 2}[kind]
        if pk["qos"] != kq or kq > qos_req:
            out.append(V("C09", "publish-qos", f"sent qos {pk['qos']} handle {kind} requested {qos_req}", step=st.idx))
    elif req.op == "subscribe":
        want = parse_props_arg(tok[1])
        filters = []
        for f in tok[2:]:
            t, q, nl, rap, rh = f.split("/")
            filters.append((unhex(t), int(q), nl == "1", rap == "1", int(rh)))
        if pk["props"] != want or pk["filters"] != filters:
            out.append(V("C09", "subscribe", f"sent {pk['filters']} {pk['props']} requested {filters} {want}", step=st.idx))
    elif req.op == "unsubscribe":
        want = parse_props_arg(tok[1])
        topics = [unhex(t) for t in tok[2:]]
        if pk["props"] != want or pk["topics"] != topics:
            out.append(V("C09", "unsubscribe", f"sent {pk['topics']} requested {topics}", step=st.idx))
    return out


def compare_disconnect(req, pk, st):
    out = []
    rc, props = req.tok[1], req.tok[2]
    want_rc = 0 if rc == "none" else norm_rc(int(rc, 16))
    if pk["rc"] != want_rc:
        out.append(V("C09", "disconnect-reason", f"sent {pk['rc']:#x} requested {rc}", step=st.idx))
    want = [] if props == "none" else parse_props_arg(props)
    if pk["props"] != want:
        out.append(V("C09", "disconnect-properties", f"sent {pk['props']} requested {want}", step=st.idx))
    return out


# ------------------------------------------------------------------------------------------------
# C10
# ------------------------------------------------------------------------------------------------

def writes_prompt(run):
    """The property's premise "on a transport that accepts writes": virtual time never advances
    while a write or flush is pending (ticks only happen while the client waits for input)."""
    last_io = None
    for st in run.steps:
        if st.op == "tick" and last_io is not None and last_io.startswith(("wp ", "fp ")):
            return False
        io = st.io()
        if io:
            last_io = io[-1]
        if any(e.startswith("ret ") or e in ("cancel", "drop") for e in st.events):
            last_io = None if not io or not io[-1].startswith(("wp ", "fp ")) or any(e.startswith("ret ") for e in st.events) else last_io
    return True



def stalled_ping_timeout(run, an):
    """Finding F23 (only looked for when time passes while a write or flush is pending): the ping
    timeout is measured from the start of the service pass that wrote the PINGREQ, not from the moment
    the PINGREQ had left — after a stalled write the connection is declared dead less than the
    round-trip bound after the PINGREQ. Reported only when the timeout is exactly what the code
    computes (start of that pass + 5 s); anything else is left to the prompt-transport rules."""
    out = []
    clock = 0
    times = {}
    for st in run.steps:
        if st.op == "tick" and len(st.tok) == 2 and st.tok[1].isdigit() and "bad-op" not in st.events:
            clock += int(st.tok[1])
        times[st.idx] = clock
    for t, n in enumerate(an.nets):
        for p in [q for q in n["client"] if q["type"] == "PINGREQ"]:
            tp = p["flush_time"]
            if tp is None:
                continue
            if any(q["type"] == "PINGRESP" and q["when"] > p["when"] for q in n["server"]):
                continue
            # the step in which this PINGREQ's first byte was accepted, then back over the steps in
            # which the same write was only pending
            first = None
            for (si, ei, pos, ln) in run.nets[t]["writes"]:
                if pos <= p["start"] < pos + ln:
                    first = si
                    break
            if first is None:
                continue
            s0 = first
            while s0 > 0 and any(e == f"wp {t}" for e in run.steps[s0 - 1].events) and not any(e.startswith(f"w {t} ") for e in run.steps[s0 - 1].events):
                s0 -= 1
            if not any(e == f"wp {t}" for e in run.steps[s0].events) and s0 == first:
                continue
            ts = times[s0]          # `times` already includes a tick performed in step s0 itself
            for st in run.steps[p["when"][0]:]:
                if st.net_after != t:
                    break
                for e in st.events:
                    m = re.match(r"ret (poll|recv|drive) err Disconnected @(\d+)", e)
                    if m and not any(ev.startswith(("rz ", "re ", "we ", "fe ", "wz ")) for ev in st.events) and not consumed_disconnect(an, t, st.idx):
                        tm = int(m.group(2))
                        if ts + 5000000 <= tm < tp + 5000000 and ts < tp:
                            out.append(V("C10", "early-timeout", f"PINGREQ written from {ts} µs (write stalled), completed at {tp} µs, Disconnected at {tm} µs: {tm - tp} µs after it left", step=st.idx, finding="F23"))
                        return out
    return out

def c10(run, an=None):
    """Checked on runs where the application stays inside poll/recv, every tick is followed by `go`
    and no time passes while a write is pending (the generator tags them family=keepalive);
    elsewhere only the dead-peer clauses are checked."""
    an = an or Analysis(run)
    out = []
    if not writes_prompt(run):
        return stalled_ping_timeout(run, an)
    strict = run.tags.get("family") == "keepalive"
    for t, n in enumerate(an.nets):
        ack = an.connack(t)
        if ack is None or ack["rc"] >= 0x80:
            continue
        k = int(run.cfg["ka"])
        for pid, v in ack.get("props", []):
            if pid == 0x13:
                k = v
        kus = k * 1000000
        pings = [p for p in n["client"] if p["type"] == "PINGREQ"]
        if k == 0 and pings:
            out.append(V("C10", "ping-with-keepalive-0", f"transport {t}", step=pings[0]["when"][0]))
        # dead-peer detection: Disconnected caused by a ping timeout must not come early
        for p in pings:
            tp = p["flush_time"]
            if tp is None:
                continue
            resp = [q for q in n["server"] if q["type"] == "PINGRESP" and q["when"] > p["when"]]
            for st in run.steps[p["when"][0]:]:
                if st.net_after != t:
                    break
                for e in st.events:
                    m = re.match(r"ret (poll|recv|drive) err Disconnected @(\d+)", e)
                    was_live = st.idx > 0 and run.steps[st.idx - 1].state is not None and run.steps[st.idx - 1].state.live == "1"
                    if m and was_live and not any(ev.startswith(("rz ", "re ", "we ", "fe ", "wz ")) for ev in st.events) and not consumed_disconnect(an, t, st.idx):
                        tm = int(m.group(2))
                        if not resp or resp[0]["when"][0] > st.idx:
                            if tm < tp + 5000000:
                                out.append(V("C10", "early-timeout", f"PINGREQ completed at {tp}, Disconnected at {tm}", step=st.idx))
                        else:
                            rt = run.time_of(run.steps[resp[0]["when"][0]])
                            # a PINGRESP consumed in time must not lead to a disconnect from this ping
                            nxt = [q for q in pings if q["when"] > resp[0]["when"]]
                            if not nxt:
                                out.append(V("C10", "disconnect-after-pingresp", f"PINGRESP consumed at step {resp[0]['when'][0]} but Disconnected at {tm}", step=st.idx))
                        break
        # ... and not later than the bound: a tick that reaches PINGREQ + 5 s while the application
        # waits in poll/recv must end the wait
        clock = 0
        times = {}
        for st in run.steps:
            if st.op == "tick" and len(st.tok) == 2 and st.tok[1].isdigit() and "bad-op" not in st.events:
                clock += int(st.tok[1])
            times[st.idx] = clock
        for p in pings:
            tp = p["flush_time"]
            if tp is None:
                continue
            answered = [q for q in n["server"] if q["type"] == "PINGRESP" and q["when"] > p["when"]]
            later_ping = [q for q in pings if q["when"] > p["when"]]
            for st in run.steps[p["when"][0] + 1:]:
                if st.net_after != t or st.state is None:
                    break
                if answered and answered[0]["when"][0] <= st.idx:
                    break
                if later_ping and later_ping[0]["when"][0] <= st.idx:
                    break
                if any(e.startswith("ret ") or e in ("cancel", "drop") for e in st.events) and not (st.op == "tick"):
                    if any(re.match(r"ret \w+ err", e) for e in st.events) or any(e in ("cancel", "drop") for e in st.events):
                        break
                if st.op == "tick" and times[st.idx] >= tp + 5000000:
                    prevs = run.steps[st.idx - 1]
                    waiting = prevs.state is not None and prevs.state.live == "1" and suspended_in_wait(run, st.idx)
                    if waiting and not any(re.match(r"ret (poll|recv) err Disconnected", e) for e in st.events):
                        out.append(V("C10", "late-timeout", f"PINGREQ completed at {tp} µs and was not answered; at {times[st.idx]} µs the wait in poll/recv goes on: {[e for e in st.events][:4]}", step=st.idx))
                    break
        if not strict or k == 0:
            continue
        # cadence: consecutive completed client packets at most K apart while waiting in poll/recv
        times = [(p["flush_time"], p) for p in n["client"] if p["flush_time"] is not None]
        for (a, pa), (b, pb) in zip(times, times[1:]):
            if b - a > kus and in_poll_throughout(run, pa["when"][0], pb["when"][0]):
                f = "F12" if k < 5 else None
                out.append(V("C10", "gap-exceeds-keepalive", f"transport {t}: packets completed at {a} and {b} µs, keep-alive {k} s", step=pb["when"][0], finding=f))
        # the tail: still connected and waiting at the end of the connection's life
        if times:
            last_t, last_p = times[-1]
            end_step, end_time = connection_end(run, t)
            if end_time is not None and end_time - last_t > kus and in_poll_throughout(run, last_p["when"][0], end_step):
                f = "F12" if k < 5 else None
                out.append(V("C10", "gap-exceeds-keepalive", f"transport {t}: last packet at {last_t}, still waiting at {end_time}, keep-alive {k} s", step=end_step, finding=f))
    return out


def suspended_in_wait(run, idx):
    """Before step idx a poll/recv was suspended and blocked on reading (its last I/O event was rp/rs)."""
    for st in reversed(run.steps[:idx]):
        if any(e.startswith("ret ") or e in ("cancel", "drop") for e in st.events):
            return False
        io = st.io()
        if io:
            if not io[-1].startswith(("rp ", "rs ")):
                return False
            # find the operation that is suspended
            for s2 in reversed(run.steps[: st.idx + 1]):
                if s2.op in ("poll", "recv"):
                    return True
                if s2.op in ("publish", "subscribe", "unsubscribe", "disconnect", "drive", "connect"):
                    return False
            return False
    return False


def consumed_disconnect(an, t, step):
    return any(q["type"] == "DISCONNECT" and q["when"][0] == step for q in an.nets[t]["server"])


def in_poll_throughout(run, lo, hi):
    """Between steps lo..hi the application was inside poll/recv at every tick and each tick was
    followed by `go` (so writes and flushes complete without delay)."""
    steps = run.steps[lo: hi + 1]
    for i, st in enumerate(steps):
        if st.op in ("tick",):
            nxt = run.steps[st.idx + 1] if st.idx + 1 < len(run.steps) else None
            if nxt is None or nxt.op not in ("go", "tick", "rx"):
                return False
        if st.op in ("publish", "subscribe", "unsubscribe", "disconnect", "drive", "cancel", "drop", "connect", "d"):
            if st.idx != lo:
                return False
    return True


def connection_end(run, t):
    last = None
    for st in run.steps:
        if st.net_after == t and st.state is not None and st.state.live == "1":
            tm = None
            if st.op == "tick":
                last = st
    if last is None:
        return None, None
    # absolute time = sum of ticks up to that step
    tm = sum(int(s.tok[1]) for s in run.steps[: last.idx + 1] if s.op == "tick" and len(s.tok) == 2 and s.tok[1].isdigit() and "bad-op" not in s.events)
    nxt = run.steps[last.idx + 1] if last.idx + 1 < len(run.steps) else None
    if nxt is not None and nxt.op == "go" and nxt.state is not None and nxt.state.live == "1":
        return nxt.idx, tm
    return None, None


# ------------------------------------------------------------------------------------------------
# C11
# ------------------------------------------------------------------------------------------------

FATAL = re.compile(r"ret (\w+) err (Transport\.\w+|Disconnected|Peer\.InvalidPacket) @")



def dead_by_history(run):
    """Indices of the steps at whose start the connection handle is dead according to what the client
    itself reported earlier (a fatal result, or a completed/failed disconnect) — not according to its
    own `is_connected()`."""
    out = set()
    dead = False
    for st in run.steps:
        if any(e.startswith("net ") for e in st.events):
            dead = False
        if dead:
            out.add(st.idx)
        for e in st.events:
            m = FATAL.match(e)
            if m and m.group(1) != "connect" and st.state is not None and st.state.live != "-":
                dead = True
            if e.startswith("ret disconnect ok") or e.startswith("ret disconnect err Transport") or e.startswith("ret disconnect err WriteZero"):
                if st.state is not None and st.state.live != "-":
                    dead = True
        if st.op in ("drop",) or any(e == "drop" for e in st.events):
            dead = False
    return out

def c11(run, an=None):
    out = []
    dead = False
    an = an or Analysis(run)
    # a broker DISCONNECT (any reason code) consumed by the session ends the connection: from the step
    # in which its last byte was read on, the handle must be dead
    disc_at = {}
    for t, n in enumerate(an.nets):
        for p in n["server"]:
            if p["type"] == "DISCONNECT" and not p.get("handshake_garbage"):
                disc_at.setdefault(p["when"][0], t)
    for st in run.steps:
        if st.idx in disc_at and st.state is not None and st.net_after == disc_at[st.idx] and st.state.live == "1" \
                and any(e.startswith("ret ") and not e.startswith("ret connect") for e in st.events):
            out.append(V("C11", "not-latched", f"a broker DISCONNECT was consumed but the handle is still live: {[e for e in st.events if e.startswith('ret')]}", step=st.idx))
        if any(e.startswith("net ") for e in st.events):
            dead = False
            # the connect itself may fail; a failed connect yields no handle
        if dead and st.state is not None and st.state.live in ("0", "1"):
            if st.state.live != "0":
                out.append(V("C11", "resurrected", "is_connected() true after a fatal result", step=st.idx))
            if st.caps.get("cp") != "000":
                out.append(V("C11", "can-publish-on-dead", f"can_publish {st.caps.get('cp')}", step=st.idx))
            if st.op in ("publish", "subscribe", "unsubscribe", "disconnect", "poll", "recv", "drive", "d", "go", "tick"):
                io = st.io()
                if io:
                    out.append(V("C11", "io-on-dead-handle", f"{st.directive}: {io[0]}", step=st.idx))
            for e in st.rets():
                m = re.match(r"ret (\w+) (ok|err) ?(\S*)", e)
                if not m:
                    continue
                if m.group(1) == "disconnect":
                    if m.group(2) != "ok":
                        out.append(V("C11", "disconnect-on-dead", e, step=st.idx))
                elif m.group(1) != "connect" and not (m.group(2) == "err" and m.group(3) in ("Disconnected", "NoConnection")):
                    # validation errors that precede the liveness check are not network operations
                    if m.group(3) == "InvalidRequest":
                        continue
                    out.append(V("C11", "op-on-dead", e, step=st.idx))
        for e in st.events:
            m = FATAL.match(e)
            if m and m.group(1) != "connect" and st.state is not None and st.state.live != "-":
                dead = True
            if e.startswith("ret disconnect ok") or e.startswith("ret disconnect err Transport") or e.startswith("ret disconnect err WriteZero"):
                if st.state is not None and st.state.live != "-":
                    dead = True
        if st.op in ("drop",) or any(e == "drop" for e in st.events):
            dead = False
        if dead and st.state is not None and st.state.live == "1":
            out.append(V("C11", "not-latched", f"fatal result but handle live: {[e for e in st.events if e.startswith('ret')]}", step=st.idx))
    return out


# ------------------------------------------------------------------------------------------------
# C12 / C16
# ------------------------------------------------------------------------------------------------

def benign_start(run):
    for st in run.steps:
        if any(c.startswith("# benign-from-here") for c in st.comments):
            return st.idx
    return None


def connect_attempts(run, an):
    """(connect step, result step, result line, transport, steps) for every connect directive."""
    out = []
    for st in run.steps:
        if st.op != "connect" or st.state is None:
            continue
        steps = []
        res = None
        for s2 in run.steps[st.idx:]:
            if s2.idx > st.idx and s2.op in ("connect", "publish", "subscribe", "unsubscribe", "disconnect", "poll", "recv", "drive", "drop", "cancel"):
                break
            steps.append(s2)
            r = [e for e in s2.events if e.startswith("ret connect")]
            if r:
                res = (s2, r[0])
                break
        out.append((st, res, st.net_after, steps))
    return out


def healthy(run, an, attempt):
    """The transport performed no fault, nothing was cancelled, and the broker's answer is a valid
    CONNACK with a success code whose properties a client must accept."""
    st, res, t, steps = attempt
    if res is None:
        return False
    for s2 in steps:
        if any(e.startswith(("we ", "wz ", "fe ", "re ", "rz ")) or e == "cancel" for e in s2.events if not (s2 is st and e == "cancel")):
            return False
    # judged by what the broker SENT on this transport (not by what the client made of it)
    try:
        pkt, end = parse_server_packet(bytes(run.nets[t]["rx"]), 0, strict=True)
    except (Malformed, Incomplete):
        return False
    if pkt["type"] != "CONNACK" or pkt["rc"] >= 0x80:
        return False
    for pid, v in pkt.get("props", []):
        if pid == 0x12 and len(v) > 64:
            return False
        if pid == 0x24 and v > 1:
            return False
    return True


def c12(run, an=None):
    an = an or Analysis(run)
    out = []
    for attempt in connect_attempts(run, an):
        st, res, t, steps = attempt
        if res is None:
            continue
        if " ok " not in res[1]:
            if healthy(run, an, attempt):
                f = "F9" if "Resource.BufferTooSmall" in res[1] else None
                out.append(V("C12", "reconnect-failed", f"{res[1]} on a healthy transport with a conformant broker", step=res[0].idx, finding=f))
            continue
        n = an.nets[t]
        if not n["client"] or n["client"][0]["type"] != "CONNECT" or n["client"][0]["start"] != 0:
            out.append(V("C12", "no-complete-connect-first", f"transport {t}", step=st.idx))
        s = res[0].state
        if s is not None:
            if s.rd not in ("0/-",):
                out.append(V("C12", "partial-inbound-carried-over", s.rd, step=res[0].idx))
            bad = [e for e in s.ret if e[3] != "w0"] + [e for e in s.rel if e[2] != "w0"] + [e for e in s.ctl if e[3] != "w0"]
            if bad:
                out.append(V("C12", "partial-outbound-carried-over", f"after connect: {s.raw}", step=res[0].idx))
            # "leaves the session fully usable": a fresh session starts with nothing in flight, so the
            # whole send window of this CONNACK must be available
            if " connected" in res[1] and not s.ret and not s.rel and s.q != s.qmax:
                out.append(V("C12", "fresh-session-window-short", f"after connect to a fresh session: send quota {s.q} of {s.qmax}, nothing in flight", step=res[0].idx))
    return out


def c16(run, an=None):
    an = an or Analysis(run)
    out = []
    for st in run.steps:
        if "spin" in st.events:
            # keep-alive below 10 s: fixed (F13); any spin is a violation
            out.append(V("C16", "spin", f"{st.directive}: self-woken without progress 64 times", step=st.idx))
    if run.ended == "budget":
        out.append(V("C16", "unbounded-output", "byte budget exceeded", step=len(run.steps) - 1))
    # poll returns Ok(None) only after real progress within that poll
    cur = None
    progress = False
    for st in run.steps:
        if st.op in ("poll", "recv"):
            cur = st
            progress = False
        if cur is not None:
            for e in st.events:
                if e.startswith(("w ", "f ", "r ")):
                    progress = True
                if e.startswith("ret poll ok none"):
                    if not progress and not pending_progress(run, cur):
                        out.append(V("C16", "poll-none-without-progress", st.directive, step=st.idx))
                    cur = None
                elif e.startswith("ret ") or e == "cancel":
                    cur = None
    tk = Tokens(run, an)
    for kind in ("PUBLISH1", "PUBLISH2", "SUBSCRIBE", "UNSUBSCRIBE"):
        for v in sent_check(run, an, tk, "C16", kind)[:1]:
            v["kind"] = "marked-sent-but-never-transmitted"
            out.append(v)
    # "every pending publish, subscribe and unsubscribe completes": the broker's final acknowledgement
    # was consumed but the operation stays in flight — no amount of polling will complete it
    out += ack_effects(run, an, tk, "C16", ("PUBACK", "PUBREC", "PUBCOMP", "SUBACK", "UNSUBACK"))[:3]
    b = benign_start(run)
    if b is not None and run.steps and run.ended is None:
        # (1) blocked on input while outbound work is pending: the operation waits for the broker
        # although it still owes bytes — nothing the broker can do will help.
        for st in run.steps[b:]:
            s = st.state
            if s is None or s.live != "1" or st.op not in ("go", "poll", "recv", "d"):
                continue
            io = st.io()
            if io and io[-1].startswith("rs ") and not any(e.startswith("ret ") for e in st.events):
                stuck = [e for e in s.ret if e[3] != "s"] + [e for e in s.rel if e[2] != "s"] + [e for e in s.ctl]
                if stuck:
                    out.append(V("C16", "waiting-with-outbound-pending", f"blocked on read with unsent work {stuck}: {s.raw}", step=st.idx))
                    break
        # (2) a retained packet that can never be sent keeps every poll failing
        toolarge = [st for st in run.steps[b:] if any(re.match(r"ret (poll|recv|drive) err Resource.PacketTooLarge", e) for e in st.events)]
        if len(toolarge) >= 2:
            out.append(V("C16", "no-quiescence", f"every poll fails with PacketTooLarge: a retained packet exceeds the new Maximum Packet Size: {toolarge[-1].state.raw if toolarge[-1].state else ''}", step=toolarge[-1].idx, finding="F14"))
    return out


def pending_progress(run, poll_step):
    """A poll may return Ok(None) right away when a packet was already complete in the reader or an
    outbound step was already in progress: its progress is the handling of that packet."""
    prev = run.steps[poll_step.idx - 1] if poll_step.idx > 0 else None
    if prev is None or prev.state is None:
        return True
    s = prev.state
    rd = s.rd.split("/")
    if rd[1] != "-" and int(rd[0]) >= int(rd[1]):
        return True
    return False


# ------------------------------------------------------------------------------------------------
# C14
# ------------------------------------------------------------------------------------------------

def c14(run, an=None):
    an = an or Analysis(run)
    out = []
    for t, n in enumerate(an.nets):
        if n["client"] and n["client"][0]["type"] == "CONNECT":
            mp = dict(n["client"][0]["props"]).get(0x27)
            if mp != int(run.cfg["rx"]):
                out.append(V("C14", "advertised-maximum", f"CONNECT Maximum Packet Size {mp}, receive buffer {run.cfg['rx']}"))
        ack = an.connack(t)
        if ack is None or ack["rc"] >= 0x80:
            continue
        limit = None
        for pid, v in ack.get("props", []):
            if pid == 0x27:
                limit = v
        if limit is None:
            continue
        for p in n["client"][1:]:
            if p["len"] > limit:
                out.append(V("C14", "packet-exceeds-maximum", f"transport {t}: {p['type']} of {p['len']} bytes, broker maximum {limit}", step=p["when"][0]))
    for st in run.steps:
        if any(re.match(r"ret (poll|recv|drive) err Peer.InvalidPacket", e) for e in st.events) and st.state is not None and st.state.live == "1":
            out.append(V("C14", "oversize-inbound-did-not-end-connection", "an inbound packet was rejected but the handle is still live", step=st.idx))
    # "if a mandatory acknowledgement would not fit the connection is closed instead": an acknowledgement
    # or PUBREL queued on an earlier connection meets a smaller Maximum Packet Size; the step that would
    # send it reports PacketTooLarge and the handle must not stay live (the defect F14b, repaired in the crate)
    reported = False
    for st in run.steps:
        if reported or st.state is None or st.state.live != "1":
            continue
        if any(re.match(r"ret (poll|recv|drive|publish|subscribe|unsubscribe) err Resource.PacketTooLarge", e) for e in st.events):
            unsent_ctl = [c for c in st.state.ctl if c[3] != "s"]
            unsent_rel = [r for r in st.state.rel if r[-1] != "s"]
            if st.state.mps is not None and st.state.mps < 6 and (unsent_ctl or unsent_rel):
                what = "acknowledgement" if unsent_ctl else "PUBREL"
                out.append(V("C14", "ack-does-not-fit-connection-not-closed", f"a queued {what} exceeds the Maximum Packet Size of this connection; the call reports PacketTooLarge and the handle stays live: {st.state.raw[:140]}", step=st.idx, ))
                reported = True
    prev = None
    for st in run.steps:
        for e in st.events:
            m = re.match(r"ret (publish|subscribe|unsubscribe|disconnect) err Resource.PacketTooLarge", e)
            if m and prev is not None and st.state is not None and find_request(run, st, m.group(1)) is st:
                a, b = prev.state, st.state
                if (a.ret_ids(), a.rel_ids(), a.q) != (b.ret_ids(), b.rel_ids(), b.q) or len(prev.h) != len(st.h):
                    out.append(V("C14", "oversize-request-left-trace", f"{a.raw} -> {b.raw}", step=st.idx))
        if st.state is not None:
            prev = st
    return out


# ------------------------------------------------------------------------------------------------
# C17 (arena) / C18 (handles) / C19 (validation) / C20 (reply)
# ------------------------------------------------------------------------------------------------

def c17(run, an=None, tk=None):
    an = an or Analysis(run)
    tk = tk or Tokens(run, an)
    out = []
    # an entry whose acknowledgement was consumed must give its arena bytes and its slot back at once
    # (judged from the history of consumed acknowledgements, not from the client's own bookkeeping)
    for v in ack_effects(run, an, tk, "C17", ("PUBACK", "PUBREC", "PUBCOMP", "SUBACK", "UNSUBACK")):
        v["kind"] = "acknowledged-entry-not-released"
        out.append(v)
    for t in tk.tokens:
        txs = [(w, p) for (w, p) in t["tx"] if p["type"] != "PUBREL"]
        if len(txs) > 1:
            first = txs[0][1]["raw"]
            for (w, p) in txs[1:]:
                if not same_but_dup(first, p["raw"]):
                    out.append(V("C17", "retransmission-differs", f"id {t['id']}: first {first.hex()} later {p['raw'].hex()}", step=w[0]))
    cap = int(run.cfg.get("tx", "0"))
    for st in run.steps:
        s = st.state
        if s is None:
            continue
        end = 0
        for (i, off, ln, state) in s.ret:
            if off < end:
                out.append(V("C17", "arena-overlap", s.raw, step=st.idx))
            end = off + ln
        if end > cap:
            out.append(V("C17", "arena-overflow", s.raw, step=st.idx))
        if s.live == "1" and not s.ret and not s.rel and s.q != s.qmax:
            out.append(V("C17", "slot-leak", f"nothing is in flight but the send quota is {s.q} of {s.qmax}: {s.raw}", step=st.idx))
    # an entry marked sent for which no identifier-bearing packet was ever written on this connection
    # can never be acknowledged: its arena bytes and its slot are lost for good
    for kind in ("PUBLISH1", "PUBLISH2", "SUBSCRIBE", "UNSUBSCRIBE"):
        for v in sent_check(run, an, tk, "C17", kind)[:1]:
            v["kind"] = "entry-can-never-be-acknowledged"
            out.append(v)
    return out


def c17_twin(aged, fresh):
    """Probe results on an aged quiescent session equal those on a fresh one."""
    out = []

    def probe(run):
        start = None
        for st in run.steps:
            if any(c.startswith("# probe-from-here") for c in st.comments):
                start = st.idx
        if start is None:
            return None
        # comparable only when everything has been acknowledged and the connection is up
        before = run.steps[start - 1].state if start > 0 else None
        if before is None or before.live != "1" or before.ret or before.rel or before.ctl:
            return None
        res = []
        for st in run.steps[start:]:
            for e in st.events:
                m = re.match(r"ret (publish|subscribe|unsubscribe) (ok|err \S+)", e)
                if m:
                    res.append(m.group(1) + " " + m.group(2))
        return res
    a, f = probe(aged), probe(fresh)
    if a is not None and f is not None and a != f:
        out.append(V("C17", "capacity-leak", f"aged session answers {a}, fresh session {f}"))
    return out


def c18(run, an=None, tk=None):
    an = an or Analysis(run)
    tk = tk or Tokens(run, an)
    out = ack_effects(run, an, tk, "C18", ("PUBACK", "PUBREC", "PUBCOMP", "SUBACK", "UNSUBACK"))
    handles = []          # dict(kind,id,gen,issued_step, done_step)
    fresh_steps = []      # steps at which a success CONNACK with session-present 0 was consumed
    for t, n in enumerate(an.nets):
        if n["server"] and n["server"][0]["type"] == "CONNACK" and n["server"][0]["rc"] < 0x80 and not n["server"][0]["session_present"]:
            fresh_steps.append(n["server"][0]["when"][0])
    for st in run.steps:
        for e in st.events:
            m = re.match(r"ret (publish|subscribe|unsubscribe) ok op (\d+) (\w+) (\d+) (\d+)", e)
            if m:
                handles.append({"k": int(m.group(2)), "kind": m.group(3), "id": int(m.group(4)), "gen": int(m.group(5)),
                                "issued": st.idx, "done": None})
        s = st.state
        if s is None:
            continue
        # terminal acks consumed in this step
        for (when, side, p) in an.events:
            if side != "S" or when[0] != st.idx:
                continue
            for h in handles:
                if h["done"] is not None or h["gen"] != gen_at(run, st.idx, before=True):
                    continue
                if h["id"] != p.get("id"):
                    continue
                term = {"pub1": ("PUBACK",), "sub": ("SUBACK",), "unsub": ("UNSUBACK",)}.get(h["kind"])
                if h["kind"] == "pub2":
                    if p["type"] == "PUBCOMP" and h.get("rec"):
                        h["done"] = st.idx
                    elif p["type"] == "PUBREC":
                        if p["rc"] >= 0x80 and not h.get("rec"):
                            h["done"] = st.idx
                        else:
                            h["rec"] = True
                elif term and p["type"] in term:
                    h["done"] = st.idx
                # a failure code is surfaced as Rejected by the poll that consumed it
                rc = first_failure(p)
                if rc is not None and h["done"] == st.idx or (rc is not None and p["type"] == "PUBCOMP" and h["done"] == st.idx):
                    if not any(re.match(rf"ret (poll|recv|drive) err Peer.Rejected.{norm_rc(rc):02x}", e) for e in st.events):
                        if not any(e.startswith("ret ") and " err " in e for e in st.events):
                            out.append(V("C18", "failure-not-surfaced", f"{p['type']} id {p['id']} rc {rc:#x} consumed but the result is {st.rets()}", step=st.idx))
        inflight = set(s.ret_ids()) | set(s.rel_ids())
        for h in handles:
            if h["done"] is not None and h["done"] <= st.idx and h.get("gone") is None and h["id"] not in inflight:
                h["gone"] = st.idx
        for h in handles:
            if h["k"] >= len(st.h):
                continue
            got = st.h[h["k"]]
            if s.gen != h["gen"] or any(h["issued"] < f <= st.idx for f in fresh_steps):
                want = "i"
            elif h["done"] is not None and h["done"] <= st.idx:
                want = "c"
            else:
                want = "p"
            if got != want:
                f = None
                if got == "p" and want == "c" and h.get("gone") is not None:
                    f = "F15"
                out.append(V("C18", "status", f"handle {h['k']} ({h['kind']} id {h['id']} gen {h['gen']}) reports {got}, history says {want}", step=st.idx, finding=f))
                break
    return out


def first_failure(p):
    if p["type"] in ("SUBACK", "UNSUBACK"):
        for c in p.get("codes", b""):
            if norm_rc(c) >= 0x80:
                return c
        return None
    rc = p.get("rc", 0)
    return rc if norm_rc(rc) >= 0x80 else None


def gen_at(run, step, before=False):
    idx = step - 1 if before else step
    while idx >= 0:
        if run.steps[idx].state is not None:
            return run.steps[idx].state.gen
        idx -= 1
    return 0


CTX_OF = {"publish": "PUBLISH", "subscribe": "SUBSCRIBE", "unsubscribe": "UNSUBSCRIBE", "disconnect": "DISCONNECT"}


def legal_props(items, where):
    for pid, v in items:
        if pid not in CLIENT_ALLOWED[where]:
            return False
        if isinstance(v, int) and not valid_value(pid, v):
            return False
        if pid == 0x24 and v == 2:
            return False
    return True


def c19(run, an=None):
    an = an or Analysis(run)
    out = []
    # the will
    if run.cfg.get("will", "none") != "none":
        parts = run.cfg["will"].split("/", 4)
        try:
            items = parse_props_arg(parts[4])
            legal = legal_props(items, "WILL")
            if legal and run.ended == "cfgerr":
                out.append(V("C19", "legal-will-property-refused", run.cfg["will"]))
            if not legal and run.ended != "cfgerr":
                out.append(V("C19", "illegal-will-property-accepted", run.cfg["will"]))
        except (ValueError, KeyError):
            pass
    prev = None
    for st in run.steps:
        if st.op in CTX_OF and st.state is not None and prev is not None and prev.state is not None and prev.state.live == "1":
            try:
                if st.op == "publish":
                    items = parse_props_arg(st.tok[5])
                elif st.op == "disconnect":
                    items = None if st.tok[2] == "none" else parse_props_arg(st.tok[2])
                else:
                    items = parse_props_arg(st.tok[1])
            except (ValueError, KeyError, IndexError):
                prev = st
                continue
            rets = [e for e in st.events if e.startswith("ret " + st.op)]
            # a string or binary value of more than 65535 bytes has no MQTT encoding: an illegal value
            # (topic, filters and property values; the payload of a PUBLISH has no such limit)
            fields = [st.tok[3], st.tok[5]] if st.op == "publish" else st.tok[1:]
            if any(len(h) > 131070 for f in fields for h in re.split(r"[,=/]", f)):
                # the result may come in a later POLL of the same operation
                late = list(rets)
                for s2 in run.steps[st.idx + 1:]:
                    if late or s2.op not in ("d", "go", "tick"):
                        break
                    late = [e for e in s2.events if e.startswith("ret " + st.op)]
                if late and late[0].startswith("ret " + st.op + " ok"):
                    out.append(V("C19", "illegal-value-accepted", f"{st.op} with a topic, filter or property value longer than 65535 bytes -> {late[0]}", step=st.idx))
            legal = True if items is None else legal_props(items, CTX_OF[st.op])
            empty = st.op in ("subscribe", "unsubscribe") and len(st.tok) == 2
            if rets:
                r = rets[0]
                if (not legal or empty):
                    if "err InvalidRequest" not in r:
                        if not ("err" in r and st.op == "publish"):     # publish drains first and may fail there
                            out.append(V("C19", "invalid-request-accepted", f"{st.directive} -> {r}", step=st.idx))
                    else:
                        a, b = prev.state, st.state
                        same = (a.ret_ids(), a.rel_ids(), a.q, a.pid, a.gen) == (b.ret_ids(), b.rel_ids(), b.q, b.pid, b.gen) and prev.h == st.h
                        if st.op != "publish" and (not same or st.io()):
                            out.append(V("C19", "refused-request-left-trace", f"{st.directive}: {a.raw} -> {b.raw}; io {st.io()[:2]}", step=st.idx))
                        if st.op == "publish" and (a.ret_ids(), a.rel_ids(), a.q, a.gen) != (b.ret_ids(), b.rel_ids(), b.q, b.gen):
                            out.append(V("C19", "refused-request-left-trace", f"{st.directive}: {a.raw} -> {b.raw}", step=st.idx))
                elif "err InvalidRequest" in r:
                    # a field longer than 65535 bytes cannot be encoded; that refusal is C09's
                    if any(len(t) > 131070 for t in st.tok):
                        pass
                    else:
                        out.append(V("C19", "legal-request-refused", f"{st.directive[:300]} -> {r}", step=st.idx))
                elif st.op == "disconnect" and items and "err Resource.BufferTooSmall" in r:
                    out.append(V("C19", "legal-request-refused", f"{st.directive} -> {r}", step=st.idx, finding="F11"))
        if st.state is not None:
            prev = st
    # requests on a dead handle are refused with the disconnected error and leave nothing behind
    # (dead = the client reported a fatal result earlier on this connection, whatever it claims now)
    prev = None
    deadset = dead_by_history(run)
    for st in run.steps:
        if st.op in ("publish", "subscribe", "unsubscribe") and st.state is not None and prev is not None and prev.state is not None \
                and (prev.state.live == "0" or st.idx in deadset) and st.state.live != "-":
            a, b = prev.state, st.state
            if (a.ret_ids(), a.rel_ids(), a.q, a.pid) != (b.ret_ids(), b.rel_ids(), b.q, b.pid) or len(prev.h) != len(st.h):
                out.append(V("C19", "dead-handle-request-left-trace", f"{st.directive[:80]}: {a.raw} -> {b.raw}", step=st.idx))
            for e in st.rets():
                m = re.match(r"ret (publish|subscribe|unsubscribe) (ok|err) ?(\S*)", e)
                if m and not (m.group(2) == "err" and m.group(3) in ("Disconnected", "InvalidRequest", "NoConnection")):
                    out.append(V("C19", "dead-handle-request-not-refused", f"{st.directive[:80]} -> {e}", step=st.idx))
        if st.state is not None:
            prev = st
    # the returned handle matches the QoS actually used
    for t, n in enumerate(an.nets):
        ack = an.connack(t)
        if ack is None or ack["rc"] >= 0x80:
            continue
        mq = dict(ack.get("props", [])).get(0x24)
        for st in run.steps:
            if st.op != "publish" or st.net_after != t or len(st.tok) < 2 or not st.tok[1].isdigit():
                continue
            req = int(st.tok[1])
            eff = min(req, mq) if (mq is not None and run.cfg.get("dg") == "1") else req
            # result of this publish
            for s2 in run.steps[st.idx:]:
                r = [e for e in s2.events if e.startswith("ret publish")]
                if r:
                    m = re.match(r"ret publish ok (none|op \d+ (\w+))", r[0])
                    if m and find_request(run, s2, "publish") is st:
                        got = 0 if m.group(1) == "none" else {"pub1": 1, "pub2": 2}.get(m.group(2), -1)
                        if got != eff:
                            out.append(V("C19", "handle-does-not-match-qos", f"{st.directive[:60]}: Maximum QoS {mq}, downgrade {run.cfg.get('dg')}: expected QoS {eff}, result {r[0]}", step=s2.idx))
                    break
                if s2.idx > st.idx and s2.op in ("publish", "subscribe", "unsubscribe", "disconnect", "poll", "recv", "drive", "connect", "cancel", "drop"):
                    break
    # downgrade: no PUBLISH above the broker's Maximum QoS when auto-downgrade is on
    if run.cfg.get("dg") == "1":
        for t, n in enumerate(an.nets):
            ack = an.connack(t)
            if ack is None or ack["rc"] >= 0x80:
                continue
            mq = dict(ack.get("props", [])).get(0x24)
            if mq is None:
                continue
            for p in n["client"]:
                if p["type"] == "PUBLISH" and p["qos"] > mq and not p["dup"]:
                    out.append(V("C19", "qos-above-maximum", f"transport {t}: PUBLISH qos {p['qos']} > Maximum QoS {mq}", step=p["when"][0]))
    return out


def c20(run, an=None):
    out = []
    for st in run.steps:
        ev = st.events
        for i, e in enumerate(ev):
            if not e.startswith("msg "):
                continue
            kv = parse_msg_line(e)
            block = unhex(kv["props"])
            rt = cd = None
            # reference: first ResponseTopic / CorrelationData that decodes, scanning leniently
            try:
                items = props_block_items(block)
            except Malformed:
                continue          # blocks with malformed items: the lazy iterator's behaviour is C08's
            for pid, v in items:
                if pid == 0x08 and rt is None:
                    rt = v
                if pid == 0x09 and cd is None:
                    cd = v
            follow = {}
            owned = {}
            for f in ev[i + 1:]:
                if f.startswith("reply "):
                    follow["reply"] = f[6:]
                elif f.startswith("replyp "):
                    follow["replyp"] = f[7:]
                elif f.startswith("ownedpub "):
                    follow["ownedpub"] = f[9:]
                elif f.startswith("owned "):
                    p = f.split(" ")
                    owned[p[1]] = p[2:]
                elif f.startswith(("s live", "msg ")):
                    break
            if rt is None:
                for k, v in follow.items():
                    if v != "none":
                        out.append(V("C20", "reply-without-response-topic", f"{k} {v}", step=st.idx))
                for k, v in owned.items():
                    if v != ["none"]:
                        out.append(V("C20", "reply-without-response-topic", f"owned {k} {v}", step=st.idx))
                continue
            for k, user in (("reply", False), ("replyp", True), ("ownedpub", True)):
                v = follow.get(k)
                if v is None:
                    continue
                if v == "none" or v.startswith("err"):
                    if v.startswith("err") and len(rt) + (len(cd) if cd else 0) > 60000:
                        continue
                    out.append(V("C20", "reply-missing", f"{k} {v} though the response topic is {rt.hex()}", step=st.idx))
                    continue
                try:
                    pk, end = parse_client_packet(bytes.fromhex(v), 0)
                except (Malformed, Incomplete) as ex:
                    out.append(V("C20", "reply-undecodable", f"{k} {v}: {ex}", step=st.idx))
                    continue
                want = ([(0x09, cd)] if cd is not None else []) + ([(0x26, (b"k", b"v"))] if user else [])
                if pk["type"] != "PUBLISH" or pk["topic"] != rt or pk["props"] != want or pk["payload"] != b"R":
                    out.append(V("C20", "reply-differs", f"{k}: topic {pk.get('topic', b'').hex()} props {pk.get('props')} expected topic {rt.hex()} props {want}", step=st.idx))
            for k, v in owned.items():
                tc, cc = [int(x) for x in k.split("/")]
                fits = len(rt) <= tc and (cd is None or len(cd) <= cc)
                if fits:
                    want = ["ok", rt.hex() or "-", (cd.hex() or "-") if cd is not None else "none"]
                    if v != want:
                        out.append(V("C20", "owned-differs", f"owned {k}: {v} expected {want}", step=st.idx))
                elif v != ["err"]:
                    out.append(V("C20", "owned-truncated", f"owned {k}: {v} but topic {len(rt)} / correlation {len(cd) if cd else 0} bytes do not fit", step=st.idx))
    return out


# ------------------------------------------------------------------------------------------------
# twins: C13, C15
# ------------------------------------------------------------------------------------------------

def outline(run, an=None):
    """Complete client packets per transport (raw bytes) and delivered messages."""
    an = an or Analysis(run)
    pk = [[p["raw"].hex() for p in n["client"]] for n in an.nets]
    msgs = [e for st in run.steps for e in st.events if e.startswith("msg ")]
    return pk, msgs


def c13_twin(a, b, c=None):
    out = []
    enq = b.tags.get("enqueued", "1") == "1"
    ref = a if enq or c is None else c
    pa, ma = outline(ref)
    pb, mb = outline(b)
    # Where exactly a keep-alive PINGREQ falls between the other packets depends on the instant the
    # scheduler is consulted, and a re-issued poll consults it at once (Theorems/C13Machine.lean,
    # C13_corner_pingreq_reorders: the uncancelled run writes PUBLISH, PINGREQ, the cancelled one
    # PINGREQ, PUBLISH when the ping became due while the operation was suspended). The comparison is
    # therefore: the same packets in the same order apart from PINGREQs, and the same number of PINGREQs.
    def split(packets):
        rest = [[q for q in tr if q != "c000"] for tr in packets]
        pings = [sum(1 for q in tr if q == "c000") for tr in packets]
        return rest, pings
    if pa != pb and split(pa) == split(pb):
        pb = pa
    if pa != pb or ma != mb:
        # F2b: the cancelled operation is a disconnect that had written part of its packet
        f = None
        for (si, ei, op) in current_op_at_cancel(b):
            if op is not None and op.op == "disconnect":
                f = "F2b"
        out.append(V("C13", "cancelled-run-differs", f"reference ({'uncancelled' if ref is a else 'without the operation'}): packets {pa} msgs {len(ma)}; cancelled: packets {pb} msgs {len(mb)}", finding=f))
    return out


def c15_twin(a, b):
    out = []
    wa = [bytes(n["wire"]).hex() for n in a.nets]
    wb = [bytes(n["wire"]).hex() for n in b.nets]
    if wa != wb:
        out.append(V("C15", "outbound-differs", f"whole-chunk run wrote {wa}, fragmented run wrote {wb}"))
    # `poll`/`drive` returning Ok(None) only says "something advanced"; how many such returns it takes
    # to get the same work done depends on how many pieces the transport cut it into, so they are not
    # operation results in the sense of the property
    def results(run):
        return [re.sub(r" @\d+$", "", e) for st in run.steps for e in st.events
                if e.startswith(("ret ", "msg ")) and not re.match(r"ret (poll|drive) ok none", e)]
    ra, rb = results(a), results(b)
    # twins that also drop an operation (write-side timed twins with `cancel`): whether the dropped
    # operation had already returned depends on how much the transport accepted before the drop, so
    # only delivered messages and errors are comparable there
    if any(e == "cancel" for r in (a, b) for st in r.steps for e in st.events):
        ra = [e for e in ra if e.startswith("msg ") or " err " in e]
        rb = [e for e in rb if e.startswith("msg ") or " err " in e]
    if ra != rb:
        out.append(V("C15", "results-differ", f"{ra} vs {rb}"))
    return out


def relabel(vs, prop, kinds):
    out = []
    for v in vs:
        if v["kind"] in kinds and v["finding"] is None:
            w = dict(v)
            w["prop"] = prop
            out.append(w)
    return out


def read_progress_lost(run, an, prop):
    """When an operation is dropped, every byte it took from the transport must be accounted for in
    the reader (committed before the next await); otherwise the rest of the stream is misaligned."""
    out = []
    for t, n in enumerate(run.nets):
        data = bytes(n["rx"])
        pkts, tail, err = parse_server_stream(data)
        if err:
            continue
        ends = [p["end"] for p in pkts]
        consumed = 0
        reads = list(n["reads"])
        for st in run.steps:
            for (si, ei, cum) in reads:
                if si == st.idx:
                    consumed = cum
            if st.state is None or st.net_after != t or st.state.live != "1":
                continue
            if not any(e == "cancel" for e in st.events) and st.op != "cancel":
                continue
            done = max([e for e in ends if e <= consumed], default=0)
            want = consumed - done
            got = int(st.state.rd.split("/")[0])
            if got != want:
                out.append(V(prop, "consumed-bytes-lost", f"transport {t}: {consumed} bytes were read, {done} belong to complete packets, so {want} must be pending in the reader, but it holds {got}: the dropped operation lost bytes it had taken", step=st.idx))
                break
    return out


def c13(run, an=None):
    """Single-run part of C13: whatever was cancelled, every valid inbound PUBLISH is still handed
    over exactly as sent and a valid stream is never rejected (the twin comparison is c13_twin)."""
    an = an or Analysis(run)
    return valid_stream_rejected(run, an, "C13") + read_progress_lost(run, an, "C13") + \
        relabel(c04(run, an), "C13", ("not-delivered", "delivered-differs", "duplicate-delivered"))


def c15(run, an=None):
    an = an or Analysis(run)
    return valid_stream_rejected(run, an, "C15") + relabel(c04(run, an), "C15", ("not-delivered", "delivered-differs", "duplicate-delivered"))


MONITORS = {"C01": c01, "C02": c02, "C03": c03, "C04": c04, "C05": c05, "C06": c06, "C07": c07, "C08": c08, "C09": c09,
            "C10": c10, "C11": c11, "C12": c12, "C13": c13, "C14": c14, "C15": c15, "C16": c16, "C17": c17, "C18": c18, "C19": c19, "C20": c20}
