#!/bin/bash
# seed_round3.sh <Cxx>…: confirm variant E of each property in its scratch worktree, then apply it to
# /repo, run that property's quick check, undo, and write meta.json. One property after the other
# (they share /repo).
for P in "$@"; do
  out=$(/verif/tools/seed_confirm.sh $P E 2>&1)
  if echo "$out" | grep -q "^CONFIRMED"; then
    echo "$out" > /verif/seeded/$P-e/confirm.log
    /verif/tools/seed_eval.sh $P-e $P
    python3 /verif/tools/seed_meta.py /verif/seeded/$P-e
  else
    echo "$P-e NOT CONFIRMED"; echo "$out" | tail -8
  fi
done
