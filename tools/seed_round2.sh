#!/bin/bash
# seed_round2.sh <Cxx>…: confirm variants C and D of each property in parallel (separate worktrees),
# then evaluate the confirmed ones one after the other (they share /repo).
for P in "$@"; do
  ( for V in C D; do
      v=$(echo $V | tr A-Z a-z)
      out=$(/verif/tools/seed_confirm.sh $P $V 2>&1)
      if echo "$out" | grep -q "^CONFIRMED"; then echo "$out" > /verif/seeded/$P-$v/confirm.log; else echo "$out" > /tmp/seed/$P-$V.notconfirmed; fi
    done ) &
done
wait
for P in "$@"; do
  for v in c d; do
    if [ -f /verif/seeded/$P-$v/confirm.log ]; then
      /verif/tools/seed_eval.sh $P-$v $P
      python3 /verif/tools/seed_meta.py /verif/seeded/$P-$v
    else
      echo "$P-$v NOT CONFIRMED"
    fi
  done
done
