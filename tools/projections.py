"""Per-property projections of a trace (DESIGN.md Appendix A).

The correspondence check compares, for property Cxx, only what Cxx's theorems talk about, so that a
rewrite which changes some other observable does not break this property's tie.
"""
import re


def strip_time(line):
    return re.sub(r" @\d+$", "", line)


def state_fields(line, keep):
    toks = line.split(" ")
    out = [toks[0]]
    for t in toks[1:]:
        k = t.split("=", 1)[0]
        if k in keep:
            out.append(t)
    return " ".join(out)


def no_offsets(line):
    """Drop arena layout (offsets, used) from a state line."""
    def fix(m):
        items = m.group(1)
        if items == "-":
            return "ret=-"
        return "ret=" + ",".join(":".join((i.split(":")[0], i.split(":")[2], i.split(":")[3])) for i in items.split(","))
    line = re.sub(r"ret=(\S+)", fix, line)
    line = re.sub(r" used=\d+", "", line)
    return line


def wire_concat(lines):
    """Replace write events by the concatenated wire per transport (chunking-independent)."""
    wires = {}
    out = []
    for l in lines:
        if l.startswith("w "):
            _, t, hx = l.split(" ")
            wires.setdefault(t, []).append("" if hx == "-" else hx)
        else:
            out.append(l)
    for t in sorted(wires, key=int):
        out.append(f"wire {t} " + "".join(wires[t]))
    return out


SEMANTIC = {"live", "pid", "gen", "sp", "res", "ret", "rel", "ctl", "in2", "q", "mps", "mq"}


def project(prop, text):
    lines = [l for l in text.split("\n") if l]
    if prop in ("C01", "C09", "C14"):
        keep = [strip_time(l) for l in lines if l.startswith(("w ", "wz ", "we ", "ret ", "net ", "cancel", "drop", "panic", "bad-", "cfgerr"))]
        keep += [state_fields(no_offsets(l), {"live", "mps"}) for l in lines if l.startswith("s live")]
        return wire_concat(keep) if prop != "C01" else keep
    if prop in ("C02", "C03", "C05", "C06", "C07", "C18"):
        keep = []
        for l in lines:
            if l.startswith(("w ", "ret ", "net ", "cancel", "drop", "h ", "panic", "r ")):
                keep.append(strip_time(l))
            elif l.startswith("s live"):
                keep.append(state_fields(no_offsets(l), SEMANTIC))
        return keep
    if prop in ("C04", "C08", "C20"):
        keep = []
        for l in lines:
            if l.startswith(("ret ", "msg ", "reply", "owned", "dec ", "panic", "net ", "r ", "rz", "re ")):
                keep.append(strip_time(l))
            elif l.startswith("w "):
                keep.append(l)
            elif l.startswith("s live"):
                keep.append(state_fields(no_offsets(l), {"live", "in2", "ctl", "ret", "rel", "q"}))
        return wire_concat(keep)
    if prop == "C10":
        keep = []
        for l in lines:
            if l.startswith(("f ", "ret ", "spin", "net ")):
                keep.append(l)
            elif l.startswith("w "):
                keep.append(l)
            elif l.startswith("s live"):
                keep.append(state_fields(l, {"live", "ka", "np", "pt"}))
        return keep
    if prop == "C11":
        keep = []
        for l in lines:
            if l.startswith(("w ", "wz", "we", "wp", "f ", "fe", "fp", "r ", "rs", "rp", "rz", "re ", "ret ", "net ", "cancel", "drop", "c cp")):
                keep.append(strip_time(l))
            elif l.startswith("s live"):
                keep.append(state_fields(l, {"live"}))
        return keep
    if prop == "C12":
        keep = [strip_time(l) for l in lines if l.startswith(("ret connect", "net ", "w "))]
        keep += [state_fields(l, {"live", "rd", "sp"}) for l in lines if l.startswith("s live")]
        return keep
    if prop in ("C13", "C15"):
        keep = [strip_time(l) for l in lines if l.startswith(("w ", "ret ", "msg ", "net ", "cancel", "drop", "r "))]
        keep += [state_fields(no_offsets(l), SEMANTIC | {"rd"}) for l in lines if l.startswith("s live")]
        return keep
    if prop == "C16":
        keep = []
        for l in lines:
            if l.startswith(("spin", "budget", "ret ", "c cp", "w ", "f ", "r ", "net ")):
                keep.append(strip_time(l))
            elif l.startswith("s live"):
                keep.append(state_fields(no_offsets(l), SEMANTIC | {"np", "pt"}))
        return keep
    if prop == "C17":
        return [strip_time(l) for l in lines if l.startswith(("w ", "ret ", "s live", "net ", "c cp"))]
    if prop == "C19":
        keep = []
        for l in lines:
            if l.startswith(("ret ", "w ", "h ", "net ", "cfgerr", "bad-")):
                keep.append(strip_time(l))
            elif l.startswith("s live"):
                keep.append(state_fields(no_offsets(l), SEMANTIC))
        return keep
    return [strip_time(l) for l in lines]
