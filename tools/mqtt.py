"""Independent strict MQTT 5.0 reference (OASIS Standard) used by the monitors.

Written from the specification, not from minimq: a strict decoder for the packets a *client* may
send, a decoder for server packets (used to interpret what the simulated broker sent), and the
property-legality table (spec table 2-4).
"""

MAXV = 268435455


class Malformed(Exception):
    pass


class Incomplete(Exception):
    pass


# property id -> (name, type)
PROPS = {
    0x01: ("PayloadFormatIndicator", "u8"),
    0x02: ("MessageExpiryInterval", "u32"),
    0x03: ("ContentType", "str"),
    0x08: ("ResponseTopic", "str"),
    0x09: ("CorrelationData", "bin"),
    0x0B: ("SubscriptionIdentifier", "var"),
    0x11: ("SessionExpiryInterval", "u32"),
    0x12: ("AssignedClientIdentifier", "str"),
    0x13: ("ServerKeepAlive", "u16"),
    0x15: ("AuthenticationMethod", "str"),
    0x16: ("AuthenticationData", "bin"),
    0x17: ("RequestProblemInformation", "u8"),
    0x18: ("WillDelayInterval", "u32"),
    0x19: ("RequestResponseInformation", "u8"),
    0x1A: ("ResponseInformation", "str"),
    0x1C: ("ServerReference", "str"),
    0x1F: ("ReasonString", "str"),
    0x21: ("ReceiveMaximum", "u16"),
    0x22: ("TopicAliasMaximum", "u16"),
    0x23: ("TopicAlias", "u16"),
    0x24: ("MaximumQoS", "u8"),
    0x25: ("RetainAvailable", "u8"),
    0x26: ("UserProperty", "pair"),
    0x27: ("MaximumPacketSize", "u32"),
    0x28: ("WildcardSubscriptionAvailable", "u8"),
    0x29: ("SubscriptionIdentifierAvailable", "u8"),
    0x2A: ("SharedSubscriptionAvailable", "u8"),
}

# spec table 2-4: which packet types (and the will) may carry which property
ALLOWED = {
    "CONNECT": {0x11, 0x15, 0x16, 0x17, 0x19, 0x21, 0x22, 0x26, 0x27},
    "WILL": {0x01, 0x02, 0x03, 0x08, 0x09, 0x18, 0x26},
    "CONNACK": {0x11, 0x12, 0x13, 0x15, 0x16, 0x1A, 0x1C, 0x1F, 0x21, 0x22, 0x24, 0x25, 0x26, 0x27, 0x28, 0x29, 0x2A},
    "PUBLISH": {0x01, 0x02, 0x03, 0x08, 0x09, 0x0B, 0x23, 0x26},
    "PUBACK": {0x1F, 0x26},
    "PUBREC": {0x1F, 0x26},
    "PUBREL": {0x1F, 0x26},
    "PUBCOMP": {0x1F, 0x26},
    "SUBSCRIBE": {0x0B, 0x26},
    "SUBACK": {0x1F, 0x26},
    "UNSUBSCRIBE": {0x26},
    "UNSUBACK": {0x1F, 0x26},
    "DISCONNECT": {0x11, 0x1C, 0x1F, 0x26},
    "AUTH": {0x15, 0x16, 0x1F, 0x26},
}
# properties a CLIENT may put into a packet of that type (subset of ALLOWED where the spec restricts
# a property to the server direction)
CLIENT_ALLOWED = dict(ALLOWED)
CLIENT_ALLOWED["PUBLISH"] = ALLOWED["PUBLISH"] - {0x0B}      # Subscription Identifier: server -> client only
# Server Reference in a client DISCONNECT is legal by table 2-4 (packet type level); kept.

MULTI = {0x26, 0x0B}  # may appear more than once (0x0B only in server PUBLISH)

TYPES = {1: "CONNECT", 2: "CONNACK", 3: "PUBLISH", 4: "PUBACK", 5: "PUBREC", 6: "PUBREL", 7: "PUBCOMP",
         8: "SUBSCRIBE", 9: "SUBACK", 10: "UNSUBSCRIBE", 11: "UNSUBACK", 12: "PINGREQ", 13: "PINGRESP",
         14: "DISCONNECT", 15: "AUTH"}


def valid_value(pid, value):
    """Value ranges the specification imposes on a property."""
    if pid in (0x01, 0x17, 0x19, 0x25, 0x28, 0x29, 0x2A):
        return value in (0, 1)
    if pid == 0x24:
        return value in (0, 1)       # Maximum QoS 0 or 1 (2 is expressed by absence)
    if pid == 0x23:
        return value != 0
    if pid == 0x0B:
        return 1 <= value <= MAXV
    if pid == 0x21:
        return value != 0
    if pid == 0x27:
        return value != 0
    return True


def varint_encode(n):
    assert 0 <= n <= MAXV
    out = bytearray()
    while True:
        b = n % 128
        n //= 128
        if n:
            out.append(b | 0x80)
        else:
            out.append(b)
            return bytes(out)


def varint_decode(data, pos, strict=True):
    """Return (value, newpos). Raises Incomplete / Malformed."""
    value = 0
    for i in range(4):
        if pos + i >= len(data):
            raise Incomplete()
        b = data[pos + i]
        value |= (b & 0x7F) << (7 * i)
        if not b & 0x80:
            if strict and i > 0 and (b & 0x7F) == 0:
                raise Malformed("non-canonical variable byte integer")
            return value, pos + i + 1
    raise Malformed("variable byte integer longer than four bytes")


class Cur:
    def __init__(self, data):
        self.d = data
        self.p = 0

    def left(self):
        return len(self.d) - self.p

    def u8(self):
        if self.left() < 1:
            raise Malformed("field past end of packet")
        v = self.d[self.p]
        self.p += 1
        return v

    def u16(self):
        if self.left() < 2:
            raise Malformed("field past end of packet")
        v = int.from_bytes(self.d[self.p:self.p + 2], "big")
        self.p += 2
        return v

    def u32(self):
        if self.left() < 4:
            raise Malformed("field past end of packet")
        v = int.from_bytes(self.d[self.p:self.p + 4], "big")
        self.p += 4
        return v

    def take(self, n):
        if self.left() < n:
            raise Malformed("field past end of packet")
        v = self.d[self.p:self.p + n]
        self.p += n
        return bytes(v)

    def var(self):
        try:
            v, self.p = varint_decode(self.d, self.p)
        except Incomplete:
            raise Malformed("variable byte integer past end of packet")
        return v

    def bin(self):
        return self.take(self.u16())

    def str(self, strict_null=True):
        raw = self.bin()
        try:
            s = raw.decode("utf-8", errors="strict")
        except UnicodeDecodeError:
            raise Malformed("invalid UTF-8 string")
        # U+0000 inside a string is invalid user input (Rust &str allows it); not checked here
        return raw


def parse_props(cur, where, allowed, strict=True):
    n = cur.var()
    block = cur.take(n)
    c = Cur(block)
    out = []
    seen = set()
    while c.left():
        pid = c.var()
        if pid not in PROPS:
            raise Malformed(f"unknown property 0x{pid:02x} in {where}")
        name, ty = PROPS[pid]
        if ty == "u8":
            v = c.u8()
        elif ty == "u16":
            v = c.u16()
        elif ty == "u32":
            v = c.u32()
        elif ty == "var":
            v = c.var()
        elif ty == "str":
            v = c.str()
        elif ty == "bin":
            v = c.bin()
        else:
            v = (c.str(), c.str())
        if strict:
            if pid not in allowed:
                raise Malformed(f"property {name} not allowed in {where}")
            # repetition of a once-only property is the caller's mistake (invalid user input), not
            # something the property under test asks the client to detect: not checked here
            if isinstance(v, int) and not valid_value(pid, v):
                raise Malformed(f"property {name} has illegal value {v} in {where}")
        seen.add(pid)
        out.append((pid, v))
    return out, block


def split_packet(data, pos):
    """Frame one packet at pos: returns (first byte, body bytes, end position)."""
    if pos >= len(data):
        raise Incomplete()
    b0 = data[pos]
    rl, p = varint_decode(data, pos + 1)
    if p + rl > len(data):
        raise Incomplete()
    return b0, bytes(data[p:p + rl]), p + rl


def parse_client_packet(data, pos=0):
    """Strictly decode one packet a client may send. Returns (dict, end)."""
    b0, body, end = split_packet(data, pos)
    typ, flags = b0 >> 4, b0 & 0x0F
    if typ not in TYPES or typ in (2, 9, 11, 13):
        raise Malformed(f"packet type {typ} is not a client packet")
    name = TYPES[typ]
    c = Cur(body)
    pkt = {"type": name, "raw": bytes(data[pos:end]), "len": end - pos}
    if name == "PUBLISH":
        qos = (flags >> 1) & 3
        dup = bool(flags & 8)
        if qos == 3:
            raise Malformed("PUBLISH with QoS 3")
        if dup and qos == 0:
            raise Malformed("PUBLISH QoS 0 with DUP")
        pkt.update(qos=qos, dup=dup, retain=bool(flags & 1))
        topic = c.str()
        pkt["topic"] = topic
        if qos:
            pid = c.u16()
            if pid == 0:
                raise Malformed("packet identifier 0")
            pkt["id"] = pid
        else:
            pkt["id"] = None
        pkt["props"], pkt["props_raw"] = parse_props(c, name, CLIENT_ALLOWED[name])
        # empty topic names / wildcards in topic names are invalid *user input*; not checked here
        pkt["payload"] = c.take(c.left())
        return pkt, end
    want = {"CONNECT": 0, "PUBACK": 0, "PUBREC": 0, "PUBREL": 2, "PUBCOMP": 0, "SUBSCRIBE": 2, "UNSUBSCRIBE": 2,
            "PINGREQ": 0, "DISCONNECT": 0, "AUTH": 0}[name]
    if flags != want:
        raise Malformed(f"{name} with flags {flags:04b}")
    if name == "CONNECT":
        if c.bin() != b"MQTT":
            raise Malformed("protocol name")
        if c.u8() != 5:
            raise Malformed("protocol version")
        cf = c.u8()
        if cf & 1:
            raise Malformed("CONNECT reserved flag set")
        pkt["clean_start"] = bool(cf & 2)
        will_flag = bool(cf & 4)
        will_qos = (cf >> 3) & 3
        will_retain = bool(cf & 32)
        if not will_flag and (will_qos or will_retain):
            raise Malformed("will qos/retain without will flag")
        if will_qos == 3:
            raise Malformed("will QoS 3")
        pkt["keepalive"] = c.u16()
        pkt["props"], pkt["props_raw"] = parse_props(c, name, CLIENT_ALLOWED[name])
        pkt["client_id"] = c.str()
        if will_flag:
            wp, wraw = parse_props(c, "WILL", CLIENT_ALLOWED["WILL"])
            wt = c.str()
            wd = c.bin()
            pkt["will"] = dict(props=wp, props_raw=wraw, topic=wt, payload=wd, qos=will_qos, retain=will_retain)
        else:
            pkt["will"] = None
        pkt["user"] = c.str() if cf & 128 else None
        if cf & 64:
            pkt["password"] = c.bin()
        else:
            pkt["password"] = None
    elif name in ("PUBACK", "PUBREC", "PUBREL", "PUBCOMP"):
        pid = c.u16()
        if pid == 0:
            raise Malformed("packet identifier 0")
        pkt["id"] = pid
        pkt["rc"] = 0
        pkt["props"] = []
        if c.left():
            pkt["rc"] = c.u8()
            if c.left():
                pkt["props"], _ = parse_props(c, name, CLIENT_ALLOWED[name])
    elif name == "SUBSCRIBE":
        pid = c.u16()
        if pid == 0:
            raise Malformed("packet identifier 0")
        pkt["id"] = pid
        pkt["props"], pkt["props_raw"] = parse_props(c, name, CLIENT_ALLOWED[name])
        filters = []
        while c.left():
            t = c.str()
            o = c.u8()
            if o & 0xC0:
                raise Malformed("reserved subscription option bits")
            if o & 3 == 3:
                raise Malformed("subscription QoS 3")
            if (o >> 4) & 3 == 3:
                raise Malformed("retain handling 3")
            filters.append((t, o & 3, bool(o & 4), bool(o & 8), (o >> 4) & 3))
        if not filters:
            raise Malformed("SUBSCRIBE without topic filter")
        pkt["filters"] = filters
    elif name == "UNSUBSCRIBE":
        pid = c.u16()
        if pid == 0:
            raise Malformed("packet identifier 0")
        pkt["id"] = pid
        pkt["props"], pkt["props_raw"] = parse_props(c, name, CLIENT_ALLOWED[name])
        topics = []
        while c.left():
            topics.append(c.str())
        if not topics:
            raise Malformed("UNSUBSCRIBE without topic filter")
        pkt["topics"] = topics
    elif name == "PINGREQ":
        pass
    elif name == "DISCONNECT":
        pkt["rc"] = 0
        pkt["props"] = []
        pkt["has_rc"] = False
        pkt["has_props"] = False
        if c.left():
            pkt["rc"] = c.u8()
            pkt["has_rc"] = True
            if c.left():
                pkt["props"], pkt["props_raw"] = parse_props(c, name, CLIENT_ALLOWED[name])
                pkt["has_props"] = True
    elif name == "AUTH":
        raise Malformed("AUTH from a client that never configured enhanced authentication")
    if c.left():
        raise Malformed(f"trailing bytes in {name}")
    return pkt, end


def parse_client_stream(data):
    """Return (packets, tail, error): complete packets, the incomplete tail, first error or None."""
    pkts = []
    pos = 0
    data = bytes(data)
    while pos < len(data):
        try:
            pkt, end = parse_client_packet(data, pos)
        except Incomplete:
            return pkts, data[pos:], None
        except Malformed as e:
            return pkts, data[pos:], f"{e} at byte {pos}"
        pkt["start"] = pos
        pkt["end"] = end
        pkts.append(pkt)
        pos = end
    return pkts, b"", None


def parse_server_packet(data, pos=0, strict=False, raw_props=False):
    """Decode one packet a server sends (lenient about property legality unless strict)."""
    b0, body, end = split_packet(data, pos)
    typ, flags = b0 >> 4, b0 & 0x0F
    if typ not in TYPES:
        raise Malformed("reserved packet type 0")
    name = TYPES[typ]
    if name in ("CONNECT", "SUBSCRIBE", "UNSUBSCRIBE", "PINGREQ"):
        raise Malformed(f"client-only packet type {name}")
    c = Cur(body)
    pkt = {"type": name, "raw": bytes(data[pos:end]), "len": end - pos}
    if name == "PUBLISH":
        qos = (flags >> 1) & 3
        if qos == 3:
            raise Malformed("PUBLISH with QoS 3")
        pkt.update(qos=qos, dup=bool(flags & 8), retain=bool(flags & 1))
        pkt["topic"] = c.str(strict_null=False)
        pkt["id"] = c.u16() if qos else None
        n = c.var()
        pkt["props_raw"] = c.take(n)
        pkt["payload"] = c.take(c.left())
        return pkt, end
    want = 2 if name == "PUBREL" else 0
    if flags != want:
        raise Malformed(f"{name} with flags {flags:04b}")
    if name == "CONNACK":
        af = c.u8()
        if af > 1:
            raise Malformed("CONNACK acknowledge flags")
        pkt["session_present"] = bool(af)
        pkt["rc"] = c.u8()
        if raw_props:
            n = c.var()
            pkt["props_raw"] = c.take(n)
            pkt["props"] = []
        else:
            pkt["props"], pkt["props_raw"] = parse_props(c, name, ALLOWED[name], strict=strict)
    elif name in ("PUBACK", "PUBREC", "PUBREL", "PUBCOMP"):
        pkt["id"] = c.u16()
        pkt["rc"] = 0
        if c.left():
            pkt["rc"] = c.u8()
            if c.left():
                n = c.var()
                pkt["props_raw"] = c.take(n)
    elif name in ("SUBACK", "UNSUBACK"):
        pkt["id"] = c.u16()
        n = c.var()
        pkt["props_raw"] = c.take(n)
        pkt["codes"] = c.take(c.left())
    elif name == "PINGRESP":
        pass
    elif name == "DISCONNECT":
        pkt["rc"] = 0
        if c.left():
            pkt["rc"] = c.u8()
            if c.left():
                n = c.var()
                pkt["props_raw"] = c.take(n)
    elif name == "AUTH":
        pkt["rc"] = c.u8() if c.left() else 0
        if c.left():
            n = c.var()
            pkt["props_raw"] = c.take(n)
    if c.left():
        raise Malformed(f"trailing bytes in {name}")
    return pkt, end


def parse_server_stream(data):
    pkts = []
    pos = 0
    data = bytes(data)
    while pos < len(data):
        try:
            pkt, end = parse_server_packet(data, pos)
        except Incomplete:
            return pkts, data[pos:], None
        except Malformed as e:
            return pkts, data[pos:], f"{e} at byte {pos}"
        pkt["start"] = pos
        pkt["end"] = end
        pkts.append(pkt)
        pos = end
    return pkts, b"", None


def props_block_items(block):
    """Decode a raw property block leniently: list of (pid, value) or raises Malformed."""
    c = Cur(block)
    out = []
    while c.left():
        pid = c.var()
        if pid not in PROPS:
            raise Malformed(f"unknown property 0x{pid:02x}")
        ty = PROPS[pid][1]
        if ty == "u8":
            v = c.u8()
        elif ty == "u16":
            v = c.u16()
        elif ty == "u32":
            v = c.u32()
        elif ty == "var":
            v = c.var()
        elif ty == "str":
            v = c.str(strict_null=False)
        elif ty == "bin":
            v = c.bin()
        else:
            v = (c.str(strict_null=False), c.str(strict_null=False))
        out.append((pid, v))
    return out
