//! Watchdog for synchronous non-termination of the crate under test.
//!
//! The executor of the harness polls the crate's futures; a future that loops for ever without
//! awaiting (say, an identifier allocator that finds every identifier taken) never returns to the
//! executor, and no budget inside the process can end it. The running code therefore leaves a
//! heartbeat (one per directive, per program, per file written) and a copy of the program it is
//! executing; a watchdog thread that sees no heartbeat for `limit()` saves what is needed to replay
//! the hang and ends the process with exit status 3.
use std::sync::atomic::{AtomicU64, Ordering};
use std::sync::Mutex;
use std::time::{Duration, Instant};

static BEAT: AtomicU64 = AtomicU64::new(0);
/// Start of the program that is being generated or run (milliseconds since the watchdog's epoch; 0 = none).
static PROGRAM_START_MS: AtomicU64 = AtomicU64::new(0);
static EPOCH: std::sync::OnceLock<Instant> = std::sync::OnceLock::new();

fn now_ms() -> u64 {
    EPOCH.get_or_init(Instant::now).elapsed().as_millis() as u64 + 1
}

/// A new program starts (generator: a new driver; batch: the next file).
pub fn begin_program() {
    PROGRAM_START_MS.store(now_ms(), Ordering::Relaxed);
    beat();
}

/// Seconds one program may take before it is considered runaway (`VH_PROG_SECS`, default 60): the crate
/// keeps completing calls but the closed loop of client, scripted broker and generator never settles.
pub fn program_limit() -> Duration {
    let secs = std::env::var("VH_PROG_SECS").ok().and_then(|s| s.parse::<u64>().ok()).unwrap_or(60);
    Duration::from_secs(secs.max(1))
}
static INFLIGHT: Mutex<String> = Mutex::new(String::new());

pub const EXIT_HANG: i32 = 3;

pub fn beat() {
    BEAT.fetch_add(1, Ordering::Relaxed);
}

/// Remember the program that is about to execute its last line (generator side).
pub fn set_program(cfg_line: &str, lines: &[String]) {
    if let Ok(mut g) = INFLIGHT.lock() {
        g.clear();
        g.push_str(cfg_line);
        g.push('\n');
        for l in lines {
            g.push_str(l);
            g.push('\n');
        }
    }
    beat();
}

/// Remember a label for what is running (batch side: the path of the program).
pub fn set_label(label: &str) {
    if let Ok(mut g) = INFLIGHT.lock() {
        g.clear();
        g.push_str(label);
    }
    beat();
}

pub fn inflight() -> String {
    INFLIGHT.lock().map(|g| g.clone()).unwrap_or_default()
}

/// Seconds without a heartbeat after which the process is considered hung (`VH_HANG_SECS`, default 20;
/// an ordinary directive takes microseconds).
pub fn limit() -> Duration {
    let secs = std::env::var("VH_HANG_SECS").ok().and_then(|s| s.parse::<u64>().ok()).unwrap_or(20);
    Duration::from_secs(secs.max(1))
}

/// Start the watchdog; `on_hang` receives the remembered program or label and must not return normally
/// (the process exits with `EXIT_HANG` after it).
pub fn watch(on_hang: impl Fn(&str) + Send + 'static) {
    let limit = limit();
    let prog_limit = program_limit().as_millis() as u64;
    let _ = now_ms();
    let _ = std::thread::Builder::new().name("watchdog".into()).spawn(move || {
        let mut seen = BEAT.load(Ordering::Relaxed);
        let mut since = Instant::now();
        loop {
            std::thread::sleep(Duration::from_millis(200));
            let now = BEAT.load(Ordering::Relaxed);
            let started = PROGRAM_START_MS.load(Ordering::Relaxed);
            let runaway = started != 0 && now_ms().saturating_sub(started) >= prog_limit;
            if now != seen && !runaway {
                seen = now;
                since = Instant::now();
            } else if runaway || since.elapsed() >= limit {
                on_hang(&inflight());
                std::process::exit(EXIT_HANG);
            }
        }
    });
}
