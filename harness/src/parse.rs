//! Text syntax of PROTOCOL.md: hex strings, decimal numbers, property lists, header, directives.

use minimq::Property;

/// Lower-case hex without separators; the empty byte string is `-`.
pub fn hex(bytes: &[u8]) -> String {
    if bytes.is_empty() {
        return "-".to_string();
    }
    let mut out = String::with_capacity(bytes.len() * 2);
    hex_into(&mut out, bytes);
    out
}

pub fn hex_into(out: &mut String, bytes: &[u8]) {
    const DIGITS: &[u8; 16] = b"0123456789abcdef";
    if bytes.is_empty() {
        out.push('-');
        return;
    }
    for byte in bytes {
        out.push(DIGITS[(byte >> 4) as usize] as char);
        out.push(DIGITS[(byte & 15) as usize] as char);
    }
}

fn nibble(c: u8) -> Option<u8> {
    match c {
        b'0'..=b'9' => Some(c - b'0'),
        b'a'..=b'f' => Some(c - b'a' + 10),
        _ => None,
    }
}

/// `-` is the empty string; otherwise a non-empty even number of lower-case hex digits.
pub fn parse_hex(s: &str) -> Option<Vec<u8>> {
    if s == "-" {
        return Some(Vec::new());
    }
    let b = s.as_bytes();
    if b.is_empty() || b.len() % 2 != 0 {
        return None;
    }
    let mut out = Vec::with_capacity(b.len() / 2);
    for pair in b.chunks(2) {
        out.push(nibble(pair[0])? << 4 | nibble(pair[1])?);
    }
    Some(out)
}

pub fn parse_hex_utf8(s: &str) -> Option<String> {
    String::from_utf8(parse_hex(s)?).ok()
}

/// Non-empty string of ASCII digits (leading zeros allowed, no sign) that fits in `max`.
pub fn parse_dec(s: &str, max: u64) -> Option<u64> {
    if s.is_empty() {
        return None;
    }
    let mut value: u64 = 0;
    for c in s.bytes() {
        if !c.is_ascii_digit() {
            return None;
        }
        value = value.checked_mul(10)?.checked_add((c - b'0') as u64)?;
    }
    (value <= max).then_some(value)
}

fn parse_bit(s: &str) -> Option<bool> {
    match s {
        "0" => Some(false),
        "1" => Some(true),
        _ => None,
    }
}

/// One item of a property list, owned.
#[derive(Debug, Clone, PartialEq)]
pub enum PropSpec {
    U8(u8, u8),
    U16(u8, u16),
    U32(u8, u32),
    Str(u8, String),
    Bin(u8, Vec<u8>),
    Pair(String, String),
}

impl PropSpec {
    pub fn to_property(&self) -> Property<'_> {
        match self {
            PropSpec::U8(id, v) => match id {
                0x01 => Property::PayloadFormatIndicator(*v),
                0x17 => Property::RequestProblemInformation(*v),
                0x19 => Property::RequestResponseInformation(*v),
                0x24 => Property::MaximumQoS(*v),
                0x25 => Property::RetainAvailable(*v),
                0x28 => Property::WildcardSubscriptionAvailable(*v),
                0x29 => Property::SubscriptionIdentifierAvailable(*v),
                _ => Property::SharedSubscriptionAvailable(*v),
            },
            PropSpec::U16(id, v) => match id {
                0x13 => Property::ServerKeepAlive(*v),
                0x21 => Property::ReceiveMaximum(*v),
                0x22 => Property::TopicAliasMaximum(*v),
                _ => Property::TopicAlias(*v),
            },
            PropSpec::U32(id, v) => match id {
                0x02 => Property::MessageExpiryInterval(*v),
                0x11 => Property::SessionExpiryInterval(*v),
                0x18 => Property::WillDelayInterval(*v),
                0x27 => Property::MaximumPacketSize(*v),
                _ => Property::SubscriptionIdentifier(*v),
            },
            PropSpec::Str(id, v) => match id {
                0x03 => Property::ContentType(v),
                0x08 => Property::ResponseTopic(v),
                0x12 => Property::AssignedClientIdentifier(v),
                0x15 => Property::AuthenticationMethod(v),
                0x1a => Property::ResponseInformation(v),
                0x1c => Property::ServerReference(v),
                _ => Property::ReasonString(v),
            },
            PropSpec::Bin(id, v) => match id {
                0x09 => Property::CorrelationData(v),
                _ => Property::AuthenticationData(v),
            },
            PropSpec::Pair(k, v) => Property::UserProperty(k, v),
        }
    }
}

fn parse_prop_item(item: &str) -> Option<PropSpec> {
    let (id, value) = item.split_once('=')?;
    if id.len() != 2 {
        return None;
    }
    let id = parse_hex(id)?[0];
    Some(match id {
        0x01 | 0x17 | 0x19 | 0x24 | 0x25 | 0x28 | 0x29 | 0x2a => {
            PropSpec::U8(id, parse_dec(value, u8::MAX as u64)? as u8)
        }
        0x13 | 0x21 | 0x22 | 0x23 => PropSpec::U16(id, parse_dec(value, u16::MAX as u64)? as u16),
        0x02 | 0x11 | 0x18 | 0x27 | 0x0b => {
            PropSpec::U32(id, parse_dec(value, u32::MAX as u64)? as u32)
        }
        0x03 | 0x08 | 0x12 | 0x15 | 0x1a | 0x1c | 0x1f => PropSpec::Str(id, parse_hex_utf8(value)?),
        0x09 | 0x16 => PropSpec::Bin(id, parse_hex(value)?),
        0x26 => {
            let (k, v) = value.split_once('/')?;
            PropSpec::Pair(parse_hex_utf8(k)?, parse_hex_utf8(v)?)
        }
        _ => return None,
    })
}

/// `-` is the empty list; otherwise items separated by `,`.
pub fn parse_props(s: &str) -> Option<Vec<PropSpec>> {
    if s == "-" {
        return Some(Vec::new());
    }
    s.split(',').map(parse_prop_item).collect()
}

/// Print one decoded property in the syntax of PROTOCOL.md 1.2.
pub fn fmt_property(out: &mut String, p: &Property<'_>) {
    use std::fmt::Write;
    let num = |out: &mut String, id: u8, v: u64| {
        let _ = write!(out, "{id:02x}={v}");
    };
    let bytes = |out: &mut String, id: u8, v: &[u8]| {
        let _ = write!(out, "{id:02x}=");
        hex_into(out, v);
    };
    match p {
        Property::PayloadFormatIndicator(v) => num(out, 0x01, *v as u64),
        Property::MessageExpiryInterval(v) => num(out, 0x02, *v as u64),
        Property::ContentType(v) => bytes(out, 0x03, v.as_bytes()),
        Property::ResponseTopic(v) => bytes(out, 0x08, v.as_bytes()),
        Property::CorrelationData(v) => bytes(out, 0x09, v),
        Property::SubscriptionIdentifier(v) => num(out, 0x0b, *v as u64),
        Property::SessionExpiryInterval(v) => num(out, 0x11, *v as u64),
        Property::AssignedClientIdentifier(v) => bytes(out, 0x12, v.as_bytes()),
        Property::ServerKeepAlive(v) => num(out, 0x13, *v as u64),
        Property::AuthenticationMethod(v) => bytes(out, 0x15, v.as_bytes()),
        Property::AuthenticationData(v) => bytes(out, 0x16, v),
        Property::RequestProblemInformation(v) => num(out, 0x17, *v as u64),
        Property::WillDelayInterval(v) => num(out, 0x18, *v as u64),
        Property::RequestResponseInformation(v) => num(out, 0x19, *v as u64),
        Property::ResponseInformation(v) => bytes(out, 0x1a, v.as_bytes()),
        Property::ServerReference(v) => bytes(out, 0x1c, v.as_bytes()),
        Property::ReasonString(v) => bytes(out, 0x1f, v.as_bytes()),
        Property::ReceiveMaximum(v) => num(out, 0x21, *v as u64),
        Property::TopicAliasMaximum(v) => num(out, 0x22, *v as u64),
        Property::TopicAlias(v) => num(out, 0x23, *v as u64),
        Property::MaximumQoS(v) => num(out, 0x24, *v as u64),
        Property::RetainAvailable(v) => num(out, 0x25, *v as u64),
        Property::UserProperty(k, v) => {
            out.push_str("26=");
            hex_into(out, k.as_bytes());
            out.push('/');
            hex_into(out, v.as_bytes());
        }
        Property::MaximumPacketSize(v) => num(out, 0x27, *v as u64),
        Property::WildcardSubscriptionAvailable(v) => num(out, 0x28, *v as u64),
        Property::SubscriptionIdentifierAvailable(v) => num(out, 0x29, *v as u64),
        Property::SharedSubscriptionAvailable(v) => num(out, 0x2a, *v as u64),
    }
}

/// Largest accepted `rx=` / `tx=` value (harness limit, see the report).
pub const MAX_BUFFER: u64 = 16 * 1024 * 1024;

#[derive(Debug, Clone, PartialEq)]
pub struct WillCfg {
    pub topic: String,
    pub payload: Vec<u8>,
    pub qos: u8,
    pub retain: bool,
    pub props: Vec<PropSpec>,
}

#[derive(Debug, Clone, PartialEq)]
pub struct Cfg {
    pub rx: usize,
    pub tx: usize,
    pub ka: u16,
    pub exp: u32,
    pub dg: bool,
    pub cid: String,
    pub auth: Option<(String, Vec<u8>)>,
    pub will: Option<WillCfg>,
}

/// Remove trailing blanks (space, tab, CR, LF). Lines are otherwise taken literally.
pub fn clean_line(line: &str) -> &str {
    line.trim_end_matches([' ', '\t', '\r', '\n'])
}

/// Comment or blank line.
pub fn is_ignored(line: &str) -> bool {
    let line = clean_line(line);
    line.is_empty() || line.starts_with('#')
}

pub fn parse_cfg(line: &str) -> Option<Cfg> {
    let line = clean_line(line);
    let tok: Vec<&str> = line.split(' ').collect();
    if tok.len() != 9 || tok[0] != "cfg" {
        return None;
    }
    let rx = parse_dec(tok[1].strip_prefix("rx=")?, MAX_BUFFER)? as usize;
    let tx = parse_dec(tok[2].strip_prefix("tx=")?, MAX_BUFFER)? as usize;
    let ka = parse_dec(tok[3].strip_prefix("ka=")?, u16::MAX as u64)? as u16;
    let exp = parse_dec(tok[4].strip_prefix("exp=")?, u32::MAX as u64)? as u32;
    let dg = parse_bit(tok[5].strip_prefix("dg=")?)?;
    let cid = parse_hex_utf8(tok[6].strip_prefix("cid=")?)?;
    if cid.len() > 64 {
        return None;
    }
    let auth = match tok[7].strip_prefix("auth=")? {
        "none" => None,
        s => {
            let (user, pass) = s.split_once('/')?;
            Some((parse_hex_utf8(user)?, parse_hex(pass)?))
        }
    };
    let will = match tok[8].strip_prefix("will=")? {
        "none" => None,
        s => {
            let parts: Vec<&str> = s.splitn(5, '/').collect();
            if parts.len() != 5 {
                return None;
            }
            let topic = parse_hex_utf8(parts[0])?;
            if topic.len() > 128 {
                return None;
            }
            Some(WillCfg {
                topic,
                payload: parse_hex(parts[1])?,
                qos: parse_dec(parts[2], 2)? as u8,
                retain: parse_bit(parts[3])?,
                props: parse_props(parts[4])?,
            })
        }
    };
    Some(Cfg {
        rx,
        tx,
        ka,
        exp,
        dg,
        cid,
        auth,
        will,
    })
}

#[derive(Debug, Clone, PartialEq)]
pub enum Payload {
    Bytes(Vec<u8>),
    Fail,
    Lie(usize),
}

#[derive(Debug, Clone, PartialEq)]
pub struct Filter {
    pub topic: String,
    pub max_qos: u8,
    pub no_local: bool,
    pub rap: bool,
    pub rh: u8,
}

#[derive(Debug, Clone, PartialEq)]
pub enum Directive {
    Connect,
    Publish {
        qos: u8,
        retain: bool,
        topic: String,
        payload: Payload,
        props: Vec<PropSpec>,
        c1: Option<Vec<u8>>,
        c2: Option<Vec<u8>>,
    },
    Subscribe {
        props: Vec<PropSpec>,
        filters: Vec<Filter>,
    },
    Unsubscribe {
        props: Vec<PropSpec>,
        topics: Vec<String>,
    },
    Disconnect {
        rc: Option<u8>,
        props: Option<Vec<PropSpec>>,
    },
    Poll,
    Recv,
    Drive,
    D(u8),
    Go,
    Tick(u64),
    Rx(Vec<u8>),
    Cancel,
    Drop,
    SetPid(u16),
    Decode(Vec<u8>),
}

fn parse_filter(s: &str) -> Option<Filter> {
    let parts: Vec<&str> = s.split('/').collect();
    if parts.len() != 5 {
        return None;
    }
    Some(Filter {
        topic: parse_hex_utf8(parts[0])?,
        max_qos: parse_dec(parts[1], 2)? as u8,
        no_local: parse_bit(parts[2])?,
        rap: parse_bit(parts[3])?,
        rh: parse_dec(parts[4], 2)? as u8,
    })
}

fn parse_payload(s: &str) -> Option<Payload> {
    if s == "fail" {
        return Some(Payload::Fail);
    }
    if let Some(n) = s.strip_prefix("lie:") {
        return Some(Payload::Lie(parse_dec(n, usize::MAX as u64)? as usize));
    }
    parse_hex(s).map(Payload::Bytes)
}

pub fn parse_directive(line: &str) -> Option<Directive> {
    let line = clean_line(line);
    let tok: Vec<&str> = line.split(' ').collect();
    let exactly = |n: usize| (tok.len() == n).then_some(());
    Some(match tok[0] {
        "connect" => {
            exactly(1)?;
            Directive::Connect
        }
        "poll" => {
            exactly(1)?;
            Directive::Poll
        }
        "recv" => {
            exactly(1)?;
            Directive::Recv
        }
        "drive" => {
            exactly(1)?;
            Directive::Drive
        }
        "go" => {
            exactly(1)?;
            Directive::Go
        }
        "cancel" => {
            exactly(1)?;
            Directive::Cancel
        }
        "drop" => {
            exactly(1)?;
            Directive::Drop
        }
        "d" => {
            exactly(2)?;
            Directive::D(parse_dec(tok[1], 255)? as u8)
        }
        "tick" => {
            exactly(2)?;
            Directive::Tick(parse_dec(tok[1], u64::MAX)?)
        }
        "rx" => {
            exactly(2)?;
            Directive::Rx(parse_hex(tok[1])?)
        }
        "setpid" => {
            exactly(2)?;
            Directive::SetPid(parse_dec(tok[1], u16::MAX as u64)? as u16)
        }
        "decode" => {
            exactly(2)?;
            Directive::Decode(parse_hex(tok[1])?)
        }
        "publish" => {
            if tok.len() < 6 || tok.len() > 8 {
                return None;
            }
            let qos = parse_dec(tok[1], 2)? as u8;
            let retain = parse_bit(tok[2])?;
            let topic = parse_hex_utf8(tok[3])?;
            let payload = parse_payload(tok[4])?;
            let props = parse_props(tok[5])?;
            let mut rest = &tok[6..];
            let mut c1 = None;
            let mut c2 = None;
            if let Some(v) = rest.first().and_then(|t| t.strip_prefix("c1=")) {
                c1 = Some(parse_hex(v)?);
                rest = &rest[1..];
            }
            if let Some(v) = rest.first().and_then(|t| t.strip_prefix("c2=")) {
                c2 = Some(parse_hex(v)?);
                rest = &rest[1..];
            }
            if !rest.is_empty() {
                return None;
            }
            Directive::Publish {
                qos,
                retain,
                topic,
                payload,
                props,
                c1,
                c2,
            }
        }
        "subscribe" => {
            if tok.len() < 2 {
                return None;
            }
            Directive::Subscribe {
                props: parse_props(tok[1])?,
                filters: tok[2..]
                    .iter()
                    .map(|f| parse_filter(f))
                    .collect::<Option<_>>()?,
            }
        }
        "unsubscribe" => {
            if tok.len() < 2 {
                return None;
            }
            Directive::Unsubscribe {
                props: parse_props(tok[1])?,
                topics: tok[2..]
                    .iter()
                    .map(|t| parse_hex_utf8(t))
                    .collect::<Option<_>>()?,
            }
        }
        "disconnect" => {
            exactly(3)?;
            let rc = match tok[1] {
                "none" => None,
                s => {
                    if s.len() != 2 {
                        return None;
                    }
                    Some(parse_hex(s)?[0])
                }
            };
            let props = match tok[2] {
                "none" => None,
                s => Some(parse_props(s)?),
            };
            Directive::Disconnect { rc, props }
        }
        _ => return None,
    })
}
