//! Test harness executing the real `minimq` crate under a scripted transport and a virtual clock,
//! following /verif/PROTOCOL.md.

#[path = "gen/mod.rs"]
pub mod generate;
pub mod hang;
pub mod interp;
pub mod io;
pub mod parse;

pub use interp::{HandleInfo, Interp, install_silent_panic_hook, op_parts, run_program};
pub use minimq::verif::{VerifSend, VerifState};
