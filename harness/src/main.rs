use std::path::{Path, PathBuf};
use std::process::{Command, ExitCode};

use vh_harness::{install_silent_panic_hook, run_program};

const STACK: usize = 256 * 1024 * 1024;

fn usage() -> ExitCode {
    eprintln!(
        "usage: vh run <file> | vh batch <dir> [--jobs N] | vh batch-part <dir> <k> <N> | vh gen <family|all> <seed> <count> <outdir> | vh extend <prog-file> <cut> <seed> <outdir> | vh extend --list"
    );
    ExitCode::from(2)
}

/// The interpreter keeps large fixed-capacity values on the stack; give it room.
fn on_big_stack<T: Send + 'static>(f: impl FnOnce() -> T + Send + 'static) -> T {
    std::thread::Builder::new()
        .stack_size(STACK)
        .spawn(f)
        .expect("spawn")
        .join()
        .expect("harness thread panicked")
}

fn programs(dir: &Path) -> std::io::Result<Vec<PathBuf>> {
    let mut files: Vec<PathBuf> = std::fs::read_dir(dir)?
        .filter_map(|e| e.ok().map(|e| e.path()))
        .filter(|p| p.extension().is_some_and(|e| e == "prog") && p.is_file())
        .collect();
    files.sort();
    Ok(files)
}

fn run_file(path: &Path) -> std::io::Result<String> {
    let text = String::from_utf8_lossy(&std::fs::read(path)?).into_owned();
    Ok(run_program(&text))
}

fn main() -> ExitCode {
    install_silent_panic_hook();
    let args: Vec<String> = std::env::args().skip(1).collect();
    match args.first().map(String::as_str) {
        Some("run") if args.len() == 2 => {
            let path = PathBuf::from(&args[1]);
            on_big_stack(move || match run_file(&path) {
                Ok(trace) => {
                    use std::io::Write;
                    let _ = std::io::stdout().lock().write_all(trace.as_bytes());
                    ExitCode::SUCCESS
                }
                Err(e) => {
                    eprintln!("vh: {}: {e}", path.display());
                    ExitCode::FAILURE
                }
            })
        }
        Some("batch") if args.len() == 2 || (args.len() == 4 && args[2] == "--jobs") => {
            let jobs = if args.len() == 4 {
                match args[3].parse::<usize>() {
                    Ok(n) if n > 0 => n,
                    _ => return usage(),
                }
            } else {
                std::thread::available_parallelism().map(|n| n.get()).unwrap_or(1)
            };
            let exe = match std::env::current_exe() {
                Ok(exe) => exe,
                Err(e) => {
                    eprintln!("vh: cannot find own executable: {e}");
                    return ExitCode::FAILURE;
                }
            };
            let count = match programs(Path::new(&args[1])) {
                Ok(files) => files.len(),
                Err(e) => {
                    eprintln!("vh: {}: {e}", args[1]);
                    return ExitCode::FAILURE;
                }
            };
            let jobs = jobs.min(count.max(1));
            let children: Vec<_> = (0..jobs)
                .map(|k| {
                    Command::new(&exe)
                        .arg("batch-part")
                        .arg(&args[1])
                        .arg(k.to_string())
                        .arg(jobs.to_string())
                        .spawn()
                })
                .collect();
            let mut ok = true;
            for child in children {
                match child.and_then(|mut c| c.wait()) {
                    Ok(status) if status.success() => {}
                    Ok(status) => {
                        eprintln!("vh: batch-part exited with {status}");
                        ok = false;
                    }
                    Err(e) => {
                        eprintln!("vh: batch-part: {e}");
                        ok = false;
                    }
                }
            }
            if ok { ExitCode::SUCCESS } else { ExitCode::FAILURE }
        }
        Some("gen") if args.len() == 5 => {
            let (Ok(seed), Ok(count)) = (args[2].parse::<u64>(), args[3].parse::<u64>()) else {
                return usage();
            };
            let family = args[1].clone();
            let outdir = PathBuf::from(&args[4]);
            on_big_stack(move || match vh_harness::generate::generate(&family, seed, count, &outdir) {
                Ok(()) => ExitCode::SUCCESS,
                Err(e) => {
                    eprintln!("vh: {e}");
                    ExitCode::FAILURE
                }
            })
        }
        Some("extend") if args.len() == 2 && args[1] == "--list" => {
            for name in vh_harness::generate::extend::STRATEGIES {
                println!("{name}");
            }
            ExitCode::SUCCESS
        }
        Some("extend") if args.len() == 5 => {
            let (Ok(cut), Ok(seed)) = (args[2].parse::<usize>(), args[3].parse::<u64>()) else {
                return usage();
            };
            let prog = PathBuf::from(&args[1]);
            let outdir = PathBuf::from(&args[4]);
            on_big_stack(move || match vh_harness::generate::extend::extend(&prog, cut, seed, &outdir) {
                Ok(_) => ExitCode::SUCCESS,
                Err(e) => {
                    eprintln!("vh: {e}");
                    ExitCode::FAILURE
                }
            })
        }
        Some("batch-part") if args.len() == 4 => {
            let (Ok(k), Ok(n)) = (args[2].parse::<usize>(), args[3].parse::<usize>()) else {
                return usage();
            };
            if n == 0 || k >= n {
                return usage();
            }
            let dir = PathBuf::from(&args[1]);
            on_big_stack(move || {
                let files = match programs(&dir) {
                    Ok(files) => files,
                    Err(e) => {
                        eprintln!("vh: {}: {e}", dir.display());
                        return ExitCode::FAILURE;
                    }
                };
                let mut ok = true;
                for (i, path) in files.iter().enumerate() {
                    if i % n != k {
                        continue;
                    }
                    let result =
                        run_file(path).and_then(|t| std::fs::write(path.with_extension("itrace"), t));
                    if let Err(e) = result {
                        eprintln!("vh: {}: {e}", path.display());
                        ok = false;
                    }
                }
                if ok { ExitCode::SUCCESS } else { ExitCode::FAILURE }
            })
        }
        _ => usage(),
    }
}
