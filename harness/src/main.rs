use std::path::{Path, PathBuf};
use std::process::{Command, ExitCode};

use vh_harness::{install_silent_panic_hook, run_program};

const STACK: usize = 256 * 1024 * 1024;
/// Restarts of one batch part after a hung program.
const MAX_HANGS: usize = 6;

fn usage() -> ExitCode {
    eprintln!(
        "usage: vh run <file> | vh batch <dir> [--jobs N] | vh batch-part <dir> <k> <N> [from] | vh gen <family|all> <seed> <count> <outdir> | vh extend <prog-file> <cut> <seed> <outdir> | vh extend --list"
    );
    ExitCode::from(2)
}

/// The interpreter keeps large fixed-capacity values on the stack; give it room.
fn on_big_stack<T: Send + 'static>(f: impl FnOnce() -> T + Send + 'static) -> T {
    std::thread::Builder::new()
        .stack_size(STACK)
        .spawn(f)
        .expect("spawn")
        .join()
        .expect("harness thread panicked")
}

fn programs(dir: &Path) -> std::io::Result<Vec<PathBuf>> {
    let mut files: Vec<PathBuf> = std::fs::read_dir(dir)?
        .filter_map(|e| e.ok().map(|e| e.path()))
        .filter(|p| p.extension().is_some_and(|e| e == "prog") && p.is_file())
        .collect();
    files.sort();
    Ok(files)
}

fn run_file(path: &Path) -> std::io::Result<String> {
    let text = String::from_utf8_lossy(&std::fs::read(path)?).into_owned();
    Ok(run_program(&text))
}

fn main() -> ExitCode {
    install_silent_panic_hook();
    let args: Vec<String> = std::env::args().skip(1).collect();
    match args.first().map(String::as_str) {
        Some("run") if args.len() == 2 => {
            let path = PathBuf::from(&args[1]);
            vh_harness::hang::watch(|_| {
                println!("hang");
                eprintln!("vh: the crate never returns from a call of this program");
            });
            on_big_stack(move || match run_file(&path) {
                Ok(trace) => {
                    use std::io::Write;
                    let _ = std::io::stdout().lock().write_all(trace.as_bytes());
                    ExitCode::SUCCESS
                }
                Err(e) => {
                    eprintln!("vh: {}: {e}", path.display());
                    ExitCode::FAILURE
                }
            })
        }
        Some("batch") if args.len() == 2 || (args.len() == 4 && args[2] == "--jobs") => {
            let jobs = if args.len() == 4 {
                match args[3].parse::<usize>() {
                    Ok(n) if n > 0 => n,
                    _ => return usage(),
                }
            } else {
                std::thread::available_parallelism().map(|n| n.get()).unwrap_or(1)
            };
            let exe = match std::env::current_exe() {
                Ok(exe) => exe,
                Err(e) => {
                    eprintln!("vh: cannot find own executable: {e}");
                    return ExitCode::FAILURE;
                }
            };
            let count = match programs(Path::new(&args[1])) {
                Ok(files) => files.len(),
                Err(e) => {
                    eprintln!("vh: {}: {e}", args[1]);
                    return ExitCode::FAILURE;
                }
            };
            let jobs = jobs.min(count.max(1));
            let spawn_part = |k: usize, from: usize| {
                Command::new(&exe)
                    .arg("batch-part")
                    .arg(&args[1])
                    .arg(k.to_string())
                    .arg(jobs.to_string())
                    .arg(from.to_string())
                    .spawn()
            };
            let children: Vec<_> = (0..jobs).map(|k| spawn_part(k, 0)).collect();
            let mut ok = true;
            for (k, child) in children.into_iter().enumerate() {
                let mut child = child;
                // A part that met a program on which the crate never returns has written `hang` as that
                // program's trace and the index to go on from; at most MAX_HANGS restarts per part.
                let mut hangs = 0;
                loop {
                    match child.and_then(|mut c| c.wait()) {
                        Ok(status) if status.success() => break,
                        Ok(status) if status.code() == Some(vh_harness::hang::EXIT_HANG) => {
                            hangs += 1;
                            let marker = Path::new(&args[1]).join(format!(".hang-{k}"));
                            let next = std::fs::read_to_string(&marker).ok().and_then(|t| t.trim().parse::<usize>().ok());
                            let _ = std::fs::remove_file(&marker);
                            match next {
                                Some(next) if hangs < MAX_HANGS => child = spawn_part(k, next),
                                _ => {
                                    eprintln!("vh: batch-part {k}: too many hangs, giving up on the rest of this part");
                                    ok = false;
                                    break;
                                }
                            }
                        }
                        Ok(status) => {
                            eprintln!("vh: batch-part exited with {status}");
                            ok = false;
                            break;
                        }
                        Err(e) => {
                            eprintln!("vh: batch-part: {e}");
                            ok = false;
                            break;
                        }
                    }
                }
            }
            if ok { ExitCode::SUCCESS } else { ExitCode::FAILURE }
        }
        Some("gen") if args.len() == 5 => {
            let (Ok(seed), Ok(count)) = (args[2].parse::<u64>(), args[3].parse::<u64>()) else {
                return usage();
            };
            let family = args[1].clone();
            let outdir = PathBuf::from(&args[4]);
            {
                // The generators run the crate while they write a program. If a directive never returns,
                // keep the program up to and including that directive: it is the replay of the hang.
                let (family, outdir) = (family.clone(), outdir.clone());
                vh_harness::hang::watch(move |program| {
                    let _ = std::fs::create_dir_all(&outdir);
                    let name = format!("{family}-{seed}-hang.prog");
                    let text = format!(
                        "# family={family} seed={seed} hang: the generator stopped here, the last directive never returns\n{program}"
                    );
                    let _ = std::fs::write(outdir.join(&name), text);
                    eprintln!("vh: hang while generating; program kept as {name}");
                });
            }
            on_big_stack(move || match vh_harness::generate::generate(&family, seed, count, &outdir) {
                Ok(()) => ExitCode::SUCCESS,
                Err(e) => {
                    eprintln!("vh: {e}");
                    ExitCode::FAILURE
                }
            })
        }
        Some("extend") if args.len() == 2 && args[1] == "--list" => {
            for name in vh_harness::generate::extend::STRATEGIES {
                println!("{name}");
            }
            ExitCode::SUCCESS
        }
        Some("extend") if args.len() == 5 => {
            let (Ok(cut), Ok(seed)) = (args[2].parse::<usize>(), args[3].parse::<u64>()) else {
                return usage();
            };
            let prog = PathBuf::from(&args[1]);
            let outdir = PathBuf::from(&args[4]);
            vh_harness::hang::watch(|_| eprintln!("vh: hang while extending"));
            on_big_stack(move || match vh_harness::generate::extend::extend(&prog, cut, seed, &outdir) {
                Ok(_) => ExitCode::SUCCESS,
                Err(e) => {
                    eprintln!("vh: {e}");
                    ExitCode::FAILURE
                }
            })
        }
        Some("batch-part") if args.len() == 4 || args.len() == 5 => {
            let (Ok(k), Ok(n)) = (args[2].parse::<usize>(), args[3].parse::<usize>()) else {
                return usage();
            };
            if n == 0 || k >= n {
                return usage();
            }
            let from = match args.get(4) {
                Some(a) => match a.parse::<usize>() {
                    Ok(from) => from,
                    Err(_) => return usage(),
                },
                None => 0,
            };
            let dir = PathBuf::from(&args[1]);
            {
                // label = "<index> <path>" of the program being run
                let dir = dir.clone();
                vh_harness::hang::watch(move |label| {
                    if let Some((index, path)) = label.split_once(' ') {
                        let _ = std::fs::write(Path::new(path).with_extension("itrace"), "hang\n");
                        if let Ok(index) = index.parse::<usize>() {
                            let _ = std::fs::write(dir.join(format!(".hang-{k}")), format!("{}\n", index + 1));
                        }
                        eprintln!("vh: {path}: the crate never returns from a call of this program");
                    }
                });
            }
            on_big_stack(move || {
                let files = match programs(&dir) {
                    Ok(files) => files,
                    Err(e) => {
                        eprintln!("vh: {}: {e}", dir.display());
                        return ExitCode::FAILURE;
                    }
                };
                let mut ok = true;
                for (i, path) in files.iter().enumerate() {
                    if i % n != k || i < from {
                        continue;
                    }
                    vh_harness::hang::begin_program();
                    vh_harness::hang::set_label(&format!("{i} {}", path.display()));
                    let result =
                        run_file(path).and_then(|t| std::fs::write(path.with_extension("itrace"), t));
                    if let Err(e) = result {
                        eprintln!("vh: {}: {e}", path.display());
                        ok = false;
                    }
                }
                if ok { ExitCode::SUCCESS } else { ExitCode::FAILURE }
            })
        }
        _ => usage(),
    }
}
