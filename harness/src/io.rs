//! Scripted transport (`ScriptIo`) and the always-ready transport of the side session (`SideIo`).

use std::cell::RefCell;
use std::fmt::Write as _;
use std::future::poll_fn;
use std::rc::Rc;
use std::task::Poll;

use embedded_io_async::{ErrorKind, ErrorType, Read, Write};

use crate::parse::hex_into;

/// Total bytes accepted by transports in one program before the run is cut (`budget`).
pub const BYTE_BUDGET: usize = 8 * 1024 * 1024;
/// Total trace bytes in one program before the run is cut (`budget`).
pub const TRACE_BUDGET: usize = 64 * 1024 * 1024;

pub fn now_us() -> u64 {
    embassy_time::Instant::now().as_micros()
}

/// One scripted transport: everything accepted by `write`, and the inbound stream.
#[derive(Default, Debug)]
pub struct Transport {
    pub wire: Vec<u8>,
    pub rx: Vec<u8>,
    pub rpos: usize,
}

/// State shared between the interpreter and every `ScriptIo` handle.
#[derive(Default)]
pub struct Shared {
    /// The decision slot.
    pub slot: Option<u8>,
    pub transports: Vec<Transport>,
    pub trace: String,
    pub trace_total: usize,
    /// Since the start of the current `POLL`, a read consumed the decision and delivered nothing
    /// (the `rp` of the table in PROTOCOL.md 2.1, as opposed to the `rp` of an empty slot).
    pub starved: bool,
    pub written_total: usize,
    pub over_budget: bool,
}

pub fn kind_of(n: u8) -> ErrorKind {
    match n {
        252 => ErrorKind::ConnectionReset,
        253 => ErrorKind::BrokenPipe,
        254 => ErrorKind::TimedOut,
        _ => ErrorKind::Other,
    }
}

impl Shared {
    pub fn emit(&mut self, line: &str) {
        self.trace.push_str(line);
        self.trace.push('\n');
        self.trace_total += line.len() + 1;
        if self.trace_total > TRACE_BUDGET {
            self.over_budget = true;
        }
    }

    fn io_event(&mut self, line: &str, starved: bool) {
        self.starved = starved;
        self.emit(line);
    }

    fn read(&mut self, t: usize, buf: &mut [u8]) -> Poll<Result<usize, ErrorKind>> {
        if self.over_budget {
            return Poll::Pending;
        }
        let Some(n) = self.slot.take() else {
            self.io_event(&format!("rp {t}"), false);
            return Poll::Pending;
        };
        match n {
            0..=250 => {
                let tr = &mut self.transports[t];
                let available = tr.rx.len() - tr.rpos;
                let mut count = buf.len().min(available);
                if n != 250 {
                    count = count.min(n as usize);
                }
                if count == 0 {
                    self.io_event(&format!("rs {t}"), true);
                    return Poll::Pending;
                }
                buf[..count].copy_from_slice(&tr.rx[tr.rpos..tr.rpos + count]);
                tr.rpos += count;
                self.io_event(&format!("r {t} {count}"), false);
                Poll::Ready(Ok(count))
            }
            251 => {
                self.io_event(&format!("rz {t}"), false);
                Poll::Ready(Ok(0))
            }
            _ => {
                let kind = kind_of(n);
                self.io_event(&format!("re {t} {kind:?}"), false);
                Poll::Ready(Err(kind))
            }
        }
    }

    fn write(&mut self, t: usize, buf: &[u8]) -> Poll<Result<usize, ErrorKind>> {
        if self.over_budget {
            return Poll::Pending;
        }
        let Some(n) = self.slot.take() else {
            self.io_event(&format!("wp {t}"), false);
            return Poll::Pending;
        };
        match n {
            0..=250 => {
                let count = if n == 250 {
                    buf.len()
                } else {
                    buf.len().min(n as usize)
                };
                self.transports[t].wire.extend_from_slice(&buf[..count]);
                self.written_total += count;
                if self.written_total > BYTE_BUDGET {
                    self.over_budget = true;
                }
                let mut line = String::with_capacity(8 + 2 * count);
                let _ = write!(line, "w {t} ");
                hex_into(&mut line, &buf[..count]);
                self.io_event(&line, false);
                Poll::Ready(Ok(count))
            }
            251 => {
                self.io_event(&format!("wz {t}"), false);
                Poll::Ready(Ok(0))
            }
            _ => {
                let kind = kind_of(n);
                self.io_event(&format!("we {t} {kind:?}"), false);
                Poll::Ready(Err(kind))
            }
        }
    }

    fn flush(&mut self, t: usize) -> Poll<Result<(), ErrorKind>> {
        if self.over_budget {
            return Poll::Pending;
        }
        let Some(n) = self.slot.take() else {
            self.io_event(&format!("fp {t}"), false);
            return Poll::Pending;
        };
        match n {
            0..=251 => {
                self.io_event(&format!("f {t} ok @{}", now_us()), false);
                Poll::Ready(Ok(()))
            }
            _ => {
                let kind = kind_of(n);
                self.io_event(&format!("fe {t} {kind:?}"), false);
                Poll::Ready(Err(kind))
            }
        }
    }
}

/// Cheap handle onto the shared harness state for transport `t`.
pub struct ScriptIo {
    pub sh: Rc<RefCell<Shared>>,
    pub t: usize,
}

impl ErrorType for ScriptIo {
    type Error = ErrorKind;
}

impl Read for ScriptIo {
    async fn read(&mut self, buf: &mut [u8]) -> Result<usize, ErrorKind> {
        poll_fn(|_cx| self.sh.borrow_mut().read(self.t, buf)).await
    }
}

impl Write for ScriptIo {
    async fn write(&mut self, buf: &[u8]) -> Result<usize, ErrorKind> {
        poll_fn(|_cx| self.sh.borrow_mut().write(self.t, buf)).await
    }

    async fn flush(&mut self) -> Result<(), ErrorKind> {
        poll_fn(|_cx| self.sh.borrow_mut().flush(self.t)).await
    }
}

/// Transport of the side session: reads come from a canned stream, writes are recorded.
#[derive(Default)]
pub struct SideState {
    pub rx: Vec<u8>,
    pub rpos: usize,
    pub written: Vec<u8>,
}

pub struct SideIo(pub Rc<RefCell<SideState>>);

impl ErrorType for SideIo {
    type Error = ErrorKind;
}

impl Read for SideIo {
    async fn read(&mut self, buf: &mut [u8]) -> Result<usize, ErrorKind> {
        poll_fn(|_cx| {
            let mut s = self.0.borrow_mut();
            let count = buf.len().min(s.rx.len() - s.rpos);
            if count == 0 {
                return Poll::Pending;
            }
            let from = s.rpos;
            buf[..count].copy_from_slice(&s.rx[from..from + count]);
            s.rpos += count;
            Poll::Ready(Ok(count))
        })
        .await
    }
}

impl Write for SideIo {
    async fn write(&mut self, buf: &[u8]) -> Result<usize, ErrorKind> {
        self.0.borrow_mut().written.extend_from_slice(buf);
        Ok(buf.len())
    }

    async fn flush(&mut self) -> Result<(), ErrorKind> {
        Ok(())
    }
}
