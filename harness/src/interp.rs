//! The directive interpreter of PROTOCOL.md section 2, running the real `minimq` crate.

use std::cell::RefCell;
use std::fmt::Write as _;
use std::future::Future;
use std::num::NonZeroU16;
use std::panic::{AssertUnwindSafe, catch_unwind};
use std::pin::Pin;
use std::rc::Rc;
use std::sync::Arc;
use std::sync::atomic::{AtomicBool, Ordering};
use std::task::{Context, Poll, Wake, Waker};

use embedded_io_async::ErrorKind;
use minimq::verif::{VerifSend, VerifState};
use minimq::{
    Buffers, ConfigBuilder, ConnectEvent, Connection, Disconnect, Error, InboundPublish, Op,
    PeerError, Property, PubError, Publication, QoS, ReasonCode, ResourceError, RetainHandling,
    Session, SubscriptionOptions, ToPayload, TopicFilter, Will,
};

use crate::io::{ScriptIo, Shared, SideIo, SideState, Transport, now_us};
use crate::parse::{
    Cfg, Directive, Filter, Payload, PropSpec, fmt_property, hex, is_ignored, parse_cfg,
    parse_directive,
};

type Conn = Connection<'static, 'static, ScriptIo>;
type SideConn = Connection<'static, 'static, SideIo>;
type IoError = Error<ErrorKind>;

/// Largest virtual time a `tick` may reach (harness limit, see the report).
pub const MAX_TIME_US: u64 = 1 << 62;

/// What a finished operation future hands back to the interpreter.
enum Ret {
    Connect(Result<Conn, IoError>),
    Publish(Result<Option<Op>, PubError<(), ErrorKind>>),
    Handle(Result<Op, IoError>),
    Unit(Result<(), IoError>),
    Msg(Result<Option<InboundPublish<'static>>, IoError>),
}

type Fut = Pin<Box<dyn Future<Output = Ret>>>;

struct Flag(AtomicBool);

impl Wake for Flag {
    fn wake(self: Arc<Self>) {
        self.0.store(true, Ordering::SeqCst);
    }
    fn wake_by_ref(self: &Arc<Self>) {
        self.0.store(true, Ordering::SeqCst);
    }
}

struct Noop;

impl Wake for Noop {
    fn wake(self: Arc<Self>) {}
}

fn qos_of(q: u8) -> QoS {
    match q {
        0 => QoS::AtMostOnce,
        1 => QoS::AtLeastOnce,
        _ => QoS::ExactlyOnce,
    }
}

fn err_name(e: &IoError) -> String {
    match e {
        Error::NotReady => "NotReady".into(),
        Error::Disconnected => "Disconnected".into(),
        Error::InvalidRequest => "InvalidRequest".into(),
        Error::WriteZero => "WriteZero".into(),
        Error::Peer(PeerError::InvalidPacket) => "Peer.InvalidPacket".into(),
        Error::Peer(PeerError::Rejected(rc)) => format!("Peer.Rejected.{:02x}", u8::from(*rc)),
        Error::Peer(_) => "Peer.Unknown".into(),
        Error::Resource(ResourceError::BufferTooSmall) => "Resource.BufferTooSmall".into(),
        Error::Resource(ResourceError::PacketTooLarge) => "Resource.PacketTooLarge".into(),
        Error::Resource(ResourceError::InflightExhausted) => "Resource.InflightExhausted".into(),
        Error::Resource(_) => "Resource.Unknown".into(),
        Error::Transport(kind) => format!("Transport.{kind:?}"),
        _ => "Unknown".into(),
    }
}

fn pub_err_name(e: &PubError<(), ErrorKind>) -> String {
    match e {
        PubError::Session(e) => err_name(e),
        PubError::Payload(()) => "Payload".into(),
    }
}

/// `(kind, packet id, generation)` out of the `Debug` text of an [`Op`] (its fields are private).
pub fn op_parts(op: &Op) -> (&'static str, u16, u32) {
    let text = format!("{op:?}");
    let field = |name: &str| -> &str {
        let start = text.find(name).map(|i| i + name.len()).unwrap_or(text.len());
        let rest = &text[start..];
        let end = rest.find([',', ' ', '}']).unwrap_or(rest.len());
        &rest[..end]
    };
    let kind = match field("kind: ") {
        "PublishAtLeastOnce" => "pub1",
        "PublishExactlyOnce" => "pub2",
        "Subscribe" => "sub",
        "Unsubscribe" => "unsub",
        _ => "?",
    };
    (
        kind,
        field("packet_id: ").parse().unwrap_or(0),
        field("generation: ").parse().unwrap_or(0),
    )
}

/// Strings the session borrows for its whole life (`'buf`).
struct CfgData {
    user: String,
    pass: Vec<u8>,
    will_payload: Vec<u8>,
    will_specs: Vec<PropSpec>,
    /// Borrows the heap data of `will_specs`; never touched after construction.
    will_props: Vec<Property<'static>>,
}

/// A session with its buffers, kept alive through raw pointers so that a connection and a
/// suspended future can sit next to it.
struct Stack {
    session: *mut Session<'static>,
    rx: *mut [u8],
    tx: *mut [u8],
}

impl Stack {
    fn buffers(rx: usize, tx: usize) -> (*mut [u8], *mut [u8]) {
        (
            Box::into_raw(vec![0u8; rx].into_boxed_slice()),
            Box::into_raw(vec![0u8; tx].into_boxed_slice()),
        )
    }

    /// Free the buffers; free the session too unless `leak_session`.
    unsafe fn free(&mut self, leak_session: bool) {
        unsafe {
            if !self.session.is_null() && !leak_session {
                drop(Box::from_raw(self.session));
            }
            self.session = std::ptr::null_mut();
            drop(Box::from_raw(self.rx));
            drop(Box::from_raw(self.tx));
        }
    }
}

struct Side {
    state: Rc<RefCell<SideState>>,
    stack: Stack,
    conn: *mut SideConn,
}

/// Status of one operation handle.
#[derive(Debug, Clone, Copy, PartialEq, Eq)]
pub struct HandleInfo {
    pub kind: &'static str,
    pub packet_id: u16,
    pub generation: u32,
    /// `p` pending, `c` complete, `i` invalidated.
    pub status: char,
}

pub struct Interp {
    sh: Rc<RefCell<Shared>>,
    fut: Option<Fut>,
    fut_name: &'static str,
    conn: *mut Conn,
    stack: Stack,
    side: Option<Side>,
    handles: Vec<Op>,
    flag: Arc<Flag>,
    waker: Waker,
    index: usize,
    ended: bool,
    poisoned: bool,
    // Dropped last (after `Drop::drop` has freed the session).
    _cfg: Box<CfgData>,
}

enum Polled {
    Done,
    Pending,
    Spin,
}

impl Interp {
    /// Build the session from the header line. `Err` carries the trace line to print
    /// (`bad-cfg` or `cfgerr <variant>`); the run ends there.
    pub fn new(cfg_line: &str) -> Result<Interp, String> {
        match catch_unwind(AssertUnwindSafe(|| Self::new_inner(cfg_line))) {
            Ok(r) => r,
            Err(_) => Err("panic cfg".to_string()),
        }
    }

    fn new_inner(cfg_line: &str) -> Result<Interp, String> {
        embassy_time::MockDriver::get().reset();
        let Some(cfg) = parse_cfg(cfg_line) else {
            return Err("bad-cfg".to_string());
        };
        let Cfg {
            rx,
            tx,
            ka,
            exp,
            dg,
            cid,
            auth,
            will,
        } = cfg;

        let (user, pass) = auth.clone().unwrap_or_default();
        let (will_payload, will_specs) = match &will {
            Some(w) => (w.payload.clone(), w.props.clone()),
            None => (Vec::new(), Vec::new()),
        };
        let mut data = Box::new(CfgData {
            user,
            pass,
            will_payload,
            will_specs,
            will_props: Vec::new(),
        });
        // SAFETY: `data` is boxed, never mutated again, and outlives the session (it is the last
        // thing `Interp` drops).
        let data_ref: &'static CfgData = unsafe { &*(&*data as *const CfgData) };
        data.will_props = data_ref
            .will_specs
            .iter()
            .map(PropSpec::to_property)
            .collect();
        let data_ref: &'static CfgData = unsafe { &*(&*data as *const CfgData) };

        let will_built = match &will {
            None => None,
            Some(w) => match Will::new(&w.topic, &data_ref.will_payload, &data_ref.will_props) {
                Err(e) => return Err(format!("cfgerr {e:?}")),
                Ok(mut built) => {
                    built = built.qos(qos_of(w.qos));
                    if w.retain {
                        built = built.retained();
                    }
                    Some(built)
                }
            },
        };

        let (rx_ptr, tx_ptr) = Stack::buffers(rx, tx);
        let mut stack = Stack {
            session: std::ptr::null_mut(),
            rx: rx_ptr,
            tx: tx_ptr,
        };
        let built = (|| {
            // SAFETY: the buffers live until `Stack::free`, after the session is gone.
            let buffers = unsafe { Buffers::new(&mut *rx_ptr, &mut *tx_ptr) };
            let mut builder = ConfigBuilder::new(buffers)
                .keepalive_interval(ka)
                .session_expiry_interval(exp);
            if dg {
                builder = builder.autodowngrade_qos();
            }
            builder = builder.client_id(&cid)?;
            if auth.is_some() {
                builder = builder.auth(&data_ref.user, &data_ref.pass)?;
            }
            if let Some(w) = will_built {
                builder = builder.will(w)?;
            }
            Ok::<_, minimq::ConfigError>(Session::new(builder))
        })();
        let session = match built {
            Ok(session) => session,
            Err(e) => {
                unsafe { stack.free(false) };
                return Err(format!("cfgerr {e:?}"));
            }
        };
        stack.session = Box::into_raw(Box::new(session));

        let flag = Arc::new(Flag(AtomicBool::new(false)));
        let waker = Waker::from(flag.clone());
        Ok(Interp {
            sh: Rc::new(RefCell::new(Shared::default())),
            fut: None,
            fut_name: "",
            conn: std::ptr::null_mut(),
            stack,
            side: None,
            handles: Vec::new(),
            flag,
            waker,
            index: 0,
            ended: false,
            poisoned: false,
            _cfg: data,
        })
    }

    // ---------------------------------------------------------------------------------------
    // Read-only accessors (for a program generator driving the interpreter step by step).

    /// Number of transports opened so far; the last one is current.
    pub fn transport_count(&self) -> usize {
        self.sh.borrow().transports.len()
    }

    /// All bytes accepted by `write` on transport `t` so far.
    pub fn wire(&self, t: usize) -> Vec<u8> {
        self.sh.borrow().transports[t].wire.clone()
    }

    pub fn wire_len(&self, t: usize) -> usize {
        self.sh.borrow().transports[t].wire.len()
    }

    /// Run `f` on the transport record (wire, rx stream, read position) without copying.
    pub fn with_transport<R>(&self, t: usize, f: impl FnOnce(&Transport) -> R) -> R {
        f(&self.sh.borrow().transports[t])
    }

    /// Inbound bytes appended by `rx` and not yet read on transport `t`.
    pub fn rx_unread(&self, t: usize) -> usize {
        let sh = self.sh.borrow();
        sh.transports[t].rx.len() - sh.transports[t].rpos
    }

    /// Name of the suspended operation (`connect`, `publish`, …), if any.
    pub fn suspended(&self) -> Option<&'static str> {
        self.fut.as_ref().map(|_| self.fut_name)
    }

    pub fn has_connection(&self) -> bool {
        !self.conn.is_null()
    }

    /// `is_connected()` of the current connection; `None` without one.
    pub fn is_live(&self) -> Option<bool> {
        self.conn_ref().map(|c| c.is_connected())
    }

    pub fn verif_state(&self) -> VerifState {
        self.session_ref().verif_state()
    }

    pub fn arena(&self) -> Vec<u8> {
        self.session_ref().verif_arena().to_vec()
    }

    pub fn can_publish(&self, qos: QoS) -> bool {
        self.conn_ref().is_some_and(|c| c.can_publish(qos))
    }

    pub fn is_publish_quiescent(&self) -> bool {
        self.session_ref().is_publish_quiescent()
    }

    pub fn handles(&self) -> Vec<HandleInfo> {
        self.handles
            .iter()
            .map(|op| {
                let (kind, packet_id, generation) = op_parts(op);
                HandleInfo {
                    kind,
                    packet_id,
                    generation,
                    status: self.handle_status(op),
                }
            })
            .collect()
    }

    pub fn now_us(&self) -> u64 {
        now_us()
    }

    /// The run is over (`panic` or `budget` was printed); further directives are ignored.
    pub fn is_ended(&self) -> bool {
        self.ended
    }

    /// Number of directives executed so far (the index the next one gets).
    pub fn directive_index(&self) -> usize {
        self.index
    }

    pub fn take_trace(&mut self) -> String {
        std::mem::take(&mut self.sh.borrow_mut().trace)
    }

    // ---------------------------------------------------------------------------------------

    fn session_ref(&self) -> &Session<'static> {
        // SAFETY: single-threaded; nothing runs while we look (a suspended future or a connection
        // holds the unique borrow only nominally).
        unsafe { &*self.stack.session }
    }

    fn conn_ref(&self) -> Option<&Conn> {
        // SAFETY: as above.
        unsafe { self.conn.as_ref() }
    }

    fn handle_status(&self, op: &Op) -> char {
        let (pending, complete) = match self.conn_ref() {
            Some(c) => (c.is_pending(op), c.is_complete(op)),
            None => {
                let s = self.session_ref();
                (s.is_pending(op), s.is_complete(op))
            }
        };
        if pending {
            'p'
        } else if complete {
            'c'
        } else {
            'i'
        }
    }

    fn emit(&self, line: &str) {
        self.sh.borrow_mut().emit(line);
    }

    /// Execute one directive line and print the state lines. Comment and blank lines are skipped.
    pub fn exec(&mut self, line: &str) {
        if self.ended || is_ignored(line) {
            return;
        }
        let index = self.index;
        self.index += 1;
        crate::hang::beat();
        let outcome = catch_unwind(AssertUnwindSafe(|| {
            self.exec_inner(line);
            if !self.sh.borrow().over_budget {
                self.print_state();
            }
        }));
        if outcome.is_err() {
            // The RefCell cannot be left borrowed: every borrow is a temporary that unwinding
            // releases.
            self.emit(&format!("panic {index}"));
            self.poisoned = true;
            self.ended = true;
            return;
        }
        if self.sh.borrow().over_budget {
            let mut sh = self.sh.borrow_mut();
            sh.trace.push_str("budget\n");
            self.ended = true;
        }
    }

    fn exec_inner(&mut self, line: &str) {
        let Some(directive) = parse_directive(line) else {
            self.emit("bad-op");
            return;
        };
        match directive {
            Directive::Connect => {
                self.cancel();
                self.drop_conn();
                let t = {
                    let mut sh = self.sh.borrow_mut();
                    sh.transports.push(Transport::default());
                    sh.transports.len() - 1
                };
                self.emit(&format!("net {t} open"));
                let io = ScriptIo {
                    sh: self.sh.clone(),
                    t,
                };
                // SAFETY: no connection and no future exist, so this is the only user of the
                // session apart from the read-only state dumps between polls.
                let session: &'static mut Session<'static> = unsafe { &mut *self.stack.session };
                self.start("connect", Box::pin(async move {
                    Ret::Connect(session.connect(io).await)
                }));
            }
            Directive::Publish {
                qos,
                retain,
                topic,
                payload,
                props,
                c1,
                c2,
            } => {
                let Some(conn) = self.begin_op("publish") else {
                    return;
                };
                self.start(
                    "publish",
                    Box::pin(async move {
                        let props: Vec<Property<'_>> =
                            props.iter().map(PropSpec::to_property).collect();
                        let args = PubArgs {
                            topic: &topic,
                            props: &props,
                            c1: c1.as_deref(),
                            c2: c2.as_deref(),
                            qos: qos_of(qos),
                            retain,
                        };
                        Ret::Publish(match &payload {
                            Payload::Bytes(bytes) => do_publish(conn, args, &bytes[..]).await,
                            Payload::Fail => {
                                do_publish(conn, args, |_: &mut [u8]| -> Result<usize, ()> {
                                    Err(())
                                })
                                .await
                            }
                            Payload::Lie(n) => {
                                let n = *n;
                                do_publish(conn, args, move |_: &mut [u8]| -> Result<usize, ()> {
                                    Ok(n)
                                })
                                .await
                            }
                        })
                    }),
                );
            }
            Directive::Subscribe { props, filters } => {
                let Some(conn) = self.begin_op("subscribe") else {
                    return;
                };
                self.start(
                    "subscribe",
                    Box::pin(async move {
                        let props: Vec<Property<'_>> =
                            props.iter().map(PropSpec::to_property).collect();
                        let filters: Vec<TopicFilter<'_>> =
                            filters.iter().map(topic_filter).collect();
                        Ret::Handle(conn.subscribe(&filters, &props).await)
                    }),
                );
            }
            Directive::Unsubscribe { props, topics } => {
                let Some(conn) = self.begin_op("unsubscribe") else {
                    return;
                };
                self.start(
                    "unsubscribe",
                    Box::pin(async move {
                        let props: Vec<Property<'_>> =
                            props.iter().map(PropSpec::to_property).collect();
                        let topics: Vec<&str> = topics.iter().map(String::as_str).collect();
                        Ret::Handle(conn.unsubscribe(&topics, &props).await)
                    }),
                );
            }
            Directive::Disconnect { rc, props } => {
                let Some(conn) = self.begin_op("disconnect") else {
                    return;
                };
                self.start(
                    "disconnect",
                    Box::pin(async move {
                        let props: Option<Vec<Property<'_>>> = props
                            .as_ref()
                            .map(|p| p.iter().map(PropSpec::to_property).collect());
                        let mut disconnect = match rc {
                            None => Disconnect::success(),
                            Some(code) => Disconnect::with_reason(ReasonCode::from(code)),
                        };
                        if let Some(props) = &props {
                            disconnect = disconnect.with_properties(props);
                        }
                        Ret::Unit(conn.disconnect_with(disconnect).await)
                    }),
                );
            }
            Directive::Poll => {
                let Some(conn) = self.begin_op("poll") else {
                    return;
                };
                self.start("poll", Box::pin(async move { Ret::Msg(conn.poll().await) }));
            }
            Directive::Drive => {
                let Some(conn) = self.begin_op("drive") else {
                    return;
                };
                self.start(
                    "drive",
                    Box::pin(async move { Ret::Msg(conn.drive().await) }),
                );
            }
            Directive::Recv => {
                let Some(conn) = self.begin_op("recv") else {
                    return;
                };
                self.start(
                    "recv",
                    Box::pin(async move { Ret::Msg(conn.recv().await.map(Some)) }),
                );
            }
            Directive::D(n) => {
                if self.fut.is_none() || n == 0 {
                    self.emit("bad-op");
                    return;
                }
                self.sh.borrow_mut().slot = Some(n);
                self.poll_fut();
                self.sh.borrow_mut().slot = None;
            }
            Directive::Go => {
                if self.fut.is_none() {
                    self.emit("bad-op");
                    return;
                }
                let mut exhausted = true;
                for _ in 0..10000 {
                    self.sh.borrow_mut().slot = Some(250);
                    let polled = self.poll_fut();
                    let sh = self.sh.borrow();
                    if !matches!(polled, Polled::Pending) || sh.starved || sh.over_budget {
                        exhausted = false;
                        break;
                    }
                }
                self.sh.borrow_mut().slot = None;
                if exhausted {
                    self.emit("spin");
                }
            }
            Directive::Tick(us) => {
                if !now_us().checked_add(us).is_some_and(|t| t <= MAX_TIME_US) {
                    self.emit("bad-op");
                    return;
                }
                embassy_time::MockDriver::get().advance(embassy_time::Duration::from_micros(us));
                if self.fut.is_some() {
                    self.poll_fut();
                }
            }
            Directive::Rx(bytes) => {
                let mut sh = self.sh.borrow_mut();
                match sh.transports.last_mut() {
                    Some(t) => t.rx.extend_from_slice(&bytes),
                    None => sh.emit("bad-op"),
                }
            }
            Directive::Cancel => self.cancel(),
            Directive::Drop => {
                self.cancel();
                self.drop_conn();
            }
            Directive::SetPid(n) => match NonZeroU16::new(n) {
                Some(id) if self.fut.is_none() => {
                    // SAFETY: nothing is suspended; a connection, if any, is idle.
                    unsafe { (*self.stack.session).verif_set_next_packet_id(id) };
                }
                _ => self.emit("bad-op"),
            },
            Directive::Decode(bytes) => {
                let mut line = String::from("dec ");
                let _ = minimq::verif::decode(&bytes, &mut line);
                self.emit(&line);
            }
        }
    }

    /// Common start of every operation on the connection.
    fn begin_op(&mut self, name: &str) -> Option<&'static mut Conn> {
        if self.conn.is_null() {
            self.emit(&format!("ret {name} err NoConnection"));
            return None;
        }
        self.cancel();
        // SAFETY: the previous future (the only other user) has just been dropped.
        Some(unsafe { &mut *self.conn })
    }

    fn start(&mut self, name: &'static str, fut: Fut) {
        self.fut = Some(fut);
        self.fut_name = name;
        self.poll_fut();
    }

    fn cancel(&mut self) {
        if let Some(fut) = self.fut.take() {
            self.emit("cancel");
            drop(fut);
        }
    }

    fn drop_conn(&mut self) {
        if !self.conn.is_null() {
            self.emit("drop");
            // SAFETY: allocated by `Box::into_raw` in `finish`; no future refers to it any more.
            unsafe { drop(Box::from_raw(self.conn)) };
            self.conn = std::ptr::null_mut();
        }
    }

    /// `POLL` of PROTOCOL.md 2.2.
    fn poll_fut(&mut self) -> Polled {
        self.sh.borrow_mut().starved = false;
        for _ in 0..64 {
            self.flag.0.store(false, Ordering::SeqCst);
            let mut cx = Context::from_waker(&self.waker);
            let Some(fut) = self.fut.as_mut() else {
                return Polled::Done;
            };
            match fut.as_mut().poll(&mut cx) {
                Poll::Ready(ret) => {
                    self.fut = None;
                    self.finish(ret);
                    return Polled::Done;
                }
                Poll::Pending => {
                    if self.sh.borrow().over_budget || !self.flag.0.load(Ordering::SeqCst) {
                        return Polled::Pending;
                    }
                }
            }
        }
        self.emit("spin");
        Polled::Spin
    }

    fn finish(&mut self, ret: Ret) {
        let name = self.fut_name;
        let at = now_us();
        match ret {
            Ret::Connect(Ok(conn)) => {
                let event = match conn.connect_event() {
                    ConnectEvent::Connected => "connected",
                    ConnectEvent::Reconnected => "reconnected",
                };
                self.conn = Box::into_raw(Box::new(conn));
                self.emit(&format!("ret connect ok {event} @{at}"));
            }
            Ret::Connect(Err(e)) => self.emit(&format!("ret connect err {} @{at}", err_name(&e))),
            Ret::Publish(Ok(Some(op))) => self.new_handle(name, op, at),
            Ret::Publish(Ok(None)) => self.emit(&format!("ret publish ok none @{at}")),
            Ret::Publish(Err(e)) => {
                self.emit(&format!("ret publish err {} @{at}", pub_err_name(&e)))
            }
            Ret::Handle(Ok(op)) => self.new_handle(name, op, at),
            Ret::Handle(Err(e)) => self.emit(&format!("ret {name} err {} @{at}", err_name(&e))),
            Ret::Unit(Ok(())) => self.emit(&format!("ret {name} ok @{at}")),
            Ret::Unit(Err(e)) => self.emit(&format!("ret {name} err {} @{at}", err_name(&e))),
            Ret::Msg(Ok(None)) => self.emit(&format!("ret {name} ok none @{at}")),
            Ret::Msg(Ok(Some(msg))) => {
                self.emit(&format!("ret {name} ok msg @{at}"));
                self.describe(&msg);
            }
            Ret::Msg(Err(e)) => self.emit(&format!("ret {name} err {} @{at}", err_name(&e))),
        }
    }

    fn new_handle(&mut self, name: &str, op: Op, at: u64) {
        let k = self.handles.len();
        self.handles.push(op);
        let (kind, id, generation) = op_parts(&op);
        self.emit(&format!("ret {name} ok op {k} {kind} {id} {generation} @{at}"));
    }

    // ---------------------------------------------------------------------------------------
    // Inbound message description (PROTOCOL.md 3.2).

    fn describe<'m>(&mut self, msg: &'m InboundPublish<'m>) {
        let mut line = String::new();
        let _ = write!(
            line,
            "msg topic={} payload={} qos={} retain={} props={} iter=",
            hex(msg.topic().as_bytes()),
            hex(msg.payload()),
            msg.qos() as u8,
            msg.retained() as u8,
            hex(msg.properties().verif_encoded().unwrap_or(&[])),
        );
        let mut any = false;
        for item in msg.properties().iter() {
            if any {
                line.push(';');
            }
            any = true;
            match item {
                Ok(p) => fmt_property(&mut line, &p),
                Err(_) => line.push_str("err"),
            }
        }
        if !any {
            line.push('-');
        }
        let opt = |v: Option<&[u8]>| v.map(hex).unwrap_or_else(|| "none".to_string());
        let _ = write!(
            line,
            " rt={} cd={}",
            opt(msg.response_topic().map(str::as_bytes)),
            opt(msg.correlation_data()),
        );
        self.emit(&line);

        let user = [Property::UserProperty("k", "v")];

        let text = match msg.reply(&b"R"[..]) {
            None => "none".to_string(),
            Some(p) => self.side_publish(p),
        };
        self.emit(&format!("reply {text}"));

        let text = match msg.reply(&b"R"[..]) {
            None => "none".to_string(),
            Some(p) => self.side_publish(p.properties(&user)),
        };
        self.emit(&format!("replyp {text}"));

        macro_rules! owned {
            ($t:literal, $c:literal) => {{
                let text = match msg.reply_owned::<$t, $c>() {
                    Ok(Some(target)) => format!(
                        "ok {} {}",
                        hex(target.topic().as_bytes()),
                        opt(target.correlation_data())
                    ),
                    Ok(None) => "none".to_string(),
                    Err(_) => "err".to_string(),
                };
                self.emit(&format!("owned {}/{} {}", $t, $c, text));
            }};
        }
        owned!(0, 0);
        owned!(1, 0);
        owned!(0, 1);
        owned!(2, 2);
        owned!(3, 3);
        owned!(4, 4);
        owned!(8, 8);
        owned!(16, 4);
        owned!(4, 16);
        owned!(64, 64);

        let text = match msg.reply_owned::<65535, 65535>() {
            Ok(Some(target)) => {
                let target = Box::new(target);
                self.side_publish(target.publication(&b"R"[..]).properties(&user))
            }
            Ok(None) => "none".to_string(),
            Err(_) => "err".to_string(),
        };
        self.emit(&format!("ownedpub {text}"));
    }

    fn side_connect(&mut self) -> &mut Side {
        if self.side.is_none() {
            let state = Rc::new(RefCell::new(SideState {
                rx: vec![0x20, 0x03, 0x00, 0x00, 0x00],
                ..Default::default()
            }));
            let (rx, tx) = Stack::buffers(16, 70000);
            // SAFETY: freed in `Drop`, session first.
            let buffers = unsafe { Buffers::new(&mut *rx, &mut *tx) };
            let session = Box::into_raw(Box::new(Session::new(
                ConfigBuilder::new(buffers).keepalive_interval(0),
            )));
            // Registered before connecting so that everything is reachable from `Drop`.
            self.side = Some(Side {
                state: state.clone(),
                stack: Stack { session, rx, tx },
                conn: std::ptr::null_mut(),
            });
            let session: &'static mut Session<'static> = unsafe { &mut *session };
            let conn = block_on(session.connect(SideIo(state)))
                .unwrap_or_else(|_| panic!("side session failed to connect"));
            self.side.as_mut().unwrap().conn = Box::into_raw(Box::new(conn));
        }
        self.side.as_mut().unwrap()
    }

    /// Publish on the side session; the bytes of that PUBLISH in hex, or `err <E>`.
    fn side_publish<P: ToPayload<Error = ()>>(&mut self, publication: Publication<'_, P>) -> String {
        let side = self.side_connect();
        side.state.borrow_mut().written.clear();
        // SAFETY: the side connection is only ever used here, one call at a time.
        let conn = unsafe { &mut *side.conn };
        match block_on(conn.publish(publication)) {
            Ok(_) => hex(&side.state.borrow().written),
            Err(e) => format!("err {}", pub_err_name(&e)),
        }
    }

    // ---------------------------------------------------------------------------------------
    // State lines (PROTOCOL.md 3.3).

    fn print_state(&self) {
        let st = self.verif_state();
        let mut line = String::with_capacity(160);
        let live = match self.is_live() {
            None => "-",
            Some(true) => "1",
            Some(false) => "0",
        };
        let _ = write!(
            line,
            "s live={live} pid={} gen={} sp={} res={} used={} ret=",
            st.next_packet_id, st.generation, st.session_present as u8, st.session_resumed as u8,
            st.used
        );
        let send = |out: &mut String, s: &VerifSend| match s {
            VerifSend::Write(n) => {
                let _ = write!(out, "w{n}");
            }
            VerifSend::Flush => out.push('f'),
            VerifSend::Sent => out.push('s'),
        };
        list(&mut line, &st.retained, |out, (id, offset, len, s)| {
            let _ = write!(out, "{id}:{offset}:{len}:");
            send(out, s);
        });
        line.push_str(" rel=");
        list(&mut line, &st.release, |out, (id, rc, s)| {
            let _ = write!(out, "{id}:{rc:02x}:");
            send(out, s);
        });
        line.push_str(" ctl=");
        list(&mut line, &st.control, |out, (ty, id, rc, s)| {
            let _ = write!(out, "{ty}:{id}:{rc:02x}:");
            send(out, s);
        });
        line.push_str(" in2=");
        list(&mut line, &st.inbound_qos2, |out, id| {
            let _ = write!(out, "{id}");
        });
        let opt = |v: Option<u64>| v.map(|v| v.to_string()).unwrap_or_else(|| "-".to_string());
        let _ = write!(
            line,
            " q={}/{} mps={} mq={} ka={} np={} pt={} rd={}/{}",
            st.send_quota,
            st.max_send_quota,
            opt(st.maximum_packet_size.map(u64::from)),
            opt(st.max_qos.map(u64::from)),
            st.keepalive_ms,
            opt(st.next_ping_us),
            opt(st.ping_timeout_us),
            st.reader_read_bytes,
            opt(st.reader_packet_length.map(|v| v as u64)),
        );
        self.emit(&line);

        let mut line = String::from("h ");
        if self.handles.is_empty() {
            line.push('-');
        }
        for op in &self.handles {
            line.push(self.handle_status(op));
        }
        self.emit(&line);

        let bit = |q: QoS| if self.can_publish(q) { '1' } else { '0' };
        self.emit(&format!(
            "c cp={}{}{} qu={}",
            bit(QoS::AtMostOnce),
            bit(QoS::AtLeastOnce),
            bit(QoS::ExactlyOnce),
            self.is_publish_quiescent() as u8
        ));
    }
}

fn list<T>(out: &mut String, items: &[T], mut item: impl FnMut(&mut String, &T)) {
    if items.is_empty() {
        out.push('-');
        return;
    }
    for (i, it) in items.iter().enumerate() {
        if i != 0 {
            out.push(',');
        }
        item(out, it);
    }
}

fn topic_filter(f: &Filter) -> TopicFilter<'_> {
    let mut options = SubscriptionOptions::default().maximum_qos(qos_of(f.max_qos));
    if f.no_local {
        options = options.ignore_local_messages();
    }
    if f.rap {
        options = options.retain_as_published();
    }
    options = options.retain_behavior(match f.rh {
        0 => RetainHandling::Immediately,
        1 => RetainHandling::IfSubscriptionDoesNotExist,
        _ => RetainHandling::Never,
    });
    TopicFilter::new(&f.topic).options(options)
}

struct PubArgs<'a> {
    topic: &'a str,
    props: &'a [Property<'a>],
    c1: Option<&'a [u8]>,
    c2: Option<&'a [u8]>,
    qos: QoS,
    retain: bool,
}

async fn do_publish<P: ToPayload<Error = ()>>(
    conn: &mut Conn,
    args: PubArgs<'_>,
    payload: P,
) -> Result<Option<Op>, PubError<(), ErrorKind>> {
    let mut publication = Publication::new(args.topic, payload);
    if let Some(data) = args.c1 {
        publication = publication.correlate(data);
    }
    publication = publication.properties(args.props);
    if let Some(data) = args.c2 {
        publication = publication.correlate(data);
    }
    publication = publication.qos(args.qos);
    if args.retain {
        publication = publication.retain();
    }
    conn.publish(publication).await
}

/// Run a future that never really waits (side session over an always-ready transport).
fn block_on<F: Future>(future: F) -> F::Output {
    let waker = Waker::from(Arc::new(Noop));
    let mut cx = Context::from_waker(&waker);
    let mut future = std::pin::pin!(future);
    for _ in 0..1024 {
        if let Poll::Ready(value) = future.as_mut().poll(&mut cx) {
            return value;
        }
    }
    panic!("side session future did not complete");
}

impl Drop for Interp {
    fn drop(&mut self) {
        let leak = self.poisoned;
        // Order: future, connection, session, buffers; the configuration strings go last (field).
        match self.fut.take() {
            Some(fut) if leak => std::mem::forget(fut),
            other => drop(other),
        }
        unsafe {
            if !self.conn.is_null() && !leak {
                drop(Box::from_raw(self.conn));
            }
            self.conn = std::ptr::null_mut();
            self.stack.free(leak);
            if let Some(side) = self.side.as_mut() {
                if !side.conn.is_null() && !leak {
                    drop(Box::from_raw(side.conn));
                }
                side.conn = std::ptr::null_mut();
                side.stack.free(leak);
            }
        }
    }
}

/// Run a whole program text and return its trace.
pub fn run_program(text: &str) -> String {
    let mut lines = text.lines().filter(|l| !is_ignored(l));
    let Some(header) = lines.next() else {
        return "bad-cfg\n".to_string();
    };
    let mut interp = match Interp::new(header) {
        Ok(interp) => interp,
        Err(line) => return format!("{line}\n"),
    };
    for line in lines {
        if interp.is_ended() {
            break;
        }
        interp.exec(line);
    }
    interp.take_trace()
}

/// Replace the default panic hook (which prints to stderr) by a silent one.
pub fn install_silent_panic_hook() {
    std::panic::set_hook(Box::new(|_| {}));
}

#[cfg(test)]
mod tests {
    use super::*;

    // One test function: the virtual clock is a process global, so scenarios run in sequence.
    #[test]
    fn scenarios() {
        install_silent_panic_hook();

        // A panic inside the polled code ends the run with `panic <index>` and nothing after it.
        let mut it = Interp::new("cfg rx=32 tx=96 ka=0 exp=0 dg=0 cid=- auth=none will=none")
            .unwrap();
        it.exec("connect");
        it.exec("# comment");
        it.fut = Some(Box::pin(async { panic!("boom") }));
        it.exec("d 1");
        assert!(it.is_ended());
        let trace = it.take_trace();
        assert!(trace.ends_with("panic 1\n"), "{trace}");
        it.exec("connect");
        assert_eq!(it.take_trace(), "");
        drop(it);

        // The next program starts from a clean clock and a clean session; step API.
        let mut it = Interp::new("cfg rx=32 tx=96 ka=2 exp=0 dg=0 cid=- auth=none will=none")
            .unwrap();
        assert_eq!(it.now_us(), 0);
        it.exec("connect");
        assert_eq!(it.suspended(), Some("connect"));
        assert!(!it.has_connection());
        it.exec("d 250");
        assert_eq!(it.transport_count(), 1);
        assert_eq!(it.wire(0)[0], 0x10);
        it.exec("rx 2003000000");
        assert_eq!(it.rx_unread(0), 5);
        it.exec("go");
        assert_eq!(it.suspended(), None);
        assert_eq!(it.is_live(), Some(true));
        assert_eq!(it.verif_state().generation, 1);
        it.exec("publish 1 0 61 00 -");
        it.exec("go");
        let handles = it.handles();
        assert_eq!(handles.len(), 1);
        assert_eq!(
            handles[0],
            HandleInfo {
                kind: "pub1",
                packet_id: 1,
                generation: 1,
                status: 'p'
            }
        );
        it.exec("tick 1000000");
        assert_eq!(it.now_us(), 1_000_000);
        assert!(it.take_trace().contains("ret publish ok op 0 pub1 1 1 @0\n"));
        drop(it);

        assert_eq!(run_program("\n# nothing\n"), "bad-cfg\n");
        assert_eq!(run_program("connect\n"), "bad-cfg\n");
    }
}
