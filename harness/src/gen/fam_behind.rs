//! `behind`: every public operation must first finish older outbound work that a cancelled
//! operation left partially written (or written but not flushed).

use super::util::{PubLine, filter_text};
use super::{CfgSpec, ConnSpec, Drv, Out, Rng, stride, wire};
use crate::parse::{PropSpec, hex};

const OLDER: [&str; 8] = ["pub1", "pub2", "sub", "unsub", "pubrel", "puback", "pubrec", "pubcomp"];

const NEXT: [&str; 10] = [
    "publish 0 0 6e 78 -",
    "publish 1 0 6e 78 -",
    "publish 2 0 6e 78 -",
    "subscribe - 6e/1/0/0/0",
    "unsubscribe - 6e",
    "disconnect none none",
    "disconnect 04 none",
    "poll",
    "drive",
    "recv",
];

fn start(rng: Rng) -> Drv {
    let mut d = Drv::new(&CfgSpec::basic(128, 512), rng);
    d.split_rx = false;
    let props = match d.rng.below(4) {
        0 => vec![],
        1 => vec![PropSpec::U16(0x21, 2)],
        2 => vec![PropSpec::U16(0x21, 8)],
        _ => vec![PropSpec::U16(0x21, 20)],
    };
    d.connect(&ConnSpec::with(props));
    d
}

/// Read on (with `d 250`) until the suspended operation waits for a write.
pub(super) fn until_write(d: &mut Drv) {
    for _ in 0..8 {
        if !d.suspended() || d.pend == Some('w') || d.starved {
            return;
        }
        d.x("d 250");
    }
}

/// Bring the client to the point where the older packet's first byte waits for its write
/// decision (the operation that writes it is suspended).
fn prepare(d: &mut Drv, older: &str) {
    let inbound = |d: &mut Drv, qos: u8| {
        let p = wire::publish(b"in", Some(7), qos, false, false, &[], b"v");
        d.send_raw(if qos == 1 { "publish1" } else { "publish2" }, &p);
        d.x("poll"); // delivers the message
        d.go();
    };
    match older {
        "pub1" => d.x(&PubLine::simple(1, "o/1", b"old").text()),
        "pub2" => d.x(&PubLine::simple(2, "o/2", b"old").text()),
        "sub" => d.x(&format!("subscribe - {}", filter_text("o/#", 1, false, false, 0))),
        "unsub" => d.x(&format!("unsubscribe - {}", hex(b"o/#"))),
        "pubrel" => {
            d.x(&PubLine::simple(2, "o", b"q2").text());
            d.go();
            d.deliver_all(); // PUBREC
            d.x("poll");
            until_write(d);
        }
        "puback" => {
            inbound(d, 1);
            d.x("poll");
        }
        "pubrec" => {
            inbound(d, 2);
            d.x("poll");
        }
        _ => {
            inbound(d, 2);
            d.x("poll");
            d.go(); // PUBREC out
            d.send_raw("pubrel", &wire::ack(0x62, 7, None, None));
            if !d.suspended() {
                d.x("poll");
            }
            until_write(d);
        }
    }
}

pub fn behind(out: &mut Out, count: u64) {
    // Length of every older packet (dry runs).
    let mut grid: Vec<(usize, usize, usize, bool)> = Vec::new(); // older, k (0 = flush), next, bytewise
    for (o, older) in OLDER.iter().enumerate() {
        let mut dry = start(out.rng(o as u64));
        prepare(&mut dry, older);
        let before = dry.interp().wire_len(0);
        dry.x("d 250");
        let len = dry.interp().wire_len(0) - before;
        drop(dry);
        for k in (1..len).chain([0]) {
            for x in 0..NEXT.len() {
                for bytewise in [false, true] {
                    grid.push((o, k, x, bytewise));
                }
            }
        }
    }
    for (idx, p) in stride(grid.len(), count as usize).into_iter().enumerate() {
        let (o, k, x, bytewise) = grid[p];
        let mut d = start(out.rng(o as u64));
        prepare(&mut d, OLDER[o]);
        if k == 0 {
            d.x("d 250"); // written completely, the flush is pending
        } else {
            d.x(&format!("d {k}"));
        }
        d.x("cancel");
        d.x(NEXT[x]);
        if bytewise {
            for _ in 0..200 {
                if !d.suspended() || d.starved {
                    break;
                }
                d.x("d 1");
            }
        } else {
            d.go();
        }
        d.finish_benign();
        let tags = format!(
            "older={} written={} next={} granularity={}",
            OLDER[o],
            if k == 0 { "all-unflushed".to_string() } else { k.to_string() },
            NEXT[x].replace(' ', "_"),
            if bytewise { "d1" } else { "go" }
        );
        out.emit(idx as u64, "", &tags, &d);
    }
}
