//! `malformed` (crafted inbound bytes) and `decode-exhaustive` (decoder enumeration).

use super::wire::{self, enc_props};
use super::{CfgSpec, ConnSpec, Drv, Out, Rng};
use crate::parse::{PropSpec, hex};

const RX: usize = 64;

fn h(s: &str) -> Vec<u8> {
    crate::parse::parse_hex(&s.replace(' ', "")).expect("catalogue hex")
}

/// Crafted server byte strings: (label, bytes).
fn catalogue() -> Vec<(&'static str, Vec<u8>)> {
    let long_publish = wire::publish(b"t", None, 0, false, false, &[], &vec![0x55; RX - 5]);
    let mut v: Vec<(&'static str, Vec<u8>)> = vec![
        // Non-canonical and over-long variable byte integers.
        ("remlen-noncanonical", h("40 82 00 00 01")),
        ("remlen-noncanonical-ping", h("d0 80 00")),
        ("remlen-noncanonical-3", h("40 82 80 00 00 01")),
        ("remlen-5-bytes", h("40 82 80 80 80 00 00 01")),
        ("remlen-max", h("30 ff ff ff 7f")),
        ("remlen-2pow25", h("30 80 80 80 10")),
        ("proplen-noncanonical", h("30 07 00 01 74 80 00 70 70")),
        ("proplen-5-bytes", h("30 0a 00 01 74 80 80 80 80 00 70 70")),
        ("proplen-past-end", h("30 05 00 01 74 05 70")),
        ("connack-proplen-noncanonical", h("20 04 00 00 80 00")),
        // Lengths beyond the receive buffer.
        ("remlen-over-rx", h("30 80 01")),
        ("packet-rx-plus-1", long_publish),
        // Reserved and client-only packet types, illegal flags.
        ("type-0", h("00 00")),
        ("type-15", h("f0 00")),
        ("type-15-body", h("f0 02 00 00")),
        ("connect-from-server", h("10 0d 00 04 4d 51 54 54 05 02 00 00 00 00 00")),
        ("subscribe-from-server", h("82 06 00 01 00 00 01 74 00")),
        ("unsubscribe-from-server", h("a2 06 00 01 00 00 01 74")),
        ("pingreq-from-server", h("c0 00")),
        ("publish-qos3", h("36 06 00 01 74 00 01 00")),
        ("puback-flags", h("41 02 00 01")),
        ("pubrel-flags-0", h("60 02 00 01")),
        ("pubrel-flags-f", h("6f 02 00 01")),
        ("pubrec-flags", h("58 02 00 01")),
        ("pubcomp-flags", h("72 02 00 01")),
        ("suback-flags", h("91 04 00 01 00 00")),
        ("unsuback-flags", h("b2 04 00 01 00 00")),
        ("pingresp-flags", h("d1 00")),
        ("connack-flags", h("21 03 00 00 00")),
        ("disconnect-flags", h("e1 00")),
        ("publish-dup-qos0", h("38 04 00 01 74 00")),
        // Truncated fields.
        ("topic-len-past-end", h("30 03 00 09 74")),
        ("topic-len-only", h("30 01 00")),
        ("publish-empty-body", h("30 00")),
        ("publish-no-pid", h("32 03 00 01 74")),
        ("publish-half-pid", h("32 04 00 01 74 00")),
        ("puback-1-byte", h("40 01 00")),
        ("puback-0-bytes", h("40 00")),
        ("puback-reason-string-past-end", h("40 07 00 01 00 03 1f 00 09")),
        ("puback-proplen-past-end", h("40 04 00 01 00 05")),
        ("suback-no-codes", h("90 03 00 01 00")),
        ("suback-short", h("90 02 00 01")),
        ("connack-short", h("20 02 00 00")),
        ("connack-1-byte", h("20 01 00")),
        // Trailing bytes after packets without payload.
        ("pingresp-trailing", h("d0 01 00")),
        ("puback-trailing", h("40 05 00 01 00 00 ff")),
        ("pubrel-trailing", h("62 05 00 01 00 00 ff")),
        ("connack-trailing", h("20 04 00 00 00 ff")),
        ("disconnect-trailing", h("e0 03 00 00 ff")),
        // Invalid UTF-8 and odd topics.
        ("topic-c0-80", h("30 05 00 02 c0 80 00")),
        ("topic-surrogate", h("30 06 00 03 ed a0 80 00")),
        ("topic-ff", h("30 04 00 01 ff 00")),
        ("topic-nul", h("30 04 00 01 00 00")),
        ("topic-empty", h("30 03 00 00 00")),
        ("topic-wildcard", h("30 06 00 03 61 2f 23 00")),
        ("response-topic-bad-utf8", h("30 09 00 01 74 04 08 00 01 ff 70")),
        ("user-property-bad-utf8", h("30 0c 00 01 74 07 26 00 01 c0 00 01 76 70")),
        // Packet id 0.
        ("publish1-pid-0", h("32 06 00 01 74 00 00 00")),
        ("publish2-pid-0", h("34 06 00 01 74 00 00 00")),
        ("puback-pid-0", h("40 02 00 00")),
        ("pubrel-pid-0", h("62 02 00 00")),
        ("suback-pid-0", h("90 04 00 00 00 00")),
        // Property blocks.
        ("prop-unknown-id", h("30 07 00 01 74 02 7f 00 70")),
        ("prop-id-0", h("30 07 00 01 74 02 00 00 70")),
        ("prop-u32-truncated", h("30 08 00 01 74 03 02 00 00 70")),
        ("prop-userprop-no-value", h("30 09 00 01 74 04 26 00 01 6b")),
        ("prop-string-past-block", h("30 09 00 01 74 03 03 00 05 61 62")),
        ("prop-topic-alias", h("30 08 00 01 74 03 23 00 01 70")),
        ("prop-topic-alias-empty-topic", h("30 07 00 00 03 23 00 01 70")),
        ("prop-subid-0", h("30 07 00 01 74 02 0b 00 70")),
        ("prop-subid-2pow25", h("30 0a 00 01 74 05 0b 80 80 80 10 70")),
        ("prop-subid-max", h("30 0a 00 01 74 05 0b ff ff ff 7f 70")),
        ("prop-subid-5-bytes", h("30 0b 00 01 74 06 0b ff ff ff ff 01 70")),
        ("prop-duplicate-pfi", h("30 09 00 01 74 04 01 00 01 01 70")),
        ("prop-pfi-2", h("30 07 00 01 74 02 01 02 70")),
        ("prop-server-only-in-publish", h("30 08 00 01 74 03 21 00 05 70")),
        // Valid but unusual.
        ("puback-2-bytes", h("40 02 00 01")),
        ("puback-3-bytes", h("40 03 00 01 00")),
        ("puback-3-bytes-fail", h("40 03 00 01 80")),
        ("puback-empty-props", h("40 04 00 01 00 00")),
        ("puback-unknown-reason", h("40 03 00 01 05")),
        ("pubrec-stale", h("50 02 00 09")),
        ("pubrel-stale", h("62 02 00 09")),
        ("pubcomp-stale", h("70 02 00 09")),
        ("disconnect-0", h("e0 00")),
        ("disconnect-rc", h("e0 01 00")),
        ("disconnect-8b", h("e0 01 8b")),
        ("disconnect-empty-props", h("e0 02 00 00")),
        ("disconnect-unknown-rc", h("e0 01 03")),
        ("suback-many-codes", h("90 08 00 01 00 00 01 02 80 87")),
        ("unsuback-many-codes", h("b0 06 00 01 00 00 11 80")),
        ("connack-again", h("20 03 00 00 00")),
        ("connack-again-sp", h("20 03 01 00 00")),
        ("pingresp-unsolicited", h("d0 00")),
        ("two-packets", h("d0 00 40 02 00 01")),
        ("publish-retain-dup-q1", h("3b 06 00 01 74 00 05 00")),
    ];
    let reason = enc_props(&[PropSpec::Str(0x1f, "bye".into())]);
    let mut body = vec![0x8b, reason.len() as u8];
    body.extend(&reason);
    v.push(("disconnect-reason-string", wire::pkt(0xe0, &body)));
    // Deliverable PUBLISH packets whose property block goes wrong somewhere in the middle: the message
    // is handed to the application, which iterates the block to its end (errors included).
    let blocks: [&[u8]; 25] = [
        &[0x80, 0x01, 0x01],
        &[0x80, 0x80, 0x01, 0x01],
        &[0x80, 0x80, 0x80, 0x01, 0x01],
        &[0x80, 0x80, 0x80, 0x80, 0x01, 0x01],
        &[0xff, 0x7f, 0x01, 0x01],
        &[0x0b, 0x80],
        &[0x0b, 0x80, 0x80],
        &[0x0b, 0xff, 0xff, 0xff],
        &[0x0b, 0x80, 0x80, 0x80, 0x80, 0x01, 0x01],
        &[0x23, 0x01],
        &[0x02, 0x01, 0x01, 0x01],
        &[0x03, 0x00],
        &[0x03, 0x00, 0x05, 0x61],
        &[0x03, 0x00, 0x02, 0xc0, 0xc0, 0x01, 0x01],
        &[0x09, 0x00, 0x03, 0x61, 0x01],
        &[0x26, 0x00, 0x01, 0x6b, 0x00, 0x05, 0x76],
        &[0x26, 0x00, 0x01, 0x6b, 0x00],
        &[0x26, 0x00, 0x05, 0x6b],
        &[0x26, 0x00],
        &[0x26, 0x00, 0x01, 0xc0, 0x00, 0x01, 0x76, 0x01, 0x01],
        &[0x26, 0x00, 0x01, 0x6b, 0x00, 0x01, 0xc0, 0x01, 0x01],
        &[0x7e, 0x01, 0x01],
        &[0x03, 0x00, 0x02, 0xc0, 0xc0],
        &[0x26, 0x00, 0x01, 0x6b, 0x00, 0x02, 0xc0, 0xc0],
        &[0x26, 0x00, 0x02, 0xc0, 0xc0],
    ];
    for block in blocks {
        v.push(("publish-props-go-wrong", wire::publish(b"t", None, 0, false, false, block, b"p")));
    }
    v
}

/// A valid packet with one random byte-level mutation.
fn mutate(rng: &mut Rng) -> (String, Vec<u8>) {
    let base: Vec<Vec<u8>> = vec![
        wire::publish(b"t/a", Some(5), 1, false, false, &enc_props(&[PropSpec::Str(0x08, "r".into()), PropSpec::Bin(0x09, vec![1, 2])]), b"pay"),
        wire::publish(b"q", Some(6), 2, true, false, &enc_props(&[PropSpec::Pair("k".into(), "v".into())]), b""),
        wire::ack(0x40, 1, Some(0), Some(&enc_props(&[PropSpec::Str(0x1f, "x".into())]))),
        wire::ack(0x50, 1, Some(0x10), None),
        wire::suback(0x90, 1, &[0, 1]),
        wire::connack(false, 0, &enc_props(&[PropSpec::U16(0x21, 5)])),
        wire::disconnect(Some(0x8e)),
    ];
    let mut p = rng.pick(&base).clone();
    let at = rng.below(p.len() as u64) as usize;
    let what = match rng.below(5) {
        0 => {
            p[at] ^= 1 << rng.below(8);
            "flip"
        }
        1 => {
            p[at] = *rng.pick(&[0x00, 0x7f, 0x80, 0xff]);
            "set"
        }
        2 => {
            p.truncate(at.max(1));
            "truncate"
        }
        3 => {
            p.insert(at, *rng.pick(&[0x00, 0x80, 0xff]));
            "insert"
        }
        _ => {
            p.remove(at);
            "remove"
        }
    };
    (format!("mutation-{what}-at-{at}"), p)
}

pub fn malformed(out: &mut Out, count: u64) {
    let cat = catalogue();
    for idx in 0..count {
        let mut rng = out.rng(idx);
        let handshake = idx % 2 == 1;
        let item = (idx / 2) as usize;
        let (label, bytes) = match cat.get(item) {
            Some((l, b)) => (l.to_string(), b.clone()),
            None => mutate(&mut rng),
        };
        let mut d = Drv::new(&CfgSpec::basic(RX, 256), rng);
        d.split_rx = false;
        if handshake {
            d.x("connect");
            d.go();
            d.x(&format!("decode {}", hex(&bytes)));
            d.send_raw("crafted", &bytes);
            d.go();
            if d.suspended() {
                // The bytes were not enough to end the handshake: the real CONNACK follows.
                d.send_raw("connack", &wire::connack(false, 0, &[]));
                d.go();
            }
        } else {
            d.connect(&ConnSpec::plain());
            if d.rng.pct(60) {
                d.x("publish 1 0 74 70 -");
                d.go();
                d.broker.forget(0);
            }
            if d.rng.pct(30) {
                d.x("publish 2 0 74 71 -");
                d.go();
                let n = d.broker.owed().len();
                d.broker.forget(n - 1);
            }
            d.x(&format!("decode {}", hex(&bytes)));
            d.x("poll");
            d.send_raw("crafted", &bytes);
            d.go();
            d.x("poll");
            d.go();
        }
        d.x("cancel");
        d.x("poll");
        d.x("cancel");
        // Reconnect on a healthy transport (the crafted bytes may be half consumed).
        d.connect(&ConnSpec::plain());
        d.finish_benign();
        let tags = format!("item={label} inject={}", if handshake { "handshake" } else { "session" });
        out.emit(idx, "", &tags, &d);
    }
}

// -------------------------------------------------------------------------------------------

const DECODE_CFG: &str = "cfg rx=16 tx=16 ka=0 exp=0 dg=0 cid=- auth=none will=none";

fn flush(out: &mut Out, idx: &mut u64, tag: &str, lines: &mut Vec<String>) {
    if !lines.is_empty() {
        out.emit_lines(*idx, tag, DECODE_CFG, lines);
        *idx += 1;
        lines.clear();
    }
}

pub fn decode_exhaustive(out: &mut Out, _count: u64) {
    let mut idx = 0u64;
    let mut lines: Vec<String> = Vec::new();
    let push = |out: &mut Out, idx: &mut u64, lines: &mut Vec<String>, bytes: &[u8], tag: &str| {
        lines.push(format!("decode {}", hex(bytes)));
        if lines.len() == 5000 {
            flush(out, idx, tag, lines);
        }
    };
    // All byte strings of length 0..2.
    push(out, &mut idx, &mut lines, &[], "exhaustive=len2");
    for a in 0..=255u8 {
        push(out, &mut idx, &mut lines, &[a], "exhaustive=len2");
    }
    for a in 0..=255u8 {
        for b in 0..=255u8 {
            push(out, &mut idx, &mut lines, &[a, b], "exhaustive=len2");
        }
    }
    flush(out, &mut idx, "exhaustive=len2", &mut lines);
    // First byte x remaining-length forms x short tails. A form is a run of continuation bytes
    // (80, ff) ended by a terminal (00, 01, 7f), or unterminated, or five bytes long.
    let mut forms: Vec<Vec<u8>> = Vec::new();
    for k in 0..=4usize {
        for mask in 0..(1u32 << k) {
            let prefix: Vec<u8> = (0..k).map(|i| if mask >> i & 1 == 1 { 0xff } else { 0x80 }).collect();
            let lasts: &[u8] = if k == 4 { &[0x00, 0x01, 0x7f, 0x80, 0xff] } else { &[0x00, 0x01, 0x7f] };
            for last in lasts {
                let mut f = prefix.clone();
                f.push(*last);
                forms.push(f);
            }
            if k > 0 {
                forms.push(prefix);
            }
        }
    }
    let mut tails: Vec<Vec<u8>> = vec![vec![]];
    for len in 1..=3usize {
        for code in 0..3usize.pow(len as u32) {
            tails.push((0..len).map(|i| [0x00, 0x01, 0xff][code / 3usize.pow(i as u32) % 3]).collect());
        }
    }
    for first in 0..=255u8 {
        for form in &forms {
            for tail in &tails {
                let mut bytes = vec![first];
                bytes.extend(form);
                bytes.extend(tail);
                push(out, &mut idx, &mut lines, &bytes, "exhaustive=forms");
            }
        }
    }
    flush(out, &mut idx, "exhaustive=forms", &mut lines);
    // UTF-8: every sequence of up to three bytes over an alphabet with one byte of each class of
    // RFC 3629 (and their neighbours), the four-byte forms, as the topic of a PUBLISH and as the
    // value of a string property.
    const ALPHA: [u8; 25] = [
        0x00, 0x24, 0x7f, 0x80, 0x8f, 0x90, 0x9f, 0xa0, 0xbf, 0xc0, 0xc1, 0xc2, 0xdf, 0xe0, 0xe1, 0xec, 0xed, 0xee,
        0xef, 0xf0, 0xf1, 0xf3, 0xf4, 0xf5, 0xff,
    ];
    let mut strings: Vec<Vec<u8>> = Vec::new();
    for a in ALPHA {
        strings.push(vec![a]);
        for b in ALPHA {
            strings.push(vec![a, b]);
            for c in ALPHA {
                strings.push(vec![a, b, c]);
            }
        }
    }
    for a in [0xf0u8, 0xf1, 0xf3, 0xf4, 0xf5] {
        for b in [0x7fu8, 0x80, 0x8f, 0x90, 0x9f, 0xa0, 0xbf, 0xc0] {
            for c in [0x7fu8, 0x80, 0xbf, 0xc0] {
                for d in [0x7fu8, 0x80, 0xbf, 0xc0] {
                    strings.push(vec![a, b, c, d]);
                }
            }
        }
    }
    for s in &strings {
        // PUBLISH QoS 0, topic s, no properties, payload "p"
        let mut body = (s.len() as u16).to_be_bytes().to_vec();
        body.extend(s);
        body.extend([0x00, 0x70]);
        let mut bytes = vec![0x30, body.len() as u8];
        bytes.extend(&body);
        push(out, &mut idx, &mut lines, &bytes, "exhaustive=utf8");
        // PUBLISH QoS 0, topic "t", Content Type s
        let mut body = vec![0x00, 0x01, 0x74, (3 + s.len()) as u8, 0x03];
        body.extend((s.len() as u16).to_be_bytes());
        body.extend(s);
        body.push(0x70);
        let mut bytes = vec![0x30, body.len() as u8];
        bytes.extend(&body);
        push(out, &mut idx, &mut lines, &bytes, "exhaustive=utf8");
    }
    flush(out, &mut idx, "exhaustive=utf8", &mut lines);
    // Property blocks whose length is right and whose content stops short: every variable byte
    // integer form after Subscription Identifier, every fixed-width property cut at every byte,
    // strings, binary data and string pairs whose declared length runs past the block.
    let mut blocks: Vec<Vec<u8>> = Vec::new();
    for form in &forms {
        let mut b = vec![0x0b];
        b.extend(form);
        blocks.push(b);
    }
    for (id, width) in [(0x01u8, 1usize), (0x23, 2), (0x02, 4), (0x24, 1), (0x21, 2), (0x27, 4)] {
        for have in 0..=width {
            let mut b = vec![id];
            b.extend(vec![0x01; have]);
            blocks.push(b.clone());
            b.extend([0x01, 0x01]);
            blocks.push(b);
        }
    }
    for id in [0x03u8, 0x08, 0x09, 0x1f, 0x26] {
        for declared in [0u16, 1, 2, 3] {
            for have in 0..=4usize {
                let mut b = vec![id];
                b.extend(declared.to_be_bytes());
                b.extend(vec![0x61; have]);
                blocks.push(b.clone());
                if id == 0x26 {
                    b.extend(declared.to_be_bytes());
                    b.extend(vec![0x62; have]);
                    blocks.push(b);
                }
            }
        }
        blocks.push(vec![id]);
        blocks.push(vec![id, 0x00]);
    }
    for block in &blocks {
        for first in [0x30u8, 0x32] {
            let mut body = vec![0x00, 0x01, 0x74];
            if first == 0x32 {
                body.extend([0x00, 0x05]);
            }
            body.push(block.len() as u8);
            body.extend(block);
            body.push(0x70);
            let mut bytes = vec![first, body.len() as u8];
            bytes.extend(&body);
            push(out, &mut idx, &mut lines, &bytes, "exhaustive=props");
        }
        // the same block in a PUBACK and in a CONNACK
        let mut body = vec![0x00, 0x05, 0x00, block.len() as u8];
        body.extend(block);
        let mut bytes = vec![0x40, body.len() as u8];
        bytes.extend(&body);
        push(out, &mut idx, &mut lines, &bytes, "exhaustive=props");
        let mut body = vec![0x00, 0x00, block.len() as u8];
        body.extend(block);
        let mut bytes = vec![0x20, body.len() as u8];
        bytes.extend(&body);
        push(out, &mut idx, &mut lines, &bytes, "exhaustive=props");
    }
    flush(out, &mut idx, "exhaustive=props", &mut lines);
}

pub fn decode_exhaustive3(out: &mut Out, _count: u64) {
    let mut idx = 0u64;
    let mut lines: Vec<String> = Vec::with_capacity(200_000);
    for a in 0..=255u8 {
        for b in 0..=255u8 {
            for c in 0..=255u8 {
                lines.push(format!("decode {}", hex(&[a, b, c])));
                if lines.len() == 200_000 {
                    flush(out, &mut idx, "exhaustive=len3", &mut lines);
                }
            }
        }
    }
    flush(out, &mut idx, "exhaustive=len3", &mut lines);
}
