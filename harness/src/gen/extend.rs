//! `vh extend`: replay a prefix of an existing program as written, then continue reactively with
//! a fixed list of strategies (search around a divergence).

use std::path::Path;

use super::wire;
use super::{ConnSpec, Drv, Rng, Sp};
use crate::parse::{PropSpec, is_ignored};

pub const STRATEGIES: [&str; 18] = [
    "drain",
    "fill-q1",
    "fill-q2",
    "fill-q2-rc10",
    "resume",
    "resume-rm2",
    "fresh",
    "acks-wrongkind",
    "acks-fail",
    "idle-ticks",
    "inbound",
    "partial-writes",
    "cancel-drain",
    "rm2-fill-q2-rc10",
    "cancel-at-flush",
    "partial-reads",
    "wrap-near-inflight",
    "fill-q2-resume-fill",
];

/// Directives a continuation may add (approximately).
const BOUND: usize = 80;

/// What the client itself holds in flight: (packet id, kind) with kind one of
/// `pub1`, `pub2`, `sub`, `unsub`, `rel`.
fn in_flight(d: &Drv) -> Vec<(u16, &'static str)> {
    let Some(it) = d.it.as_ref() else {
        return Vec::new();
    };
    let st = it.verif_state();
    let arena = it.arena();
    let mut out = Vec::new();
    for (id, offset, _, _) in st.retained.iter() {
        let first = arena.get(*offset).copied().unwrap_or(0);
        let kind = match (first >> 4, first >> 1 & 3) {
            (3, 2) => "pub2",
            (3, _) => "pub1",
            (8, _) => "sub",
            _ => "unsub",
        };
        out.push((*id, kind));
    }
    for (id, _, _) in st.release.iter() {
        out.push((*id, "rel"));
    }
    out
}

/// `poll` / `go` until the client waits for input that is not there.
fn settle(d: &mut Drv) {
    for _ in 0..8 {
        if !d.live() || d.ended() {
            return;
        }
        if !d.suspended() {
            d.x("poll");
        }
        d.go();
        if d.suspended() && d.unread() == 0 {
            return;
        }
        if d.saw("ret poll err") {
            return;
        }
    }
}

fn ensure_live(d: &mut Drv) -> bool {
    d.live()
        || d.connect(&ConnSpec {
            sp: Sp::IfAsked,
            rc: 0,
            props: vec![],
        })
}

fn resume(d: &mut Drv, sp: bool, props: Vec<PropSpec>) -> bool {
    d.x("drop");
    d.connect(&ConnSpec {
        sp: Sp::Fixed(sp),
        rc: 0,
        props,
    })
}

/// Make sure something is in flight for the ack strategies.
fn seed_in_flight(d: &mut Drv) {
    if !in_flight(d).is_empty() {
        return;
    }
    for line in [
        "publish 1 0 6531 31 -",
        "publish 2 0 6532 32 -",
        "subscribe - 6533/1/0/0/0",
        "unsubscribe - 6534",
    ] {
        d.x(line);
        d.go();
    }
}

fn raw(d: &mut Drv, kind: &str, bytes: Vec<u8>) {
    d.send_raw(kind, &bytes);
}

/// Publish without delivering acknowledgements until the client refuses twice.
fn fill(d: &mut Drv, qos: u8) {
    let mut refused = 0;
    for i in 0..14 {
        d.x(&format!("publish {qos} 0 66 {:02x} -", 0x30 + i));
        d.go();
        if d.saw("ret publish err") {
            refused += 1;
            if refused == 2 {
                return;
            }
        }
        if !d.live() {
            return;
        }
    }
}

fn fill_q2(d: &mut Drv, rc: Option<u8>) {
    fill(d, 2);
    // Only the PUBRECs, all successful.
    let mut i = 0;
    while i < d.broker.owed().len() {
        if d.broker.owed()[i].kind == "pubrec" {
            let mut o = d.broker.deliver(i);
            o.bytes = wire::ack(0x50, o.pid, rc, None);
            d.send(&o);
        } else {
            i += 1;
        }
    }
    settle(d);
    for i in 0..3 {
        d.x(&format!("publish 2 0 67 {:02x} -", 0x41 + i));
        d.go();
    }
    let mut i = 0;
    while i < d.broker.owed().len() {
        if d.broker.owed()[i].kind == "pubcomp" {
            d.deliver(i);
        } else {
            i += 1;
        }
    }
    settle(d);
}

fn idle_ticks(d: &mut Drv, start: usize) {
    d.settle_writes = true;
    let mut elapsed = 0u64;
    let answer = |d: &mut Drv| {
        if d.broker.owed().iter().any(|o| o.kind == "pingresp") {
            d.tick(100_000);
            d.deliver_all();
            d.go();
            return 100_000;
        }
        0
    };
    while elapsed < 20_000_000 && d.count - start < BOUND - 25 && d.live() {
        if !d.suspended() {
            d.x("poll");
        }
        if matches!(d.pend, Some('w' | 'f')) {
            d.go();
        }
        elapsed += answer(d);
        if !d.tick(500_000) {
            return;
        }
        elapsed += 500_000;
        if matches!(d.pend, Some('w' | 'f')) {
            d.go();
        }
    }
    // One PINGREQ goes unanswered until poll gives up.
    let forget_pingresp = |d: &mut Drv| {
        while let Some(i) = d.broker.owed().iter().position(|o| o.kind == "pingresp") {
            d.broker.forget(i);
        }
    };
    for _ in 0..6 {
        if !d.live() {
            break;
        }
        if !d.suspended() {
            d.x("poll");
        }
        if matches!(d.pend, Some('w' | 'f')) {
            d.go();
        }
        forget_pingresp(d);
        let st = d.interp().verif_state();
        let now = d.interp().now_us();
        match (st.ping_timeout_us, st.next_ping_us) {
            (Some(pt), _) => {
                let mut at = now;
                for _ in 0..10 {
                    if at + 500_000 >= pt || !d.tick(500_000) {
                        break;
                    }
                    at += 500_000;
                }
                d.tick_to(pt);
                if d.saw("ret poll err") || !d.live() {
                    break;
                }
            }
            (None, Some(np)) => {
                if !d.tick_to(np.max(now)) {
                    break;
                }
                d.go();
            }
            (None, None) => break,
        }
    }
}

fn inbound(d: &mut Drv) {
    for qos in 0..3u8 {
        if let Some(o) = d.broker.inbound(&mut d.rng, qos, None, Some(vec![0x69, qos])) {
            d.send(&o);
        }
        settle(d);
        settle(d);
    }
    d.deliver_all(); // the PUBREL (and anything else owed)
    settle(d);
    // A second QoS 2 publish whose PUBREL is withheld across a resumed reconnect.
    let Some(o) = d.broker.inbound(&mut d.rng, 2, Some(vec![]), Some(vec![0x32])) else {
        return;
    };
    d.send(&o);
    settle(d);
    settle(d);
    d.hold_after = true;
    if resume(d, true, vec![]) {
        let mut dup = o.clone();
        dup.kind = "publish2-dup";
        dup.bytes[0] |= 8;
        d.send(&dup);
        settle(d);
        settle(d);
    }
    d.hold_after = false;
}

/// One decision for the suspended operation: `go` for reads, `d 1` / `d 2` for writes.
fn pw_step(d: &mut Drv) {
    match d.pend {
        Some('r') | None => d.go(),
        _ => {
            let n = 1 + d.srng.below(2);
            d.x(&format!("d {n}"));
        }
    }
}

fn pw_run(d: &mut Drv, limit: usize) {
    for _ in 0..limit {
        if !d.suspended() || d.starved && d.unread() == 0 {
            return;
        }
        pw_step(d);
    }
}

fn partial_writes(d: &mut Drv, start: usize) {
    d.x("publish 1 0 7077 707771 -");
    pw_run(d, 30);
    d.x("subscribe - 7077/1/0/0/0");
    pw_run(d, 3);
    d.x("cancel");
    d.x("poll");
    pw_run(d, 30);
    for _ in 0..12 {
        if !d.live() || d.count - start > BOUND {
            break;
        }
        d.deliver_all();
        if !d.suspended() {
            d.x("poll");
        }
        pw_run(d, 20);
        if d.broker.owed().is_empty() && d.suspended() && d.unread() == 0 {
            break;
        }
    }
}

fn continuation(d: &mut Drv, strategy: &str) {
    let start = d.count;
    if strategy == "cancel-drain" {
        d.x("cancel");
    } else {
        d.go();
    }
    let reconnecting = matches!(strategy, "resume" | "resume-rm2" | "fresh" | "rm2-fill-q2-rc10");
    if !reconnecting && !ensure_live(d) {
        // No usable connection: the benign end tries again.
        d.finish_benign();
        return;
    }
    match strategy {
        "drain" | "cancel-drain" => {}
        "fill-q1" => fill(d, 1),
        "fill-q2" => fill_q2(d, None),
        "fill-q2-rc10" => fill_q2(d, Some(0x10)),
        "resume" => {
            resume(d, true, vec![]);
        }
        "resume-rm2" => {
            if resume(d, true, vec![PropSpec::U16(0x21, 2)]) {
                for i in 0..3 {
                    d.x(&format!("publish 1 0 72 {:02x} -", 0x61 + i));
                    d.go();
                }
            }
        }
        "fresh" => {
            if resume(d, false, vec![]) {
                d.x("publish 1 0 6e 31 -");
                d.go();
                d.x("publish 2 0 6e 32 -");
                d.go();
            }
        }
        "acks-wrongkind" => {
            seed_in_flight(d);
            let flight = in_flight(d);
            let mut comp_done = false;
            for (n, (id, kind)) in flight.iter().enumerate() {
                if !d.live() {
                    break;
                }
                match *kind {
                    "pub2" => raw(d, "wrong-puback", wire::ack(0x40, *id, None, None)),
                    "pub1" if n % 2 == 0 => raw(d, "wrong-pubrec", wire::ack(0x50, *id, None, None)),
                    "pub1" => raw(d, "wrong-unsuback", wire::suback(0xb0, *id, &[0])),
                    "sub" => raw(d, "wrong-unsuback", wire::suback(0xb0, *id, &[0])),
                    "unsub" => raw(d, "wrong-suback", wire::suback(0x90, *id, &[0])),
                    _ => raw(d, "wrong-puback", wire::ack(0x40, *id, None, None)),
                }
                settle(d);
                if !comp_done && *kind != "rel" && d.live() {
                    comp_done = true;
                    raw(d, "wrong-pubcomp", wire::ack(0x70, *id, None, None));
                    settle(d);
                }
            }
        }
        "acks-fail" => {
            seed_in_flight(d);
            for (id, kind) in in_flight(d) {
                let (label, bytes, owed) = match kind {
                    "pub1" => ("puback-fail", wire::ack(0x40, id, Some(0x97), None), "puback"),
                    "pub2" => ("pubrec-fail", wire::ack(0x50, id, Some(0x97), None), "pubrec"),
                    "sub" => ("suback-fail", wire::suback(0x90, id, &[0x80]), "suback"),
                    "unsub" => ("unsuback-fail", wire::suback(0xb0, id, &[0x80]), "unsuback"),
                    _ => ("pubcomp-fail", wire::ack(0x70, id, Some(0x92), None), "pubcomp"),
                };
                raw(d, label, bytes);
                if let Some(i) = d.broker.owed().iter().position(|o| o.kind == owed && o.pid == id) {
                    d.broker.deliver(i); // answered (by the failing ack): no longer owed
                }
            }
            settle(d);
            settle(d);
            resume(d, true, vec![]);
        }
        "rm2-fill-q2-rc10" => {
            d.x("drop");
            let ok = d.connect(&ConnSpec {
                sp: Sp::IfAsked,
                rc: 0,
                props: vec![PropSpec::U16(0x21, 2)],
            });
            if ok {
                fill_q2(d, Some(0x10));
            }
        }
        "cancel-at-flush" => {
            d.x("publish 1 0 6366 6366 -");
            // Decisions until the write is complete and the flush waits.
            for _ in 0..40 {
                if !d.suspended() || d.pend == Some('f') {
                    break;
                }
                if d.pend == Some('w') {
                    d.x("d 7");
                } else {
                    d.x("d 250");
                }
            }
            d.x("cancel");
            settle(d);
        }
        "partial-reads" => {
            // Two inbound packets: a QoS 1 PUBLISH with an 8-byte payload and, if something is
            // in flight, its SUBACK / PUBACK.
            let mut stream = Vec::new();
            if let Some(o) = d.broker.inbound(&mut d.rng, 1, Some(vec![]), Some(b"8 bytes!".to_vec())) {
                *d.stats.broker.entry(o.kind.to_string()).or_insert(0) += 1;
                stream.extend(o.bytes);
            }
            if let Some(i) = d.broker.owed().iter().position(|o| o.kind == "suback" || o.kind == "puback") {
                stream.extend(d.broker.deliver(i).bytes);
            }
            // Consume what the base left unread, so that the first packet read is ours.
            settle(d);
            settle(d);
            d.x("cancel");
            d.rx(&stream);
            d.x("poll");
            for _ in 0..4 {
                if d.suspended() {
                    d.x("d 1");
                }
            }
            d.x("cancel");
            d.x("poll");
            for _ in 0..40 {
                if !d.suspended() || d.starved {
                    break;
                }
                d.x("d 2");
            }
        }
        "wrap-near-inflight" => {
            // Force the allocator over identifiers that are (or should be) in use: retained,
            // in the release list, or answered earlier by a PUBREC with reason 0x10.
            let mut ids: Vec<u16> = in_flight(d).iter().map(|f| f.0).collect();
            for id in d.broker.rc10_ids.clone() {
                if !ids.contains(&id) {
                    ids.push(id);
                }
            }
            if ids.is_empty() {
                seed_in_flight(d);
                ids = in_flight(d).iter().map(|f| f.0).collect();
            }
            ids.truncate(4);
            for id in ids {
                for start in [id, id.wrapping_sub(1)] {
                    if start == 0 || !d.live() {
                        continue;
                    }
                    d.x("cancel");
                    d.x(&format!("setpid {start}"));
                    for line in ["subscribe - 776e/1/0/0/0", "publish 1 0 776e 31 -", "publish 2 0 776e 32 -"] {
                        d.x(line);
                        d.go();
                    }
                }
            }
        }
        "fill-q2-resume-fill" => {
            // Eight exchanges in the PUBREL phase across a resume, then a ninth.
            for i in 0..8u8 {
                d.x(&format!("publish 2 0 6638 {:02x} -", 0x30 + i));
                d.go();
            }
            let mut i = 0;
            while i < d.broker.owed().len() {
                if d.broker.owed()[i].kind == "pubrec" {
                    let mut o = d.broker.deliver(i);
                    o.bytes = wire::ack(0x50, o.pid, None, None);
                    d.send(&o);
                } else {
                    i += 1;
                }
            }
            settle(d);
            settle(d);
            while let Some(i) = d.broker.owed().iter().position(|o| o.kind == "pubcomp") {
                d.broker.forget(i);
            }
            let props = if d.rng.pct(50) { vec![PropSpec::U16(0x21, 8)] } else { vec![] };
            if resume(d, true, props) {
                d.go();
                d.x("publish 2 0 6639 39 -");
                d.go();
                if let Some(i) = d.broker.owed().iter().rposition(|o| o.kind == "pubrec") {
                    d.deliver(i);
                }
                settle(d);
            }
        }
        "idle-ticks" => idle_ticks(d, start),
        "inbound" => inbound(d),
        "partial-writes" => partial_writes(d, start),
        _ => {}
    }
    d.finish_benign();
}

/// The base program split into its parts.
struct Base {
    tags: Vec<String>,
    /// Comment lines before the header (other than the first).
    leading: Vec<String>,
    cfg: String,
    rx: usize,
    /// Lines after the header, comments included.
    body: Vec<String>,
}

fn read_base(text: &str) -> Result<Base, String> {
    let mut lines = text.lines();
    let mut tags = Vec::new();
    let mut leading = Vec::new();
    let mut cfg = None;
    let mut first = true;
    for line in lines.by_ref() {
        if is_ignored(line) {
            if first && line.starts_with("# ") {
                tags = line[2..].split(' ').map(String::from).collect();
            } else if !line.trim().is_empty() {
                leading.push(line.to_string());
            }
            first = false;
            continue;
        }
        cfg = Some(line.to_string());
        break;
    }
    let cfg = cfg.ok_or("no header line")?;
    let rx = cfg
        .split(' ')
        .find_map(|t| t.strip_prefix("rx=")?.parse().ok())
        .unwrap_or(64);
    Ok(Base {
        tags,
        leading,
        cfg,
        rx,
        body: lines.map(String::from).collect(),
    })
}

/// `vh extend <prog-file> <cut> <seed> <outdir>`. Returns the files written.
pub fn extend(prog: &Path, cut: usize, seed: u64, outdir: &Path) -> Result<Vec<String>, String> {
    let text = std::fs::read_to_string(prog).map_err(|e| format!("{}: {e}", prog.display()))?;
    let base = read_base(&text).map_err(|e| format!("{}: {e}", prog.display()))?;
    let name = prog
        .file_name()
        .and_then(|n| n.to_str())
        .map(|n| n.strip_suffix(".prog").unwrap_or(n).to_string())
        .ok_or("bad file name")?;
    std::fs::create_dir_all(outdir).map_err(|e| format!("{}: {e}", outdir.display()))?;
    let kept_tags: Vec<String> = base
        .tags
        .iter()
        .filter(|t| !t.starts_with("family="))
        .map(|t| match t.strip_prefix("seed=") {
            Some(v) => format!("base_seed={v}"),
            None => t.clone(),
        })
        .collect();
    let mut written = Vec::new();
    for (k, strategy) in STRATEGIES.iter().enumerate() {
        let rng = Rng::new(&format!("extend/{name}/{cut}"), seed, k as u64);
        let mut d = Drv::from_line(base.cfg.clone(), base.rx, rng);
        d.split_rx = false;
        d.observe_rx = true;
        // Static replay of the first `cut` directives, exactly as written.
        let mut done = 0;
        for line in &base.body {
            if done == cut {
                break;
            }
            if is_ignored(line) {
                // Markers of the base lose their meaning once the continuation differs.
                if !line.trim().is_empty() && !line.contains("-from-here") {
                    d.lines.push(line.clone());
                }
                continue;
            }
            d.x(crate::parse::clean_line(line));
            done += 1;
        }
        d.observe_rx = false;
        d.comment("extended-from-here");
        if !d.ended() {
            continuation(&mut d, strategy);
        }
        let mut header = format!(
            "# family=extend base={name} cut={done} strategy={strategy} seed={seed}"
        );
        for t in &kept_tags {
            header.push(' ');
            header.push_str(t);
        }
        let mut out = String::new();
        out.push_str(&header);
        out.push('\n');
        for l in &base.leading {
            out.push_str(l);
            out.push('\n');
        }
        out.push_str(&d.text("").trim_start_matches('\n').to_string());
        let file = format!("{name}.x{}.prog", k + 1);
        std::fs::write(outdir.join(&file), out).map_err(|e| format!("{file}: {e}"))?;
        written.push(file);
    }
    Ok(written)
}
