//! `sched`, `twin-cancel`, `twin-chunk`: systematic schedules of partial I/O and cancellation.

use super::broker::{rand_bytes, rand_topic};
use super::util::{PubLine, filter_text, pub_props};
use super::fam_behind::until_write;
use super::{CfgSpec, ConnSpec, Drv, Out, Rng, stride, wire};
use crate::parse::hex;

#[derive(Debug, Clone)]
pub enum Step {
    /// Issue an operation and run it under the schedule.
    Op(String),
    /// Deliver everything the broker owes.
    Owed,
    /// An inbound PUBLISH of the given QoS arrives.
    Inbound(u8),
    /// Issue an operation, give it this many `d 3` decisions, cancel it.
    Partial(String, usize),
    /// Deliver everything owed, PUBACK / PUBREC in their long form (reason and properties).
    OwedLong,
}

fn deliver_long(d: &mut Drv) {
    let props = super::wire::enc_props(&[crate::parse::PropSpec::Str(0x1f, "ok".into())]);
    let mut bytes = Vec::new();
    for mut o in d.broker.deliver_all() {
        if o.kind == "puback" || o.kind == "pubrec" {
            o.bytes = super::wire::ack(o.bytes[0], o.pid, Some(0), Some(&props));
        }
        *d.stats.broker.entry(o.kind.to_string()).or_insert(0) += 1;
        bytes.extend(o.bytes);
    }
    if !bytes.is_empty() {
        d.rx(&bytes);
    }
}

fn partial(d: &mut Drv, line: &str, n: usize) {
    d.x(line);
    for _ in 0..n {
        if d.suspended() {
            d.x("d 3");
        }
    }
    d.x("cancel");
}

#[derive(Debug, Clone)]
pub enum Mode {
    Go,
    /// Every decision is `d n`.
    All(u8),
    /// `d 250` decisions; cancel at these await indices (the first is global, the following ones
    /// count decisions of the `poll` issued after the previous cancel), then drain.
    CancelAt(Vec<usize>),
    /// `d 250` decisions; cancel at this await index, `drop`, then a resumed reconnect on which
    /// the broker retransmits what the client has not acknowledged (DUP) before any PUBREL.
    CancelResume(usize),
    /// Byte-granular: every decision is `d n`; cancel at this await index of that run, then
    /// `poll` and more `d n` decisions for a while, then a `go` drain.
    BytewiseCancel(u8, usize),
}

pub(super) fn setup(rng: Rng, rx: usize, tx: usize) -> Drv {
    let mut d = Drv::new(&CfgSpec::basic(rx, tx), rng);
    d.split_rx = false;
    d.connect(&ConnSpec::plain());
    d
}

/// Run the steps; returns the number of decisions issued.
pub fn run_steps(d: &mut Drv, steps: &[Step], mode: &Mode) -> usize {
    let mut k = 0;
    for step in steps {
        match step {
            Step::Owed => d.deliver_all(),
            Step::OwedLong => deliver_long(d),
            Step::Inbound(qos) => {
                if let Some(o) = d.broker.inbound(&mut d.rng, *qos, None, None) {
                    d.send(&o);
                }
            }
            Step::Partial(line, n) => partial(d, line, *n),
            Step::Op(line) => {
                d.x(line);
                match mode {
                    Mode::BytewiseCancel(n, at) => {
                        while d.suspended() {
                            if k == *at {
                                d.x("cancel");
                                d.x("poll");
                                for _ in 0..12 {
                                    if !d.suspended() || d.starved {
                                        break;
                                    }
                                    d.x(&format!("d {n}"));
                                }
                                d.drain();
                                return k;
                            }
                            d.x(&format!("d {n}"));
                            k += 1;
                            if d.starved {
                                break;
                            }
                        }
                    }
                    Mode::Go => d.go(),
                    Mode::All(n) => {
                        while d.suspended() {
                            d.x(&format!("d {n}"));
                            k += 1;
                            if d.starved {
                                break;
                            }
                        }
                    }
                    Mode::CancelResume(at) => {
                        while d.suspended() {
                            if k == *at {
                                d.x("cancel");
                                d.x("drop");
                                d.broker.always_retransmit = true;
                                d.connect(&ConnSpec { sp: super::Sp::Fixed(true), rc: 0, props: vec![] });
                                d.drain();
                                return k;
                            }
                            d.x("d 250");
                            k += 1;
                            if d.starved {
                                break;
                            }
                        }
                    }
                    Mode::CancelAt(points) => {
                        while d.suspended() {
                            if k == points[0] {
                                d.x("cancel");
                                for p in &points[1..] {
                                    d.x("poll");
                                    for _ in 0..*p {
                                        if !d.suspended() || d.starved {
                                            break;
                                        }
                                        d.x("d 250");
                                    }
                                    d.x("cancel");
                                }
                                d.drain();
                                return k;
                            }
                            d.x("d 250");
                            k += 1;
                            if d.starved {
                                break;
                            }
                        }
                    }
                }
            }
        }
    }
    d.drain();
    k
}

pub(super) fn scenarios(rng: &mut Rng) -> Vec<(&'static str, Vec<Step>)> {
    let mut publish = |qos: u8| {
        let n = rng.below(6) as usize;
        let mut p = PubLine::simple(qos, &rand_topic(rng, 1, 5), &rand_bytes(rng, n));
        p.props = pub_props(rng);
        Step::Op(p.text())
    };
    let poll = || Step::Op("poll".to_string());
    let sub = Step::Op(format!(
        "subscribe - {} {}",
        filter_text("a/#", 2, false, false, 0),
        filter_text("b", 1, true, true, 2)
    ));
    let unsub = Step::Op(format!("unsubscribe - {}", hex(b"a/#")));
    vec![
        ("pub1", vec![publish(1), Step::Owed, poll()]),
        ("pub2", vec![publish(2), Step::Owed, poll(), Step::Owed, poll()]),
        ("sub", vec![sub.clone(), Step::Owed, poll()]),
        ("unsub", vec![unsub, Step::Owed, poll()]),
        ("disconnect", vec![Step::Op("disconnect none none".into())]),
        ("in1", vec![Step::Inbound(1), poll(), poll()]),
        ("in2", vec![Step::Inbound(2), poll(), poll(), Step::Owed, poll()]),
        ("pub1+pub2", vec![publish(1), publish(2), Step::Owed, poll(), Step::Owed, poll()]),
        ("sub+in1", vec![sub, Step::Owed, Step::Inbound(1), poll(), poll(), poll()]),
        ("pub2+in2", vec![publish(2), Step::Inbound(2), Step::Owed, poll(), poll(), poll(), Step::Owed, poll()]),
        ("pub1-longack", vec![publish(1), Step::OwedLong, poll()]),
        ("pub2-longack", vec![publish(2), Step::OwedLong, poll(), Step::Owed, poll()]),
        // An inbound publish read by the suspended poll while the write side is stalled.
        ("in1-stalled", vec![poll(), Step::Inbound(1), poll(), poll()]),
        ("in2-stalled", vec![poll(), Step::Inbound(2), poll(), poll(), Step::Owed, poll(), poll()]),
    ]
}

pub fn sched(out: &mut Out, count: u64) {
    // Timed partial writes take the last eighth of the budget.
    let n_wt = (count / 6).min(WT_GRID as u64);
    let count = count - n_wt;
    for (j, g) in stride(WT_GRID, n_wt as usize).into_iter().enumerate() {
        let (d, tags, _) = wtimed_program(out.rng(5000 + g as u64), g, None);
        out.emit(count + j as u64, "", &format!("scenario=timed-partial-write {tags}"), &d);
    }
    // Same random content for every variant of a scenario: the PRNG is keyed by the scenario.
    let list = scenarios(&mut out.rng(u64::MAX));
    let mut priority: Vec<(usize, Mode)> = Vec::new();
    let mut rest: Vec<(usize, Mode)> = Vec::new();
    let mut bytewise: Vec<(usize, Mode)> = Vec::new();
    for (s, (_, steps)) in list.iter().enumerate() {
        let mut dry = setup(out.rng(s as u64), 128, 256);
        let n = run_steps(&mut dry, steps, &Mode::All(250));
        drop(dry);
        priority.push((s, Mode::Go));
        priority.push((s, Mode::All(1)));
        for i in 0..n {
            priority.push((s, Mode::CancelAt(vec![i])));
        }
        if list[s].0.ends_with("-stalled") {
            // Every await index after the packet was read (the first poll starves after 1).
            for i in 4..n {
                priority.push((s, Mode::CancelResume(i)));
            }
        }
        for n in [1u8, 2] {
            let mut dry = setup(out.rng(s as u64), 128, 256);
            let total = run_steps(&mut dry, steps, &Mode::All(n));
            drop(dry);
            for i in 0..total {
                bytewise.push((s, Mode::BytewiseCancel(n, i)));
            }
        }
        rest.push((s, Mode::All(2)));
        rest.push((s, Mode::All(3)));
        for i in 0..n {
            for j in 0..3 {
                rest.push((s, Mode::CancelAt(vec![i, j])));
            }
        }
        for i in 0..n {
            for j in 0..2 {
                for l in 0..3 {
                    rest.push((s, Mode::CancelAt(vec![i, j, l])));
                }
            }
        }
    }
    // Budget: whole-window schedules 50 %, byte-granular cancels 35 %, multi-cancels the rest.
    let count = count as usize;
    let a = priority.len().min(count * 50 / 100);
    let b = bytewise.len().min(count * 35 / 100);
    let c = rest.len().min(count - a - b);
    let a = (count - b - c).min(priority.len());
    let b = (count - a - c).min(bytewise.len());
    let mut chosen: Vec<(usize, Mode)> = Vec::new();
    for (pool, n) in [(&priority, a), (&bytewise, b), (&rest, c)] {
        chosen.extend(stride(pool.len(), n).into_iter().map(|i| pool[i].clone()));
    }
    for (idx, (s, mode)) in chosen.iter().enumerate() {
        let (name, steps) = &list[*s];
        let mut d = setup(out.rng(*s as u64), 128, 256);
        run_steps(&mut d, steps, mode);
        let tag = match mode {
            Mode::Go => "mode=go".to_string(),
            Mode::All(n) => format!("mode=all-d{n}"),
            Mode::CancelResume(i) => format!("mode=cancel-resume at={i}"),
            Mode::BytewiseCancel(n, i) => format!("mode=bytewise-cancel gran=d{n} at={i}"),
            Mode::CancelAt(p) => format!(
                "mode=cancel at={}",
                p.iter().map(|v| v.to_string()).collect::<Vec<_>>().join(",")
            ),
        };
        out.emit(idx as u64, "", &format!("scenario={name} {tag}"), &d);
    }
}

// -------------------------------------------------------------------------------------------

struct TwinOp {
    name: &'static str,
    prefix: Vec<Step>,
    op: String,
}

fn twin_ops(rng: &mut Rng) -> Vec<TwinOp> {
    let mut publish = |qos: u8| {
        let n = rng.below(8) as usize;
        let mut p = PubLine::simple(qos, &rand_topic(rng, 1, 6), &rand_bytes(rng, n));
        p.props = pub_props(rng);
        p.text()
    };
    let poll_go = Step::Op("poll".to_string());
    let mut base: Vec<Step> = Vec::new();
    let inflight = publish(1);
    let p1 = publish(1);
    let p2 = publish(2);
    let (pb, p1b, p2b) = (publish(1), publish(1), publish(2));
    let behind = Step::Partial(pb, rng.below(3) as usize);
    if rng.pct(50) {
        base.push(Step::Op(inflight));
    }
    let with = |extra: Vec<Step>| {
        let mut v = base.clone();
        v.extend(extra);
        v
    };
    let sub = format!("subscribe - {}", filter_text(&rand_topic(rng, 1, 5), 1, false, false, 0));
    let unsub = format!("unsubscribe - {}", hex(rand_topic(rng, 1, 5).as_bytes()));
    vec![
        TwinOp { name: "poll-read", prefix: with(vec![Step::Inbound(1)]), op: "poll".into() },
        TwinOp { name: "poll-ack", prefix: with(vec![Step::Inbound(1), poll_go.clone()]), op: "poll".into() },
        TwinOp { name: "recv", prefix: with(vec![Step::Inbound(2)]), op: "recv".into() },
        TwinOp { name: "drive-ack", prefix: with(vec![Step::Inbound(1), poll_go.clone()]), op: "drive".into() },
        TwinOp { name: "drive-rec", prefix: with(vec![Step::Inbound(2), poll_go]), op: "drive".into() },
        TwinOp { name: "subscribe", prefix: with(vec![]), op: sub.clone() },
        TwinOp { name: "unsubscribe", prefix: with(vec![]), op: unsub },
        TwinOp { name: "disconnect", prefix: with(vec![]), op: "disconnect none none".into() },
        TwinOp { name: "disconnect-rc", prefix: with(vec![]), op: "disconnect 04 none".into() },
        TwinOp { name: "publish1", prefix: with(vec![]), op: p1 },
        TwinOp { name: "publish2", prefix: with(vec![]), op: p2 },
        TwinOp { name: "publish1-behind", prefix: with(vec![behind.clone()]), op: p1b },
        TwinOp { name: "publish2-behind", prefix: with(vec![behind.clone()]), op: p2b },
        TwinOp { name: "subscribe-behind", prefix: with(vec![behind.clone()]), op: sub.clone() },
        TwinOp { name: "disconnect-behind", prefix: with(vec![behind]), op: "disconnect none none".into() },
    ]
}

/// Prefix of a twin: connect and the preparatory steps, each run with `go`, no drain.
fn twin_prefix(rng: Rng, prefix: &[Step]) -> Drv {
    let mut d = setup(rng, 128, 256);
    for step in prefix {
        match step {
            Step::Owed => d.deliver_all(),
            Step::OwedLong => deliver_long(&mut d),
            Step::Inbound(q) => {
                if let Some(o) = d.broker.inbound(&mut d.rng, *q, None, None) {
                    d.send(&o);
                }
            }
            Step::Partial(line, n) => partial(&mut d, line, *n),
            Step::Op(line) => {
                d.x(line);
                d.go();
            }
        }
    }
    d
}

pub fn twin_cancel(out: &mut Out, count: u64) {
    let mut twin = 0u64;
    // Cancel at the flush await: PINGREQ with the keep-alive due, PUBACK, PUBREL, PUBLISH.
    let flush_kinds: [(&str, u16); 7] = [
        ("ping-flush", 1), ("ping-flush", 2), ("ping-flush", 3), ("ping-flush", 4),
        ("puback-flush", 0), ("pubrel-flush", 0), ("publish-flush", 0),
    ];
    for (kind, ka) in flush_kinds {
        if twin >= count {
            return;
        }
        let name = out.base(twin);
        for (role, cancel) in [("a", false), ("b", true)] {
            let d = flush_twin(out.rng(7000 + twin), kind, ka, cancel);
            let tags = format!("twin={name} role={role} enqueued=0 kind={kind} ka={ka}");
            out.emit(twin, &format!(".{role}"), &tags, &d);
        }
        twin += 1;
    }
    for round in 0u64.. {
        let ops = twin_ops(&mut out.rng(round));
        let mut progressed = false;
        // Whole-window decisions for every operation; byte-granular ones (`d 1`, `d 2`) for the
        // operations that consume inbound bytes or write owed acknowledgements, so that the
        // cancel falls in the middle of a packet body.
        let mut plan: Vec<(usize, u8)> = (0..ops.len()).map(|o| (o, 250)).collect();
        for gran in [1u8, 2] {
            for (o, op) in ops.iter().enumerate() {
                if ["poll", "recv", "drive"].iter().any(|p| op.name.starts_with(p)) {
                    plan.push((o, gran));
                }
            }
        }
        for (o, gran) in plan {
            let op = &ops[o];
            let key = round * 1000 + o as u64;
            // Dry run: how many decisions until the operation completes.
            let mut dry = twin_prefix(out.rng(key), &op.prefix);
            dry.x(&op.op);
            let mut n = 0;
            while dry.suspended() && !dry.starved && n < 200 {
                dry.x(&format!("d {gran}"));
                n += 1;
            }
            drop(dry);
            // All cancel points for whole windows, at most 8 evenly spaced byte-granular ones.
            let points = if gran == 250 { (0..n).collect() } else { stride(n, 8) };
            for k in points {
                if twin >= count {
                    return;
                }
                progressed = true;
                let name = out.base(twin);
                // b: cancelled after k decisions.
                let mut b = twin_prefix(out.rng(key), &op.prefix);
                let before = b.interp().verif_state().retained.len();
                b.x(&op.op);
                for _ in 0..k {
                    b.x(&format!("d {gran}"));
                }
                b.x("cancel");
                let enqueued = (b.interp().verif_state().retained.len() > before) as u8;
                b.drain();
                // a: not cancelled.
                let mut a = twin_prefix(out.rng(key), &op.prefix);
                a.x(&op.op);
                a.go();
                a.drain();
                let tags = |role: &str| {
                    format!(
                        "twin={name} role={role} enqueued={enqueued} op={} k={k} gran={}",
                        op.name,
                        if gran == 250 { "window".to_string() } else { format!("d{gran}") }
                    )
                };
                out.emit(twin, ".a", &tags("a"), &a);
                drop(a);
                out.emit(twin, ".b", &tags("b"), &b);
                drop(b);
                if enqueued == 0 {
                    let mut c = twin_prefix(out.rng(key), &op.prefix);
                    c.drain();
                    out.emit(twin, ".c", &tags("c"), &c);
                }
                twin += 1;
            }
        }
        if !progressed {
            return;
        }
    }
}

// -------------------------------------------------------------------------------------------

/// Feed `stream` in pieces of the given lengths and let the client consume it.
fn consume(d: &mut Drv, stream: &[u8], cuts: &[usize], choices: Option<&[u8]>) {
    let mut at = 0;
    for len in cuts {
        d.rx(&stream[at..at + len]);
        at += len;
        for _ in 0..60 {
            if !d.live() {
                return;
            }
            if !d.suspended() {
                d.x("poll");
            }
            match choices {
                None => d.go(),
                Some(c) => d.run_chunked(c),
            }
            if d.suspended() && d.unread() == 0 {
                break;
            }
        }
    }
}

/// Client operations in flight, then inbound streams of several packets.
fn chunk_program(rng: Rng, short: Option<usize>, cuts: Option<&[usize]>, chunked: bool) -> (Drv, usize) {
    let mut d = setup(rng, 128, 512);
    let choices: Option<&[u8]> = if chunked { Some(&[1, 2, 3, 250]) } else { None };
    let run = |d: &mut Drv| match choices {
        None => d.go(),
        Some(c) => d.run_chunked(c),
    };
    let n_ops = if short.is_some() { 3 } else { d.rng.range(2, 4) };
    for i in 0..n_ops {
        let qos = if short.is_some() { 1 } else { 1 + (i % 2) as u8 };
        let n = d.rng.below(5) as usize;
        let line = PubLine::simple(qos, &rand_topic(&mut d.rng, 1, 4), &rand_bytes(&mut d.rng, n)).text();
        d.x(&line);
        run(&mut d);
    }
    if short.is_none() && d.rng.pct(60) {
        d.x(&format!("subscribe - {}", filter_text("t/#", 2, false, false, 0)));
        run(&mut d);
    }
    let mut first_len = 0;
    for round in 0..5 {
        let mut stream: Vec<u8> = Vec::new();
        if round != 0 {
            for o in d.broker.deliver_all() {
                *d.stats.broker.entry(o.kind.to_string()).or_insert(0) += 1;
                stream.extend(o.bytes);
            }
        }
        if round == 0 {
            match short {
                Some(len) => {
                    // Built from plain 4-byte PUBACKs (a), their 5-byte form (A) and a tiny
                    // QoS 0 publish with p payload bytes (6 + p bytes).
                    let recipe: &[&str] = match len {
                        4 => &["a"],
                        5 => &["A"],
                        6 => &["p0"],
                        7 => &["p1"],
                        8 => &["a", "a"],
                        9 => &["a", "A"],
                        10 => &["a", "p0"],
                        11 => &["a", "p1"],
                        _ => &["a", "a", "a"],
                    };
                    for item in recipe {
                        match *item {
                            "a" | "A" if !d.broker.owed.is_empty() => {
                                let mut o = d.broker.deliver(0);
                                if *item == "A" {
                                    o.bytes[1] = 3;
                                    o.bytes.push(0);
                                }
                                *d.stats.broker.entry(o.kind.to_string()).or_insert(0) += 1;
                                stream.extend(o.bytes);
                            }
                            "p0" | "p1" => {
                                let payload = vec![7u8; (*item == "p1") as usize];
                                *d.stats.broker.entry("publish0".to_string()).or_insert(0) += 1;
                                stream.extend(super::wire::publish(b"t", None, 0, false, false, &[], &payload));
                            }
                            _ => {}
                        }
                    }
                }
                None => {
                    for o in d.broker.deliver_all() {
                        *d.stats.broker.entry(o.kind.to_string()).or_insert(0) += 1;
                        stream.extend(o.bytes);
                    }
                    for _ in 0..d.rng.range(1, 3) {
                        let qos = d.rng.below(3) as u8;
                        if let Some(o) = d.broker.inbound(&mut d.rng, qos, None, None) {
                            *d.stats.broker.entry(o.kind.to_string()).or_insert(0) += 1;
                            stream.extend(o.bytes);
                        }
                    }
                }
            }
            first_len = stream.len();
        }
        if stream.is_empty() {
            break;
        }
        let whole = [stream.len()];
        let pieces: Vec<usize> = match (round, cuts, chunked) {
            (0, Some(c), _) => c.to_vec(),
            (_, _, false) => whole.to_vec(),
            _ => {
                // Cut inside fixed headers: after 1 byte, then random pieces.
                let mut left = stream.len();
                let mut v = Vec::new();
                while left > 0 {
                    let n = (d.srng.range(1, 5) as usize).min(left);
                    v.push(n);
                    left -= n;
                }
                v
            }
        };
        consume(&mut d, &stream, &pieces, choices);
    }
    d.drain();
    (d, first_len)
}

/// A twin with time: keep-alive 2..4 s, and in the b-run a `tick` across the next-ping deadline
/// between the fragments of an inbound packet. The a-run has the same ticks in the same order
/// and delivers the packet in one piece where the b-run delivers its last fragment.
fn timed_program(rng: Rng, fragmented: bool) -> (Drv, String) {
    let mut cfg = CfgSpec::basic(128, 512);
    let mut rng = rng;
    cfg.ka = 2 + rng.below(3) as u16;
    let mut d = Drv::new(&cfg, rng);
    d.split_rx = false;
    d.connect(&ConnSpec::plain());
    let n = d.rng.below(4) as usize;
    let line = PubLine::simple(1, &rand_topic(&mut d.rng, 1, 4), &rand_bytes(&mut d.rng, n)).text();
    d.x(&line);
    d.go();
    // The stream: the PUBACK and an inbound publish with a payload.
    let mut stream: Vec<u8> = Vec::new();
    for o in d.broker.deliver_all() {
        *d.stats.broker.entry(o.kind.to_string()).or_insert(0) += 1;
        stream.extend(o.bytes);
    }
    let first_len = stream.len();
    let qos = d.rng.below(3) as u8;
    let payload = rand_bytes(&mut d.rng, 6);
    if let Some(o) = d.broker.inbound(&mut d.rng, qos, None, Some(payload)) {
        *d.stats.broker.entry(o.kind.to_string()).or_insert(0) += 1;
        stream.extend(o.bytes);
    }
    // One cut inside the first packet or inside the second one.
    let cut = if d.rng.pct(40) {
        d.rng.range(1, first_len as u64 - 1) as usize
    } else {
        d.rng.range(first_len as u64 + 1, stream.len() as u64 - 1) as usize
    };
    let extra = *d.rng.pick(&[0u64, 1, 250_000]);
    d.x("poll");
    if fragmented {
        d.rx(&stream[..cut]);
    }
    // Until the poll waits in the middle of the fragmented packet (or for its first byte).
    for _ in 0..6 {
        if !d.suspended() {
            d.x("poll");
        }
        d.go();
        if d.suspended() && d.unread() == 0 {
            break;
        }
    }
    // Across the client's next-ping deadline: its own timer interrupts the read.
    let st = d.interp().verif_state();
    let deadline = st.next_ping_us.unwrap_or(0);
    d.tick_to(deadline + extra);
    d.go();
    if fragmented {
        d.rx(&stream[cut..]);
    } else {
        d.rx(&stream);
    }
    if !d.suspended() {
        d.x("poll");
    }
    d.go();
    d.drain();
    let tags = format!("timed=1 ka={} stream={} cut={cut} over={extra}", cfg.ka, stream.len());
    (d, tags)
}

pub fn twin_chunk(out: &mut Out, count: u64) {
    const SHORT_LENS: [usize; 9] = [4, 6, 8, 10, 12, 5, 7, 9, 11];
    for twin in 0..count {
        let name = out.base(twin);
        if twin % 8 == 5 {
            // Write-side timed twin: partial write, tick past the keep-alive send deadline.
            let g = (twin / 8 * 37) as usize % WT_GRID;
            let (b, tags, tick) = wtimed_program(out.rng(twin), g, None);
            let (a, _, _) = wtimed_program(out.rng(twin), g, Some(tick));
            out.emit(twin, ".a", &format!("twin={name} role=a wtimed=1 {tags}"), &a);
            drop(a);
            out.emit(twin, ".b", &format!("twin={name} role=b wtimed=1 {tags}"), &b);
            continue;
        }
        if twin % 8 == 7 && twin / 8 < 3 {
            // Zero-length packets followed by another packet: one and two cuts everywhere.
            let which = (twin / 8) as usize;
            let n = zerolen_stream(which).len();
            let a = zerolen_program(out.rng(twin), which, &[n]);
            out.emit(twin, ".a", &format!("twin={name} role=a zerolen=1 stream={n}"), &a);
            drop(a);
            let mut k = 0;
            for c1 in 1..n {
                for c2 in c1..n {
                    // c2 == c1: a single cut.
                    let cuts: Vec<usize> =
                        if c2 == c1 { vec![c1, n - c1] } else { vec![c1, c2 - c1, n - c2] };
                    let b = zerolen_program(out.rng(twin), which, &cuts);
                    let tags = format!("twin={name} role=b zerolen=1 stream={n} cuts={c1},{c2}");
                    out.emit(twin, &format!(".b{k}"), &tags, &b);
                    k += 1;
                }
            }
            continue;
        }
        if twin % 8 == 3 {
            let (a, tags) = timed_program(out.rng(twin), false);
            out.emit(twin, ".a", &format!("twin={name} role=a {tags}"), &a);
            drop(a);
            let (b, tags) = timed_program(out.rng(twin), true);
            out.emit(twin, ".b", &format!("twin={name} role=b {tags}"), &b);
            continue;
        }
        let short = (twin % 16 == 0).then(|| SHORT_LENS[(twin / 16) as usize % SHORT_LENS.len()]);
        let (a, n) = chunk_program(out.rng(twin), short, None, false);
        out.emit(twin, ".a", &format!("twin={name} role=a stream={n}"), &a);
        drop(a);
        match short {
            Some(_) if n <= 12 && n > 0 => {
                for mask in 0..(1u32 << (n - 1)) {
                    // Bit i set: a cut after byte i.
                    let mut cuts = Vec::new();
                    let mut run = 1;
                    for i in 0..n - 1 {
                        if mask >> i & 1 == 1 {
                            cuts.push(run);
                            run = 1;
                        } else {
                            run += 1;
                        }
                    }
                    cuts.push(run);
                    let (b, _) = chunk_program(out.rng(twin), short, Some(&cuts), false);
                    let tags = format!("twin={name} role=b stream={n} cuts={mask:b}");
                    out.emit(twin, &format!(".b{mask}"), &tags, &b);
                }
            }
            _ => {
                let (b, _) = chunk_program(out.rng(twin), short, None, true);
                out.emit(twin, ".b", &format!("twin={name} role=b stream={n}"), &b);
            }
        }
    }
}

// -------------------------------------------------------------------------------------------
// Timed partial writes, flush twins, zero-length packets.

/// operation (3) x accepted bytes (3 choices) x overshoot (0, 1 us, 250 ms) x keep-alive (1..4 s)
/// x order (5).
pub(super) const WT_GRID: usize = 3 * 3 * 3 * 4 * 5;

const WT_ORDERS: [&str; 5] = [
    "partial-tick-go",
    "tick-then-partials",
    "partial-tick-partial",
    "tick-then-partials-cancel",
    "partial-tick-partial-cancel",
];

/// A packet whose write is accepted only partially around a `tick` past the keep-alive send
/// deadline, in one of five orders, then `go` and a drain. With `whole` the same tick surrounds
/// whole writes (a-run). Returns the program, its tags and the tick used.
pub(super) fn wtimed_program(rng: Rng, g: usize, whole: Option<u64>) -> (Drv, String, u64) {
    let (op, k_sel, over, ka) = (g % 3, g / 3 % 3, [0u64, 1, 250_000][g / 9 % 3], 1 + (g / 27 % 4) as u16);
    let order = WT_ORDERS[g / 108 % 5];
    let mut cfg = CfgSpec::basic(128, 512);
    cfg.ka = ka;
    let mut d = Drv::new(&cfg, rng);
    d.split_rx = false;
    d.connect(&ConnSpec::plain());
    let name = ["publish1", "subscribe", "pubrel"][op];
    match op {
        0 => d.x(&PubLine::simple(1, "w/t", b"timed").text()),
        1 => d.x(&format!("subscribe - {}", filter_text("w/#", 1, false, false, 0))),
        _ => {
            d.x(&PubLine::simple(2, "w", b"q2").text());
            d.go();
            d.deliver_all();
            d.x("poll");
            until_write(&mut d);
        }
    }
    // The first byte of the packet waits for its write decision.
    let len = [15usize, 11, 5][op];
    let (k1, k2) = [(1usize, 2usize), (4, 1), (len - 1, 1)][k_sel];
    let (k1, k2) = (k1.min(len - 2), k2);
    let deadline = d.interp().verif_state().next_ping_us.unwrap_or(0) + over;
    let partial = |d: &mut Drv, k: usize| {
        if d.suspended() && whole.is_none() {
            d.x(&format!("d {k}"));
        }
    };
    let mut tick_used = 0;
    let mut do_tick = |d: &mut Drv| {
        let t = match whole {
            Some(t) => t,
            None => deadline.saturating_sub(d.interp().now_us()).max(1),
        };
        d.tick(t);
        tick_used = t;
    };
    let cancel = order.ends_with("-cancel");
    match order {
        "partial-tick-go" => {
            if whole.is_some() {
                d.go();
            }
            partial(&mut d, [1, 4, len - 1][k_sel]);
            do_tick(&mut d);
        }
        "tick-then-partials" | "tick-then-partials-cancel" => {
            // No decision yet: the clock moves first, then two partial acceptances.
            do_tick(&mut d);
            if cancel {
                d.x("cancel");
                d.x("poll");
            }
            partial(&mut d, k1);
            partial(&mut d, k2);
        }
        _ => {
            if whole.is_some() {
                d.go();
            }
            partial(&mut d, k1);
            do_tick(&mut d);
            if cancel {
                d.x("cancel");
                d.x("poll");
            }
            partial(&mut d, k2);
        }
    }
    d.go();
    d.drain();
    let tags = format!("op={name} order={order} k={k1},{k2} over={over} ka={ka}");
    (d, tags, tick_used)
}

fn flush_twin(rng: Rng, kind: &str, ka: u16, cancel: bool) -> Drv {
    let mut cfg = CfgSpec::basic(128, 512);
    cfg.ka = ka;
    let mut d = Drv::new(&cfg, rng);
    d.split_rx = false;
    d.connect(&ConnSpec::plain());
    match kind {
        "ping-flush" => {
            d.x("poll");
            let np = d.interp().verif_state().next_ping_us.unwrap_or(0);
            d.tick_to(np);
        }
        "puback-flush" => {
            let p = wire::publish(b"in", Some(3), 1, false, false, &[], b"x");
            d.send_raw("publish1", &p);
            d.x("poll");
            d.go();
            d.x("poll");
        }
        "pubrel-flush" => {
            d.x(&PubLine::simple(2, "f", b"2").text());
            d.go();
            d.deliver_all();
            d.x("poll");
            until_write(&mut d);
        }
        _ => d.x(&PubLine::simple(1, "f", b"1").text()),
    }
    // The whole packet is accepted: its entry is in the flush state, the flush is pending.
    d.x("d 250");
    if cancel {
        d.x("cancel");
        d.x("poll");
    }
    d.go();
    d.drain();
    d
}

fn zerolen_stream(which: usize) -> Vec<u8> {
    let q1 = wire::publish(b"z", Some(5), 1, false, false, &[], b"one");
    let q0 = wire::publish(b"z", None, 0, false, false, &[], b"0");
    let q2 = wire::publish(b"z", Some(6), 2, false, false, &[], b"two");
    match which {
        0 => [wire::pingresp(), q1].concat(),
        1 => [wire::pingresp(), wire::pingresp(), wire::suback(0x90, 1, &[1])].concat(),
        _ => [q0, wire::pingresp(), q2].concat(),
    }
}

fn zerolen_program(rng: Rng, which: usize, cuts: &[usize]) -> Drv {
    let mut d = setup(rng, 128, 512);
    if which == 1 {
        d.x(&format!("subscribe - {}", filter_text("z", 1, false, false, 0)));
        d.go();
        while !d.broker.owed().is_empty() {
            d.broker.deliver(0); // the SUBACK is part of the crafted stream
        }
    }
    if which == 2 {
        let q2 = wire::publish(b"z", Some(6), 2, false, false, &[], b"two");
        d.broker.adopt_in2(6, q2);
    }
    let stream = zerolen_stream(which);
    *d.stats.broker.entry("pingresp".to_string()).or_insert(0) += 1;
    consume(&mut d, &stream, cuts, None);
    d.drain();
    d
}
