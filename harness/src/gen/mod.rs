//! Program generators: they drive an [`Interp`] step by step (so they see what the real client
//! wrote) and record the directives they issued as static program files.

pub mod broker;
pub mod extend;
pub mod util;
pub mod wire;

mod fam_arena;
mod fam_behind;
mod fam_codec;
mod fam_fault;
mod fam_flow;
mod fam_keepalive;
mod fam_malformed;
mod fam_reply;
mod fam_sched;
mod fam_wrap;

use std::collections::{BTreeMap, BTreeSet};
use std::fmt::Write as _;
use std::path::{Path, PathBuf};

use crate::interp::Interp;
use crate::parse::{PropSpec, hex};
use broker::{Broker, Owed};
use wire::WireScanner;

// -------------------------------------------------------------------------------------------
// PRNG

/// xorshift64* seeded through splitmix64.
#[derive(Debug, Clone)]
pub struct Rng(u64);

fn splitmix(state: &mut u64) -> u64 {
    *state = state.wrapping_add(0x9e37_79b9_7f4a_7c15);
    let mut z = *state;
    z = (z ^ (z >> 30)).wrapping_mul(0xbf58_476d_1ce4_e5b9);
    z = (z ^ (z >> 27)).wrapping_mul(0x94d0_49bb_1331_11eb);
    z ^ (z >> 31)
}

fn fnv(text: &str) -> u64 {
    let mut h = 0xcbf2_9ce4_8422_2325u64;
    for b in text.bytes() {
        h = (h ^ b as u64).wrapping_mul(0x100_0000_01b3);
    }
    h
}

impl Rng {
    pub fn new(family: &str, seed: u64, idx: u64) -> Rng {
        let mut s = fnv(family);
        let a = splitmix(&mut s);
        s ^= seed.wrapping_mul(0xd6e8_feb8_6659_fd93);
        let b = splitmix(&mut s);
        s ^= idx.wrapping_mul(0xa076_1d64_78bd_642f);
        let c = splitmix(&mut s);
        Rng((a ^ b.rotate_left(21) ^ c.rotate_left(42)) | 1)
    }

    pub fn next(&mut self) -> u64 {
        let mut x = self.0;
        x ^= x >> 12;
        x ^= x << 25;
        x ^= x >> 27;
        self.0 = x;
        x.wrapping_mul(0x2545_f491_4f6c_dd1d)
    }

    /// Uniform in `0..n` (`n > 0`).
    pub fn below(&mut self, n: u64) -> u64 {
        (self.next() >> 11) % n.max(1)
    }

    /// Uniform in `lo..=hi`.
    pub fn range(&mut self, lo: u64, hi: u64) -> u64 {
        lo + self.below(hi.saturating_sub(lo) + 1)
    }

    pub fn pct(&mut self, p: u64) -> bool {
        self.below(100) < p
    }

    pub fn pick<'a, T>(&mut self, items: &'a [T]) -> &'a T {
        &items[self.below(items.len() as u64) as usize]
    }

    pub fn shuffle<T>(&mut self, items: &mut [T]) {
        for i in (1..items.len()).rev() {
            items.swap(i, self.below(i as u64 + 1) as usize);
        }
    }

    /// Index drawn with the given weights.
    pub fn weighted(&mut self, weights: &[u64]) -> usize {
        let total: u64 = weights.iter().sum();
        let mut at = self.below(total.max(1));
        for (i, w) in weights.iter().enumerate() {
            if at < *w {
                return i;
            }
            at -= w;
        }
        weights.len() - 1
    }
}

// -------------------------------------------------------------------------------------------
// Statistics

#[derive(Debug, Default, Clone)]
pub struct Stats {
    pub programs: u64,
    pub directives: BTreeMap<String, u64>,
    /// Cancels (explicit or implied by the next operation) per awaited I/O kind `w`/`f`/`r`/`-`.
    pub cancels: BTreeMap<String, u64>,
    /// Fault decisions, keyed `<awaited kind><n>` (e.g. `w252`).
    pub faults: BTreeMap<String, u64>,
    /// Partial decisions (`d n`, n < 250) per awaited I/O kind.
    pub partials: BTreeMap<String, u64>,
    /// Broker packet kinds put on the wire.
    pub broker: BTreeMap<String, u64>,
    /// `<E>` of `ret … err <E>` lines.
    pub errors: BTreeMap<String, u64>,
    pub panics: u64,
    pub budgets: u64,
    pub hashes: BTreeSet<u64>,
}

fn bump(map: &mut BTreeMap<String, u64>, key: &str) {
    *map.entry(key.to_string()).or_insert(0) += 1;
}

impl Stats {
    pub fn merge(&mut self, other: &Stats) {
        let add = |a: &mut BTreeMap<String, u64>, b: &BTreeMap<String, u64>| {
            for (k, v) in b {
                *a.entry(k.clone()).or_insert(0) += v;
            }
        };
        self.programs += other.programs;
        add(&mut self.directives, &other.directives);
        add(&mut self.cancels, &other.cancels);
        add(&mut self.faults, &other.faults);
        add(&mut self.partials, &other.partials);
        add(&mut self.broker, &other.broker);
        add(&mut self.errors, &other.errors);
        self.panics += other.panics;
        self.budgets += other.budgets;
        self.hashes.extend(other.hashes.iter().copied());
    }

    fn json(&self, out: &mut String, indent: &str) {
        let map = |out: &mut String, name: &str, m: &BTreeMap<String, u64>, last: bool| {
            let _ = write!(out, "{indent}  \"{name}\": {{");
            for (i, (k, v)) in m.iter().enumerate() {
                let _ = write!(out, "{}\"{k}\": {v}", if i == 0 { "" } else { ", " });
            }
            let _ = writeln!(out, "}}{}", if last { "" } else { "," });
        };
        let _ = writeln!(out, "{{");
        let _ = writeln!(out, "{indent}  \"programs\": {},", self.programs);
        let _ = writeln!(out, "{indent}  \"distinct_programs\": {},", self.hashes.len());
        let _ = writeln!(
            out,
            "{indent}  \"directives_total\": {},",
            self.directives.values().sum::<u64>()
        );
        let _ = writeln!(out, "{indent}  \"ended_with_panic\": {},", self.panics);
        let _ = writeln!(out, "{indent}  \"ended_with_budget\": {},", self.budgets);
        map(out, "directives", &self.directives, false);
        map(out, "cancels_by_awaited_io", &self.cancels, false);
        map(out, "faults_by_awaited_io", &self.faults, false);
        map(out, "partial_decisions_by_awaited_io", &self.partials, false);
        map(out, "broker_packets", &self.broker, false);
        map(out, "errors_seen", &self.errors, true);
        let _ = write!(out, "{indent}}}");
    }
}

// -------------------------------------------------------------------------------------------
// Driver

/// How the session-present flag of a CONNACK is chosen.
#[derive(Debug, Clone, Copy, PartialEq)]
pub enum Sp {
    /// What a conformant broker answers (resume asked and session known).
    Conformant,
    /// Session present exactly when the client asked to resume (clean start 0).
    IfAsked,
    Fixed(bool),
}

#[derive(Debug, Clone)]
pub struct ConnSpec {
    pub sp: Sp,
    pub rc: u8,
    pub props: Vec<PropSpec>,
}

impl ConnSpec {
    pub fn plain() -> ConnSpec {
        ConnSpec {
            sp: Sp::Conformant,
            rc: 0,
            props: Vec::new(),
        }
    }

    pub fn with(props: Vec<PropSpec>) -> ConnSpec {
        ConnSpec {
            sp: Sp::Conformant,
            rc: 0,
            props,
        }
    }
}

/// Configuration of one generated program.
#[derive(Debug, Clone)]
pub struct CfgSpec {
    pub rx: usize,
    pub tx: usize,
    pub ka: u16,
    pub exp: u32,
    pub dg: bool,
    pub cid: String,
    pub auth: Option<(String, Vec<u8>)>,
    /// `<topichex>/<payloadhex>/<qos>/<retain>/<props>` already formatted.
    pub will: Option<String>,
}

impl CfgSpec {
    pub fn basic(rx: usize, tx: usize) -> CfgSpec {
        CfgSpec {
            rx,
            tx,
            ka: 0,
            exp: 300,
            dg: false,
            cid: "c".into(),
            auth: None,
            will: None,
        }
    }

    pub fn line(&self) -> String {
        format!(
            "cfg rx={} tx={} ka={} exp={} dg={} cid={} auth={} will={}",
            self.rx,
            self.tx,
            self.ka,
            self.exp,
            self.dg as u8,
            hex(self.cid.as_bytes()),
            match &self.auth {
                None => "none".to_string(),
                Some((u, p)) => format!("{}/{}", hex(u.as_bytes()), hex(p)),
            },
            self.will.as_deref().unwrap_or("none"),
        )
    }
}

/// Drives one interpreter and records the program.
pub struct Drv {
    pub it: Option<Interp>,
    pub cfg_line: String,
    pub lines: Vec<String>,
    pub rng: Rng,
    /// Scheduling choices (decision sizes, rx cuts) draw from here so that twins that differ only
    /// in I/O granularity keep identical content.
    pub srng: Rng,
    pub stats: Stats,
    pub broker: Broker,
    scanners: Vec<WireScanner>,
    /// Trace printed by the last directive.
    pub last: String,
    /// I/O kind the suspended future waits for (`w`, `f`, `r`).
    pub pend: Option<char>,
    /// The last I/O event of the last directive was a starved read.
    pub starved: bool,
    pub tick_total: u64,
    /// Number of directives recorded (comments excluded).
    pub count: usize,
    /// Allow `rx_split` to cut inbound bytes at random points.
    pub split_rx: bool,
    /// Queue what a resuming broker sends after the CONNACK instead of sending it at once.
    pub hold_after: bool,
    /// Static replay: parse the bytes of `rx` directives as server packets so that the broker
    /// knows what the client has already been given.
    pub observe_rx: bool,
    /// Never let time pass while a write or flush is waiting for its decision: `go` first.
    pub settle_writes: bool,
    /// Properties added to every successful CONNACK of this program.
    pub connack_extra: Vec<PropSpec>,
}

pub const TICK_CAP: u64 = 1_000_000_000_000;

impl Drv {
    pub fn new(cfg: &CfgSpec, rng: Rng) -> Drv {
        Drv::from_line(cfg.line(), cfg.rx, rng)
    }

    pub fn from_line(cfg_line: String, rx: usize, mut rng: Rng) -> Drv {
        crate::hang::begin_program();
        let it = Interp::new(&cfg_line).ok();
        let srng = Rng(rng.next() | 1);
        Drv {
            srng,
            it,
            cfg_line,
            lines: Vec::new(),
            rng,
            stats: Stats::default(),
            broker: Broker::new(rx),
            scanners: Vec::new(),
            last: String::new(),
            pend: None,
            starved: false,
            tick_total: 0,
            count: 0,
            split_rx: true,
            hold_after: false,
            observe_rx: false,
            settle_writes: false,
            connack_extra: Vec::new(),
        }
    }

    pub fn comment(&mut self, text: &str) {
        self.lines.push(format!("# {text}"));
    }

    /// Execute and record one directive.
    pub fn x(&mut self, line: &str) {
        self.lines.push(line.to_string());
        self.count += 1;
        let mut tok = line.split(' ');
        let kind = tok.next().unwrap_or("");
        bump(&mut self.stats.directives, kind);
        let awaited = self.pend.map(String::from).unwrap_or_else(|| "-".into());
        if kind == "d" && self.suspended() {
            if let Some(n) = tok.next().and_then(|n| n.parse::<u16>().ok()) {
                if (251..=255).contains(&n) {
                    bump(&mut self.stats.faults, &format!("{awaited}{n}"));
                } else if (1..250).contains(&n) {
                    bump(&mut self.stats.partials, &awaited);
                }
            }
        }
        let Some(it) = self.it.as_mut() else {
            self.last.clear();
            return;
        };
        crate::hang::set_program(&self.cfg_line, &self.lines);
        it.exec(line);
        self.last = it.take_trace();
        for l in self.last.lines() {
            let mut t = l.split(' ');
            match t.next().unwrap_or("") {
                "cancel" => bump(&mut self.stats.cancels, &awaited),
                "ret" => {
                    let _op = t.next();
                    if t.next() == Some("err") {
                        bump(&mut self.stats.errors, t.next().unwrap_or("?"));
                    }
                }
                "panic" => self.stats.panics += 1,
                "budget" => self.stats.budgets += 1,
                "wp" | "w" | "wz" | "we" => {
                    self.pend = Some('w');
                    self.starved = false;
                }
                "fp" | "f" | "fe" => {
                    self.pend = Some('f');
                    self.starved = false;
                }
                "rp" | "r" | "rz" | "re" => {
                    self.pend = Some('r');
                    self.starved = false;
                }
                "rs" => {
                    self.pend = Some('r');
                    self.starved = true;
                }
                _ => {}
            }
        }
        if !self.suspended() {
            self.pend = None;
            self.starved = false;
        }
        self.pump();
        if self.observe_rx && kind == "rx" {
            if let Some(bytes) = line.split(' ').nth(1).and_then(crate::parse::parse_hex) {
                self.broker.on_server_bytes(&bytes);
            }
        }
    }

    pub fn interp(&self) -> &Interp {
        self.it.as_ref().expect("configuration was rejected")
    }

    pub fn ended(&self) -> bool {
        self.it.as_ref().is_none_or(|it| it.is_ended())
    }

    pub fn suspended(&self) -> bool {
        self.it.as_ref().is_some_and(|it| it.suspended().is_some())
    }

    /// A connection exists and is live.
    pub fn live(&self) -> bool {
        self.it.as_ref().is_some_and(|it| it.is_live() == Some(true))
    }

    /// The last directive printed a line starting with `needle`.
    pub fn saw(&self, needle: &str) -> bool {
        self.last.lines().any(|l| l.starts_with(needle))
    }

    /// Unread inbound bytes on the current transport.
    pub fn unread(&self) -> usize {
        match &self.it {
            Some(it) if it.transport_count() > 0 => it.rx_unread(it.transport_count() - 1),
            _ => 0,
        }
    }

    /// Let the broker see what the client wrote on the current transport.
    pub fn pump(&mut self) {
        let Some(it) = self.it.as_ref() else { return };
        let n = it.transport_count();
        if n == 0 {
            return;
        }
        self.scanners.resize(n, WireScanner::default());
        let packets = it.with_transport(n - 1, |t| self.scanners[n - 1].scan(&t.wire));
        for p in &packets {
            self.broker.on_client(p, &mut self.rng);
        }
    }

    pub fn go(&mut self) {
        if self.suspended() {
            self.x("go");
        }
    }

    pub fn rx(&mut self, bytes: &[u8]) {
        self.x(&format!("rx {}", hex(bytes)));
    }

    /// Append to the inbound stream in one to three `rx` directives.
    pub fn rx_split(&mut self, bytes: &[u8]) {
        if !self.split_rx || bytes.len() < 2 || self.srng.pct(60) {
            return self.rx(bytes);
        }
        let a = self.srng.range(1, bytes.len() as u64 - 1) as usize;
        self.rx(&bytes[..a]);
        self.rx(&bytes[a..]);
    }

    pub fn send(&mut self, o: &Owed) {
        bump(&mut self.stats.broker, o.kind);
        self.rx_split(&o.bytes);
    }

    /// Put a labelled broker packet on the wire in one piece.
    pub fn send_raw(&mut self, kind: &str, bytes: &[u8]) {
        bump(&mut self.stats.broker, kind);
        self.rx(bytes);
    }

    pub fn deliver_all(&mut self) {
        let all = self.broker.deliver_all();
        if all.is_empty() {
            return;
        }
        for o in &all {
            bump(&mut self.stats.broker, o.kind);
        }
        let bytes: Vec<u8> = all.iter().flat_map(|o| o.bytes.iter().copied()).collect();
        self.rx_split(&bytes);
    }

    pub fn deliver(&mut self, i: usize) {
        let o = self.broker.deliver(i);
        self.send(&o);
    }

    /// Advance the clock; refused (false) when the program would pass 10^12 µs in total.
    pub fn tick(&mut self, us: u64) -> bool {
        if self.tick_total + us > TICK_CAP {
            return false;
        }
        if self.settle_writes && matches!(self.pend, Some('w' | 'f')) {
            // The last I/O event was `wp` or `fp`: writes complete without delay.
            self.go();
        }
        self.tick_total += us;
        self.x(&format!("tick {us}"));
        true
    }

    /// Advance the clock to the absolute time `t` (no-op when already there or later).
    pub fn tick_to(&mut self, t: u64) -> bool {
        let now = self.it.as_ref().map(|it| it.now_us()).unwrap_or(0);
        if t > now { self.tick(t - now) } else { true }
    }

    /// `connect`, let the CONNECT out, answer it, finish. True when a live connection results.
    pub fn connect(&mut self, spec: &ConnSpec) -> bool {
        self.x("connect");
        self.go();
        if !self.suspended() {
            return self.live();
        }
        let sp = match spec.sp {
            Sp::Conformant => self.broker.conformant_sp(),
            Sp::IfAsked => !self.broker.clean_start,
            Sp::Fixed(sp) => sp,
        };
        let mut props = spec.props.clone();
        if spec.rc == 0 {
            props.extend(self.connack_extra.iter().cloned());
        }
        let bytes = wire::connack(sp, spec.rc, &wire::enc_props(&props));
        let after = self.broker.on_connack(sp, spec.rc, &mut self.rng);
        self.send_raw(if spec.rc == 0 { "connack" } else { "connack-refused" }, &bytes);
        self.go();
        let ok = self.live();
        if ok {
            if self.hold_after {
                self.broker.owed.extend(after);
            } else {
                for o in &after {
                    self.send(o);
                }
            }
        }
        ok
    }

    /// Run the suspended operation with `go`, or with a random mix of partial decisions.
    pub fn run_random(&mut self) {
        if !self.suspended() {
            return;
        }
        if self.srng.pct(70) {
            return self.go();
        }
        for _ in 0..40 {
            if !self.suspended() || self.starved && self.unread() == 0 {
                return;
            }
            let n = *self.srng.pick(&[1u8, 2, 3, 5, 7, 250, 250]);
            self.x(&format!("d {n}"));
        }
        self.go();
    }

    /// Replacement of `go` by explicit decisions drawn from `choices`.
    pub fn run_chunked(&mut self, choices: &[u8]) {
        for _ in 0..4000 {
            if !self.suspended() {
                return;
            }
            let n = *self.srng.pick(choices);
            self.x(&format!("d {n}"));
            if self.starved {
                return;
            }
        }
    }

    /// Repeat `poll`, `go`, deliver everything owed, until nothing is owed and `poll` blocks
    /// with nothing to read (bounded).
    pub fn drain(&mut self) {
        let mut errors = 0;
        for _ in 0..80 {
            if !self.live() || self.ended() || errors >= 2 {
                return;
            }
            if !self.suspended() {
                self.x("poll");
            }
            self.go();
            if self.saw("ret poll err") {
                errors += 1;
            }
            if !self.broker.owed.is_empty() {
                self.deliver_all();
                continue;
            }
            if self.suspended() && self.unread() == 0 {
                return;
            }
        }
    }

    /// Benign end of a program: conformant broker, reconnect if the handle died, drain.
    pub fn finish_benign(&mut self) {
        self.comment("benign-from-here");
        self.broker.make_benign();
        for _ in 0..3 {
            if self.ended() {
                return;
            }
            if !self.live() && !self.connect(&ConnSpec::plain()) {
                continue;
            }
            self.drain();
            if self.live() && self.broker.owed.is_empty() {
                return;
            }
        }
    }

    pub fn text(&self, header: &str) -> String {
        let mut out = String::with_capacity(64 + self.lines.iter().map(|l| l.len() + 1).sum::<usize>());
        out.push_str(header);
        out.push('\n');
        out.push_str(&self.cfg_line);
        out.push('\n');
        for l in &self.lines {
            out.push_str(l);
            out.push('\n');
        }
        out
    }
}

// -------------------------------------------------------------------------------------------
// Output

/// Collects the files and statistics of one family.
pub struct Out {
    pub family: &'static str,
    pub seed: u64,
    pub dir: PathBuf,
    pub stats: Stats,
    pub files: u64,
    pub error: Option<std::io::Error>,
}

impl Out {
    pub fn rng(&self, idx: u64) -> Rng {
        Rng::new(self.family, self.seed, idx)
    }

    pub fn base(&self, idx: u64) -> String {
        format!("{}-{}-{}", self.family, self.seed, idx)
    }

    fn write(&mut self, name: &str, text: &str) {
        crate::hang::beat();
        self.files += 1;
        self.stats.programs += 1;
        self.stats.hashes.insert(fnv(text.split_once('\n').map(|p| p.1).unwrap_or(text)));
        if let Err(e) = std::fs::write(self.dir.join(name), text) {
            self.error.get_or_insert(e);
        }
    }

    /// Write `<family>-<seed>-<idx><suffix>.prog`.
    pub fn emit(&mut self, idx: u64, suffix: &str, tags: &str, drv: &Drv) {
        let header = format!(
            "# family={} seed={} idx={}{}{}",
            self.family,
            self.seed,
            idx,
            if tags.is_empty() { "" } else { " " },
            tags
        );
        let text = drv.text(&header);
        let mut stats = drv.stats.clone();
        stats.programs = 0;
        self.stats.merge(&stats);
        let name = format!("{}{}.prog", self.base(idx), suffix);
        self.write(&name, &text);
    }

    /// Write a program made of literal lines (never executed by the generator).
    pub fn emit_lines(&mut self, idx: u64, tags: &str, cfg_line: &str, lines: &[String]) {
        let mut text = format!(
            "# family={} seed={} idx={} {}\n{}\n",
            self.family, self.seed, idx, tags, cfg_line
        );
        for l in lines {
            text.push_str(l);
            text.push('\n');
            bump(&mut self.stats.directives, l.split(' ').next().unwrap_or(""));
        }
        let name = format!("{}.prog", self.base(idx));
        self.write(&name, &text);
    }
}

/// Evenly spaced choice of `count` indices out of `total` (all of them when `count >= total`).
pub fn stride(total: usize, count: usize) -> Vec<usize> {
    if count >= total {
        return (0..total).collect();
    }
    (0..count).map(|j| j * total / count).collect()
}

type FamilyFn = fn(&mut Out, u64);

pub const FAMILIES: &[(&str, FamilyFn)] = &[
    ("flow", fam_flow::flow),
    ("sched", fam_sched::sched),
    ("twin-cancel", fam_sched::twin_cancel),
    ("twin-chunk", fam_sched::twin_chunk),
    ("wrap", fam_wrap::wrap),
    ("malformed", fam_malformed::malformed),
    ("decode-exhaustive", fam_malformed::decode_exhaustive),
    ("codec", fam_codec::codec),
    ("keepalive", fam_keepalive::keepalive),
    ("fault", fam_fault::fault),
    ("reconnect", fam_fault::reconnect),
    ("maxsize", fam_codec::maxsize),
    ("arena", fam_arena::arena),
    ("invalid", fam_codec::invalid),
    ("reply", fam_reply::reply),
    ("behind", fam_behind::behind),
];

/// Only generated when asked for by name.
pub const EXTRA_FAMILIES: &[(&str, FamilyFn)] =
    &[("decode-exhaustive3", fam_malformed::decode_exhaustive3)];

fn run_family(name: &'static str, f: FamilyFn, seed: u64, count: u64, dir: &Path) -> Result<Stats, String> {
    std::fs::create_dir_all(dir).map_err(|e| format!("{}: {e}", dir.display()))?;
    let mut out = Out {
        family: name,
        seed,
        dir: dir.to_path_buf(),
        stats: Stats::default(),
        files: 0,
        error: None,
    };
    f(&mut out, count);
    match out.error {
        Some(e) => Err(format!("{}: {e}", dir.display())),
        None => Ok(out.stats),
    }
}

/// `vh gen <family|all> <seed> <count> <outdir>`.
pub fn generate(family: &str, seed: u64, count: u64, outdir: &Path) -> Result<(), String> {
    let mut results: Vec<(&'static str, Stats)> = Vec::new();
    if family == "all" {
        for (name, f) in FAMILIES {
            results.push((name, run_family(name, *f, seed, count, &outdir.join(name))?));
        }
    } else {
        let (name, f) = FAMILIES
            .iter()
            .chain(EXTRA_FAMILIES)
            .find(|(name, _)| *name == family)
            .ok_or_else(|| {
                let names: Vec<&str> = FAMILIES.iter().chain(EXTRA_FAMILIES).map(|f| f.0).collect();
                format!("unknown family {family}; known: all {}", names.join(" "))
            })?;
        results.push((name, run_family(name, *f, seed, count, outdir)?));
    }
    let mut json = String::from("{\n");
    let _ = writeln!(json, "  \"seed\": {seed},\n  \"count\": {count},\n  \"families\": {{");
    for (i, (name, stats)) in results.iter().enumerate() {
        let _ = write!(json, "    \"{name}\": ");
        stats.json(&mut json, "    ");
        json.push_str(if i + 1 == results.len() { "\n" } else { ",\n" });
    }
    json.push_str("  }\n}\n");
    std::fs::create_dir_all(outdir).map_err(|e| format!("{}: {e}", outdir.display()))?;
    std::fs::write(outdir.join("gen_stats.json"), json)
        .map_err(|e| format!("{}: {e}", outdir.display()))
}
