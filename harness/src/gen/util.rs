//! Random building blocks shared by the families.

use super::broker::{rand_bytes, rand_topic};
use super::wire::{self, props_text};
use super::{CfgSpec, Rng};
use crate::parse::{PropSpec, hex};

/// Random legal PUBLISH property set (application side).
pub fn pub_props(rng: &mut Rng) -> Vec<PropSpec> {
    let mut props = Vec::new();
    if rng.pct(55) {
        return props;
    }
    if rng.pct(30) {
        props.push(PropSpec::U8(0x01, rng.below(2) as u8));
    }
    if rng.pct(25) {
        props.push(PropSpec::U32(0x02, *rng.pick(&[0, 1, 3600, u32::MAX])));
    }
    if rng.pct(20) {
        props.push(PropSpec::Str(0x03, rand_topic(rng, 0, 5)));
    }
    if rng.pct(25) {
        props.push(PropSpec::Str(0x08, rand_topic(rng, 1, 6)));
    }
    if rng.pct(20) {
        let n = rng.below(5) as usize;
        props.push(PropSpec::Bin(0x09, rand_bytes(rng, n)));
    }
    if rng.pct(15) {
        props.push(PropSpec::U16(0x23, rng.range(1, 9) as u16));
    }
    if rng.pct(30) {
        props.push(PropSpec::Pair(rand_topic(rng, 0, 3), rand_topic(rng, 0, 3)));
    }
    rng.shuffle(&mut props);
    props
}

pub struct PubLine {
    pub qos: u8,
    pub retain: bool,
    pub topic: String,
    /// `<hex>`, `fail` or `lie:<n>`.
    pub payload: String,
    pub props: Vec<PropSpec>,
    pub c1: Option<Vec<u8>>,
    pub c2: Option<Vec<u8>>,
}

impl PubLine {
    pub fn simple(qos: u8, topic: &str, payload: &[u8]) -> PubLine {
        PubLine {
            qos,
            retain: false,
            topic: topic.to_string(),
            payload: hex(payload),
            props: Vec::new(),
            c1: None,
            c2: None,
        }
    }

    pub fn text(&self) -> String {
        let mut line = format!(
            "publish {} {} {} {} {}",
            self.qos,
            self.retain as u8,
            hex(self.topic.as_bytes()),
            self.payload,
            props_text(&self.props)
        );
        if let Some(c) = &self.c1 {
            line.push_str(&format!(" c1={}", hex(c)));
        }
        if let Some(c) = &self.c2 {
            line.push_str(&format!(" c2={}", hex(c)));
        }
        line
    }
}

/// A random publish directive. `big` allows payloads larger than the arena.
pub fn rand_publish(rng: &mut Rng, qos: u8, tx: usize) -> PubLine {
    let payload = match rng.below(40) {
        0 => "fail".to_string(),
        1 => "lie:0".to_string(),
        2 => "lie:100000".to_string(),
        3 | 4 => {
            let n = tx + 1 + rng.below(8) as usize;
            hex(&rand_bytes(rng, n))
        }
        _ => {
            let n = rng.below(41) as usize;
            hex(&rand_bytes(rng, n))
        }
    };
    let c = |rng: &mut Rng| {
        rng.pct(12).then(|| {
            let n = rng.below(4) as usize;
            rand_bytes(rng, n)
        })
    };
    PubLine {
        qos,
        retain: rng.pct(15),
        topic: rand_topic(rng, 1, 10),
        payload,
        props: pub_props(rng),
        c1: c(rng),
        c2: c(rng),
    }
}

pub fn filter_text(topic: &str, qos: u8, nl: bool, rap: bool, rh: u8) -> String {
    format!("{}/{}/{}/{}/{}", hex(topic.as_bytes()), qos, nl as u8, rap as u8, rh)
}

pub fn rand_subscribe(rng: &mut Rng) -> String {
    let mut props = Vec::new();
    if rng.pct(25) {
        props.push(PropSpec::U32(0x0b, *rng.pick(&[1, 127, 128, 268435455])));
    }
    if rng.pct(20) {
        props.push(PropSpec::Pair("k".into(), rand_topic(rng, 0, 3)));
    }
    let mut line = format!("subscribe {}", props_text(&props));
    for _ in 0..rng.range(1, 3) {
        let mut topic = rand_topic(rng, 1, 8);
        if rng.pct(30) {
            topic.push_str("/#");
        }
        line.push(' ');
        line.push_str(&filter_text(
            &topic,
            rng.below(3) as u8,
            rng.pct(50),
            rng.pct(50),
            rng.below(3) as u8,
        ));
    }
    line
}

pub fn rand_unsubscribe(rng: &mut Rng) -> String {
    let mut props = Vec::new();
    if rng.pct(20) {
        props.push(PropSpec::Pair("k".into(), "v".into()));
    }
    let mut line = format!("unsubscribe {}", props_text(&props));
    for _ in 0..rng.range(1, 3) {
        line.push(' ');
        line.push_str(&hex(rand_topic(rng, 1, 8).as_bytes()));
    }
    line
}

/// Random CONNACK property subset; trimmed so that the CONNACK fits `rx`.
pub fn connack_props(rng: &mut Rng, rx: usize, harsh: bool) -> Vec<PropSpec> {
    let mut props = Vec::new();
    if rng.pct(35) {
        props.push(PropSpec::U16(0x21, *rng.pick(&[1, 2, 3, 8, 9, 20, 65535])));
    }
    if rng.pct(if harsh { 25 } else { 8 }) {
        let v = match rng.below(4) {
            0 => rng.range(2, 40) as u32,
            1 => 64,
            2 => 128,
            _ => 268435455,
        };
        props.push(PropSpec::U32(0x27, v));
    }
    if rng.pct(25) {
        props.push(PropSpec::U8(0x24, rng.below(2) as u8));
    }
    if rng.pct(20) {
        props.push(PropSpec::U16(0x13, *rng.pick(&[0, 1, 3, 30, 120])));
    }
    if rng.pct(15) {
        let len = if rng.pct(10) { 65 } else { rng.range(0, 12) };
        props.push(PropSpec::Str(0x12, "i".repeat(len as usize)));
    }
    if rng.pct(10) {
        props.push(PropSpec::U16(0x22, *rng.pick(&[0, 10, 65535])));
    }
    if rng.pct(10) {
        props.push(PropSpec::U8(0x25, rng.below(2) as u8));
    }
    if rng.pct(10) {
        props.push(PropSpec::Pair("a".into(), "b".into()));
    }
    if rng.pct(8) {
        props.push(PropSpec::Str(0x1f, "hi".into()));
    }
    if rng.pct(8) {
        props.push(PropSpec::U8(*rng.pick(&[0x28, 0x29, 0x2a]), rng.below(2) as u8));
    }
    if rng.pct(6) {
        props.push(PropSpec::U32(0x11, *rng.pick(&[0, 60, u32::MAX])));
    }
    rng.shuffle(&mut props);
    fit_connack(props, rx)
}

pub fn fit_connack(mut props: Vec<PropSpec>, rx: usize) -> Vec<PropSpec> {
    while wire::connack(false, 0, &wire::enc_props(&props)).len() > rx {
        props.pop();
    }
    props
}

/// Random will in `cfg` syntax, with properties from the legal will set.
pub fn rand_will(rng: &mut Rng) -> String {
    let mut props = Vec::new();
    if rng.pct(40) {
        props.push(PropSpec::U32(0x18, *rng.pick(&[0, 5, u32::MAX])));
    }
    if rng.pct(25) {
        props.push(PropSpec::U8(0x01, rng.below(2) as u8));
    }
    if rng.pct(25) {
        props.push(PropSpec::U32(0x02, 60));
    }
    if rng.pct(20) {
        props.push(PropSpec::Str(0x03, "t".into()));
    }
    if rng.pct(20) {
        props.push(PropSpec::Str(0x08, "r/t".into()));
    }
    if rng.pct(20) {
        props.push(PropSpec::Bin(0x09, vec![1, 2]));
    }
    if rng.pct(25) {
        props.push(PropSpec::Pair("k".into(), "v".into()));
    }
    let n = rng.below(6) as usize;
    format!(
        "{}/{}/{}/{}/{}",
        hex(rand_topic(rng, 1, 8).as_bytes()),
        hex(&rand_bytes(rng, n)),
        rng.below(3),
        rng.below(2),
        props_text(&props)
    )
}

/// Size of the CONNECT packet this configuration produces (dry run in a big arena).
/// Must not be called while another interpreter is alive (the virtual clock is global).
pub fn connect_need(cfg: &CfgSpec) -> usize {
    let mut big = cfg.clone();
    big.tx = 70000;
    let Ok(mut it) = crate::interp::Interp::new(&big.line()) else {
        return 0;
    };
    it.exec("connect");
    it.exec("d 250");
    it.wire_len(0)
}

pub fn rand_cfg(rng: &mut Rng) -> CfgSpec {
    let mut cfg = rand_cfg_raw(rng);
    if rng.pct(92) {
        // Make sure the CONNECT fits, with some room for in-flight packets.
        let need = connect_need(&cfg) + if rng.pct(20) { 12 } else { 70 };
        let fitting: Vec<usize> = [48, 64, 96, 128, 256, 1152]
            .into_iter()
            .filter(|tx| *tx >= need)
            .collect();
        cfg.tx = *rng.pick(&fitting);
    }
    cfg
}

fn rand_cfg_raw(rng: &mut Rng) -> CfgSpec {
    let cid_len = rng.below(11) as usize;
    CfgSpec {
        rx: *rng.pick(&[32, 64, 128, 300, 512]),
        tx: *rng.pick(&[48, 64, 96, 128, 256, 1152]),
        ka: *rng.pick(&[0, 0, 4, 60]),
        exp: *rng.pick(&[0, 1, 300, 86400, u32::MAX]),
        dg: rng.pct(50),
        cid: rand_topic(rng, cid_len, cid_len),
        auth: rng.pct(25).then(|| {
            let n = rng.below(5) as usize;
            (rand_topic(rng, 0, 5), rand_bytes(rng, n))
        }),
        will: rng.pct(30).then(|| rand_will(rng)),
    }
}
