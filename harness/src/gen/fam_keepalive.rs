//! `keepalive`: ticks landing on, just before and just after the keep-alive deadlines.

use super::util::PubLine;
use super::{CfgSpec, ConnSpec, Drv, Out, Sp};
use crate::parse::PropSpec;

const KA: [u16; 10] = [0, 1, 2, 4, 5, 9, 10, 11, 60, 65535];
const SKA: [Option<u16>; 5] = [None, Some(0), Some(1), Some(3), Some(30)];

fn connack(ska: Option<u16>) -> Vec<PropSpec> {
    ska.map(|v| vec![PropSpec::U16(0x13, v)]).unwrap_or_default()
}

/// Approach an absolute deadline: 1 µs before, exactly on, and (sometimes) 1 µs after.
fn approach(d: &mut Drv, deadline: u64) -> bool {
    let mut ok = true;
    match d.rng.below(4) {
        0 => ok &= d.tick_to(deadline),
        1 => {
            ok &= d.tick_to(deadline.saturating_sub(1));
            ok &= d.tick(1);
        }
        2 => {
            ok &= d.tick_to(deadline.saturating_sub(1));
            ok &= d.tick(1);
            ok &= d.tick(1);
        }
        _ => ok &= d.tick_to(deadline + 1),
    }
    ok
}

pub fn keepalive(out: &mut Out, count: u64) {
    for idx in 0..count {
        let combo = (idx % 50) as usize;
        let (ka, ska) = (KA[combo / 5], SKA[combo % 5]);
        let mut cfg = CfgSpec::basic(64, 256);
        cfg.ka = ka;
        let mut d = Drv::new(&cfg, out.rng(idx));
        d.split_rx = false;
        // Writes complete without delay: never let time pass over a pending write or flush.
        d.settle_writes = true;
        d.connect(&ConnSpec::with(connack(ska)));
        let mut reconnects = 0;
        let mut pings = 0;
        let mut modes: Vec<&str> = Vec::new();
        let long = idx % 3 == 0;
        let cycles = if long { 60 } else { d.rng.range(12, 30) };
        let cap = if long { 260 } else { 150 };
        for _ in 0..cycles {
            if d.ended() || d.count > cap || long && pings >= 14 {
                break;
            }
            if !d.live() {
                if reconnects >= 6 {
                    break;
                }
                reconnects += 1;
                d.connect(&ConnSpec { sp: Sp::Conformant, rc: 0, props: connack(ska) });
                continue;
            }
            if !d.suspended() {
                d.x("poll");
            }
            // Other traffic at random relative positions.
            match d.rng.below(12) {
                0 | 1 => {
                    let now = d.interp().now_us();
                    let st = d.interp().verif_state();
                    if let Some(t) = st.ping_timeout_us.or(st.next_ping_us) {
                        if t > now + 2 {
                            let part = d.rng.range(1, (t - now - 1).min(60_000_000));
                            d.tick(part);
                        }
                    }
                    let qos = d.rng.below(2) as u8;
                    d.x(&PubLine::simple(qos, "k", b"x").text());
                    d.go();
                    if d.rng.pct(70) {
                        d.deliver_all();
                    }
                    continue;
                }
                2 => {
                    if let Some(o) = d.broker.inbound(&mut d.rng, 0, Some(vec![]), Some(vec![1, 2])) {
                        d.send(&o);
                        d.go();
                    }
                    continue;
                }
                _ => {}
            }
            let st = d.interp().verif_state();
            let now = d.interp().now_us();
            match (st.ping_timeout_us, st.next_ping_us) {
                (Some(pt), _) => {
                    // A PINGREQ is outstanding: the PINGRESP arrives in time, on the deadline,
                    // late, or never.
                    let rare = ["just-in-time", "on-deadline-rx-first", "on-deadline-tick-first", "late", "never"];
                    let mode = if d.rng.pct(if long { 88 } else { 55 }) { "in-time" } else { *d.rng.pick(&rare) };
                    modes.push(mode);
                    let ok = match mode {
                        "in-time" => {
                            let ok = if pt > now + 2 && d.rng.pct(70) {
                                let part = d.rng.range(0, pt - now - 2);
                                d.tick(part)
                            } else {
                                true
                            };
                            d.deliver_all();
                            d.go();
                            ok
                        }
                        "just-in-time" => {
                            let ok = d.tick_to(pt - 1);
                            d.deliver_all();
                            d.go();
                            ok
                        }
                        "on-deadline-rx-first" => {
                            d.deliver_all();
                            let ok = d.tick_to(pt);
                            d.go();
                            ok
                        }
                        "on-deadline-tick-first" => {
                            let ok = approach(&mut d, pt);
                            d.deliver_all();
                            d.go();
                            ok
                        }
                        "late" => {
                            let extra = d.rng.range(1, 3_000_000);
                            let ok = d.tick_to(pt + extra);
                            d.deliver_all();
                            d.go();
                            ok
                        }
                        _ => {
                            while !d.broker.owed().is_empty() {
                                d.broker.forget(0);
                            }
                            let ok = d.tick_to(pt - 1);
                            d.go();
                            ok && d.tick(1) && d.tick(1)
                        }
                    };
                    if !ok {
                        break;
                    }
                }
                (None, Some(np)) => {
                    if !approach(&mut d, np) {
                        break;
                    }
                    // The PINGREQ is waiting for its write decision.
                    if d.rng.pct(25) && d.suspended() && d.pend == Some('w') {
                        d.x("d 1");
                    }
                    d.go();
                    pings += 1;
                }
                (None, None) => {
                    let us = d.rng.range(500_000, 70_000_000);
                    if !d.tick(us) {
                        break;
                    }
                    d.go();
                }
            }
        }
        d.finish_benign();
        modes.sort();
        modes.dedup();
        let tags = format!(
            "ka={ka} ska={} long={} pings={pings} modes={}",
            ska.map(|v| v.to_string()).unwrap_or("-".into()),
            long as u8,
            if modes.is_empty() { "-".to_string() } else { modes.join(",") }
        );
        out.emit(idx, "", &tags, &d);
    }
}
