//! `arena`: long histories of retained packets in small and large arenas, then a fixed probe
//! sequence that a fresh twin runs as well.

use super::broker::rand_bytes;
use super::util::{PubLine, filter_text};
use super::{CfgSpec, ConnSpec, Drv, Out, Sp};
use crate::parse::PropSpec;

const TX: [usize; 20] = [
    64, 1152, 64, 5, 64, 1152, 64, 6, 64, 1152, 64, 7, 64, 1152, 64, 16, 64, 1152, 64, 24,
];

/// All permutations of `0..n` in lexicographic order.
fn permutations(n: usize) -> Vec<Vec<usize>> {
    if n == 0 {
        return vec![vec![]];
    }
    let mut out = Vec::new();
    for p in permutations(n - 1) {
        for at in 0..n {
            let mut q = p.clone();
            q.insert(at, n - 1);
            out.push(q);
        }
    }
    out.sort();
    out
}

fn ensure_live(d: &mut Drv) -> bool {
    d.live() || d.connect(&ConnSpec::plain())
}

/// Deliver everything owed in the order of permutation number `which`, polling in between.
fn ack_in_order(d: &mut Drv, which: usize) {
    let n = d.broker.owed().len();
    if n == 0 {
        return;
    }
    if n > 4 {
        d.deliver_all();
    } else {
        let perms = permutations(n);
        let order = &perms[which % perms.len()];
        // Positions refer to the original queue; translate while it shrinks.
        let mut left: Vec<usize> = (0..n).collect();
        for want in order {
            let at = left.iter().position(|v| v == want).unwrap();
            left.remove(at);
            d.deliver(at);
            if d.rng.pct(40) {
                if !d.suspended() {
                    d.x("poll");
                }
                d.go();
            }
        }
    }
    d.drain();
}

/// The fixed probe: ladder of QoS 1 sizes until refused, a subscribe, then the slot count.
fn probe(d: &mut Drv, tx: usize) {
    d.comment("probe-from-here");
    if !d.live() {
        d.x("publish 1 0 70 - -");
        return;
    }
    let mut size = 0usize;
    loop {
        d.x(&PubLine::simple(1, "p", &vec![0x70; size]).text());
        d.go();
        let refused = d.saw("ret publish err");
        d.deliver_all();
        d.drain();
        if refused || size > tx + 8 || !d.live() {
            break;
        }
        size = if size < 8 { size + 1 } else { size + size / 2 };
    }
    d.x(&format!("subscribe - {}", filter_text("p/#", 1, false, false, 0)));
    d.go();
    d.deliver_all();
    d.drain();
    for _ in 0..10 {
        d.x(&PubLine::simple(1, "p", &[]).text());
        d.go();
    }
    d.deliver_all();
    d.drain();
}

fn history(d: &mut Drv, tx: usize, steps: usize, idx: u64) {
    let mut perm_counter = idx as usize;
    for _ in 0..steps {
        if d.ended() {
            return;
        }
        if !ensure_live(d) {
            // An arena that cannot even hold the CONNECT: nothing more to do.
            return;
        }
        match d.rng.below(12) {
            0..=5 => {
                let qos = 1 + d.rng.below(2) as u8;
                let size = match d.rng.below(6) {
                    0 => 0,
                    1 => tx.saturating_sub(d.rng.range(8, 16) as usize),
                    2 => tx,
                    _ => d.rng.below((tx / 3).max(2) as u64) as usize,
                };
                let payload = rand_bytes(&mut d.rng, size.min(1400));
                d.x(&PubLine::simple(qos, "a", &payload).text());
                d.go();
            }
            6 | 7 => {
                let n = d.rng.below(6) as usize;
                let payload = rand_bytes(&mut d.rng, n);
                d.x(&PubLine::simple(0, "z", &payload).text());
                d.go();
            }
            8 | 9 => {
                perm_counter += 1;
                ack_in_order(d, perm_counter);
            }
            10 => {
                if let Some(n) = d.broker.owed().len().checked_sub(1) {
                    let i = d.rng.below(n as u64 + 1) as usize;
                    d.deliver(i);
                    d.drain();
                }
            }
            _ => {
                // Not when the retained packets leave no room for the CONNECT (the session
                // could never be reconnected).
                let held: usize = d.interp().verif_state().retained.iter().map(|r| r.2).sum();
                if held + 40 <= tx {
                    if d.rng.pct(50) {
                        // A FRESH session while publishes are in flight: QoS 1 unacked, QoS 2
                        // before its PUBREC, QoS 2 awaiting PUBCOMP.
                        d.x(&PubLine::simple(2, "f", b"c").text());
                        d.go();
                        if let Some(i) = d.broker.owed().iter().rposition(|o| o.kind == "pubrec") {
                            d.deliver(i);
                            if !d.suspended() {
                                d.x("poll");
                            }
                            d.go();
                        }
                        d.x(&PubLine::simple(1, "f", b"a").text());
                        d.go();
                        d.x(&PubLine::simple(2, "f", b"b").text());
                        d.go();
                        d.x("drop");
                        d.connect(&ConnSpec { sp: Sp::Fixed(false), rc: 0, props: vec![] });
                    } else {
                        d.x("drop");
                        d.connect(&ConnSpec::plain());
                    }
                }
            }
        }
        if d.broker.owed().len() >= 4 {
            perm_counter += 1;
            ack_in_order(d, perm_counter);
        }
    }
}

pub fn arena(out: &mut Out, count: u64) {
    for idx in 0..count {
        let tx = TX[(idx % 20) as usize];
        let long = idx == 1;
        // Downgrade: dg=1 and a CONNACK Maximum QoS of 0 or 1, so QoS 1/2 publishes go out lower.
        let downgrade = match idx % 20 {
            2 | 5 => Some(0u8),
            6 | 9 => Some(1u8),
            _ => None,
        };
        let mut cfg = CfgSpec::basic(64, tx);
        cfg.dg = downgrade.is_some();
        cfg.cid = String::new();
        cfg.exp = 3600;
        let name = out.base(idx);
        // Fresh twin first (only one interpreter at a time).
        let mut fresh = Drv::new(&cfg, out.rng(idx));
        fresh.split_rx = false;
        fresh.connack_extra = downgrade.map(|q| vec![PropSpec::U8(0x24, q)]).unwrap_or_default();
        fresh.connect(&ConnSpec::plain());
        probe(&mut fresh, tx);
        out.emit(idx, ".fresh", &format!("twin={name} role=fresh tx={tx}"), &fresh);
        drop(fresh);

        let mut d = Drv::new(&cfg, out.rng(idx));
        d.split_rx = false;
        d.connack_extra = downgrade.map(|q| vec![PropSpec::U8(0x24, q)]).unwrap_or_default();
        d.connect(&ConnSpec::plain());
        let steps = if long { 1500 } else { d.rng.range(10, 70) as usize };
        history(&mut d, tx, steps, idx);
        // Everything is eventually acknowledged.
        for _ in 0..4 {
            if !ensure_live(&mut d) {
                break;
            }
            d.deliver_all();
            d.drain();
            if d.broker.owed().is_empty() && d.interp().is_publish_quiescent() {
                break;
            }
        }
        d.x("cancel");
        probe(&mut d, tx);
        let dg_tag = downgrade.map(|q| format!(" dg=1 mq={q}")).unwrap_or_default();
        let tags = format!("twin={name} role=aged tx={tx}{dg_tag}{}", if long { " long=1" } else { "" });
        out.emit(idx, "", &tags, &d);
    }
}
