//! `fault` (a fault at every I/O call index, then every kind of further call) and `reconnect`
//! (histories ending in a failure, then a healthy connection).

use super::fam_sched::{Step, scenarios, setup};
use super::util::{PubLine, filter_text};
use super::{CfgSpec, ConnSpec, Drv, Out, Sp, stride, wire};

#[derive(Debug, Clone, Copy, PartialEq)]
enum Inject {
    Decision(u8),
    /// A DISCONNECT packet from the broker, then reads.
    BrokerDisconnect,
    /// An invalid inbound packet, then reads.
    Garbage,
}

const AFTER: [&str; 9] = [
    "publish 0 0 74 70 -",
    "publish 1 0 74 70 -",
    "publish 2 0 74 70 -",
    "subscribe - 74/0/0/0/0",
    "unsubscribe - 74",
    "poll",
    "recv",
    "drive",
    "disconnect none none",
];

pub(super) const IDLE_WAYS: [&str; 5] =
    ["broker-disconnect", "broker-disconnect-rc", "eof", "ping-timeout", "ping-timeout-busy"];

/// The handle dies while nothing is queued; then every request is called on it, then `drop`,
/// a resumed reconnect and a drain.
pub(super) fn idle_dead(rng: super::Rng, how: &str) -> Drv {
    let mut cfg = CfgSpec::basic(128, 256);
    if how.starts_with("ping-timeout") {
        cfg.ka = 2;
    }
    let mut d = Drv::new(&cfg, rng);
    d.split_rx = false;
    d.connect(&ConnSpec::plain());
    if how == "ping-timeout-busy" {
        // Not idle: a QoS 1 and a QoS 2 publish stay unacknowledged.
        d.x(&PubLine::simple(1, "b", b"1").text());
        d.go();
        d.x(&PubLine::simple(2, "b", b"2").text());
        d.go();
        while !d.broker.owed().is_empty() {
            d.broker.forget(0);
        }
    }
    d.x("poll");
    match how {
        "broker-disconnect" => {
            d.send_raw("disconnect", &wire::disconnect(None));
            d.go();
        }
        "broker-disconnect-rc" => {
            d.send_raw("disconnect", &wire::disconnect(Some(0x8b)));
            d.go();
        }
        "eof" => d.x("d 251"),
        _ => {
            d.tick(1_000_000);
            d.go();
            while !d.broker.owed().is_empty() {
                d.broker.forget(0);
            }
            if !d.suspended() {
                d.x("poll");
            }
            d.tick(4_999_999);
            d.tick(1);
        }
    }
    for line in [
        "publish 0 0 74 70 -",
        "publish 1 0 74 70 -",
        "publish 2 0 74 70 -",
        "subscribe - 74/0/0/0/0",
        "unsubscribe - 74",
        "disconnect none none",
        "poll",
    ] {
        d.x(line);
        d.go();
    }
    d.x("drop");
    d.connect(&ConnSpec { sp: Sp::Fixed(true), rc: 0, props: vec![] });
    d.finish_benign();
    d
}

fn after_calls(d: &mut Drv) {
    for line in AFTER {
        d.x(line);
        d.go();
    }
    d.x("cancel");
}

fn read_on(d: &mut Drv) {
    for _ in 0..12 {
        if !d.suspended() || d.starved {
            break;
        }
        d.x("d 250");
    }
}

/// Run the steps with `d 250` decisions; at decision index `at` apply `inject` instead and stop
/// the scenario. Returns the awaited I/O kind of every decision point seen.
fn run_fault(d: &mut Drv, steps: &[Step], at: Option<(usize, Inject)>) -> Vec<char> {
    let mut kinds = Vec::new();
    for step in steps {
        match step {
            Step::Owed => d.deliver_all(),
            Step::Inbound(qos) => {
                if let Some(o) = d.broker.inbound(&mut d.rng, *qos, None, None) {
                    d.send(&o);
                }
            }
            Step::Partial(..) => {}
            Step::OwedLong => d.deliver_all(),
            Step::Op(line) => {
                d.x(line);
                while d.suspended() {
                    let kind = d.pend.unwrap_or('-');
                    if let Some((i, inject)) = at {
                        if i == kinds.len() {
                            match inject {
                                Inject::Decision(n) => d.x(&format!("d {n}")),
                                Inject::BrokerDisconnect => {
                                    d.send_raw("disconnect", &wire::disconnect(Some(0x8b)));
                                    read_on(d);
                                }
                                Inject::Garbage => {
                                    d.send_raw("crafted", &[0xf0, 0x00]);
                                    read_on(d);
                                }
                            }
                            kinds.push(kind);
                            return kinds;
                        }
                    }
                    kinds.push(kind);
                    d.x("d 250");
                    if d.starved {
                        break;
                    }
                }
            }
        }
    }
    kinds
}

fn injections(kind: char) -> Vec<Inject> {
    match kind {
        'w' => (251..=255).map(Inject::Decision).collect(),
        'f' => (252..=255).map(Inject::Decision).collect(),
        'r' => (251..=255)
            .map(Inject::Decision)
            .chain([Inject::BrokerDisconnect, Inject::Garbage])
            .collect(),
        _ => Vec::new(),
    }
}

pub fn fault(out: &mut Out, count: u64) {
    let list = scenarios(&mut out.rng(u64::MAX));
    // Scenario index usize::MAX stands for the handshake itself.
    let mut all: Vec<(usize, usize, Inject)> = Vec::new();
    let handshake = ['w', 'f', 'r', 'r', 'r'];
    for (i, kind) in handshake.iter().enumerate() {
        for inj in injections(*kind) {
            all.push((usize::MAX, i, inj));
        }
    }
    for (s, (_, steps)) in list.iter().enumerate() {
        let mut dry = setup(out.rng(s as u64), 128, 256);
        let kinds = run_fault(&mut dry, steps, None);
        drop(dry);
        for (i, kind) in kinds.iter().enumerate() {
            for inj in injections(*kind) {
                all.push((s, i, inj));
            }
        }
    }
    // The operation-level fault grids come first, so that small counts include all of them.
    let plans = plans();
    let n_plans = plans.len().min(count as usize);
    for (i, plan) in plans[..n_plans].iter().enumerate() {
        let (tags, d) = run_plan(out.rng(6000 + i as u64), plan);
        out.emit(i as u64, "", &tags, &d);
    }
    let count = count as usize - n_plans;
    let n_timeouts = 6.min(count);
    let n_idle = IDLE_WAYS.len().min(count - n_timeouts);
    // Broker DISCONNECT: reason absent / success / failures, with and without a reason string.
    let mut disconnects: Vec<(Option<u8>, bool)> = vec![(None, false)];
    for rc in [0x00u8, 0x81, 0x8b, 0x8e, 0x98, 0x9d] {
        disconnects.push((Some(rc), false));
        disconnects.push((Some(rc), true));
    }
    let n_disc = disconnects.len().min(count - n_timeouts - n_idle);
    let picks = stride(all.len(), count - n_timeouts - n_idle - n_disc);
    let mut idx = n_plans as u64;
    for (rc, with_props) in &disconnects[..n_disc] {
        let mut d = setup(out.rng(4000 + idx), 128, 256);
        let bytes = match (rc, with_props) {
            (None, _) => wire::disconnect(None),
            (Some(rc), false) => wire::disconnect(Some(*rc)),
            (Some(rc), true) => {
                let props = wire::enc_props(&[crate::parse::PropSpec::Str(0x1f, "bye".into())]);
                let mut body = vec![*rc, props.len() as u8];
                body.extend(props);
                wire::pkt(0xe0, &body)
            }
        };
        if idx % 2 == 0 {
            d.x(&PubLine::simple(1, "d", b"1").text());
            d.go();
        }
        d.x("poll");
        d.send_raw("disconnect", &bytes);
        d.go();
        for line in ["publish 0 0 74 70 -", "publish 1 0 74 70 -", "subscribe - 74/0/0/0/0", "poll"] {
            d.x(line);
            d.go();
        }
        d.x("cancel");
        d.finish_benign();
        let tags = format!(
            "scenario=broker-disconnect rc={} props={}",
            rc.map(|v| format!("{v:02x}")).unwrap_or("absent".into()),
            *with_props as u8
        );
        out.emit(idx, "", &tags, &d);
        idx += 1;
    }
    for how in &IDLE_WAYS[..n_idle] {
        let d = idle_dead(out.rng(3000 + idx), how);
        out.emit(idx, "", &format!("scenario=idle-dead-handle fault={how}"), &d);
        idx += 1;
    }
    for p in picks {
        let (s, i, inj) = all[p];
        let inj_tag = match inj {
            Inject::Decision(n) => format!("d{n}"),
            Inject::BrokerDisconnect => "broker-disconnect".to_string(),
            Inject::Garbage => "invalid-packet".to_string(),
        };
        let (name, mut d, kind) = if s == usize::MAX {
            let mut d = Drv::new(&CfgSpec::basic(128, 256), out.rng(1000 + i as u64));
            d.split_rx = false;
            d.x("connect");
            let mut kind = '-';
            for k in 0..=i {
                if !d.suspended() {
                    break;
                }
                kind = d.pend.unwrap_or('-');
                if k == i {
                    match inj {
                        Inject::Decision(n) => d.x(&format!("d {n}")),
                        Inject::BrokerDisconnect => {
                            d.send_raw("disconnect", &wire::disconnect(Some(0x8b)));
                            read_on(&mut d);
                        }
                        Inject::Garbage => {
                            d.send_raw("crafted", &[0xf0, 0x00]);
                            read_on(&mut d);
                        }
                    }
                } else {
                    if k == 2 {
                        d.send_raw("connack", &wire::connack(false, 0, &[]));
                    }
                    d.x("d 250");
                }
            }
            ("handshake", d, kind)
        } else {
            let (name, steps) = &list[s];
            let mut d = setup(out.rng(s as u64), 128, 256);
            let kinds = run_fault(&mut d, steps, Some((i, inj)));
            (*name, d, *kinds.last().unwrap_or(&'-'))
        };
        after_calls(&mut d);
        d.finish_benign();
        out.emit(idx, "", &format!("scenario={name} io={i} awaited={kind} fault={inj_tag}"), &d);
        idx += 1;
    }
    // Keep-alive timeout with different operations pending.
    for k in 0..n_timeouts {
        let mut cfg = CfgSpec::basic(128, 256);
        cfg.ka = 4;
        let mut d = Drv::new(&cfg, out.rng(2000 + k as u64));
        d.split_rx = false;
        d.connect(&ConnSpec::plain());
        let op = ["poll", "recv", "poll"][k % 3];
        if k >= 3 {
            d.x(&PubLine::simple(1, "k", b"v").text());
            d.go();
        }
        d.x(op);
        d.tick(2_000_000);
        d.go();
        while !d.broker.owed().is_empty() {
            d.broker.forget(0);
        }
        if !d.suspended() {
            d.x(op);
        }
        d.tick(4_999_999);
        d.tick(1);
        after_calls(&mut d);
        d.finish_benign();
        out.emit(idx, "", &format!("scenario=keepalive op={op} fault=ping-timeout"), &d);
        idx += 1;
    }
}

// -------------------------------------------------------------------------------------------

/// Ways a history can end badly.
#[derive(Debug, Clone, Copy)]
enum Ending {
    /// Cancel `connect` after this many decisions (the CONNACK is available from the third on).
    CancelConnect(usize),
    /// Only part of the CONNACK arrives before the cancel.
    CancelPartialConnack(usize),
    Rejected(u8),
    Garbled(usize),
    ConnectFault(usize, u8),
    /// A fault in another operation: (operation, decisions before, fault decision).
    OpFault(usize, usize, u8),
    CancelOp(usize, usize),
    /// `poll` cancelled after the first n bytes of an inbound PUBLISH were read, then `drop`.
    CancelPartialPublish(usize),
    /// An outbound packet of this operation is written up to k bytes, then the transport dies.
    PartialWriteFault(usize, u8, u8),
}

const GARBLED: [&[u8]; 4] = [
    &[0x20, 0x03, 0x00, 0x00, 0x05],
    &[0xf0, 0x00],
    &[0x20, 0x02, 0x00, 0x00],
    &[0x40, 0x02, 0x00, 0x01],
];

const OPS: [&str; 4] = ["publish 1 0 6f 6f -", "poll", "subscribe - 6f/1/0/0/0", "disconnect none none"];

fn endings() -> Vec<Ending> {
    let mut v = Vec::new();
    for i in 0..6 {
        v.push(Ending::CancelConnect(i));
    }
    for n in 0..5 {
        v.push(Ending::CancelPartialConnack(n));
    }
    for n in [1usize, 2, 3, 6, 11] {
        v.push(Ending::CancelPartialPublish(n));
    }
    for (op, k, n) in [(0, 1u8, 252u8), (0, 5, 251), (0, 9, 255), (2, 2, 253), (2, 7, 254), (3, 1, 252)] {
        v.push(Ending::PartialWriteFault(op, k, n));
    }
    for rc in [0x80u8, 0x85, 0x87, 0x89, 0x8a, 0x95, 0x9f] {
        v.push(Ending::Rejected(rc));
    }
    for g in 0..GARBLED.len() {
        v.push(Ending::Garbled(g));
    }
    for (i, n) in [(0, 251u8), (0, 252), (1, 253), (2, 251), (2, 254), (3, 255)] {
        v.push(Ending::ConnectFault(i, n));
    }
    for op in 0..OPS.len() {
        v.push(Ending::OpFault(op, 0, 252));
        v.push(Ending::OpFault(op, 1, if op == 1 { 251 } else { 255 }));
        v.push(Ending::CancelOp(op, 0));
        v.push(Ending::CancelOp(op, 1));
    }
    v
}

pub fn reconnect(out: &mut Out, count: u64) {
    let ends = endings();
    // Retained packets before the failure: 0..8, and an arena filled to the brim.
    let loads: [usize; 7] = [0, 1, 2, 4, 7, 8, 99];
    let mut grid = Vec::new();
    for (l, load) in loads.iter().enumerate() {
        for e in 0..ends.len() {
            grid.push((l, *load, e));
        }
    }
    // Scripted histories first (a sixth of the budget), then the grid.
    let scripts = scripted();
    let n_scripted = scripts.len().min(count as usize / 6);
    for (idx, i) in stride(scripts.len(), n_scripted).into_iter().enumerate() {
        let (tags, d) = run_script(out.rng(8000 + i as u64), &scripts[i]);
        out.emit(idx as u64, "", &tags, &d);
    }
    let count = count as usize - n_scripted;
    for (idx, p) in stride(grid.len(), count).into_iter().enumerate() {
        let idx = idx + n_scripted;
        let (_, load, e) = grid[p];
        let ending = ends[e];
        let mut cfg = CfgSpec::basic(64, if load == 99 { 96 } else { 400 });
        cfg.exp = 3600;
        let mut d = Drv::new(&cfg, out.rng(idx as u64));
        d.split_rx = false;
        d.connect(&ConnSpec::plain());
        // Retained packets nobody acknowledges (the broker forgets them on this connection).
        let mut retained = 0;
        for i in 0..load.min(12) {
            let size = if load == 99 { 12 } else { d.rng.below(10) as usize };
            let qos = 1 + (i % 3 == 2) as u8;
            d.x(&PubLine::simple(qos, "r", &vec![0x30 + i as u8; size]).text());
            d.go();
            if d.saw("ret publish err") {
                break;
            }
            retained += 1;
        }
        if load == 99 {
            // Top up with ever smaller publishes until nothing fits.
            for size in [6usize, 3, 1, 0] {
                d.x(&PubLine::simple(1, "r", &vec![0x7a; size]).text());
                d.go();
                retained += !d.saw("ret publish err") as usize;
            }
        }
        while !d.broker.owed().is_empty() {
            d.broker.forget(0);
        }
        // The failure.
        let connack = wire::connack(true, 0, &[]);
        match ending {
            Ending::CancelConnect(i) => {
                d.x("drop");
                d.x("connect");
                for k in 0..i {
                    if k == 2 {
                        d.send_raw("connack", &connack);
                    }
                    if d.suspended() {
                        d.x("d 250");
                    }
                }
                d.x("cancel");
            }
            Ending::CancelPartialConnack(n) => {
                d.x("drop");
                d.x("connect");
                d.go();
                d.send_raw("connack-part", &connack[..n]);
                d.go();
                d.x("cancel");
            }
            Ending::Rejected(rc) => {
                d.x("drop");
                d.connect(&ConnSpec { sp: Sp::Fixed(false), rc, props: vec![] });
            }
            Ending::Garbled(g) => {
                d.x("drop");
                d.x("connect");
                d.go();
                d.send_raw("crafted", GARBLED[g]);
                d.go();
                d.x("cancel");
            }
            Ending::ConnectFault(i, n) => {
                d.x("drop");
                d.x("connect");
                for k in 0..i {
                    if k == 2 {
                        d.send_raw("connack-part", &connack[..2]);
                    }
                    if d.suspended() {
                        d.x("d 250");
                    }
                }
                if d.suspended() {
                    d.x(&format!("d {n}"));
                }
                d.x("cancel");
            }
            Ending::OpFault(op, before, n) => {
                d.x(OPS[op]);
                for _ in 0..before {
                    if d.suspended() {
                        d.x("d 250");
                    }
                }
                if d.suspended() {
                    d.x(&format!("d {n}"));
                }
                d.x("cancel");
            }
            Ending::CancelPartialPublish(n) => {
                let publish = wire::publish(b"part/ial", Some(21), 1, false, false, &[], b"payload");
                d.x("poll");
                d.send_raw("publish1-part", &publish[..n]);
                d.go();
                d.x("cancel");
                d.x("drop");
            }
            Ending::PartialWriteFault(op, k, n) => {
                d.x(OPS[op]);
                if d.suspended() {
                    d.x(&format!("d {k}"));
                }
                if d.suspended() {
                    d.x(&format!("d {n}"));
                }
                d.x("cancel");
            }
            Ending::CancelOp(op, before) => {
                d.x(OPS[op]);
                for _ in 0..before {
                    if d.suspended() {
                        d.x("d 3");
                    }
                }
                d.x("cancel");
                d.x("drop");
            }
        }
        // A healthy transport and a conformant broker that kept the session.
        d.broker.has_session = true;
        d.comment("healthy-connect");
        let ok = d.connect(&ConnSpec::plain());
        d.drain();
        if ok {
            d.x(&PubLine::simple(1, "n", b"new").text());
            d.go();
            d.x(&format!("subscribe - {}", filter_text("n/#", 1, false, false, 0)));
            d.go();
            if d.rng.pct(50) {
                d.x(&PubLine::simple(2, "n", b"2").text());
                d.go();
            }
        }
        d.finish_benign();
        out.emit(
            idx as u64,
            "",
            &format!("retained={retained} load={load} ending={ending:?}").replace(", ", ","),
            &d,
        );
    }
}

// -------------------------------------------------------------------------------------------
// Scripted reconnect histories.

#[derive(Debug, Clone)]
enum Script {
    /// Receive Maximum r, window filled, connection lost, FRESH session (Receive Maximum again
    /// or not), then r publishes must be accepted and acknowledged.
    FreshFullWindow { r: u16, loss: &'static str, rm_again: bool },
    /// In-flight QoS 1/2, connection lost, CONNACK refused with this reason, then a retry
    /// against the reactive broker.
    RefusedThenRetry { rc: u8, loss: &'static str },
    /// Inbound QoS 2 id n PUBRECed, `drop`, a CONNACK the client rejects (Receive Maximum 0,
    /// session present 0), retry, then the broker uses id n for a NEW publish.
    RejectedThenIdReuse { n: u16, inflight: bool },
    /// Eight QoS 2 exchanges in the PUBREL phase across a resume, then a ninth.
    EightInRelease { rm8: bool },
    /// Unacknowledged QoS 1 publishes of different sizes, then packets encoded in the scratch space
    /// behind them whose fixed header takes 2, 3 or 4 bytes (a QoS 0 PUBLISH of `q0_len` payload
    /// bytes; the next CONNECT with a long will), then a resumed connection that must replay the
    /// retained packets byte for byte.
    ScratchBehindRetained { q0_len: usize, big_will: bool },
    /// A broker that ignores the client's Receive Maximum: `n` inbound QoS 2 publishes with distinct
    /// identifiers and no PUBREL (the client's table holds 8), then the PUBRELs.
    InboundQos2Overflow { n: u16 },
    /// The broker assigns a client identifier of `len` bytes (the client holds at most 64); then a
    /// reconnect, whose CONNECT must carry the assigned identifier if it was accepted.
    AssignedClientId { len: usize },
}

fn scripted() -> Vec<Script> {
    let mut v = Vec::new();
    for r in [1u16, 2, 3] {
        for loss in ["eof", "error", "drop"] {
            for rm_again in [false, true] {
                v.push(Script::FreshFullWindow { r, loss, rm_again });
            }
        }
    }
    for rc in [0x80u8, 0x87, 0x89, 0x9f] {
        for loss in ["eof", "drop"] {
            v.push(Script::RefusedThenRetry { rc, loss });
        }
    }
    for n in [1u16, 7] {
        for inflight in [false, true] {
            v.push(Script::RejectedThenIdReuse { n, inflight });
        }
    }
    v.push(Script::EightInRelease { rm8: true });
    v.push(Script::EightInRelease { rm8: false });
    for n in [7u16, 8, 9, 10] {
        v.push(Script::InboundQos2Overflow { n });
    }
    for len in [0usize, 1, 63, 64, 65] {
        v.push(Script::AssignedClientId { len });
    }
    for (q0_len, big_will) in [(130, false), (0, true), (200, true), (20000, false), (120, false), (300, false), (17000, true)] {
        v.push(Script::ScratchBehindRetained { q0_len, big_will });
    }
    v
}

fn lose(d: &mut Drv, loss: &str) {
    match loss {
        "eof" => {
            d.x("poll");
            d.x("d 251");
        }
        "error" => {
            d.x("poll");
            d.x("d 252");
        }
        _ => d.x("drop"),
    }
}

fn settle(d: &mut Drv) {
    for _ in 0..6 {
        if !d.live() {
            return;
        }
        if !d.suspended() {
            d.x("poll");
        }
        d.go();
        if d.suspended() && d.unread() == 0 {
            return;
        }
    }
}

fn run_script(rng: super::Rng, script: &Script) -> (String, Drv) {
    let mut cfg = CfgSpec::basic(128, 512);
    cfg.exp = 3600;
    if let Script::ScratchBehindRetained { q0_len, big_will } = script {
        cfg.tx = if *q0_len > 4000 { 24000 } else { 1024 };
        if *big_will {
            // CONNECT of more than 127 bytes: two length bytes in its fixed header
            cfg.will = Some(format!("77/{}/1/0/-", crate::parse::hex(&[0x57; 120])));
        }
    }
    let mut d = Drv::new(&cfg, rng);
    d.split_rx = false;
    let rm = |r: u16| vec![crate::parse::PropSpec::U16(0x21, r)];
    let forget_all = |d: &mut Drv| {
        while !d.broker.owed().is_empty() {
            d.broker.forget(0);
        }
    };
    let tags = match script {
        Script::FreshFullWindow { r, loss, rm_again } => {
            d.connect(&ConnSpec::with(rm(*r)));
            for i in 0..*r + 1 {
                // The last one does not fit the window.
                d.x(&PubLine::simple(1 + (i % 2) as u8, "w", &[0x30 + i as u8]).text());
                d.go();
            }
            forget_all(&mut d);
            lose(&mut d, loss);
            d.comment("healthy-connect");
            let props = if *rm_again { rm(*r) } else { vec![] };
            d.connect(&ConnSpec { sp: Sp::Fixed(false), rc: 0, props });
            for i in 0..*r {
                d.x(&PubLine::simple(1 + (i % 2) as u8, "n", &[0x61 + i as u8]).text());
                d.go();
            }
            format!("script=fresh-full-window rm={r} loss={loss} rm_again={}", *rm_again as u8)
        }
        Script::RefusedThenRetry { rc, loss } => {
            d.connect(&ConnSpec::plain());
            d.x(&PubLine::simple(1, "r", b"1").text());
            d.go();
            d.x(&PubLine::simple(2, "r", b"2").text());
            d.go();
            forget_all(&mut d);
            lose(&mut d, loss);
            d.connect(&ConnSpec { sp: Sp::Fixed(false), rc: *rc, props: vec![] });
            // The retry: session present follows the clean-start flag the client actually sent
            // and the session the broker still holds.
            d.comment("healthy-connect");
            d.connect(&ConnSpec::plain());
            format!("script=refused-then-retry rc={rc:02x} loss={loss}")
        }
        Script::RejectedThenIdReuse { n, inflight } => {
            d.connect(&ConnSpec::plain());
            if *inflight {
                d.x(&PubLine::simple(1, "i", b"1").text());
                d.go();
                forget_all(&mut d);
            }
            let first = wire::publish(b"in/a", Some(*n), 2, false, false, &[], b"first");
            d.broker.adopt_in2(*n, first.clone());
            d.send_raw("publish2", &first);
            settle(&mut d); // message delivered
            settle(&mut d); // PUBREC written
            forget_all(&mut d); // no PUBREL
            d.x("drop");
            // Success, session present 0, Receive Maximum 0: the client rejects this CONNACK.
            d.connect(&ConnSpec { sp: Sp::Fixed(false), rc: 0, props: rm(0) });
            // The previous CONNECT created a fresh (empty) session on the broker; it is resumed
            // if the client asks for it.
            d.comment("healthy-connect");
            d.connect(&ConnSpec { sp: Sp::IfAsked, rc: 0, props: vec![] });
            let second = wire::publish(b"in/b", Some(*n), 2, false, false, &[], b"second!");
            d.broker.adopt_in2(*n, second.clone());
            d.send_raw("publish2", &second);
            settle(&mut d);
            format!("script=rejected-then-id-reuse id={n} inflight={}", *inflight as u8)
        }
        Script::EightInRelease { rm8 } => {
            d.connect(&ConnSpec::plain());
            for i in 0..8u8 {
                d.x(&PubLine::simple(2, "e", &[0x30 + i]).text());
                d.go();
            }
            d.deliver_all(); // eight PUBRECs
            settle(&mut d); // eight PUBRELs; the PUBCOMPs are withheld
            settle(&mut d);
            forget_all(&mut d);
            d.x("drop");
            d.comment("healthy-connect");
            let props = if *rm8 { rm(8) } else { vec![] };
            d.connect(&ConnSpec { sp: Sp::Fixed(true), rc: 0, props });
            d.go();
            d.x(&PubLine::simple(2, "e", b"ninth").text());
            d.go();
            if let Some(i) = d.broker.owed().iter().rposition(|o| o.kind == "pubrec") {
                d.deliver(i);
            }
            settle(&mut d);
            format!("script=eight-in-release rm8={}", *rm8 as u8)
        }
        Script::AssignedClientId { len } => {
            let id = "i".repeat(*len);
            let ok = d.connect(&ConnSpec { sp: Sp::Fixed(false), rc: 0, props: vec![crate::parse::PropSpec::Str(0x12, id)] });
            if ok {
                d.x(&PubLine::simple(1, "a", b"1").text());
                d.go();
            }
            lose(&mut d, "drop");
            d.comment("healthy-connect");
            d.connect(&ConnSpec::plain());
            settle(&mut d);
            format!("script=assigned-client-id len={len}")
        }
        Script::InboundQos2Overflow { n } => {
            d.connect(&ConnSpec::plain());
            for id in 1..=*n {
                let p = wire::publish(b"in", Some(100 + id), 2, false, false, &[], &[0x30 + id as u8]);
                d.send_raw("publish2", &p);
                d.x("poll");
                d.go();
                settle(&mut d);
            }
            for id in 1..=*n {
                d.send_raw("pubrel", &wire::ack(0x62, 100 + id, None, None));
            }
            settle(&mut d);
            format!("script=inbound-qos2-overflow n={n}")
        }
        Script::ScratchBehindRetained { q0_len, big_will } => {
            d.connect(&ConnSpec::plain());
            for (i, size) in [3usize, 40, 9].iter().enumerate() {
                d.x(&PubLine::simple(1 + (i == 1) as u8, "k", &vec![0x41 + i as u8; *size]).text());
                d.go();
            }
            forget_all(&mut d);
            if *q0_len > 0 {
                d.x(&PubLine::simple(0, "q", &vec![0x5a; *q0_len]).text());
                d.go();
            }
            lose(&mut d, "drop");
            d.comment("healthy-connect");
            d.connect(&ConnSpec { sp: Sp::Fixed(true), rc: 0, props: vec![] });
            settle(&mut d);
            d.deliver_all();
            settle(&mut d);
            format!("script=scratch-behind-retained q0={q0_len} will={}", *big_will as u8)
        }
    };
    d.finish_benign();
    (tags, d)
}

// -------------------------------------------------------------------------------------------
// Fault grids over single operations: QoS 0 publish, DISCONNECT, the handshake.

struct Plan {
    scenario: &'static str,
    variant: &'static str,
    /// A QoS 1 publish left half-written before the operation.
    half_written: bool,
    op: String,
    /// Decisions given to the operation; the last one is the fault.
    steps: Vec<u8>,
}

fn plans() -> Vec<Plan> {
    let mut v = Vec::new();
    let w_faults = [251u8, 252, 253, 254, 255];
    let f_faults = [252u8, 253, 254, 255];
    let mut grid = |scenario: &'static str, ops: [String; 2], partial: u8| {
        let mut n = 0;
        let mut add = |variant: &'static str, half: bool, op: &String, before: &[u8], faults: &[u8]| {
            for f in faults {
                let mut steps = before.to_vec();
                steps.push(*f);
                v.push(Plan { scenario, variant, half_written: half, op: op.clone(), steps });
            }
        };
        // Nothing pending: first write, flush.
        add("plain", false, &ops[n % 2], &[], &w_faults);
        n += 1;
        add("plain", false, &ops[n % 2], &[250], &f_faults);
        n += 1;
        // A partial acceptance first: second write, flush.
        add("partial", false, &ops[1], &[partial], &w_faults);
        add("partial", false, &ops[1], &[partial, 250], &f_faults);
        // Older work pending (a half-written QoS 1 publish is drained first).
        add("behind", true, &ops[n % 2], &[], &w_faults);
        n += 1;
        add("behind", true, &ops[n % 2], &[250], &f_faults);
        n += 1;
        add("behind", true, &ops[n % 2], &[250, 250], &w_faults);
        n += 1;
        add("behind", true, &ops[n % 2], &[250, 250, 250], &f_faults);
    };
    grid(
        "pub0",
        ["publish 0 0 7130 78 -".to_string(), PubLine::simple(0, "q0/long", &[0x51; 12]).text()],
        3,
    );
    grid(
        "disconnect",
        ["disconnect none none".to_string(), "disconnect 04 none".to_string()],
        1,
    );
    // The handshake: CONNECT write, second write after a partial one, flush, the three reads of
    // the CONNACK (251 in the middle of it is an EOF mid-CONNACK). Two kinds per index.
    let hs: [(&'static str, &[u8], [u8; 2]); 6] = [
        ("connect-write", &[], [251, 252]),
        ("connect-write-2", &[5], [251, 253]),
        ("connect-flush", &[250], [252, 254]),
        ("connack-read-1", &[250, 250], [251, 255]),
        ("connack-read-2", &[250, 250, 250], [251, 252]),
        ("connack-read-3", &[250, 250, 250, 250], [251, 254]),
    ];
    for (variant, before, faults) in hs {
        for f in faults {
            let mut steps = before.to_vec();
            steps.push(f);
            v.push(Plan { scenario: "connect", variant, half_written: false, op: "connect".into(), steps });
        }
    }
    v
}

fn run_plan(rng: super::Rng, plan: &Plan) -> (String, Drv) {
    let mut d = Drv::new(&CfgSpec::basic(128, 256), rng);
    d.split_rx = false;
    let mut awaited = '-';
    if plan.scenario == "connect" {
        d.x("connect");
    } else {
        d.connect(&ConnSpec::plain());
        if plan.half_written {
            d.x(&PubLine::simple(1, "half", b"written").text());
            d.x("d 5");
            d.x("cancel");
        }
        d.x(&plan.op);
    }
    for (i, n) in plan.steps.iter().enumerate() {
        if !d.suspended() {
            break;
        }
        if plan.scenario == "connect" && i == 2 {
            d.send_raw("connack", &wire::connack(false, 0, &[]));
        }
        awaited = d.pend.unwrap_or('-');
        d.x(&format!("d {n}"));
    }
    if plan.scenario != "connect" {
        // On the same handle: everything must report Disconnected / Ok without I/O.
        for line in ["poll", "publish 1 0 6166 74 -", "subscribe - 6166/0/0/0/0", "disconnect none none"] {
            d.x(line);
            d.go();
        }
        d.x("drop");
    } else {
        d.x("cancel");
    }
    d.comment("healthy-connect");
    d.connect(&ConnSpec::plain());
    d.finish_benign();
    let tags = format!(
        "scenario={} variant={} io={} awaited={awaited} fault=d{}",
        plan.scenario,
        plan.variant,
        plan.steps.len() - 1,
        plan.steps.last().unwrap()
    );
    (tags, d)
}
