//! Protocol-following simulated broker. It only *computes* packets; the generator decides when
//! (and whether) each one reaches the client.

use std::collections::BTreeSet;

use super::Rng;
use super::wire::{self, ClientPacket};
use crate::parse::PropSpec;

#[derive(Debug, Clone)]
pub struct Owed {
    /// Label for the statistics (`puback`, `pubrec`, `publish1`, …).
    pub kind: &'static str,
    pub pid: u16,
    pub bytes: Vec<u8>,
}

#[derive(Debug, Clone)]
struct In2 {
    id: u16,
    rec_seen: bool,
    bytes: Vec<u8>,
}

#[derive(Debug)]
pub struct Broker {
    /// The client's receive buffer: no packet sent is longer.
    pub rx_size: usize,
    pub owed: Vec<Owed>,
    pub has_session: bool,
    /// Clean start flag and keep alive of the last CONNECT seen.
    pub clean_start: bool,
    pub keepalive: u16,
    pub connects_seen: usize,
    pub disconnect_seen: bool,
    /// Client packet ids whose final ack has not been delivered.
    pub inflight: BTreeSet<u16>,
    in1: Vec<(u16, Vec<u8>)>,
    in2: Vec<In2>,
    next_pid: u16,
    pub last: Option<Owed>,
    /// Percent of acks carrying a failure reason.
    pub fail_pct: u64,
    /// Percent of successful acks in a long form (reason byte, property block).
    pub fancy_pct: u64,
    /// Percent of PUBACK / PUBREC carrying the success-class reason 0x10.
    pub rc10_pct: u64,
    /// A resuming broker always retransmits unacknowledged inbound publishes (else 70 %).
    pub always_retransmit: bool,
    /// Server bytes seen on the current connection and not yet split into packets.
    srv_buf: Vec<u8>,
    srv_desync: bool,
    /// Static replay: ids that were answered by a PUBREC with the success-class reason 0x10.
    pub rc10_ids: Vec<u16>,
}

const FAIL_CODES: [u8; 7] = [0x80, 0x83, 0x87, 0x90, 0x91, 0x97, 0x99];

pub fn rand_topic(rng: &mut Rng, lo: usize, hi: usize) -> String {
    let len = rng.range(lo as u64, hi as u64) as usize;
    (0..len)
        .map(|i| {
            if i > 0 && i + 1 < len && rng.pct(15) {
                '/'
            } else {
                (b'a' + rng.below(26) as u8) as char
            }
        })
        .collect()
}

pub fn rand_bytes(rng: &mut Rng, len: usize) -> Vec<u8> {
    (0..len)
        .map(|_| match rng.below(8) {
            0 => 0x00,
            1 => 0xff,
            _ => rng.below(256) as u8,
        })
        .collect()
}

/// Random legal property set of an inbound PUBLISH (never a topic alias).
pub fn inbound_props(rng: &mut Rng) -> Vec<PropSpec> {
    let mut props = Vec::new();
    if rng.pct(50) {
        return props;
    }
    if rng.pct(25) {
        props.push(PropSpec::U8(0x01, rng.below(2) as u8));
    }
    if rng.pct(25) {
        props.push(PropSpec::U32(0x02, *rng.pick(&[0, 1, 60, u32::MAX])));
    }
    if rng.pct(20) {
        props.push(PropSpec::Str(0x03, rand_topic(rng, 0, 6)));
    }
    if rng.pct(35) {
        props.push(PropSpec::Str(0x08, rand_topic(rng, 1, 8)));
        if rng.pct(60) {
            let n = rng.below(6) as usize;
            props.push(PropSpec::Bin(0x09, rand_bytes(rng, n)));
        }
    }
    if rng.pct(25) {
        props.push(PropSpec::U32(
            0x0b,
            *rng.pick(&[1, 127, 128, 16384, 33554431, 33554432, 268435455]),
        ));
    }
    if rng.pct(25) {
        props.push(PropSpec::Pair(rand_topic(rng, 0, 3), rand_topic(rng, 0, 3)));
    }
    rng.shuffle(&mut props);
    props
}

impl Broker {
    pub fn new(rx_size: usize) -> Self {
        Broker {
            rx_size,
            owed: Vec::new(),
            has_session: false,
            clean_start: true,
            keepalive: 0,
            connects_seen: 0,
            disconnect_seen: false,
            inflight: BTreeSet::new(),
            in1: Vec::new(),
            in2: Vec::new(),
            next_pid: 1,
            last: None,
            fail_pct: 0,
            fancy_pct: 0,
            rc10_pct: 0,
            always_retransmit: false,
            srv_buf: Vec::new(),
            srv_desync: false,
            rc10_ids: Vec::new(),
        }
    }

    fn drop_owed(&mut self, kind: &str, pid: u16) {
        if let Some(i) = self.owed.iter().position(|o| o.kind == kind && o.pid == pid) {
            self.owed.remove(i);
        }
    }

    /// Static replay: server bytes that a recorded program put on the wire. Learn which
    /// acknowledgements the client has already been given and which inbound ids are open.
    pub fn on_server_bytes(&mut self, bytes: &[u8]) {
        self.srv_buf.extend_from_slice(bytes);
        while !self.srv_desync && !self.srv_buf.is_empty() {
            let (rem, n) = match wire::read_varint(&self.srv_buf[1..]) {
                Ok(Some(v)) => v,
                Ok(None) => return,
                Err(()) => {
                    self.srv_desync = true;
                    return;
                }
            };
            let total = 1 + n + rem as usize;
            if self.srv_buf.len() < total {
                return;
            }
            let packet: Vec<u8> = self.srv_buf.drain(..total).collect();
            let body = &packet[1 + n..];
            let first = packet[0];
            let be = |at: usize| -> u16 {
                u16::from_be_bytes([
                    body.get(at).copied().unwrap_or(0),
                    body.get(at + 1).copied().unwrap_or(0),
                ])
            };
            match first >> 4 {
                2 => {
                    let (sp, rc) = (body.first().copied().unwrap_or(0) & 1 == 1, body.get(1).copied().unwrap_or(0));
                    if rc < 0x80 {
                        if !sp {
                            self.inflight.clear();
                            self.in1.clear();
                            self.in2.clear();
                        }
                        self.has_session = true;
                    }
                }
                3 => {
                    let qos = first >> 1 & 3;
                    let id = be(2 + be(0) as usize);
                    match qos {
                        1 if !self.in1.iter().any(|(i, _)| *i == id) => self.in1.push((id, packet.clone())),
                        2 if !self.in2.iter().any(|e| e.id == id) => self.in2.push(In2 {
                            id,
                            rec_seen: false,
                            bytes: packet.clone(),
                        }),
                        _ => {}
                    }
                    if qos > 0 && id >= self.next_pid {
                        self.next_pid = id.wrapping_add(1).max(1);
                    }
                }
                4 => {
                    self.inflight.remove(&be(0));
                    self.drop_owed("puback", be(0));
                }
                5 => {
                    if body.get(2).copied().unwrap_or(0) >= 0x80 {
                        self.inflight.remove(&be(0));
                    }
                    if body.get(2).copied() == Some(0x10) && !self.rc10_ids.contains(&be(0)) {
                        self.rc10_ids.push(be(0));
                    }
                    self.drop_owed("pubrec", be(0));
                }
                6 => self.drop_owed("pubrel", be(0)),
                7 => {
                    self.inflight.remove(&be(0));
                    self.drop_owed("pubcomp", be(0));
                }
                9 => {
                    self.inflight.remove(&be(0));
                    self.drop_owed("suback", be(0));
                }
                11 => {
                    self.inflight.remove(&be(0));
                    self.drop_owed("unsuback", be(0));
                }
                13 => self.drop_owed("pingresp", 0),
                14 => {}
                _ => self.srv_desync = true,
            }
        }
    }

    /// Conformant, plain answers only (used by every benign drain).
    pub fn make_benign(&mut self) {
        self.fail_pct = 0;
        self.fancy_pct = 0;
        self.rc10_pct = 0;
    }

    fn fits(&self, bytes: &[u8]) -> bool {
        bytes.len() <= self.rx_size
    }

    fn make_ack(&self, first: u8, pid: u16, rng: &mut Rng, may_fail: bool) -> Vec<u8> {
        let plain = wire::ack(first, pid, None, None);
        let candidate = if may_fail && rng.pct(self.fail_pct) {
            let rc = *rng.pick(&FAIL_CODES);
            if rng.pct(25) {
                wire::ack(first, pid, Some(rc), Some(&[]))
            } else {
                wire::ack(first, pid, Some(rc), None)
            }
        } else if may_fail && rng.pct(self.rc10_pct) {
            wire::ack(first, pid, Some(0x10), None)
        } else if rng.pct(self.fancy_pct) {
            match rng.below(4) {
                0 => wire::ack(first, pid, Some(0), None),
                1 => wire::ack(first, pid, Some(0), Some(&[])),
                2 if may_fail => wire::ack(first, pid, Some(0x10), None),
                _ => {
                    let props = wire::enc_props(&[PropSpec::Str(0x1f, "ok".into())]);
                    wire::ack(first, pid, Some(0), Some(&props))
                }
            }
        } else {
            plain.clone()
        };
        if self.fits(&candidate) { candidate } else { plain }
    }

    /// Feed one client packet; responses are queued in `owed`.
    pub fn on_client(&mut self, p: &ClientPacket, rng: &mut Rng) {
        let pid = p.pid.unwrap_or(0);
        match p.ty {
            1 => {
                self.connects_seen += 1;
                self.clean_start = p.count == 1;
                self.keepalive = p.extra;
                self.disconnect_seen = false;
                // Responses owed on the previous connection are gone with it.
                self.owed.clear();
                self.srv_buf.clear();
                self.srv_desync = false;
            }
            3 if p.qos == 1 => {
                self.inflight.insert(pid);
                let bytes = self.make_ack(0x40, pid, rng, true);
                self.owed.push(Owed {
                    kind: "puback",
                    pid,
                    bytes,
                });
            }
            3 if p.qos == 2 => {
                self.inflight.insert(pid);
                let bytes = self.make_ack(0x50, pid, rng, true);
                self.owed.push(Owed {
                    kind: "pubrec",
                    pid,
                    bytes,
                });
            }
            6 => {
                let bytes = self.make_ack(0x70, pid, rng, false);
                self.owed.push(Owed {
                    kind: "pubcomp",
                    pid,
                    bytes,
                });
            }
            4 => self.in1.retain(|(id, _)| *id != pid),
            5 => {
                if p.extra >= 0x80 {
                    self.in2.retain(|e| e.id != pid);
                } else if let Some(e) = self.in2.iter_mut().find(|e| e.id == pid) {
                    e.rec_seen = true;
                    let bytes = self.make_ack(0x62, pid, rng, false);
                    self.owed.push(Owed {
                        kind: "pubrel",
                        pid,
                        bytes,
                    });
                }
            }
            7 => self.in2.retain(|e| e.id != pid),
            8 | 10 => {
                self.inflight.insert(pid);
                let sub = p.ty == 8;
                let codes: Vec<u8> = (0..p.count.max(1))
                    .map(|_| {
                        if rng.pct(self.fail_pct) {
                            *rng.pick(&[0x80, 0x87, 0x8f, 0x97])
                        } else if sub {
                            rng.below(3) as u8
                        } else {
                            *rng.pick(&[0x00, 0x00, 0x11])
                        }
                    })
                    .collect();
                let bytes = wire::suback(if sub { 0x90 } else { 0xb0 }, pid, &codes);
                self.owed.push(Owed {
                    kind: if sub { "suback" } else { "unsuback" },
                    pid,
                    bytes,
                });
            }
            12 => self.owed.push(Owed {
                kind: "pingresp",
                pid: 0,
                bytes: wire::pingresp(),
            }),
            14 => self.disconnect_seen = true,
            _ => {}
        }
    }

    /// Session bookkeeping when a CONNACK with `sp` and reason `rc` is sent. Returns packets a
    /// resuming broker sends right after it (retransmissions, owed PUBRELs).
    pub fn on_connack(&mut self, sp: bool, rc: u8, rng: &mut Rng) -> Vec<Owed> {
        let mut after = Vec::new();
        if rc >= 0x80 {
            return after;
        }
        if !sp {
            self.inflight.clear();
            self.in1.clear();
            self.in2.clear();
        } else {
            for (id, bytes) in &self.in1 {
                let mut bytes = bytes.clone();
                bytes[0] |= 8;
                after.push(Owed {
                    kind: "publish1-dup",
                    pid: *id,
                    bytes,
                });
            }
            for e in &self.in2 {
                if e.rec_seen {
                    after.push(Owed {
                        kind: "pubrel",
                        pid: e.id,
                        bytes: wire::ack(0x62, e.id, None, None),
                    });
                } else if self.always_retransmit || rng.pct(70) {
                    let mut bytes = e.bytes.clone();
                    bytes[0] |= 8;
                    after.push(Owed {
                        kind: "publish2-dup",
                        pid: e.id,
                        bytes,
                    });
                }
            }
        }
        self.has_session = true;
        after
    }

    /// Session present a conformant broker answers to the last CONNECT.
    pub fn conformant_sp(&self) -> bool {
        !self.clean_start && self.has_session
    }

    pub fn owed(&self) -> &[Owed] {
        &self.owed
    }

    fn delivered(&mut self, o: &Owed) {
        let fails = |bytes: &[u8]| bytes.len() > 4 && bytes[4] >= 0x80;
        match o.kind {
            "puback" | "pubcomp" | "suback" | "unsuback" => {
                self.inflight.remove(&o.pid);
            }
            "pubrec" if fails(&o.bytes) => {
                self.inflight.remove(&o.pid);
            }
            _ => {}
        }
        self.last = Some(o.clone());
    }

    pub fn deliver(&mut self, i: usize) -> Owed {
        let o = self.owed.remove(i);
        self.delivered(&o);
        o
    }

    pub fn deliver_all(&mut self) -> Vec<Owed> {
        let all: Vec<Owed> = std::mem::take(&mut self.owed);
        for o in &all {
            self.delivered(o);
        }
        all
    }

    /// Drop an owed response: the broker never sends it.
    pub fn forget(&mut self, i: usize) -> Owed {
        self.owed.remove(i)
    }

    /// An acknowledgement for a packet id that is not in flight.
    pub fn stale_ack(&mut self, rng: &mut Rng) -> Owed {
        let mut pid = rng.range(1, 40) as u16;
        while self.inflight.contains(&pid) || self.in2.iter().any(|e| e.id == pid) {
            pid = pid.wrapping_add(17).max(1);
        }
        let (kind, bytes) = match rng.below(6) {
            0 => ("stale-puback", wire::ack(0x40, pid, None, None)),
            1 => ("stale-pubrec", wire::ack(0x50, pid, None, None)),
            2 => ("stale-pubcomp", wire::ack(0x70, pid, None, None)),
            3 => ("stale-suback", wire::suback(0x90, pid, &[0])),
            4 => ("stale-unsuback", wire::suback(0xb0, pid, &[0])),
            _ => ("stale-pubrel", wire::ack(0x62, pid, None, None)),
        };
        Owed { kind, pid, bytes }
    }

    /// The last delivered packet once more.
    pub fn dup_last(&self) -> Option<Owed> {
        self.last.clone().map(|mut o| {
            o.kind = "dup";
            o
        })
    }

    /// Register an inbound QoS 2 PUBLISH that the generator built by hand, so that the PUBREL
    /// is owed once the client's PUBREC is seen.
    pub fn adopt_in2(&mut self, id: u16, bytes: Vec<u8>) {
        self.in2.retain(|e| e.id != id);
        self.in2.push(In2 {
            id,
            rec_seen: false,
            bytes,
        });
    }

    /// Number of inbound QoS 2 ids the client may still be holding.
    pub fn open_in2(&self) -> usize {
        self.in2.len()
    }

    /// An inbound QoS 2 PUBLISH sent earlier and not yet released, with the DUP flag.
    pub fn retransmit_in2(&self, rng: &mut Rng) -> Option<Owed> {
        let open: Vec<&In2> = self.in2.iter().filter(|e| !e.rec_seen).collect();
        if open.is_empty() {
            return None;
        }
        let e = open[rng.below(open.len() as u64) as usize];
        let mut bytes = e.bytes.clone();
        bytes[0] |= 8;
        Some(Owed {
            kind: "publish2-dup",
            pid: e.id,
            bytes,
        })
    }

    fn fresh_pid(&mut self) -> u16 {
        loop {
            let pid = self.next_pid;
            self.next_pid = if pid == u16::MAX { 1 } else { pid + 1 };
            if !self.in1.iter().any(|(id, _)| *id == pid) && !self.in2.iter().any(|e| e.id == pid)
            {
                return pid;
            }
        }
    }

    /// Originate an inbound PUBLISH. `props` None draws a random legal set; `payload` None draws a
    /// random length. The result never exceeds the client's rx size (None when impossible).
    pub fn inbound(
        &mut self,
        rng: &mut Rng,
        mut qos: u8,
        props: Option<Vec<PropSpec>>,
        payload: Option<Vec<u8>>,
    ) -> Option<Owed> {
        if qos == 2 && self.in2.len() >= 8 {
            qos = 1;
        }
        let topic = rand_topic(rng, 1, 12);
        let mut props = props.unwrap_or_else(|| inbound_props(rng));
        let retain = rng.pct(15);
        let pid = (qos > 0).then(|| self.fresh_pid());
        loop {
            let pbytes = wire::enc_props(&props);
            let header = wire::publish(topic.as_bytes(), pid, qos, retain, false, &pbytes, &[]);
            if header.len() <= self.rx_size {
                let room = self.rx_size - header.len();
                // A longer payload may need a longer remaining-length field.
                let room = room.saturating_sub((room >= 100) as usize * 2);
                let payload = match &payload {
                    Some(p) => p[..p.len().min(room)].to_vec(),
                    None => {
                        let len = match rng.below(10) {
                            0 => 0,
                            1 => room,
                            _ => rng.below(room.min(24) as u64 + 1) as usize,
                        };
                        rand_bytes(rng, len)
                    }
                };
                let bytes =
                    wire::publish(topic.as_bytes(), pid, qos, retain, false, &pbytes, &payload);
                if bytes.len() > self.rx_size {
                    return None;
                }
                let id = pid.unwrap_or(0);
                match qos {
                    1 => self.in1.push((id, bytes.clone())),
                    2 => self.in2.push(In2 {
                        id,
                        rec_seen: false,
                        bytes: bytes.clone(),
                    }),
                    _ => {}
                }
                return Some(Owed {
                    kind: match qos {
                        0 => "publish0",
                        1 => "publish1",
                        _ => "publish2",
                    },
                    pid: id,
                    bytes,
                });
            }
            props.pop()?;
        }
    }
}
