//! `reply`: inbound publishes with response topic / correlation data of critical lengths at
//! every position of the property block.

use super::broker::rand_bytes;
use super::wire::{self, enc_prop};
use super::{CfgSpec, ConnSpec, Drv, Out};
use crate::parse::PropSpec;

const LENGTHS: [usize; 20] = [0, 1, 2, 3, 4, 5, 7, 8, 9, 15, 16, 17, 31, 33, 63, 64, 65, 69, 70, 6];

fn raw_string_prop(id: u8, bytes: &[u8]) -> Vec<u8> {
    let mut out = vec![id];
    out.extend_from_slice(&(bytes.len() as u16).to_be_bytes());
    out.extend_from_slice(bytes);
    out
}

pub fn reply(out: &mut Out, count: u64) {
    for idx in 0..count {
        let mut d = Drv::new(&CfgSpec::basic(1024, 256), out.rng(idx));
        d.split_rx = false;
        d.connect(&ConnSpec::plain());
        let rt_len = LENGTHS[(idx % 20) as usize];
        let cd_len = match idx / 20 % 4 {
            0 => None,
            _ => Some(LENGTHS[((idx / 3) % 20) as usize]),
        };
        let topic: Vec<u8> = (0..rt_len).map(|i| b"response/topic/"[i % 15]).collect();
        let mut segments: Vec<(String, Vec<u8>)> = Vec::new();
        // Up to four other properties.
        let others = [
            PropSpec::U8(0x01, 1),
            PropSpec::U32(0x02, 60),
            PropSpec::Str(0x03, "ct".into()),
            PropSpec::U32(0x0b, 33554432),
            PropSpec::Pair("k".into(), "v".into()),
        ];
        for _ in 0..d.rng.below(5) {
            let p = d.rng.pick(&others).clone();
            segments.push(("other".into(), enc_prop(&p)));
        }
        let at = d.rng.below(segments.len() as u64 + 1) as usize;
        segments.insert(at, ("rt".into(), raw_string_prop(0x08, &topic)));
        if let Some(n) = cd_len {
            let data = rand_bytes(&mut d.rng, n);
            let at = d.rng.below(segments.len() as u64 + 1) as usize;
            segments.insert(at, ("cd".into(), raw_string_prop(0x09, &data)));
        }
        // A second response topic / correlation data later in the block.
        if d.rng.pct(25) {
            segments.push(("rt2".into(), raw_string_prop(0x08, b"second")));
        }
        if d.rng.pct(25) {
            segments.push(("cd2".into(), raw_string_prop(0x09, &[0x00, 0xff])));
        }
        // A malformed property before or after.
        let bad: [&[u8]; 4] = [&[0x7f, 0x00], &[0x08, 0x00, 0x09, 0x61], &[0x02, 0x00], &[0x08, 0x00, 0x02, 0xc0, 0x80]];
        match d.rng.below(8) {
            0 => segments.insert(0, ("bad".into(), d.rng.pick(&bad).to_vec())),
            1 => segments.push(("bad".into(), d.rng.pick(&bad).to_vec())),
            _ => {}
        }
        let layout: Vec<String> = segments.iter().map(|s| s.0.clone()).collect();
        let props: Vec<u8> = segments.into_iter().flat_map(|s| s.1).collect();
        let qos = d.rng.below(3) as u8;
        let n = d.rng.below(6) as usize;
        let payload = rand_bytes(&mut d.rng, n);
        let publish = wire::publish(b"req/t", (qos > 0).then_some(11), qos, false, false, &props, &payload);
        d.x("poll");
        d.send_raw(["publish0", "publish1", "publish2"][qos as usize], &publish);
        d.go();
        d.x("poll");
        d.go();
        if qos == 2 {
            d.send_raw("pubrel", &wire::ack(0x62, 11, None, None));
            d.go();
        }
        d.finish_benign();
        let tags = format!(
            "rt={rt_len} cd={} layout={}",
            cd_len.map(|v| v.to_string()).unwrap_or("-".into()),
            layout.join("+")
        );
        out.emit(idx, "", &tags, &d);
    }
}
