//! `flow`: general random mix of everything, ending in a benign drain.

use super::util::{connack_props, rand_cfg, rand_publish, rand_subscribe, rand_unsubscribe};
use super::{wire, ConnSpec, Drv, Out, Sp};
use crate::parse::PropSpec;

/// CONNACK properties with a small Receive Maximum in half of the cases.
fn flow_connack(d: &mut Drv, rx: usize) -> Vec<PropSpec> {
    let mut props = connack_props(&mut d.rng, rx, false);
    if d.rng.pct(50) {
        props.retain(|p| !matches!(p, PropSpec::U16(0x21, _)));
        let at = d.rng.below(props.len() as u64 + 1) as usize;
        props.insert(at, PropSpec::U16(0x21, *d.rng.pick(&[1, 2, 3])));
        props = super::util::fit_connack(props, rx);
    }
    props
}

/// Issue an operation and run it to some random extent.
fn issue(d: &mut Drv, line: &str) {
    d.x(line);
    match d.rng.below(10) {
        0 => {} // left suspended: the next operation cancels it
        _ => d.run_random(),
    }
}

fn reconnect(d: &mut Drv, rx: usize) {
    let mut props = flow_connack(d, rx);
    // A refused or strange CONNACK once in a while.
    let rc = if d.rng.pct(6) { *d.rng.pick(&[0x80u8, 0x87, 0x8a, 0x95]) } else { 0 };
    if rc != 0 {
        props.clear();
    }
    let sp = if d.rng.pct(25) { Sp::Fixed(false) } else { Sp::Conformant };
    d.connect(&ConnSpec { sp, rc, props });
}

pub fn flow(out: &mut Out, count: u64) {
    for idx in 0..count {
        let mut rng = out.rng(idx);
        let cfg = rand_cfg(&mut rng);
        let mut d = Drv::new(&cfg, rng);
        d.broker.fail_pct = 10;
        d.broker.rc10_pct = 15;
        d.broker.fancy_pct = *d.rng.pick(&[0, 30, 60]);
        let props = flow_connack(&mut d, cfg.rx);
        d.connect(&ConnSpec::with(props));
        let actions = d.rng.range(5, 36);
        let mut reconnects = 0;
        for _ in 0..actions {
            if d.ended() || d.count > 80 {
                break;
            }
            if !d.live() && reconnects < 4 && d.rng.pct(50) {
                reconnects += 1;
                reconnect(&mut d, cfg.rx);
                continue;
            }
            let weights = [30, 8, 5, 16, 16, 10, 3, 3, 4, 5, 1];
            match d.rng.weighted(&weights) {
                0 => {
                    let qos = d.rng.below(3) as u8;
                    let line = rand_publish(&mut d.rng, qos, cfg.tx).text();
                    issue(&mut d, &line);
                    // With a full window keep trying: refusals and over-acceptance show up.
                    let full = d.live()
                        && (d.interp().verif_state().send_quota == 0
                            || d.saw("ret publish err NotReady")
                            || d.saw("ret publish err Resource.InflightExhausted"));
                    if full {
                        for _ in 0..d.rng.range(1, 2) {
                            let qos = 1 + d.rng.below(2) as u8;
                            let mut p = rand_publish(&mut d.rng, qos, cfg.tx);
                            p.payload = "78".into();
                            d.x(&p.text());
                            d.go();
                        }
                    }
                }
                1 => {
                    let line = rand_subscribe(&mut d.rng);
                    issue(&mut d, &line);
                }
                2 => {
                    let line = rand_unsubscribe(&mut d.rng);
                    issue(&mut d, &line);
                }
                3 => {
                    let op = *d.rng.pick(&["poll", "poll", "drive", "recv"]);
                    issue(&mut d, op);
                }
                4 => {
                    // Broker side: acks in some order, duplicates, stale ones.
                    let n = d.broker.owed().len();
                    match d.rng.below(8) {
                        0 => {
                            let o = d.broker.stale_ack(&mut d.rng);
                            d.send(&o);
                        }
                        1 => {
                            if let Some(mut o) = d.broker.dup_last() {
                                // A duplicate PUBREC that now carries a failure code (its PUBREL may
                                // already be queued): the client reports the rejection and keeps the
                                // release.
                                if o.bytes[0] == 0x50 && d.rng.pct(40) {
                                    o.kind = "dup-pubrec-fail";
                                    o.bytes = wire::ack(0x50, o.pid, Some(0x80), None);
                                }
                                d.send(&o);
                            }
                        }
                        2 if n > 0 => {
                            let i = d.rng.below(n as u64) as usize;
                            d.broker.forget(i);
                        }
                        3 | 4 => d.deliver_all(),
                        _ if n > 0 => {
                            let i = d.rng.below(n as u64) as usize;
                            d.deliver(i);
                        }
                        _ => {}
                    }
                    if d.suspended() && d.rng.pct(60) {
                        d.run_random();
                    }
                }
                5 => {
                    let qos = d.rng.below(3) as u8;
                    let dup = d.rng.pct(15).then(|| d.broker.retransmit_in2(&mut d.rng)).flatten();
                    if d.rng.pct(12) {
                        // An inbound publish that fits the receive buffer exactly, or misses it
                        // by one byte either way.
                        let total = (cfg.rx as i64 + d.rng.range(0, 2) as i64 - 1) as usize;
                        let bytes = super::fam_codec::exact_publish(total, d.rng.below(2) as u8);
                        d.send_raw("publish-exact-fit", &bytes);
                    } else if let Some(o) = dup {
                        d.send(&o);
                    } else if let Some(o) = d.broker.inbound(&mut d.rng, qos, None, None) {
                        d.send(&o);
                    }
                    if d.suspended() && d.rng.pct(60) {
                        d.run_random();
                    }
                }
                6 => d.x("cancel"),
                7 => {
                    if !d.suspended() {
                        let op = *d.rng.pick(&["poll", "recv", "publish 1 0 66 00 -"]);
                        d.x(op);
                    }
                    for _ in 0..d.rng.below(3) {
                        if d.suspended() {
                            d.x("d 250");
                        }
                    }
                    if d.suspended() {
                        let n = d.rng.range(251, 255);
                        d.x(&format!("d {n}"));
                    }
                }
                8 => {
                    if reconnects < 3 {
                        reconnects += 1;
                        if d.rng.pct(50) {
                            d.x("drop");
                        }
                        reconnect(&mut d, cfg.rx);
                    }
                }
                9 => {
                    let us = d.rng.range(500_000, 3_000_000);
                    d.tick(us);
                    if d.suspended() && d.rng.pct(50) {
                        d.go();
                    }
                }
                _ => {
                    if d.rng.pct(50) {
                        d.x("disconnect none none");
                    } else {
                        d.x("disconnect 04 none");
                    }
                    d.run_random();
                }
            }
        }
        d.finish_benign();
        let tags = format!("rx={} tx={} ka={}", cfg.rx, cfg.tx, cfg.ka);
        out.emit(idx, "", &tags, &d);
    }
}
