//! `wrap`: the packet identifier counter passes 65535 while operations with low ids are in flight.

use super::broker::{rand_bytes, rand_topic};
use super::util::{PubLine, filter_text};
use super::{CfgSpec, ConnSpec, Drv, Out, wire};
use crate::parse::{PropSpec, hex};

fn small_publish(d: &mut Drv, qos: u8) -> String {
    let n = d.rng.below(4) as usize;
    let topic = rand_topic(&mut d.rng, 1, 3);
    PubLine::simple(qos, &topic, &rand_bytes(&mut d.rng, n)).text()
}

fn request(d: &mut Drv) {
    let line = match d.rng.below(10) {
        0..=3 => small_publish(d, 1),
        4..=6 => small_publish(d, 2),
        7 | 8 => format!("subscribe - {}", filter_text(&rand_topic(&mut d.rng, 1, 3), 1, false, false, 0)),
        _ => format!("unsubscribe - {}", hex(rand_topic(&mut d.rng, 1, 3).as_bytes())),
    };
    d.x(&line);
    d.go();
}

/// Deliver owed responses except those for the long-lived ids.
fn deliver_some(d: &mut Drv, keep: &[u16], all: bool) {
    let mut i = 0;
    while i < d.broker.owed().len() {
        let o = &d.broker.owed()[i];
        if keep.contains(&o.pid) || (!all && d.rng.pct(40)) {
            i += 1;
        } else {
            d.deliver(i);
        }
    }
    if !d.suspended() {
        d.x("poll");
    }
    d.go();
}

pub fn wrap(out: &mut Out, count: u64) {
    for idx in 0..count {
        let rng = out.rng(idx);
        if idx == 0 {
            // One long program: 300 publishes acked one by one, wrapping on the way.
            let mut d = Drv::new(&CfgSpec::basic(64, 256), rng);
            d.split_rx = false;
            d.connect(&ConnSpec::plain());
            d.x("subscribe - 6c/1/0/0/0");
            d.go();
            d.broker.forget(0); // never acknowledged: id 1 stays in flight
            d.x("setpid 65400");
            for i in 0..300 {
                let line = small_publish(&mut d, 1 + (i % 3 == 0) as u8);
                d.x(&line);
                d.go();
                for _ in 0..3 {
                    if d.broker.owed().is_empty() {
                        break;
                    }
                    d.deliver_all();
                    d.x("poll");
                    d.go();
                }
            }
            d.drain();
            out.emit(idx, "", "long=1 setpid=65400", &d);
            continue;
        }
        let mut d = Drv::new(&CfgSpec::basic(64, 512), rng);
        d.split_rx = false;
        let start = 65530 + (idx % 6) as u16;
        let recv_max = match idx % 3 {
            0 => Some(1u16),
            1 => None,
            _ => Some(*d.rng.pick(&[2u16, 3, 20])),
        };
        let props = recv_max.map(|m| vec![PropSpec::U16(0x21, m)]).unwrap_or_default();
        d.connect(&ConnSpec::with(props));
        // Long-lived operations with the low ids 1, 2, 3.
        let n_long = d.rng.range(1, 3);
        let mut keep: Vec<u16> = Vec::new();
        let mut kinds = Vec::new();
        for i in 0..n_long {
            let id = i as u16 + 1;
            // Every fourth program has a QoS 2 exchange in its release phase across the wrap.
            let choice = if i == 0 && idx % 4 == 1 { 4 } else { d.rng.below(5) };
            match choice {
                0 => {
                    let l = small_publish(&mut d, 1);
                    d.x(&l);
                    d.go();
                    kinds.push("q1");
                    keep.push(id);
                }
                1 => {
                    let l = small_publish(&mut d, 2);
                    d.x(&l);
                    d.go();
                    kinds.push("q2");
                    keep.push(id);
                }
                2 => {
                    d.x(&format!("subscribe - {}", filter_text("l/#", 2, false, false, 0)));
                    d.go();
                    kinds.push("sub");
                    keep.push(id);
                }
                3 => {
                    d.x(&format!("unsubscribe - {}", hex(b"l/#")));
                    d.go();
                    kinds.push("unsub");
                    keep.push(id);
                }
                _ => {
                    // QoS 2 in its release phase: PUBREC delivered, PUBCOMP withheld.
                    let l = small_publish(&mut d, 2);
                    d.x(&l);
                    d.go();
                    if let Some(i) = d.broker.owed().iter().position(|o| o.kind == "pubrec" && o.pid == id) {
                        d.deliver(i);
                        d.x("poll");
                        d.go();
                    }
                    kinds.push("rel");
                    keep.push(id);
                }
            }
        }
        // Before the wrap point: acknowledgements of the wrong kind for the long-lived ids.
        let wrong = d.rng.pct(50);
        if wrong {
            for (n, (id, kind)) in keep.clone().iter().zip(kinds.clone()).enumerate() {
                let (label, bytes) = match kind {
                    "q2" | "rel" => ("wrong-puback", wire::ack(0x40, *id, None, None)),
                    "q1" if n % 2 == 0 => ("wrong-pubrec", wire::ack(0x50, *id, None, None)),
                    "q1" => ("wrong-unsuback", wire::suback(0xb0, *id, &[0])),
                    "sub" => ("wrong-unsuback", wire::suback(0xb0, *id, &[0])),
                    _ => ("wrong-suback", wire::suback(0x90, *id, &[0])),
                };
                d.send_raw(label, &bytes);
                if !d.suspended() {
                    d.x("poll");
                }
                d.go();
            }
        }
        d.x("cancel");
        d.x(&format!("setpid {start}"));
        // Enough id-consuming requests to pass 65535 in every program.
        let n_requests = d.rng.range(2, 12).max(65536 - start as u64 + 2);
        for _ in 0..n_requests {
            request(&mut d);
            if d.rng.pct(35) {
                deliver_some(&mut d, &keep, false);
                d.x("cancel");
            }
        }
        deliver_some(&mut d, &keep, true);
        d.drain();
        let tags = format!(
            "setpid={start} recvmax={} wrongacks={} long={}",
            recv_max.map(|m| m.to_string()).unwrap_or("-".into()),
            wrong as u8,
            kinds.join("+")
        );
        out.emit(idx, "", &tags, &d);
    }
}
