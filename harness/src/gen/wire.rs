//! Byte-level helpers for the generators: client-packet scanner and server-packet builders.

use crate::parse::{PropSpec, fmt_property};

pub fn varint(mut n: u32) -> Vec<u8> {
    let mut out = Vec::new();
    loop {
        let mut b = (n & 0x7f) as u8;
        n >>= 7;
        if n != 0 {
            b |= 0x80;
        }
        out.push(b);
        if n == 0 {
            return out;
        }
    }
}

fn str16(out: &mut Vec<u8>, s: &[u8]) {
    out.extend_from_slice(&(s.len() as u16).to_be_bytes());
    out.extend_from_slice(s);
}

/// MQTT encoding of one property.
pub fn enc_prop(p: &PropSpec) -> Vec<u8> {
    let mut out = Vec::new();
    match p {
        PropSpec::U8(id, v) => {
            out.push(*id);
            out.push(*v);
        }
        PropSpec::U16(id, v) => {
            out.push(*id);
            out.extend_from_slice(&v.to_be_bytes());
        }
        PropSpec::U32(id, v) => {
            out.push(*id);
            if *id == 0x0b {
                out.extend(varint(*v));
            } else {
                out.extend_from_slice(&v.to_be_bytes());
            }
        }
        PropSpec::Str(id, v) => {
            out.push(*id);
            str16(&mut out, v.as_bytes());
        }
        PropSpec::Bin(id, v) => {
            out.push(*id);
            str16(&mut out, v);
        }
        PropSpec::Pair(k, v) => {
            out.push(0x26);
            str16(&mut out, k.as_bytes());
            str16(&mut out, v.as_bytes());
        }
    }
    out
}

pub fn enc_props(props: &[PropSpec]) -> Vec<u8> {
    props.iter().flat_map(enc_prop).collect()
}

/// Directive syntax of a property list.
pub fn props_text(props: &[PropSpec]) -> String {
    if props.is_empty() {
        return "-".to_string();
    }
    let mut out = String::new();
    for (i, p) in props.iter().enumerate() {
        if i != 0 {
            out.push(',');
        }
        fmt_property(&mut out, &p.to_property());
    }
    out
}

/// A whole packet: first byte, remaining length, body.
pub fn pkt(first: u8, body: &[u8]) -> Vec<u8> {
    let mut out = vec![first];
    out.extend(varint(body.len() as u32));
    out.extend_from_slice(body);
    out
}

pub fn connack(sp: bool, rc: u8, props: &[u8]) -> Vec<u8> {
    let mut body = vec![sp as u8, rc];
    body.extend(varint(props.len() as u32));
    body.extend_from_slice(props);
    pkt(0x20, &body)
}

/// PUBACK 0x40, PUBREC 0x50, PUBREL 0x62, PUBCOMP 0x70. `rc` None gives the 2-byte form;
/// `props` Some adds a property block (possibly empty).
pub fn ack(first: u8, pid: u16, rc: Option<u8>, props: Option<&[u8]>) -> Vec<u8> {
    let mut body = pid.to_be_bytes().to_vec();
    if let Some(rc) = rc {
        body.push(rc);
        if let Some(props) = props {
            body.extend(varint(props.len() as u32));
            body.extend_from_slice(props);
        }
    }
    pkt(first, &body)
}

/// SUBACK 0x90 / UNSUBACK 0xb0.
pub fn suback(first: u8, pid: u16, codes: &[u8]) -> Vec<u8> {
    let mut body = pid.to_be_bytes().to_vec();
    body.push(0);
    body.extend_from_slice(codes);
    pkt(first, &body)
}

pub fn pingresp() -> Vec<u8> {
    vec![0xd0, 0x00]
}

pub fn disconnect(rc: Option<u8>) -> Vec<u8> {
    match rc {
        None => vec![0xe0, 0x00],
        Some(rc) => vec![0xe0, 0x01, rc],
    }
}

pub fn publish(
    topic: &[u8],
    pid: Option<u16>,
    qos: u8,
    retain: bool,
    dup: bool,
    props: &[u8],
    payload: &[u8],
) -> Vec<u8> {
    let mut body = Vec::new();
    str16(&mut body, topic);
    if let Some(pid) = pid {
        body.extend_from_slice(&pid.to_be_bytes());
    }
    body.extend(varint(props.len() as u32));
    body.extend_from_slice(props);
    body.extend_from_slice(payload);
    pkt(0x30 | (dup as u8) << 3 | qos << 1 | retain as u8, &body)
}

/// One complete packet written by the client.
#[derive(Debug, Clone, PartialEq)]
pub struct ClientPacket {
    /// Packet type (high nibble of the first byte).
    pub ty: u8,
    pub flags: u8,
    /// QoS of a PUBLISH, 0 otherwise.
    pub qos: u8,
    pub pid: Option<u16>,
    /// SUBSCRIBE / UNSUBSCRIBE: number of filters. CONNECT: 1 when clean start is set.
    pub count: usize,
    /// CONNECT: keep alive seconds. Acks: reason code (0 when absent).
    pub extra: u16,
    pub total_len: usize,
}

/// Splits the wire of one transport into complete packets; an incomplete tail is kept.
#[derive(Debug, Default, Clone)]
pub struct WireScanner {
    pub cursor: usize,
    pub desync: bool,
}

pub fn read_varint(buf: &[u8]) -> Result<Option<(u32, usize)>, ()> {
    let mut value = 0u32;
    for i in 0..4 {
        let Some(b) = buf.get(i) else {
            return Ok(None);
        };
        value |= ((b & 0x7f) as u32) << (7 * i);
        if b & 0x80 == 0 {
            return Ok(Some((value, i + 1)));
        }
    }
    Err(())
}

fn count_filters(body: &[u8], with_options: bool) -> usize {
    // pid(2), property length varint, properties, then the filters.
    let Ok(Some((plen, n))) = read_varint(body.get(2..).unwrap_or(&[])) else {
        return 0;
    };
    let mut at = 2 + n + plen as usize;
    let mut count = 0;
    while at + 2 <= body.len() {
        let len = u16::from_be_bytes([body[at], body[at + 1]]) as usize;
        at += 2 + len + with_options as usize;
        count += 1;
    }
    count
}

impl WireScanner {
    pub fn scan(&mut self, wire: &[u8]) -> Vec<ClientPacket> {
        let mut out = Vec::new();
        while !self.desync && self.cursor < wire.len() {
            let rest = &wire[self.cursor..];
            let first = rest[0];
            let (rem, n) = match read_varint(&rest[1..]) {
                Ok(Some(v)) => v,
                Ok(None) => break,
                Err(()) => {
                    self.desync = true;
                    break;
                }
            };
            let total = 1 + n + rem as usize;
            if rest.len() < total {
                break;
            }
            let body = &rest[1 + n..total];
            let ty = first >> 4;
            let flags = first & 15;
            let be = |at: usize| -> Option<u16> {
                Some(u16::from_be_bytes([*body.get(at)?, *body.get(at + 1)?]))
            };
            let mut p = ClientPacket {
                ty,
                flags,
                qos: 0,
                pid: None,
                count: 0,
                extra: 0,
                total_len: total,
            };
            match ty {
                1 => {
                    // 00 04 M Q T T 05 flags keepalive
                    p.count = (body.get(7).copied().unwrap_or(0) >> 1 & 1) as usize;
                    p.extra = be(8).unwrap_or(0);
                }
                3 => {
                    p.qos = flags >> 1 & 3;
                    if p.qos > 0 {
                        let tlen = be(0).unwrap_or(0) as usize;
                        p.pid = be(2 + tlen);
                    }
                }
                4..=7 => {
                    p.pid = be(0);
                    p.extra = body.get(2).copied().unwrap_or(0) as u16;
                }
                8 => {
                    p.pid = be(0);
                    p.count = count_filters(body, true);
                }
                10 => {
                    p.pid = be(0);
                    p.count = count_filters(body, false);
                }
                12 | 14 => {}
                _ => self.desync = true,
            }
            self.cursor += total;
            out.push(p);
        }
        out
    }
}
