//! `codec`, `maxsize`, `invalid`: systematic sweeps over encodings, size limits and refused
//! requests.

use super::util::{PubLine, filter_text};
use super::wire::{self, props_text};
use super::{CfgSpec, ConnSpec, Drv, Out, Sp, stride};
use crate::interp::Interp;
use crate::parse::{PropSpec, hex};

/// The 27 property kinds with their value shape: b u8, w u16, d u32, v varint, s string,
/// x binary, p pair.
pub const KINDS: [(u8, char); 27] = [
    (0x01, 'b'), (0x02, 'd'), (0x03, 's'), (0x08, 's'), (0x09, 'x'), (0x0b, 'v'), (0x11, 'd'),
    (0x12, 's'), (0x13, 'w'), (0x15, 's'), (0x16, 'x'), (0x17, 'b'), (0x18, 'd'), (0x19, 'b'),
    (0x1a, 's'), (0x1c, 's'), (0x1f, 's'), (0x21, 'w'), (0x22, 'w'), (0x23, 'w'), (0x24, 'b'),
    (0x25, 'b'), (0x26, 'p'), (0x27, 'd'), (0x28, 'b'), (0x29, 'b'), (0x2a, 'b'),
];

pub fn boundary_values(id: u8, shape: char) -> Vec<PropSpec> {
    match shape {
        'b' => [0u8, 1, 2, 3, 255].iter().map(|v| PropSpec::U8(id, *v)).collect(),
        'w' => [0u16, 1, 65535].iter().map(|v| PropSpec::U16(id, *v)).collect(),
        'd' | 'v' => [0u32, 1, (1 << 28) - 1, 1 << 28, u32::MAX]
            .iter()
            .map(|v| PropSpec::U32(id, *v))
            .collect(),
        's' => vec![PropSpec::Str(id, String::new()), PropSpec::Str(id, "a".into())],
        'x' => vec![PropSpec::Bin(id, vec![]), PropSpec::Bin(id, vec![0xff])],
        _ => vec![
            PropSpec::Pair(String::new(), String::new()),
            PropSpec::Pair("k".into(), "v".into()),
        ],
    }
}

/// Both sides of every variable-byte-integer width boundary, and values inside each width.
pub const VARINT_VALUES: [u32; 17] = [
    64, 100, 127, 128, 8192, 12000, 16383, 16384, 131072, 200000, 1048576, 1500000, 2097151,
    2097152, 3000000, 100000000, 268435455,
];

const CONTEXTS: [&str; 5] = ["publish", "subscribe", "unsubscribe", "disconnect", "will"];

/// The request of `context` carrying `props`; for `will` the will goes into the configuration.
fn request_in(context: &str, props: &[PropSpec], cfg: &mut CfgSpec) -> String {
    let p = props_text(props);
    match context {
        "publish" => format!("publish 1 0 74 70 {p}"),
        "subscribe" => format!("subscribe {p} {}", filter_text("t", 1, false, false, 0)),
        "unsubscribe" => format!("unsubscribe {p} 74"),
        // `with_properties` on `Disconnect::success()` must supply the reason code itself
        "disconnect" => format!("disconnect {} {p}", if props.len() % 2 == 1 { "none" } else { "00" }),
        _ => {
            cfg.will = Some(format!("77/70/1/0/{p}"));
            "publish 0 0 74 70 -".to_string()
        }
    }
}

/// Bytes the client writes for `req` on a fresh connection (dry run in a big arena).
/// Must not be called while another interpreter is alive.
fn encoded_size(cfg: &CfgSpec, req: &str) -> usize {
    let mut big = cfg.clone();
    big.tx = 200_000;
    let Ok(mut it) = Interp::new(&big.line()) else {
        return 0;
    };
    it.exec("connect");
    it.exec("go");
    it.exec("rx 2003000000");
    it.exec("go");
    let before = it.wire_len(0);
    it.exec(req);
    it.exec("go");
    it.wire_len(0) - before
}

struct Item {
    tags: String,
    cfg: CfgSpec,
    connack: Vec<PropSpec>,
    /// Operations before the request, each run with `go`, their responses withheld.
    pre: Vec<String>,
    req: Vec<String>,
    drain: bool,
}

impl Item {
    fn new(tags: String, cfg: CfgSpec, req: String) -> Item {
        Item {
            tags,
            cfg,
            connack: Vec::new(),
            pre: Vec::new(),
            req: vec![req],
            drain: false,
        }
    }

    fn emit(&self, out: &mut Out, idx: u64) {
        let mut d = Drv::new(&self.cfg, out.rng(idx));
        d.split_rx = false;
        d.connect(&ConnSpec::with(self.connack.clone()));
        for line in &self.pre {
            d.x(line);
            d.go();
        }
        let held = d.broker.owed().len();
        for line in &self.req {
            d.x(line);
            d.go();
        }
        if self.drain {
            let _ = held;
            d.finish_benign();
        } else {
            d.x("drop");
        }
        out.emit(idx, "", &self.tags, &d);
    }
}

/// Interleave the groups so that a small `count` still touches every group.
fn round_robin(groups: Vec<Vec<Item>>, count: usize) -> Vec<Item> {
    let mut iters: Vec<_> = groups.into_iter().map(|g| g.into_iter()).collect();
    let mut out = Vec::new();
    loop {
        let mut any = false;
        for it in iters.iter_mut() {
            if out.len() >= count {
                return out;
            }
            if let Some(item) = it.next() {
                out.push(item);
                any = true;
            }
        }
        if !any {
            return out;
        }
    }
}

pub fn codec(out: &mut Out, count: u64) {
    let base = CfgSpec::basic(64, 256);
    let q0 = "publish 0 0 74 70 -".to_string();
    let mut groups: Vec<Vec<Item>> = Vec::new();

    // Will / auth combinations.
    let mut g = Vec::new();
    for auth in [None, Some(("user".to_string(), vec![0x70, 0x00, 0xff]))] {
        for will in 0..7 {
            let mut cfg = base.clone();
            cfg.auth = auth.clone();
            if will > 0 {
                let (qos, retain) = ((will - 1) / 2, (will - 1) % 2);
                cfg.will = Some(format!("772f74/6279/{qos}/{retain}/18=5"));
            }
            g.push(Item::new(format!("sweep=will-auth auth={} will={will}", auth.is_some() as u8), cfg, q0.clone()));
        }
    }
    groups.push(g);

    // Keep alive, session expiry, client id lengths.
    let mut g = Vec::new();
    for ka in [0u16, 1, 65535] {
        for exp in [0u32, 1, u32::MAX] {
            let mut cfg = base.clone();
            cfg.ka = ka;
            cfg.exp = exp;
            g.push(Item::new(format!("sweep=ka-exp ka={ka} exp={exp}"), cfg, q0.clone()));
        }
    }
    for len in [0usize, 1, 23, 64] {
        let mut cfg = base.clone();
        cfg.cid = "i".repeat(len);
        g.push(Item::new(format!("sweep=cid len={len}"), cfg, q0.clone()));
    }
    groups.push(g);

    // Remaining length crossing 127/128 and 16383/16384.
    let mut g = Vec::new();
    for (i, rem) in [126usize, 127, 128, 129, 16382, 16383, 16384, 16385].iter().enumerate() {
        for qos in [0u8, 1] {
            for heavy in ["payload", "topic"] {
                let fixed = 3 + if qos > 0 { 2 } else { 0 };
                let (tlen, plen) = if heavy == "payload" { (1, rem - fixed - 1) } else { (rem - fixed, 0) };
                let mut cfg = base.clone();
                cfg.tx = if i % 2 == 0 { 20000 } else { 40000 };
                let line = PubLine::simple(qos, &"t".repeat(tlen), &vec![0x61; plen]).text();
                g.push(Item::new(format!("sweep=remlen rem={rem} qos={qos} heavy={heavy}"), cfg, line));
            }
        }
    }
    groups.push(g);

    // Every property kind in every context (one boundary value each; `invalid` sweeps values).
    let mut g = Vec::new();
    for (id, shape) in KINDS {
        for context in CONTEXTS {
            let values = boundary_values(id, shape);
            let value = values[values.len() / 2].clone();
            let mut cfg = base.clone();
            let req = request_in(context, &[value], &mut cfg);
            g.push(Item::new(format!("sweep=property context={context} id={id:02x}"), cfg, req));
        }
    }
    let property_group = g;

    // SUBSCRIBE options.
    let mut g = Vec::new();
    for qos in 0..3u8 {
        for nl in [false, true] {
            for rap in [false, true] {
                for rh in 0..3u8 {
                    let req = format!("subscribe - {}", filter_text("a/+", qos, nl, rap, rh));
                    g.push(Item::new(
                        format!("sweep=subopts qos={qos} nl={} rap={} rh={rh}", nl as u8, rap as u8),
                        base.clone(),
                        req,
                    ));
                }
            }
        }
    }
    groups.push(g);

    // Arena sizes around the encoded size of the request.
    let mut g = Vec::new();
    let payload = vec![0x62u8; 34];
    let requests = [
        PubLine::simple(0, "t/0", &payload).text(),
        PubLine::simple(1, "t/1", &payload).text(),
        PubLine::simple(2, "t/2", &payload).text(),
        format!("subscribe - {}", filter_text(&"s".repeat(36), 1, false, false, 0)),
        format!("unsubscribe - {}", hex("u".repeat(38).as_bytes())),
    ];
    for req in &requests {
        let need = encoded_size(&base, req);
        for delta in -6i64..=4 {
            let mut cfg = base.clone();
            cfg.tx = (need as i64 + delta) as usize;
            let kind = req.split(' ').take(2).collect::<Vec<_>>().join("");
            g.push(Item::new(format!("sweep=arena req={kind} need={need} tx=need{delta:+}"), cfg, req.clone()));
        }
    }
    let arena_group = g;

    // Strings of 65535 and 65536 bytes.
    let mut g = Vec::new();
    for len in [65535usize, 65536] {
        let mut cfg = base.clone();
        cfg.tx = 140_000;
        let line = PubLine::simple(0, &"t".repeat(len), b"p").text();
        g.push(Item::new(format!("sweep=longstring len={len}"), cfg, line));
    }
    groups.push(g);

    // Variable byte integers: both sides of every width boundary and values inside each width.
    let mut g = Vec::new();
    for v in VARINT_VALUES {
        let req = format!("subscribe 0b={v} {}", filter_text("v", 1, false, false, 0));
        g.push(Item::new(format!("sweep=varint what=subid value={v}"), base.clone(), req));
    }
    groups.push(g);

    // Remaining length driven by the payload size (127/128 and 16383/16384 are covered above).
    let mut g = Vec::new();
    for v in VARINT_VALUES {
        if [127, 128, 16383, 16384].contains(&v) || v as usize + 64 > crate::parse::MAX_BUFFER as usize {
            continue;
        }
        let mut cfg = base.clone();
        cfg.tx = v as usize + 64;
        // topic "t": 2 + 1 bytes, property length 1 byte.
        let line = PubLine::simple(0, "t", &vec![0x61; v as usize - 4]).text();
        g.push(Item::new(format!("sweep=varint what=remlen value={v}"), cfg, line));
    }
    groups.push(g);

    // Property block length.
    let mut g = Vec::new();
    for v in VARINT_VALUES {
        if v > 200_000 {
            continue;
        }
        let mut left = v as usize;
        let mut props = Vec::new();
        // User properties with an empty key: 5 + n bytes each.
        while left > 0 {
            let size = if left > 65540 + 5 { 65540 } else { left };
            if left <= 65538 && props.is_empty() {
                props.push(PropSpec::Str(0x03, "c".repeat(left - 3)));
                break;
            }
            props.push(PropSpec::Pair(String::new(), "u".repeat(size - 5)));
            left -= size;
        }
        let mut cfg = base.clone();
        cfg.tx = v as usize + 64;
        let mut line = PubLine::simple(0, "t", b"p");
        line.props = props;
        g.push(Item::new(format!("sweep=varint what=proplen value={v}"), cfg, line.text()));
    }
    groups.push(g);

    // Maximum QoS x requested QoS x downgrade x retain, with properties and correlation data;
    // the publish goes out and is acknowledged.
    let mut g = Vec::new();
    for mq in [0u8, 1, 2] {
        for qos in 0..3u8 {
            for dg in [false, true] {
                for retain in [false, true] {
                    let mut cfg = base.clone();
                    cfg.dg = dg;
                    let mut line = PubLine::simple(qos, "t/mq", b"mq");
                    line.retain = retain;
                    line.props = vec![PropSpec::U8(0x01, 1), PropSpec::Pair("k".into(), "v".into())];
                    line.c1 = Some(vec![0xc0, 0xde]);
                    let mut it = Item::new(
                        format!("sweep=maxqos mq={mq} qos={qos} dg={} retain={}", dg as u8, retain as u8),
                        cfg,
                        line.text(),
                    );
                    it.connack = vec![PropSpec::U8(0x24, mq)];
                    it.drain = true;
                    g.push(it);
                }
            }
        }
    }
    groups.push(g);

    // The complete systematic groups first; the arena and property sweeps share the rest 2:1.
    let count = count as usize;
    let mut items = round_robin(groups, count);
    let left = count - items.len();
    let for_property = (left / 3).min(property_group.len());
    let for_arena = (left - for_property).min(arena_group.len());
    let pick = |group: Vec<Item>, n: usize| -> Vec<Item> {
        let picks = stride(group.len(), n);
        group.into_iter().enumerate().filter(|(i, _)| picks.contains(i)).map(|(_, it)| it).collect()
    };
    items.extend(pick(arena_group, for_arena));
    items.extend(pick(property_group, for_property));
    for (idx, item) in items.iter().enumerate() {
        item.emit(out, idx as u64);
    }
}

// -------------------------------------------------------------------------------------------

/// An inbound PUBLISH (topic "t", packet id 3) of exactly `total` bytes.
pub(super) fn exact_publish(total: usize, qos: u8) -> Vec<u8> {
    let pid = (qos > 0).then_some(3);
    let mut pad = total.saturating_sub(wire::publish(b"t", pid, qos, false, false, &[], &[]).len());
    loop {
        let p = wire::publish(b"t", pid, qos, false, false, &[], &vec![0x41; pad]);
        if p.len() <= total || pad == 0 {
            return p;
        }
        pad -= 1; // the remaining length grew by a byte
    }
}

pub fn maxsize(out: &mut Out, count: u64) {
    let base = CfgSpec::basic(64, 512);
    let mut special: Vec<Item> = Vec::new();
    let mps = |l: u32| vec![PropSpec::U32(0x27, l)];

    // Inbound publishes whose acknowledgements do not fit.
    for limit in [2u32, 3, 4, 5] {
        for qos in [1u8, 2] {
            let mut it = Item::new(
                format!("case=inbound-ack limit={limit} qos={qos}"),
                base.clone(),
                "poll".into(),
            );
            it.connack = mps(limit);
            let publish = wire::publish(b"t", Some(9), qos, false, false, &[], b"p");
            it.pre = vec![];
            it.req = vec![format!("rx {}", hex(&publish)), "poll".into(), "poll".into(), "poll".into()];
            it.drain = true;
            special.push(it);
        }
    }
    // PINGREQ under the smallest limits.
    for limit in [2u32, 3] {
        let mut cfg = base.clone();
        cfg.ka = 2;
        let mut it = Item::new(format!("case=pingreq limit={limit}"), cfg, "poll".into());
        it.connack = mps(limit);
        it.req = vec!["poll".into(), "tick 1000000".into(), "rx d000".into(), "poll".into(), "tick 1000000".into()];
        it.drain = true;
        special.push(it);
    }
    // Exact-fit inbound publishes: total size rx-1, rx, rx+1; with rx = 300 also the sizes where
    // the remaining length needs its second byte.
    let mut fits: Vec<(usize, usize, u8)> = Vec::new();
    for rx in [32usize, 64, 128, 300] {
        for total in [rx - 1, rx, rx + 1] {
            for qos in 0..3u8 {
                fits.push((rx, total, qos));
            }
        }
    }
    for total in [129usize, 130, 131] {
        for qos in 0..3u8 {
            fits.push((300, total, qos));
        }
    }
    for (rx, total, qos) in fits {
        let publish = exact_publish(total, qos);
        let mut cfg = base.clone();
        cfg.rx = rx;
        let mut it = Item::new(
            format!("case=exact-fit rx={rx} total={} qos={qos}", publish.len()),
            cfg,
            "poll".into(),
        );
        it.req = vec![format!("rx {}", hex(&publish)), "poll".into(), "poll".into()];
        if qos == 2 {
            it.req.push("rx 62020003".into());
            it.req.push("poll".into());
        }
        it.drain = true;
        special.push(it);
    }
    let n_special = special.len();

    // The grid: limit x request kind x (limit-1, limit, limit+1).
    let limits: Vec<u32> = (2..=40).chain([64]).collect();
    type Make = Box<dyn Fn(usize) -> String>;
    let kinds: Vec<(&str, Make)> = vec![
        ("publish0", Box::new(|n| PubLine::simple(0, "t", &vec![0x61; n]).text())),
        ("publish1", Box::new(|n| PubLine::simple(1, "t", &vec![0x61; n]).text())),
        ("publish2", Box::new(|n| PubLine::simple(2, "t", &vec![0x61; n]).text())),
        ("subscribe", Box::new(|n| format!("subscribe - {}", filter_text(&"s".repeat(n + 1), 0, false, false, 0)))),
        ("unsubscribe", Box::new(|n| format!("unsubscribe - {}", hex("u".repeat(n + 1).as_bytes())))),
        ("disconnect", Box::new(|_| "disconnect none none".to_string())),
        ("disconnect-rc", Box::new(|_| "disconnect 8e none".to_string())),
        ("disconnect-props", Box::new(|_| "disconnect 00 -".to_string())),
        ("disconnect-props-only", Box::new(|_| "disconnect none -".to_string())),
        ("disconnect-reason", Box::new(|n| format!("disconnect 00 1f={}", hex("r".repeat(n).as_bytes())))),
    ];
    // (limit, kind, padding, size); fixed-size requests only next to their own size.
    let mut grid: Vec<(u32, usize, usize, usize)> = Vec::new();
    for (k, (name, make)) in kinds.iter().enumerate() {
        let base_size = encoded_size(&base, &make(0));
        let fixed = name.starts_with("disconnect") && *name != "disconnect-reason";
        for limit in &limits {
            if *name == "disconnect-reason" && *limit > 12 {
                continue;
            }
            for delta in [-1i64, 0, 1] {
                let target = (*limit as i64 + delta) as usize;
                let entry = if fixed {
                    if target != base_size {
                        continue;
                    }
                    (*limit, k, 0, base_size)
                } else {
                    let pad = target.saturating_sub(base_size);
                    (*limit, k, pad, base_size + pad)
                };
                if !grid.contains(&entry) {
                    grid.push(entry);
                }
            }
        }
    }
    let replay_limits = [10u32, 20, 29, 30, 31];
    let count = count as usize;
    let n_next = 7;
    let left = count.saturating_sub(n_special + replay_limits.len() + n_next);
    let chosen = stride(grid.len(), left);
    let mut items: Vec<Item> = Vec::new();
    for i in chosen {
        let (limit, k, pad, size) = grid[i];
        let mut it = Item::new(
            format!("case=request kind={} limit={limit} size={size}", kinds[k].0),
            base.clone(),
            (kinds[k].1)(pad),
        );
        it.connack = mps(limit);
        it.drain = true;
        items.push(it);
    }
    let mut idx = 0u64;
    for it in special.iter().chain(items.iter()).take(count) {
        it.emit(out, idx);
        idx += 1;
    }
    // Control and release entries meeting a smaller limit on the next connection.
    let next: [(&str, u32); 7] = [
        ("puback-queued", 4), ("puback-queued", 5), ("puback-queued", 6),
        ("pubrel-unsent", 4), ("pubrel-unsent", 5), ("pubrel-sent", 4), ("pubrel-sent", 5),
    ];
    for (what, limit) in next {
        if idx >= count as u64 {
            return;
        }
        let mut d = Drv::new(&base, out.rng(idx));
        d.split_rx = false;
        d.connect(&ConnSpec::plain());
        if what == "puback-queued" {
            let publish = wire::publish(b"t", Some(9), 1, false, false, &[], b"p");
            d.send_raw("publish1", &publish);
            d.x("poll"); // delivers the message; the PUBACK is queued, not written
            d.go();
        } else {
            d.x(&PubLine::simple(2, "t", b"q2").text());
            d.go();
            d.deliver_all(); // PUBREC
            d.x("poll");
            if what == "pubrel-sent" {
                d.go();
            } else {
                super::fam_behind::until_write(&mut d);
                d.x("cancel");
            }
        }
        d.x("drop");
        d.connect(&ConnSpec { sp: Sp::Fixed(true), rc: 0, props: mps(limit) });
        d.go();
        for _ in 0..3 {
            if d.live() {
                d.x("poll");
                d.go();
            }
        }
        d.drain();
        out.emit(idx, "", &format!("case=next-connection what={what} limit={limit}"), &d);
        idx += 1;
    }
    // Retained packets replayed on a later connection that announces a smaller limit.
    for limit in replay_limits {
        if idx >= count as u64 {
            return;
        }
        let mut d = Drv::new(&base, out.rng(idx));
        d.split_rx = false;
        d.connect(&ConnSpec::plain());
        d.x(&PubLine::simple(1, "t/a", &[0x61; 20]).text()); // 30 bytes
        d.go();
        d.x(&PubLine::simple(2, "t", &[0x62; 3]).text()); // 11 bytes
        d.go();
        d.x("drop");
        d.connect(&ConnSpec { sp: Sp::Fixed(true), rc: 0, props: mps(limit) });
        d.drain();
        d.x("publish 0 0 74 70 -");
        d.go();
        d.drain();
        out.emit(idx, "", &format!("case=replay limit={limit}"), &d);
        idx += 1;
    }
}

// -------------------------------------------------------------------------------------------

pub fn invalid(out: &mut Out, count: u64) {
    let mut base = CfgSpec::basic(128, 512);
    base.dg = false;
    let inflight = vec![
        PubLine::simple(1, "a", b"1").text(),
        PubLine::simple(2, "b", b"2").text(),
    ];
    let recv_max = vec![PropSpec::U16(0x21, 3)];
    let mut extras: Vec<Item> = Vec::new();
    // Empty filter lists.
    for req in ["subscribe -", "unsubscribe -", "subscribe 26=6b/76", "unsubscribe 26=6b/76"] {
        let mut it = Item::new(format!("case=empty-list req={}", req.split(' ').next().unwrap()), base.clone(), req.into());
        it.pre = inflight.clone();
        it.connack = recv_max.clone();
        it.drain = true;
        extras.push(it);
    }
    // Every request on a dead handle.
    let dead_reqs = [
        "publish 0 0 74 70 -", "publish 1 0 74 70 -", "publish 2 0 74 70 -", "subscribe - 74/0/0/0/0",
        "unsubscribe - 74", "poll", "recv", "drive", "disconnect none none",
    ];
    for how in ["disconnect none none", "d 252"] {
        let mut it = Item::new(format!("case=dead-handle how={}", how.replace(' ', "_")), base.clone(), String::new());
        it.pre = inflight.clone();
        it.req = if how.starts_with('d') && !how.starts_with("di") {
            vec!["poll".to_string(), "d 252".to_string()]
        } else {
            vec![how.to_string()]
        };
        it.req.extend(dead_reqs.iter().map(|s| s.to_string()));
        it.drain = true;
        extras.push(it);
    }
    // Maximum QoS x requested QoS x downgrade.
    for mq in [None, Some(0u8), Some(1), Some(2)] {
        for qos in 0..3u8 {
            for dg in [false, true] {
                let mut cfg = base.clone();
                cfg.dg = dg;
                let mut it = Item::new(
                    format!("case=maxqos mq={} qos={qos} dg={}", mq.map(|v| v.to_string()).unwrap_or("-".into()), dg as u8),
                    cfg,
                    PubLine::simple(qos, "t", b"p").text(),
                );
                it.connack = mq.map(|v| vec![PropSpec::U8(0x24, v)]).unwrap_or_default();
                it.drain = true;
                extras.push(it);
            }
        }
    }
    // Subscription identifiers on both sides of every width boundary (0 and 2^28 are illegal).
    for v in VARINT_VALUES.iter().copied().chain([0, 1, 268435456, u32::MAX]) {
        let req = format!("subscribe 0b={v} {}", filter_text("v", 1, false, false, 0));
        let mut it = Item::new(format!("case=subid value={v}"), base.clone(), req);
        it.pre = inflight.clone();
        it.connack = recv_max.clone();
        it.drain = true;
        extras.push(it);
    }
    // Property kind x context x boundary value.
    let mut grid: Vec<Item> = Vec::new();
    for context in CONTEXTS {
        for (id, shape) in KINDS {
            for value in boundary_values(id, shape) {
                let mut cfg = base.clone();
                let text = props_text(std::slice::from_ref(&value));
                let req = request_in(context, &[value], &mut cfg);
                let mut it = Item::new(format!("case=property context={context} prop={text}"), cfg, req);
                it.pre = inflight.clone();
                it.connack = recv_max.clone();
                it.drain = true;
                grid.push(it);
            }
        }
    }
    let count = count as usize;
    let mut idx = 0u64;
    // The idle dead handle: it dies while nothing is queued.
    for how in super::fam_fault::IDLE_WAYS {
        if (idx as usize) < count {
            let d = super::fam_fault::idle_dead(out.rng(9000 + idx), how);
            out.emit(idx, "", &format!("case=idle-dead-handle how={how}"), &d);
            idx += 1;
        }
    }
    let count = count - idx as usize;
    let left = count.saturating_sub(extras.len());
    let picks = stride(grid.len(), left);
    for it in extras.iter().take(count) {
        it.emit(out, idx);
        idx += 1;
    }
    for i in picks {
        grid[i].emit(out, idx);
        idx += 1;
    }
}
