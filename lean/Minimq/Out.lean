import Minimq.Packets
/-
`src/mqtt_client/outbound.rs`: the transmit arena and the three outbound queues (concrete model:
one shared buffer, entries with offsets).
-/
namespace Minimq
open Gen

inductive SendState where
  | write (written : Nat)
  | flush
  | sent
  deriving DecidableEq, Repr, Inhabited

def SendState.isFresh : SendState → Bool
  | .write 0 => true
  | _ => false

def SendState.isInProgress : SendState → Bool
  | .write (_ + 1) => true
  | .flush => true
  | _ => false

/-- `SendState::set_written`. -/
def SendState.afterWrite (written len : Nat) : SendState :=
  if written ≥ len then .flush else .write written

def SendState.matchesPriority (s : SendState) (inProgress : Bool) : Bool :=
  if inProgress then s.isInProgress else s.isFresh

/-- `ControlAction`: packet type (4 PUBACK, 5 PUBREC, 7 PUBCOMP, 12 PINGREQ), id, reason. -/
structure ControlAction where
  typ : Nat
  id : Nat
  rc : Nat
  deriving DecidableEq, Repr, Inhabited

def ControlAction.pingReq : ControlAction := { typ := MT_PingReq, id := 0, rc := 0 }

structure PendingControl where
  action : ControlAction
  state : SendState
  deriving DecidableEq, Repr, Inhabited

structure PendingRelease where
  id : Nat
  rc : Nat
  state : SendState
  /-- Ghost: serial number of this release entry (not in the code, never printed), assigned by
  `queue_release` from the ghost counter `Outbound.nextRser`. -/
  rser : Nat := 0
  /-- Ghost: serial (`RetainedPacket.ser`) of the retained PUBLISH whose PUBREC created this entry. -/
  pser : Nat := 0
  deriving DecidableEq, Repr, Inhabited

structure RetainedPacket where
  id : Nat
  offset : Nat
  len : Nat
  state : SendState
  /-- Ghost: serial number of the enqueue that created the entry (not in the code, never printed;
  lets theorems speak of "the same packet" at two points of an execution). -/
  ser : Nat := 0
  deriving DecidableEq, Repr, Inhabited

structure Outbound where
  buf : Bytes                       -- length = capacity, never changes
  used : Nat
  control : List PendingControl
  retained : List RetainedPacket
  release : List PendingRelease
  /-- Ghost: number of packets retained so far. -/
  nextSer : Nat := 0
  /-- Ghost: number of release entries queued so far. -/
  nextRser : Nat := 0
  deriving Repr, Inhabited

namespace Outbound

def new (cap : Nat) : Outbound :=
  { buf := List.replicate cap 0, used := 0, control := [], retained := [], release := [] }

def capacity (o : Outbound) : Nat := o.buf.length

def clear (o : Outbound) : Outbound :=
  { o with used := 0, control := [], retained := [], release := [] }

def hasPendingState (o : Outbound) : Bool :=
  !o.control.isEmpty || !o.retained.isEmpty || !o.release.isEmpty

def isQuiescent (o : Outbound) : Bool := !o.hasPendingState

def retainedFull (o : Outbound) : Bool := o.retained.length ≥ MAX_RETAINED

def usedAfterCompact (o : Outbound) : Nat := (o.retained.map (·.len)).sum

def scratchLen (o : Outbound) : Nat := o.capacity - o.usedAfterCompact

def canRetain (o : Outbound) : Bool :=
  o.retained.length < MAX_RETAINED && o.scratchLen ≥ MAX_FIXED_HEADER_SIZE

/-- `compact`: slide every entry down to the running cursor, in order. -/
def compactGo : (entries : List RetainedPacket) → (buf : Bytes) → (cursor : Nat) →
    List RetainedPacket × Bytes × Nat
  | [], buf, cursor => ([], buf, cursor)
  | e :: es, buf, cursor =>
    let buf' := if e.offset ≠ cursor then setRange buf cursor (slice buf e.offset e.len) else buf
    let (es', buf'', c') := compactGo es buf' (cursor + e.len)
    ({ e with offset := cursor } :: es', buf'', c')

def compact (o : Outbound) : Outbound :=
  let (es, buf, cursor) := compactGo o.retained o.buf 0
  { o with retained := es, buf := buf, used := cursor }

def maxInflight : Nat := min MAX_RETAINED MAX_PENDING_RELEASE

/-- `queue_control`; `none` = InflightMetadataExhausted. -/
def queueControl (o : Outbound) (a : ControlAction) : Option Outbound :=
  if o.control.length ≥ MAX_PENDING_CONTROL then none
  else some { o with control := o.control ++ [{ action := a, state := .write 0 }] }

def hasPendingPingreq (o : Outbound) : Bool :=
  o.control.any fun e => e.action.typ = MT_PingReq && e.state ≠ .sent

def removeFirst {α} (p : α → Bool) : List α → List α
  | [] => []
  | x :: xs => if p x then xs else x :: removeFirst p xs

/-- Kinds of acknowledgement: which fixed header byte of a retained packet each one completes. -/
inductive AckKind where
  | subAck | unsubAck | pubAck | pubRec
  deriving DecidableEq, Repr, Inhabited

def AckKind.acknowledges (k : AckKind) (header : Nat) : Bool :=
  match k with
  | .subAck => header / 16 == 8
  | .unsubAck => header / 16 == 10
  | .pubAck => header / 16 == 3 && header / 2 % 4 == 1
  | .pubRec => header / 16 == 3 && header / 2 % 4 == 2

def headerAt (o : Outbound) (off : Nat) : Nat :=
  match o.buf[off]? with
  | some x => x.toNat
  | none => 0

/-- `ack_packet`: remove the first entry with this id whose packet is of the acknowledged kind,
then compact. -/
def ackPacket (o : Outbound) (id : Nat) (k : AckKind) : Outbound × Bool :=
  let p := fun (e : RetainedPacket) => e.id == id && k.acknowledges (o.headerAt e.offset)
  if o.retained.any p then
    (compact { o with retained := removeFirst p o.retained }, true)
  else (o, false)

def hasRetained (o : Outbound) (id : Nat) : Bool := o.retained.any (fun e => e.id == id)

/-- Ghost: the serial of the retained entry that `ack_packet id k` would remove (0 if there is none). -/
def ackedSer (o : Outbound) (id : Nat) (k : AckKind) : Nat :=
  ((o.retained.find? (fun e => e.id == id && k.acknowledges (o.headerAt e.offset))).map (·.ser)).getD 0

/-- `queue_release`. `pser` is ghost (the serial of the PUBLISH this entry continues); so are the
entry's `rser` and the counter `nextRser`. -/
def queueRelease (o : Outbound) (id rc : Nat) (pser : Nat := 0) : Option Outbound :=
  if o.release.length ≥ MAX_PENDING_RELEASE then none
  else some { o with release := o.release ++ [{ id := id, rc := rc, state := .write 0, rser := o.nextRser, pser := pser }],
                     nextRser := o.nextRser + 1 }

def ackRelease (o : Outbound) (id : Nat) : Outbound × Bool :=
  if o.release.any (fun e => e.id == id) then
    ({ o with release := removeFirst (fun e => e.id == id) o.release }, true)
  else (o, false)

def hasPendingRelease (o : Outbound) (id : Nat) : Bool := o.release.any (fun e => e.id == id)

/-- Set bit 3 of the byte at `off`. -/
def orDupAt (buf : Bytes) (off : Nat) : Bytes :=
  match buf[off]? with
  | some x => buf.set off (b (x.toNat / 16 * 16 + (x.toNat % 16 / 8 * 0 + 8) + x.toNat % 8))
  | none => buf

def markRetainedDup (o : Outbound) : Outbound :=
  { o with buf := o.retained.foldl (fun buf e => orDupAt buf e.offset) o.buf }

/-- `inflight_publishes`: retained PUBLISH packets plus release entries. -/
def inflightPublishes (o : Outbound) : Nat :=
  (o.retained.filter fun e =>
    match o.buf[e.offset]? with
    | some x => x.toNat / 16 = MT_Publish
    | none => false).length + o.release.length

def retainedPacket (o : Outbound) (off len : Nat) : Bytes := slice o.buf off len

/-- `retain_packet`. -/
def retainPacket (o : Outbound) (id off len : Nat) : Option Outbound :=
  if o.retained.length ≥ MAX_RETAINED then none
  else some { o with
    retained := o.retained ++ [{ id := id, offset := off, len := len, state := .write 0, ser := o.nextSer }],
    used := max o.used (off + len), nextSer := o.nextSer + 1 }

inductive Step where
  | control (a : ControlAction) (s : SendState)
  | release (id rc : Nat) (s : SendState)
  | retained (id off len : Nat) (s : SendState)
  deriving Repr, DecidableEq, Inhabited

/-- The send state of the entry a step refers to. -/
def Step.state : Step → SendState
  | .control _ s => s
  | .release _ _ s => s
  | .retained _ _ _ s => s

def nextStepPrio (o : Outbound) (inProgress : Bool) : Option Step :=
  match o.control.find? (fun e => e.state.matchesPriority inProgress) with
  | some e => some (.control e.action e.state)
  | none =>
    match o.release.find? (fun e => e.state.matchesPriority inProgress) with
    | some e => some (.release e.id e.rc e.state)
    | none =>
      match o.retained.find? (fun e => e.state.matchesPriority inProgress) with
      | some e => some (.retained e.id e.offset e.len e.state)
      | none => none

/-- `next_step`: in-progress entries first, then fresh ones. -/
def nextStep (o : Outbound) : Option Step :=
  match o.nextStepPrio true with
  | some s => some s
  | none => o.nextStepPrio false

def modifyFirst {α} (p : α → Bool) (f : α → α) : List α → List α
  | [] => []
  | x :: xs => if p x then f x :: xs else x :: modifyFirst p f xs

def setControlWritten (o : Outbound) (a : ControlAction) (written len : Nat) : Outbound :=
  { o with control := modifyFirst (fun e => e.action == a) (fun e => { e with state := SendState.afterWrite written len }) o.control }

/-- `flush_control`: mark the first match sent, then drop every sent entry. -/
def flushControl (o : Outbound) (a : ControlAction) : Outbound :=
  { o with control := (modifyFirst (fun e => e.action == a) (fun e => { e with state := .sent }) o.control).filter (fun e => e.state ≠ .sent) }

def setRetainedWritten (o : Outbound) (id written len : Nat) : Outbound :=
  { o with retained := modifyFirst (fun e => e.id == id) (fun e => { e with state := SendState.afterWrite written len }) o.retained }

def flushRetained (o : Outbound) (id : Nat) : Outbound :=
  { o with retained := modifyFirst (fun e => e.id == id) (fun e => { e with state := .sent }) o.retained }

def setReleaseWritten (o : Outbound) (id written len : Nat) : Outbound :=
  { o with release := modifyFirst (fun e => e.id == id) (fun e => { e with state := SendState.afterWrite written len }) o.release }

def flushRelease (o : Outbound) (id : Nat) : Outbound :=
  { o with release := modifyFirst (fun e => e.id == id) (fun e => { e with state := .sent }) o.release }

/-- First statement of `arm_replay`: a queued keep-alive probe is dropped, it belongs to the
connection it was queued on. -/
def dropPingreq (o : Outbound) : Outbound :=
  { o with control := o.control.filter fun e => e.action.typ ≠ MT_PingReq }

/-- The rest of `arm_replay`. -/
def armReplay (o : Outbound) : Outbound :=
  if !o.hasPendingState then o else
  let o := o.markRetainedDup
  { o with
    control := o.control.map fun e => { e with state := .write 0 },
    retained := o.retained.map fun e => { e with state := .write 0 },
    release := o.release.map fun e => { e with state := .write 0 } }

/-- `arm_replay`. -/
def rearm (o : Outbound) : Outbound := o.dropPingreq.armReplay

/-- `encode_packet` / `encode_publish` common part: compact, encode into `buf[used..]`, and
return `(absolute offset, len)`. `enc cap` is the encoder applied to a buffer of `cap` bytes. -/
def encodeAt {ε} (o : Outbound) (enc : Nat → (Nat → Nat → Bytes) → Except ε (Nat × Bytes)) :
    Outbound × Except ε (Nat × Nat) :=
  let o := o.compact
  let start := o.used
  match enc (o.capacity - start) (fun idx n => slice o.buf (start + idx) n) with
  | .error e => (o, .error e)
  | .ok (off, pkt) => ({ o with buf := setRange o.buf (start + off) pkt }, .ok (start + off, pkt.length))

end Outbound

/-- `encode_control_packet` + size check of `serialize_control_packet`; the 9-byte stack buffer. -/
def encodeControl (a : ControlAction) : Except SerErr Bytes :=
  let chunks := if a.typ = MT_PingReq then [] else ackChunks a.id a.rc
  let flags := if a.typ = MT_PubAck then FLAGS_PubAck else if a.typ = MT_PubRec then FLAGS_PubRec
    else if a.typ = MT_PubComp then FLAGS_PubComp else FLAGS_PingReq
  (encodeWithOffset CONTROL_PACKET_LEN chunks a.typ flags).map (·.2)

def encodePubrel (id rc : Nat) : Except SerErr Bytes :=
  (encodeWithOffset CONTROL_PACKET_LEN (ackChunks id rc) MT_PubRel FLAGS_PubRel).map (·.2)

end Minimq
