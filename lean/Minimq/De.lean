import Minimq.Packets
/-
`src/de/deserializer.rs`, `src/de/received_packet.rs`: decoding one complete inbound packet.
All decode errors end up as `Error::Peer(PeerError::InvalidPacket)`, so the model has one error.
-/
namespace Minimq
open Gen

/-- `Reason` as decoded: absent, or a code with an optional raw property block. -/
structure ReasonIn where
  code : Option Nat            -- normalised through `ReasonCode::from`
  props : Option Bytes
  deriving Repr, DecidableEq, Inhabited

def ReasonIn.rc (r : ReasonIn) : Nat := r.code.getD RC_Success

inductive Recv where
  | connAck (sessionPresent : Bool) (rc : Nat) (props : Bytes)
  | publish (topic : Bytes) (id : Option Nat) (props : Bytes) (payload : Bytes)
            (retain : Bool) (qos : Nat) (dup : Bool)
  | pubAck (id : Nat) (r : ReasonIn)
  | pubRec (id : Nat) (r : ReasonIn)
  | pubRel (id : Nat) (r : ReasonIn)
  | pubComp (id : Nat) (r : ReasonIn)
  | subAck (id : Nat) (props : Bytes) (codes : Bytes)
  | unsubAck (id : Nat) (props : Bytes) (codes : Bytes)
  | disconnect (rc : Option Nat) (props : Option Bytes)
  | pingResp
  deriving Repr, DecidableEq, Inhabited

/-- `deserialize_seq` used for `Properties`: varint length, then exactly that many bytes. -/
def readPropBlock (bs : Bytes) : Option (Bytes × Bytes) :=
  match decodeVarint bs with
  | none => none
  | some (n, r) => takeN r n

/-- `Reason` (`Option<ReasonData>` with `Option<Properties>` inside). -/
def readReason (bs : Bytes) : Option (ReasonIn × Bytes) :=
  match bs with
  | [] => some ({ code := none, props := none }, [])
  | c :: r =>
    match r with
    | [] => some ({ code := some (normReason c.toNat), props := none }, [])
    | _ :: _ =>
      match readPropBlock r with
      | none => none
      | some (blk, r') => some ({ code := some (normReason c.toNat), props := some blk }, r')

def readAck (bs : Bytes) : Option (Nat × ReasonIn × Bytes) :=
  match readU16 bs with
  | none => none
  | some (id, r) =>
    match readReason r with
    | none => none
    | some (rs, r') => some (id, rs, r')

/-- The body of a packet, after the fixed header byte and the remaining-length varint.
Returns the packet and the undecoded remainder. -/
def readBody (typ : Nat) (hdr : UInt8) (bs : Bytes) : Option (Recv × Bytes) :=
  if typ = MT_ConnAck then
    match bs with
    | sp :: rc :: r =>
      if sp.toNat > 1 then none else
      match readPropBlock r with
      | none => none
      | some (blk, r') => some (.connAck (sp.toNat = 1) (normReason rc.toNat) blk, r')
    | _ => none
  else if typ = MT_Publish then
    let qos := hdr.toNat / 2 % 4
    if qos = 3 then none else
    match readStr bs with
    | none => none
    | some (topic, r) =>
      let idr : Option (Option Nat × Bytes) :=
        if qos > 0 then (readU16 r).map (fun (i, r1) => (some i, r1)) else some (none, r)
      match idr with
      | none => none
      | some (id, r1) =>
        match readPropBlock r1 with
        | none => none
        | some (blk, r2) =>
          some (.publish topic id blk [] (hdr.toNat % 2 = 1) qos (hdr.toNat / 8 % 2 = 1), r2)
  else if typ = MT_PubAck then (readAck bs).map fun (i, rs, r) => (.pubAck i rs, r)
  else if typ = MT_PubRec then (readAck bs).map fun (i, rs, r) => (.pubRec i rs, r)
  else if typ = MT_PubRel then (readAck bs).map fun (i, rs, r) => (.pubRel i rs, r)
  else if typ = MT_PubComp then (readAck bs).map fun (i, rs, r) => (.pubComp i rs, r)
  else if typ = MT_SubAck then
    match readU16 bs with
    | none => none
    | some (id, r) => (readPropBlock r).map fun (blk, r') => (.subAck id blk [], r')
  else if typ = MT_UnsubAck then
    match readU16 bs with
    | none => none
    | some (id, r) => (readPropBlock r).map fun (blk, r') => (.unsubAck id blk [], r')
  else if typ = MT_PingResp then some (.pingResp, bs)
  else if typ = MT_Disconnect then
    match bs with
    | [] => some (.disconnect none none, [])
    | c :: r =>
      match r with
      | [] => some (.disconnect (some (normReason c.toNat)) none, [])
      | _ :: _ => (readPropBlock r).map fun (blk, r') =>
          (.disconnect (some (normReason c.toNat)) (some blk), r')
  else none

/-- `ReceivedPacket::from_buffer`. -/
def fromBuffer (buf : Bytes) : Option Recv :=
  match buf with
  | [] => none
  | hdr :: r0 =>
    match decodeVarint r0 with
    | none => none
    | some (_, r1) =>
      let typ := hdr.toNat / 16
      let flags := hdr.toNat % 16
      -- `MessageType::try_from(fixed_header >> 4)`: 0 is not a message type
      if typ = 0 then none else
      let flagsOk := match inboundFlags typ with
        | none => true
        | some f => flags = f
      if !flagsOk then none else
      if !(inboundTypes.contains typ) then none else
      match readBody typ hdr r1 with
      | none => none
      | some (pkt, rest) =>
        if rest.isEmpty then some pkt else
        match pkt with
        | .publish t i p _ rt q d => some (.publish t i p rest rt q d)
        | .subAck i p _ => some (.subAck i p rest)
        | .unsubAck i p _ => some (.unsubAck i p rest)
        | _ => none

end Minimq
