import Minimq.Ops
/-
The directive language of PROTOCOL.md: parsing and the interpreter `World.exec`.
-/
namespace Minimq
open Gen

inductive Directive where
  | connect
  | publish (r : PubReq)
  | subscribe (r : SubReq)
  | unsubscribe (r : UnsubReq)
  | disconnect (d : Disconnect)
  | poll | recv | drive
  | d (n : Nat)
  | go
  | tick (us : Nat)
  | rx (bytes : Bytes)
  | cancel
  | drop
  | setpid (n : Nat)
  | decode (bytes : Bytes)
  | bad
  deriving Repr, Inhabited

def parseStr (s : String) : Option Bytes :=
  match unhex s with
  | some bs => if validUtf8 bs then some bs else none
  | none => none

def parseBit (s : String) : Option Bool :=
  if s == "0" then some false else if s == "1" then some true else none

def parsePayload (s : String) : Option Payload :=
  if s == "fail" then some .fail
  else if s.startsWith "lie:" then (s.drop 4).toString.toNat?.map Payload.lie
  else (unhex s).map Payload.bytes

def parseFilter (s : String) : Option TopicFilter :=
  match s.splitOn "/" with
  | [t, q, nl, rap, rh] =>
    match parseStr t, q.toNat?, parseBit nl, parseBit rap, rh.toNat? with
    | some t, some q, some nl, some rap, some rh =>
      if q ≤ 2 && rh ≤ 2 then some { topic := t, opts := { maxQos := q, noLocal := nl, rap := rap, rh := rh } }
      else none
    | _, _, _, _, _ => none
  | _ => none

def allSome {α} : List (Option α) → Option (List α)
  | [] => some []
  | none :: _ => none
  | some x :: xs => (allSome xs).map (x :: ·)

def parsePublish (args : List String) : Option PubReq :=
  match args with
  | q :: r :: t :: pl :: ps :: extra =>
    match q.toNat?, parseBit r, parseStr t, parsePayload pl, parseProps ps with
    | some q, some r, some t, some pl, some ps =>
      if q > 2 then none else
      if !(ps.all Property.wf) then none else
      let c1 := extra.find? (·.startsWith "c1=")
      let c2 := extra.find? (·.startsWith "c2=")
      let shapeOk := match extra with
        | [] => true
        | [a] => a.startsWith "c1=" || a.startsWith "c2="
        | [a, c] => a.startsWith "c1=" && c.startsWith "c2="
        | _ => false
      if !shapeOk then none else
      let p0 : Option Properties := match c1 with
        | some s => (unhex (s.drop 3).toString).map fun bs => (Properties.slice []).withCorrelationData bs
        | none => some (Properties.slice [])
      match p0 with
      | none => none
      | some p0 =>
        let p1 := p0.withProperties ps
        let p2 : Option Properties := match c2 with
          | some s => (unhex (s.drop 3).toString).map fun bs => p1.withCorrelationData bs
          | none => some p1
        p2.map fun p2 => { qos := q, retain := r, topic := t, payload := pl, props := p2 }
    | _, _, _, _, _ => none
  | _ => none

/-- Strip trailing blanks; split on single spaces (an empty token makes the line `bad-op`). -/
def tokens (line : String) : List String :=
  (String.ofList (line.toList.reverse.dropWhile (fun c => c == ' ' || c == '\t' || c == '\r' || c == '\n')).reverse).splitOn " "

def parseDirective (line : String) : Directive :=
  match tokens line with
  | ["connect"] => .connect
  | "publish" :: args =>
    (match parsePublish args with
     | some r => .publish r
     | none => .bad)
  | "subscribe" :: ps :: filters =>
    (match parseProps ps, allSome (filters.map parseFilter) with
     | some ps, some fs => if ps.all Property.wf then .subscribe { props := ps, topics := fs } else .bad
     | _, _ => .bad)
  | "unsubscribe" :: ps :: topics =>
    (match parseProps ps, allSome (topics.map parseStr) with
     | some ps, some ts => if ps.all Property.wf then .unsubscribe { props := ps, topics := ts } else .bad
     | _, _ => .bad)
  | ["disconnect", rc, ps] =>
    let rcv : Option (Option Nat) :=
      if rc == "none" then some none else
      match unhex rc with
      | some [x] => some (some (normReason x.toNat))
      | _ => none
    let psv : Option (Option (List Property)) :=
      if ps == "none" then some none else (parseProps ps).map some
    (match rcv, psv with
     | some rcv, some psv =>
       if (psv.getD []).all Property.wf then .disconnect (Disconnect.build rcv psv) else .bad
     | _, _ => .bad)
  | ["poll"] => .poll
  | ["recv"] => .recv
  | ["drive"] => .drive
  | ["d", n] =>
    (match n.toNat? with
     | some n => if n = 0 || n > 255 then .bad else .d n
     | none => .bad)
  | ["go"] => .go
  | ["tick", n] =>
    (match n.toNat? with
     | some n => if n < 18446744073709551616 then .tick n else .bad
     | none => .bad)
  | ["rx", h] =>
    (match unhex h with
     | some bs => .rx bs
     | none => .bad)
  | ["cancel"] => .cancel
  | ["drop"] => .drop
  | ["setpid", n] =>
    (match n.toNat? with
     | some n => if n = 0 || n > 65535 then .bad else .setpid n
     | none => .bad)
  | ["decode", h] =>
    (match unhex h with
     | some bs => .decode bs
     | none => .bad)
  | _ => .bad

/-- Header line `cfg …`. -/
def parseCfg (line : String) : Option Cfg :=
  match tokens line with
  | ["cfg", rx, tx, ka, exp, dg, cid, auth, will] =>
    let field (s pre : String) : Option String := if s.startsWith pre then some (s.drop pre.length).toString else none
    match field rx "rx=", field tx "tx=", field ka "ka=", field exp "exp=", field dg "dg=", field cid "cid=",
          field auth "auth=", field will "will=" with
    | some rx, some tx, some ka, some exp, some dg, some cid, some auth, some will =>
      match rx.toNat?, tx.toNat?, ka.toNat?, exp.toNat?, parseBit dg, parseStr cid with
      | some rx, some tx, some ka, some exp, some dg, some cid =>
        if ka > 65535 || exp ≥ 4294967296 || cid.length > CLIENT_ID_CAPACITY then none else
        let authv : Option (Option Auth) :=
          if auth == "none" then some none else
          match auth.splitOn "/" with
          | [u, p] =>
            (match parseStr u, unhex p with
             | some u, some p => some (some { user := u, pass := p })
             | _, _ => none)
          | _ => none
        let willv : Option (Option Will) :=
          if will == "none" then some none else
          match will.splitOn "/" with
          | t :: pl :: q :: r :: rest =>
            -- the property list may itself contain '/', so it is everything after the 4th '/'
            let ps := joinWith "/" rest
            (match parseStr t, unhex pl, q.toNat?, parseBit r, parseProps ps with
             | some t, some pl, some q, some r, some ps =>
               if q > 2 || t.length > WILL_TOPIC_CAPACITY || !(ps.all Property.wf) then none
               else some (some { topic := t, data := pl, qos := q, retained := r, props := ps })
             | _, _, _, _, _ => none)
          | _ => none
        match authv, willv with
        | some a, some wl =>
          some { rx := rx, tx := tx, keepaliveS := ka, expiry := exp, downgrade := dg, clientId := cid, auth := a, will := wl }
        | _, _ => none
      | _, _, _, _, _, _ => none
    | _, _, _, _, _, _, _, _ => none
  | _ => none

/-- `verif::decode`. -/
def decodeLine (bs : Bytes) : String :=
  let props : Option Bytes → String := fun
    | some blk => hex blk
    | none => "none"
  let reason (r : ReasonIn) : String :=
    match r.code with
    | none => " rc=none props=none"
    | some c => s!" rc={hex2 c} props={props r.props}"
  "dec " ++
  match fromBuffer bs with
  | none => "err"
  | some (.connAck sp rc blk) => s!"connack sp={if sp then 1 else 0} rc={hex2 rc} props={hex blk}"
  | some (.publish t id blk pl rt q dup) =>
    s!"publish topic={hex t} id={match id with | some i => toString i | none => "none"} qos={q} retain={if rt then 1 else 0} dup={if dup then 1 else 0} props={hex blk} payload={hex pl}"
  | some (.pubAck i r) => s!"puback id={i}" ++ reason r
  | some (.pubRec i r) => s!"pubrec id={i}" ++ reason r
  | some (.pubRel i r) => s!"pubrel id={i}" ++ reason r
  | some (.pubComp i r) => s!"pubcomp id={i}" ++ reason r
  | some (.subAck i blk codes) => s!"suback id={i} props={hex blk} codes={hex codes}"
  | some (.unsubAck i blk codes) => s!"unsuback id={i} props={hex blk} codes={hex codes}"
  | some (.disconnect rc blk) => s!"disconnect rc={hex2 (rc.getD RC_Success)} props={props blk}"
  | some .pingResp => "pingresp"

namespace World

/-- Ghost: dropping a future suspended at this await point leaves a packet half-written (the
operation-local `write_all` of CONNECT, QoS 0 PUBLISH, DISCONNECT). -/
def tearsPacket : Option Pc → Bool
  | some (.connWrite _) => true
  | some (.q0Write _) => true
  | some (.discWrite _) => true
  | _ => false

/-- Ghost: `tornNets` after the suspended future (if any) has been dropped. -/
def tornAfterDrop (w : World) : List Nat :=
  if tearsPacket w.fut then w.nets.length :: w.tornNets else w.tornNets

def cancelFut (w : World) : World :=
  if w.fut.isSome then
    -- `tornNets` is ghost: it remembers that the current transport may now carry a torn packet
    { (w.emit "cancel") with fut := none, tornNets := w.tornAfterDrop }
  else w

def dropConn (w : World) : World :=
  let w := w.cancelFut
  if w.conn.isSome then { (w.emit "drop") with conn := none } else w

/-- `Session::connect` up to its first await. -/
def startConnect (w : World) : World :=
  let w := w.dropConn
  let w := { w with nets := w.nets ++ [({ } : Net)] }
  let w := w.emit s!"net {w.netIdx} open"
  let w := { w with sess := w.sess.beginConnect, wakes := 0, lastIoStarved := false }
  let c : Connect := w.sess.connectPacket
  let (s2, res) := w.sess.encode (fun cap _ => encodeConnect cap c)
  let w := { w with sess := s2 }
  match res with
  | .error e => w.finishErr "connect" (Err.ofSer e)
  | .ok (off, len) => doLocalWrite pollFuel w 0 (w.sess.data.outbound.retainedPacket off len)

def startOp (w : World) (name : String) (body : World → World) : World :=
  if w.conn.isNone then w.emit s!"ret {name} err NoConnection" else
  let w := w.cancelFut
  body { w with wakes := 0, lastIoStarved := false }

def goLoop : Nat → World → World
  | 0, w => w.emit "spin"
  | n + 1, w =>
    let w := poll { w with slot := some 250 }
    let w := { w with slot := none }
    if w.fut.isNone then w
    else if w.wakes ≥ 64 then w
    else if w.lastIoStarved then w
    else goLoop n w

def execDirective (w : World) (d : Directive) : World :=
  match d with
  | .bad => w.emit "bad-op"
  | .connect => w.startConnect
  | .publish r =>
    w.startOp "publish" fun w =>
      if !w.live then w.finishErr "publish" .disconnected else flushLoop pollFuel w (.publishPre r)
  | .subscribe r =>
    w.startOp "subscribe" fun w =>
      if !w.live then w.finishErr "subscribe" .disconnected
      else if r.topics.isEmpty then w.finishErr "subscribe" .invalidRequest
      else if !(Properties.slice r.props).validFor .Subscribe then w.finishErr "subscribe" .invalidRequest
      else flushLoop pollFuel w (.subPre r)
  | .unsubscribe r =>
    w.startOp "unsubscribe" fun w =>
      if !w.live then w.finishErr "unsubscribe" .disconnected
      else if r.topics.isEmpty then w.finishErr "unsubscribe" .invalidRequest
      else if !(Properties.slice r.props).validFor .Unsubscribe then w.finishErr "unsubscribe" .invalidRequest
      else flushLoop pollFuel w (.unsubPre r)
  | .disconnect d =>
    w.startOp "disconnect" fun w =>
      if !w.live then w.finish "ret disconnect ok"
      else
        let bad := match d.props with
          | some ps => !(Properties.slice ps).validFor .Disconnect
          | none => false
        if bad then w.finishErr "disconnect" .invalidRequest
        else flushLoop pollFuel w (.discPre d)
  | .poll => w.startOp "poll" fun w => driveEnter pollFuel w .poll
  | .recv => w.startOp "recv" fun w => driveEnter pollFuel w .recv
  | .drive => w.startOp "drive" fun w => driveEnter pollFuel w .drive
  | .d n =>
    if w.fut.isNone then w.emit "bad-op" else
    let w := poll { w with slot := some n }
    { w with slot := none }
  | .go => if w.fut.isNone then w.emit "bad-op" else goLoop 10000 w
  | .tick us =>
    if w.now + us > 4611686018427387904 then w.emit "bad-op" else
    let w := { w with now := w.now + us }
    if w.fut.isSome then poll w else w
  | .rx bytes =>
    if w.nets.isEmpty then w.emit "bad-op" else
    let net := w.curNet
    w.setCurNet { net with rx := net.rx ++ bytes }
  | .cancel => w.cancelFut
  | .drop => w.dropConn
  | .setpid n =>
    if w.fut.isSome || n = 0 || n > 65535 then w.emit "bad-op"
    else { w with sess := w.sess.setPid n }
  | .decode bs => w.emit (decodeLine bs)

def exec (w : World) (line : String) : World :=
  (w.execDirective (parseDirective line)).emitState

end World

def isComment (line : String) : Bool :=
  let t := line.trimAscii.toString
  t.isEmpty || t.startsWith "#"

/-- Run a whole program text; returns the trace lines in order. -/
def runProgram (text : String) : List String :=
  let lines := (text.splitOn "\n").filter (fun l => !isComment l)
  match lines with
  | [] => ["bad-cfg"]
  | hd :: rest =>
    match parseCfg hd with
    | none => ["bad-cfg"]
    | some cfg =>
      -- `Will::new` validation
      let willOk := match cfg.will with
        | some wl => wl.props.all (fun p => p.validFor .Will)
        | none => true
      if !willOk then ["cfgerr InvalidConfig"] else
      let w0 : World := { sess := Session.new cfg }
      (rest.foldl World.exec w0).out.reverse

end Minimq
