import Minimq.Bytes
import Minimq.Generated
/-
`src/varint.rs`: MQTT variable byte integers.
-/
namespace Minimq

/-- `Varint::encoded_len`: regenerated from the source (`Gen.varintLen`). -/
def varintLen (n : Nat) : Nat := Gen.varintLen n

/-- `write_mqtt_u32_varint` for `n ≤ MQTT_VARINT_MAX` (the caller checks the bound). -/
def encodeVarint (n : Nat) : Bytes :=
  if n < 128 then [b n]
  else if n < 16384 then [b (n % 128 + 128), b (n / 128)]
  else if n < 2097152 then [b (n % 128 + 128), b (n / 128 % 128 + 128), b (n / 16384)]
  else [b (n % 128 + 128), b (n / 128 % 128 + 128), b (n / 16384 % 128 + 128), b (n / 2097152 % 128)]

/-- `write_mqtt_u32_varint`: fails above `MQTT_VARINT_MAX`. -/
def writeVarint (n : Nat) : Option Bytes :=
  if n > Gen.MQTT_VARINT_MAX then none else some (encodeVarint n)

/-- `read_mqtt_u32_varint`: canonical decode, at most four bytes. Returns value and rest. -/
def decodeVarint : Bytes → Option (Nat × Bytes)
  | [] => none
  | b0 :: r0 =>
    if b0.toNat < 128 then some (b0.toNat, r0) else
    match r0 with
    | [] => none
    | b1 :: r1 =>
      if b1.toNat < 128 then
        (if b1.toNat = 0 then none else some (b0.toNat % 128 + b1.toNat * 128, r1))
      else
      match r1 with
      | [] => none
      | b2 :: r2 =>
        if b2.toNat < 128 then
          (if b2.toNat = 0 then none
           else some (b0.toNat % 128 + (b1.toNat % 128) * 128 + b2.toNat * 16384, r2))
        else
        match r2 with
        | [] => none
        | b3 :: r3 =>
          if b3.toNat < 128 then
            (if b3.toNat = 0 then none
             else some (b0.toNat % 128 + (b1.toNat % 128) * 128 + (b2.toNat % 128) * 16384
                        + b3.toNat * 2097152, r3))
          else none

end Minimq
