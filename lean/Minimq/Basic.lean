def hello := "world"
