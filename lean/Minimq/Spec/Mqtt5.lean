import Minimq.Bytes
import Minimq.Utf8
/-
Independent MQTT 5.0 reference for the packets a client may send (OASIS Standard, sections 2 and 3),
written from the specification. It shares with the model only `Bytes` and the UTF-8 predicate.
It does not use the model's varint codec, property tables or decoder.
-/
namespace Minimq.Spec

/-- Variable byte integer (spec 1.5.5): at most four bytes, no padding of the value with a
zero final group. Returns the value and the rest. -/
def varint : Bytes → Option (Nat × Bytes)
  | a :: r =>
    if a.toNat < 128 then some (a.toNat, r) else
    match r with
    | c :: r =>
      if c.toNat < 128 then (if c.toNat = 0 then none else some (a.toNat - 128 + 128 * c.toNat, r)) else
      match r with
      | d :: r =>
        if d.toNat < 128 then
          (if d.toNat = 0 then none else some (a.toNat - 128 + 128 * (c.toNat - 128) + 16384 * d.toNat, r))
        else
        match r with
        | e :: r =>
          if e.toNat < 128 then
            (if e.toNat = 0 then none
             else some (a.toNat - 128 + 128 * (c.toNat - 128) + 16384 * (d.toNat - 128) + 2097152 * e.toNat, r))
          else none
        | [] => none
      | [] => none
    | [] => none
  | [] => none

def u16 : Bytes → Option (Nat × Bytes)
  | hi :: lo :: r => some (hi.toNat * 256 + lo.toNat, r)
  | _ => none

def u32 : Bytes → Option (Nat × Bytes)
  | a :: c :: d :: e :: r => some (((a.toNat * 256 + c.toNat) * 256 + d.toNat) * 256 + e.toNat, r)
  | _ => none

def take (n : Nat) (bs : Bytes) : Option (Bytes × Bytes) :=
  if n ≤ bs.length then some (bs.take n, bs.drop n) else none

/-- Binary data (1.5.6). -/
def bin (bs : Bytes) : Option (Bytes × Bytes) :=
  match u16 bs with
  | some (n, r) => take n r
  | none => none

/-- UTF-8 encoded string (1.5.4): length-prefixed, well-formed UTF-8. -/
def str (bs : Bytes) : Option (Bytes × Bytes) :=
  match bin bs with
  | some (s, r) => if validUtf8 s then some (s, r) else none
  | none => none

inductive Val where
  | byte (v : Nat) | two (v : Nat) | four (v : Nat) | var (v : Nat)
  | str (s : Bytes) | bin (s : Bytes) | pair (k v : Bytes)
  deriving DecidableEq, Repr, Inhabited

structure Prop' where
  id : Nat
  val : Val
  deriving DecidableEq, Repr, Inhabited

inductive Ty where
  | byte | two | four | var | str | bin | pair
  deriving DecidableEq, Repr

/-- Table 2-4, column "Type". -/
def propType : Nat → Option Ty
  | 0x01 => some .byte | 0x02 => some .four | 0x03 => some .str | 0x08 => some .str
  | 0x09 => some .bin | 0x0B => some .var | 0x11 => some .four | 0x12 => some .str
  | 0x13 => some .two | 0x15 => some .str | 0x16 => some .bin | 0x17 => some .byte
  | 0x18 => some .four | 0x19 => some .byte | 0x1A => some .str | 0x1C => some .str
  | 0x1F => some .str | 0x21 => some .two | 0x22 => some .two | 0x23 => some .two
  | 0x24 => some .byte | 0x25 => some .byte | 0x26 => some .pair | 0x27 => some .four
  | 0x28 => some .byte | 0x29 => some .byte | 0x2A => some .byte
  | _ => none

/-- Packet contexts in which a client may place properties. -/
inductive Where where
  | connect | will | publish | puback | subscribe | unsubscribe | disconnect
  deriving DecidableEq, Repr

/-- Table 2-4, column "Packet / Will Properties", restricted to what a client sends. -/
def allowedIn : Where → Nat → Bool
  | .connect, id => [0x11, 0x15, 0x16, 0x17, 0x19, 0x21, 0x22, 0x26, 0x27].contains id
  | .will, id => [0x01, 0x02, 0x03, 0x08, 0x09, 0x18, 0x26].contains id
  | .publish, id => [0x01, 0x02, 0x03, 0x08, 0x09, 0x23, 0x26].contains id
  | .puback, id => [0x1F, 0x26].contains id
  | .subscribe, id => [0x0B, 0x26].contains id
  | .unsubscribe, id => [0x26].contains id
  | .disconnect, id => [0x11, 0x1C, 0x1F, 0x26].contains id

/-- Value restrictions the specification places on a property. -/
def legalValue (id v : Nat) : Bool :=
  if [0x01, 0x17, 0x19, 0x25, 0x28, 0x29, 0x2A].contains id then v ≤ 1
  else if id = 0x24 then v ≤ 1
  else if id = 0x23 then v ≠ 0
  else if id = 0x0B then 1 ≤ v && v ≤ 268435455
  else if id = 0x21 then v ≠ 0
  else if id = 0x27 then v ≠ 0
  else true

def Val.num : Val → Nat
  | .byte v | .two v | .four v | .var v => v
  | _ => 0

def oneProp (bs : Bytes) : Option (Prop' × Bytes) :=
  match varint bs with
  | none => none
  | some (id, r) =>
    match propType id with
    | none => none
    | some .byte => (match r with
        | x :: r => some ({ id := id, val := .byte x.toNat }, r)
        | [] => none)
    | some .two => (u16 r).map fun (v, r) => ({ id := id, val := .two v }, r)
    | some .four => (u32 r).map fun (v, r) => ({ id := id, val := .four v }, r)
    | some .var => (varint r).map fun (v, r) => ({ id := id, val := .var v }, r)
    | some .str => (str r).map fun (s, r) => ({ id := id, val := .str s }, r)
    | some .bin => (bin r).map fun (s, r) => ({ id := id, val := .bin s }, r)
    | some .pair =>
      match str r with
      | none => none
      | some (k, r) => (str r).map fun (v, r) => ({ id := id, val := .pair k v }, r)

def propsFuel : Nat → Bytes → Option (List Prop')
  | _, [] => some []
  | 0, _ => none
  | fuel + 1, bs =>
    match oneProp bs with
    | none => none
    | some (p, r) => (propsFuel fuel r).map (p :: ·)

/-- A property block: length, then properties filling exactly that length; every property allowed
in this context with a legal value. -/
def props (w : Where) (bs : Bytes) : Option (List Prop' × Bytes) :=
  match varint bs with
  | none => none
  | some (n, r) =>
    match take n r with
    | none => none
    | some (block, rest) =>
      match propsFuel block.length block with
      | none => none
      | some ps =>
        if ps.all (fun p => allowedIn w p.id && legalValue p.id p.val.num) then some (ps, rest) else none

structure Will where
  props : List Prop'
  topic : Bytes
  payload : Bytes
  qos : Nat
  retain : Bool
  deriving DecidableEq, Repr, Inhabited

structure Filter where
  topic : Bytes
  maxQos : Nat
  noLocal : Bool
  rap : Bool
  rh : Nat
  deriving DecidableEq, Repr, Inhabited

inductive ClientPacket where
  | connect (cleanStart : Bool) (keepalive : Nat) (props : List Prop') (clientId : Bytes)
      (will : Option Will) (user : Option Bytes) (pass : Option Bytes)
  | publish (dup : Bool) (qos : Nat) (retain : Bool) (topic : Bytes) (id : Option Nat)
      (props : List Prop') (payload : Bytes)
  | ack (typ : Nat) (id : Nat) (rc : Nat) (props : List Prop')     -- PUBACK 4, PUBREC 5, PUBREL 6, PUBCOMP 7
  | subscribe (id : Nat) (props : List Prop') (filters : List Filter)
  | unsubscribe (id : Nat) (props : List Prop') (topics : List Bytes)
  | pingreq
  | disconnect (rc : Nat) (props : List Prop')
  deriving DecidableEq, Repr, Inhabited

def filtersFuel : Nat → Bytes → Option (List Filter)
  | _, [] => some []
  | 0, _ => none
  | fuel + 1, bs =>
    match str bs with
    | none => none
    | some (t, r) =>
      match r with
      | [] => none
      | o :: r =>
        let v := o.toNat
        if v ≥ 64 || v % 4 = 3 || v / 16 % 4 = 3 then none else
        (filtersFuel fuel r).map ({ topic := t, maxQos := v % 4, noLocal := v / 4 % 2 = 1, rap := v / 8 % 2 = 1, rh := v / 16 % 4 } :: ·)

def topicsFuel : Nat → Bytes → Option (List Bytes)
  | _, [] => some []
  | 0, _ => none
  | fuel + 1, bs =>
    match str bs with
    | none => none
    | some (t, r) => (topicsFuel fuel r).map (t :: ·)

/-- The variable header and payload of a packet of type `typ` with flags `flags`; must consume
`body` exactly. -/
def parseBody (typ flags : Nat) (body : Bytes) : Option ClientPacket :=
  if typ = 3 then
    let qos := flags / 2 % 4
    let dup := flags / 8 % 2 = 1
    if qos = 3 || (dup && qos = 0) then none else
    match str body with
    | none => none
    | some (topic, r) =>
      let idr : Option (Option Nat × Bytes) :=
        if qos = 0 then some (none, r) else
        match u16 r with
        | some (i, r) => if i = 0 then none else some (some i, r)
        | none => none
      match idr with
      | none => none
      | some (id, r) =>
        match props .publish r with
        | none => none
        | some (ps, payload) => some (.publish dup qos (flags % 2 = 1) topic id ps payload)
  else if typ = 1 then
    if flags ≠ 0 then none else
    match bin body with
    | none => none
    | some (name, r) =>
      if name ≠ [0x4d, 0x51, 0x54, 0x54] then none else
      match r with
      | ver :: cf :: r =>
        if ver.toNat ≠ 5 then none else
        let f := cf.toNat
        if f % 2 = 1 then none else
        let willFlag := f / 4 % 2 = 1
        let willQos := f / 8 % 4
        let willRetain := f / 32 % 2 = 1
        if (!willFlag && (willQos ≠ 0 || willRetain)) || willQos = 3 then none else
        match u16 r with
        | none => none
        | some (ka, r) =>
          match props .connect r with
          | none => none
          | some (ps, r) =>
            match str r with
            | none => none
            | some (cid, r) =>
              let wr : Option (Option Will × Bytes) :=
                if willFlag then
                  match props .will r with
                  | none => none
                  | some (wps, r) =>
                    match str r with
                    | none => none
                    | some (wt, r) =>
                      match bin r with
                      | none => none
                      | some (wd, r) => some (some { props := wps, topic := wt, payload := wd, qos := willQos, retain := willRetain }, r)
                else some (none, r)
              match wr with
              | none => none
              | some (will, r) =>
                let ur : Option (Option Bytes × Bytes) :=
                  if f / 128 % 2 = 1 then (str r).map fun (u, r) => (some u, r) else some (none, r)
                match ur with
                | none => none
                | some (user, r) =>
                  let pr : Option (Option Bytes × Bytes) :=
                    if f / 64 % 2 = 1 then (bin r).map fun (p, r) => (some p, r) else some (none, r)
                  match pr with
                  | none => none
                  | some (pass, r) =>
                    if r.isEmpty then some (.connect (f / 2 % 2 = 1) ka ps cid will user pass) else none
      | _ => none
  else if typ = 4 || typ = 5 || typ = 6 || typ = 7 then
    if flags ≠ (if typ = 6 then 2 else 0) then none else
    match u16 body with
    | none => none
    | some (id, r) =>
      if id = 0 then none else
      match r with
      | [] => some (.ack typ id 0 [])
      | rc :: r =>
        match r with
        | [] => some (.ack typ id rc.toNat [])
        | _ :: _ =>
          match props .puback r with
          | some (ps, []) => some (.ack typ id rc.toNat ps)
          | _ => none
  else if typ = 8 then
    if flags ≠ 2 then none else
    match u16 body with
    | none => none
    | some (id, r) =>
      if id = 0 then none else
      match props .subscribe r with
      | none => none
      | some (ps, r) =>
        match filtersFuel r.length r with
        | some (f :: fs) => some (.subscribe id ps (f :: fs))
        | _ => none
  else if typ = 10 then
    if flags ≠ 2 then none else
    match u16 body with
    | none => none
    | some (id, r) =>
      if id = 0 then none else
      match props .unsubscribe r with
      | none => none
      | some (ps, r) =>
        match topicsFuel r.length r with
        | some (t :: ts) => some (.unsubscribe id ps (t :: ts))
        | _ => none
  else if typ = 12 then
    if flags = 0 && body.isEmpty then some .pingreq else none
  else if typ = 14 then
    if flags ≠ 0 then none else
    match body with
    | [] => some (.disconnect 0 [])
    | rc :: r =>
      match r with
      | [] => some (.disconnect rc.toNat [])
      | _ :: _ =>
        match props .disconnect r with
        | some (ps, []) => some (.disconnect rc.toNat ps)
        | _ => none
  else none

/-- One complete client packet at the head of `bs`: fixed header, remaining length, body of exactly
that length. Returns the packet and what follows it. -/
def parseClientPacket (bs : Bytes) : Option (ClientPacket × Bytes) :=
  match bs with
  | [] => none
  | h :: r =>
    match varint r with
    | none => none
    | some (len, r) =>
      match take len r with
      | none => none
      | some (body, rest) => (parseBody (h.toNat / 16) (h.toNat % 16) body).map fun p => (p, rest)

end Minimq.Spec
