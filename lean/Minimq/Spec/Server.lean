import Minimq.Bytes
import Minimq.Utf8
/-
Independent MQTT 5.0 reference for the packets a broker may send to a client that never asked for
enhanced authentication (so no AUTH) — OASIS Standard, sections 2 and 3 —, written from the
specification. It shares with the model only `Bytes` and the UTF-8 predicate; it does not use the
model's varint codec or decoder.

Property blocks are opaque here: a byte string sent behind its variable-byte-integer length. (The
client decodes the inside lazily; what it does with it is a separate subject.)
-/
namespace Minimq.Spec

/-- One byte; callers guarantee `n < 256`. -/
def byte (n : Nat) : UInt8 := UInt8.ofNat n

/-- Two Byte Integer (1.5.2), big-endian; callers guarantee `n < 65536`. -/
def encU16 (n : Nat) : Bytes := [byte (n / 256), byte (n % 256)]

/-- The encoding algorithm of 1.5.5: seven bits per byte, least significant group first, the top
bit says "more follow"; `fuel` bounds the number of bytes. -/
def encVarintFuel : Nat → Nat → Bytes
  | 0, _ => []
  | fuel + 1, n =>
    if n < 128 then [byte n] else byte (n % 128 + 128) :: encVarintFuel fuel (n / 128)

/-- Variable Byte Integer (1.5.5): at most four bytes, so `n ≤ 268 435 455`. -/
def encVarint (n : Nat) : Bytes := encVarintFuel 4 n

/-- UTF-8 Encoded String (1.5.4) / Binary Data (1.5.6): two-byte length, then the bytes. -/
def encStr (s : Bytes) : Bytes := encU16 s.length ++ s

/-- A property block (2.2.2): Property Length as a Variable Byte Integer, then the properties. -/
def encProps (block : Bytes) : Bytes := encVarint block.length ++ block

/-- What follows the packet identifier in PUBACK / PUBREC / PUBREL / PUBCOMP (3.4.2.1: "The Reason
Code and Property Length can be omitted if the Reason Code is 0x00 (Success) and there are no
Properties. In this case the [packet] has a Remaining Length of 2"; 3.4.2.2.1: "If the Remaining
Length is less than 4 there is no Property Length"), and the whole variable header of DISCONNECT
(3.14.2.1, 3.14.2.2.1: the same with Remaining Length 0 / less than 2). -/
inductive Tail where
  /-- nothing: reason Success, no properties -/
  | none
  /-- the reason code only -/
  | reason (rc : Nat)
  /-- reason code, property length, properties -/
  | full (rc : Nat) (props : Bytes)
  deriving DecidableEq, Repr

def Tail.enc : Tail → Bytes
  | .none => []
  | .reason rc => [byte rc]
  | .full rc props => byte rc :: encProps props

def Tail.wf : Tail → Bool
  | .none => true
  | .reason rc => rc < 256
  | .full rc _ => rc < 256

inductive AckKind where
  | pubAck | pubRec | pubRel | pubComp
  deriving DecidableEq, Repr

/-- Packet type (Table 2-1). -/
def AckKind.type : AckKind → Nat
  | .pubAck => 4 | .pubRec => 5 | .pubRel => 6 | .pubComp => 7

/-- Fixed-header flags (Table 2-2): PUBREL has the reserved value 0010, the others 0000. -/
def AckKind.flags : AckKind → Nat
  | .pubRel => 2
  | _ => 0

/-- The control packets a server sends to a client. -/
inductive ServerPacket where
  /-- 3.2: Connect Acknowledge Flags (bit 0 = Session Present), Connect Reason Code, properties -/
  | connAck (sessionPresent : Bool) (reason : Nat) (props : Bytes)
  /-- 3.3: DUP, QoS and RETAIN in the fixed header; Topic Name, Packet Identifier (only if
  QoS > 0), properties; the payload is the rest of the packet -/
  | publish (topic : Bytes) (qos : Nat) (retain dup : Bool) (id : Option Nat) (props : Bytes)
      (payload : Bytes)
  /-- 3.4 – 3.7: Packet Identifier, then one of the three legal shapes -/
  | ack (kind : AckKind) (id : Nat) (tail : Tail)
  /-- 3.9: Packet Identifier, properties; the payload is the list of reason codes -/
  | subAck (id : Nat) (props : Bytes) (codes : Bytes)
  /-- 3.11: the same for UNSUBACK -/
  | unsubAck (id : Nat) (props : Bytes) (codes : Bytes)
  /-- 3.13: no variable header, no payload -/
  | pingResp
  /-- 3.14: one of the three legal shapes -/
  | disconnect (tail : Tail)
  deriving DecidableEq, Repr

open ServerPacket

/-- First byte of the fixed header (2.1.2, 2.1.3): type in the high nibble, flags in the low one.
PUBLISH: bit 3 DUP, bits 2-1 QoS, bit 0 RETAIN. -/
def firstByte : ServerPacket → UInt8
  | connAck .. => byte 0x20
  | publish _ qos retain dup .. =>
    byte (0x30 + (if dup then 8 else 0) + 2 * qos + (if retain then 1 else 0))
  | ack kind .. => byte (16 * kind.type + kind.flags)
  | subAck .. => byte 0x90
  | unsubAck .. => byte 0xB0
  | pingResp => byte 0xD0
  | disconnect _ => byte 0xE0

/-- Variable header and payload. -/
def body : ServerPacket → Bytes
  | connAck sp reason props => byte (if sp then 1 else 0) :: byte reason :: encProps props
  | publish topic _ _ _ id props payload =>
    encStr topic ++ (match id with
      | some i => encU16 i
      | none => []) ++ encProps props ++ payload
  | ack _ id tail => encU16 id ++ tail.enc
  | subAck id props codes => encU16 id ++ encProps props ++ codes
  | unsubAck id props codes => encU16 id ++ encProps props ++ codes
  | pingResp => []
  | disconnect tail => tail.enc

/-- The packet on the wire (2.1): fixed header = first byte and Remaining Length, then the rest. -/
def encodeServer (p : ServerPacket) : Bytes :=
  firstByte p :: (encVarint (body p).length ++ body p)

/-- The conditions under which `encodeServer` is the encoding of the packet described: every
number fits its field. `qos ≤ 2` (3.3.1.2: "A PUBLISH Packet MUST NOT have both QoS bits set to
1"); a Packet Identifier is present exactly when QoS > 0 (2.2.1); the Topic Name is a UTF-8
Encoded String (3.3.2.1). -/
def ServerPacket.wf (p : ServerPacket) : Bool :=
  decide ((body p).length ≤ 268435455) &&
  match p with
  | connAck _ reason _ => decide (reason < 256)
  | publish topic qos _ _ id _ _ =>
    decide (topic.length ≤ 65535) && validUtf8 topic && decide (qos ≤ 2) &&
    (match id with
     | some i => decide (0 < qos) && decide (i < 65536)
     | none => decide (qos = 0))
  | ack _ id tail => decide (id < 65536) && tail.wf
  | subAck id _ _ => decide (id < 65536)
  | unsubAck id _ _ => decide (id < 65536)
  | pingResp => true
  | disconnect tail => tail.wf

end Minimq.Spec
