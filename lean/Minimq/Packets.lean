import Minimq.Ser
/-
`src/packets.rs`, `src/wire.rs`, `src/types.rs`, `src/will.rs`: client packets and their encoders.
-/
namespace Minimq
open Gen

structure Will where
  topic : Bytes
  data : Bytes
  qos : Nat
  retained : Bool
  props : List Property
  deriving Repr, Inhabited

structure Auth where
  user : Bytes
  pass : Bytes
  deriving Repr, Inhabited

structure Connect where
  keepalive : Nat
  props : Properties
  clientId : Bytes
  auth : Option Auth
  will : Option Will
  cleanStart : Bool
  deriving Repr, Inhabited

def Connect.flags (c : Connect) : Nat :=
  (if c.cleanStart then 2 else 0)
  + (match c.will with
     | some w => 4 + w.qos * 8 + (if w.retained then 32 else 0)
     | none => 0)
  + (if c.auth.isSome then 64 + 128 else 0)

def Will.chunks (w : Will) : List (Except SerErr Bytes) :=
  (Properties.slice w.props).chunks ++ [lenPrefixed w.topic, lenPrefixed w.data]

def Connect.chunks (c : Connect) : List (Except SerErr Bytes) :=
  [lenPrefixed [0x4d, 0x51, 0x54, 0x54], .ok [5], .ok [b c.flags], .ok (u16be c.keepalive)]
  ++ c.props.chunks ++ [lenPrefixed c.clientId]
  ++ (match c.will with
      | some w => w.chunks
      | none => [])
  ++ (match c.auth with
      | some a => [lenPrefixed a.user, lenPrefixed a.pass]
      | none => [])

/-- `MqttSerializer::encode_with_offset` for a control packet given as chunks. -/
def encodeWithOffset (cap : Nat) (chunks : List (Except SerErr Bytes)) (typ flags : Nat) :
    Except SerErr (Nat × Bytes) :=
  match (W.new cap).pushAll chunks with
  | .error e => .error e
  | .ok w => w.finalize typ flags

/-- The three properties of every CONNECT (`connect_handshake`): Maximum Packet Size = size of the
receive buffer, Session Expiry Interval, Receive Maximum = capacity of the inbound QoS 2 id list. -/
def connectProps (rx expiry : Nat) : List Property :=
  [{ kind := .MaximumPacketSize, val := .n rx }, { kind := .SessionExpiryInterval, val := .n expiry },
   { kind := .ReceiveMaximum, val := .n MAX_INBOUND_QOS2 }]

def encodeConnect (cap : Nat) (c : Connect) : Except SerErr (Nat × Bytes) :=
  encodeWithOffset cap c.chunks MT_Connect FLAGS_Connect

/-- User-supplied payload (`ToPayload`). -/
inductive Payload where
  | bytes (bs : Bytes)
  | fail
  | lie (n : Nat)
  deriving Repr, Inhabited

structure PublishHeader where
  topic : Bytes
  packetId : Option Nat
  props : Properties
  retain : Bool
  qos : Nat
  dup : Bool
  deriving Repr, Inhabited

def PublishHeader.flags (h : PublishHeader) : Nat :=
  h.qos * 2 + (if h.retain then 1 else 0) + (if h.dup then 8 else 0)

def PublishHeader.chunks (h : PublishHeader) : List (Except SerErr Bytes) :=
  [lenPrefixed h.topic]
  ++ (match h.packetId with
      | some id => [.ok (u16be id)]
      | none => [])
  ++ h.props.chunks

inductive PubEncErr where
  | encode (e : SerErr)
  | payload
  deriving DecidableEq, Repr, Inhabited

/-- `encode_publish_with_offset`: header, then the payload serialised into the remainder, then
`commit`, then `finalize`. A `lie n` payload leaves the remainder as it was: `fill` supplies those
bytes (the arena content behind the header). -/
def encodePublishWithOffset (cap : Nat) (h : PublishHeader) (payload : Payload)
    (fill : Nat → Nat → Bytes := fun _ n => List.replicate n 0) :
    Except PubEncErr (Nat × Bytes) :=
  match (W.new cap).pushAll h.chunks with
  | .error e => .error (.encode e)
  | .ok w =>
    let room := w.cap - w.index
    match payload with
    | .fail => .error .payload
    | .bytes bs =>
      if room < bs.length then .error .payload
      else
        match ({ w with body := w.body ++ bs } : W).finalize MT_Publish h.flags with
        | .error e => .error (.encode e)
        | .ok r => .ok r
    | .lie n =>
      if room < n then .error (.encode .insufficientMemory)
      else
        match ({ w with body := w.body ++ fill w.index n } : W).finalize MT_Publish h.flags with
        | .error e => .error (.encode e)
        | .ok r => .ok r

structure SubOpts where
  maxQos : Nat
  noLocal : Bool
  rap : Bool
  rh : Nat
  deriving Repr, Inhabited, DecidableEq

def SubOpts.byte (o : SubOpts) : Nat :=
  o.maxQos % 4 + (if o.noLocal then 4 else 0) + (if o.rap then 8 else 0) + o.rh * 16

structure TopicFilter where
  topic : Bytes
  opts : SubOpts
  deriving Repr, Inhabited

def subscribeChunks (id : Nat) (props : Properties) (topics : List TopicFilter) :
    List (Except SerErr Bytes) :=
  [.ok (u16be id)] ++ props.chunks
  ++ topics.flatMap (fun t => [lenPrefixed t.topic, .ok [b t.opts.byte]])

def unsubscribeChunks (id : Nat) (props : Properties) (topics : List Bytes) :
    List (Except SerErr Bytes) :=
  [.ok (u16be id)] ++ props.chunks ++ topics.map lenPrefixed

/-- PUBACK / PUBREC / PUBREL / PUBCOMP built from `ReasonCode::into()`: id and reason code. -/
def ackChunks (id rc : Nat) : List (Except SerErr Bytes) := [.ok (u16be id), .ok [b rc]]

/-- `Disconnect`: optional reason code, optional property list. -/
structure Disconnect where
  reason : Option Nat
  props : Option (List Property)
  deriving Repr, Inhabited

def Disconnect.build (rc : Option Nat) (props : Option (List Property)) : Disconnect :=
  match props with
  | none => { reason := rc, props := none }
  | some ps => { reason := some (rc.getD RC_Success), props := some ps }

def Disconnect.chunks (d : Disconnect) : List (Except SerErr Bytes) :=
  (match d.reason with
   | some rc => [.ok [b rc]]
   | none => [])
  ++ (match d.props with
      | some ps => (Properties.slice ps).chunks
      | none => [])

/-- `ReasonCode::from(u8)` followed by `into()`: unknown bytes become 0xFF. -/
def normReason (x : Nat) : Nat := if reasonCodes.contains x then x else 0xFF

def reasonSuccess (rc : Nat) : Bool := rc < 0x80

end Minimq
