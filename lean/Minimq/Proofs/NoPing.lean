import Minimq.Proofs.NoPingSess
/-
Keep-alive 0 sends no PINGREQ, lifted to all executions (C10).

The invariant (`NpInv`): `NpCore` of the session, the ordinal of the current transport and the transmission
log — whenever the effective keep-alive is 0: no PINGREQ timer, no PINGREQ in the control queue, no PINGREQ
entry of the current transport in the log —, and for the suspended operation:
* suspended in the write of a queued packet (`stepWrite`): if that packet is a PINGREQ the keep-alive is not 0
  (it was taken from the control queue, and nothing but a CONNACK changes the keep-alive);
* suspended in the handshake (`connWrite`, `connFlush`, `connRead`): `NpHs` — no timer, no PINGREQ queued, no
  PINGREQ of the (new) transport logged, whatever the old keep-alive.
This cannot be a predicate on the session alone (nor on session and connection handle): `clear_ping` and
`activate` preserve it only because `begin_connect` came before, and the session does not record that. Hence a
machine induction of its own, over the thirteen mutually recursive machine functions (architecture of
`Proofs/WireHist.lean`). The preconditions: `N` (= `NpCore`, a transport exists, no operation suspended) for
every function, plus `NH` (= `NpHs` …) for the handshake functions (`doLocalWrite`/`doLocalFlush` with
`which = 0`, `doConnRead`), plus `PktOK` for `doStepWrite`.
-/
namespace Minimq
open Gen World Outbound

/-- `P` of session, current ordinal and log; a transport exists; no operation is suspended. -/
def NG (P : Session → Nat → List LogEntry → Prop) (w : World) : Prop :=
  P w.sess w.nets.length w.log ∧ w.nets ≠ [] ∧ w.fut = none

def N (w : World) : Prop := NG NpCore w
def NH (w : World) : Prop := NG NpHs w

/-- The queue entry being written is a PINGREQ only under a keep-alive that is not 0. -/
def PktOK (s : Session) (pkt : Flushed) : Prop :=
  ∀ a, pkt = .control a → a.typ = MT_PingReq → s.rt.keepaliveMs ≠ 0

/-- What the invariant says of the suspended operation. -/
def NpPc (s : Session) (L : Nat) (l : List LogEntry) : Pc → Prop
  | .stepWrite _ pkt _ _ _ _ => PktOK s pkt
  | .connWrite _ => NpHs s L l
  | .connFlush => NpHs s L l
  | .connRead => NpHs s L l
  | _ => True

def NpInv (w : World) : Prop :=
  NpCore w.sess w.nets.length w.log ∧ ∀ pc, w.fut = some pc → NpPc w.sess w.nets.length w.log pc

/-! ### Elementary updates -/

section
variable {P Q : Session → Nat → List LogEntry → Prop}

theorem NG.step {w w' : World} (h : NG P w) (hq : Q w'.sess w.nets.length w.log) (hl : w'.log = w.log)
    (hn : w'.nets.length = w.nets.length) (hf : w'.fut = none) : NG Q w' :=
  ⟨by rw [hn, hl]; exact hq, nets_ne_of_length h.2.1 hn, hf⟩

theorem NG.eq {w w' : World} (h : NG P w) (hs : w'.sess = w.sess) (hl : w'.log = w.log)
    (hn : w'.nets.length = w.nets.length) (hf : w'.fut = none) : NG P w' :=
  h.step (by rw [hs]; exact h.1) hl hn hf

theorem NG.ioWrite {w w' : World} {bs : Bytes} {r : WriteRes} (heq : w.ioWrite bs = (w', r)) (h : NG P w) : NG P w' := by
  obtain ⟨h1, h2, _⟩ := ioWrite_net w w' bs r h.2.1 heq
  exact h.eq (io_write_sess' heq) (by have := ioWrite_log w bs; rw [heq] at this; exact this) h2 (h1.trans h.2.2)

theorem NG.ioFlush {w w' : World} {r : FlushRes} (heq : w.ioFlush = (w', r)) (h : NG P w) : NG P w' := by
  obtain ⟨h1, h2⟩ := ioFlush_net w w' r heq
  exact h.eq (io_flush_sess' heq) (by have := ioFlush_log w; rw [heq] at this; exact this) (by rw [h2]) (h1.trans h.2.2)

theorem NG.ioRead {w w' : World} {n : Nat} {r : ReadRes} (heq : w.ioRead n = (w', r)) (h : NG P w) : NG P w' := by
  obtain ⟨h1, h2, _⟩ := ioRead_net w w' n r h.2.1 heq
  exact h.eq (io_read_sess' heq) (by have := ioRead_log w n; rw [heq] at this; exact this) h2 (h1.trans h.2.2)
end

theorem NG.toN {P : Session → Nat → List LogEntry → Prop} {w w' : World} (h : NG P w)
    (hq : NpCore w'.sess w.nets.length w.log) (hl : w'.log = w.log)
    (hn : w'.nets.length = w.nets.length) (hf : w'.fut = none) : N w' := h.step hq hl hn hf

theorem NG.toNH {P : Session → Nat → List LogEntry → Prop} {w w' : World} (h : NG P w)
    (hq : NpHs w'.sess w.nets.length w.log) (hl : w'.log = w.log)
    (hn : w'.nets.length = w.nets.length) (hf : w'.fut = none) : NH w' := h.step hq hl hn hf

theorem N.eq {w w' : World} (h : N w) (hs : w'.sess = w.sess) (hl : w'.log = w.log)
    (hn : w'.nets.length = w.nets.length) (hf : w'.fut = none) : N w' := NG.eq h hs hl hn hf

theorem N.ioWrite {w w' : World} {bs : Bytes} {r : WriteRes} (h : N w) (heq : w.ioWrite bs = (w', r)) : N w' := NG.ioWrite heq h
theorem N.ioFlush {w w' : World} {r : FlushRes} (h : N w) (heq : w.ioFlush = (w', r)) : N w' := NG.ioFlush heq h
theorem N.ioRead {w w' : World} {n : Nat} {r : ReadRes} (h : N w) (heq : w.ioRead n = (w', r)) : N w' := NG.ioRead heq h
theorem NH.ioWrite {w w' : World} {bs : Bytes} {r : WriteRes} (h : NH w) (heq : w.ioWrite bs = (w', r)) : NH w' := NG.ioWrite heq h
theorem NH.ioFlush {w w' : World} {r : FlushRes} (h : NH w) (heq : w.ioFlush = (w', r)) : NH w' := NG.ioFlush heq h
theorem NH.ioRead {w w' : World} {n : Nat} {r : ReadRes} (h : NH w) (heq : w.ioRead n = (w', r)) : NH w' := NG.ioRead heq h

theorem NH.n {w : World} (h : NH w) : N w := ⟨h.1.core, h.2.1, h.2.2⟩

theorem N.inv {w : World} (h : N w) : NpInv w := ⟨h.1, fun pc hpc => by rw [h.2.2] at hpc; cases hpc⟩

/-- Same session, log and transport, nothing suspended: the invariant holds. -/
theorem N.done {w w' : World} (h : N w) (hs : w'.sess = w.sess) (hl : w'.log = w.log)
    (hn : w'.nets.length = w.nets.length) (hf : w'.fut = none) : NpInv w' := (h.eq hs hl hn hf).inv

theorem N.suspend {w : World} (h : N w) {pc : Pc} (hpc : NpPc w.sess w.nets.length w.log pc) : NpInv (w.suspend pc) :=
  ⟨h.1, fun pc' e => by
    have : pc = pc' := by simpa [World.suspend] using e
    subst this; exact hpc⟩

theorem N.hd {w : World} (h : N w) : N w.handleDisconnect :=
  h.toN (NpCore.handleDisconnect h.1) rfl rfl h.2.2

theorem N.fs {w : World} (h : N w) (ctx : StepCtx) (st : Outbound.Step) : N (w.failStep ctx st) := by
  rcases failStep_cases w ctx st with e | e <;> rw [e]
  · exact h
  · exact h.hd

theorem N.df {w : World} (h : N w) (ctx : StepCtx) : N (w.discFail ctx) := by
  rcases discFail_cases w ctx with ⟨e, _⟩ | ⟨e, _⟩ <;> rw [e]
  · exact h
  · exact h.hd

theorem N.completeFlush {w : World} (h : N w) (pkt : Flushed) (now : Nat) : N (w.completeFlush pkt now) :=
  h.toN (NpCore.completeFlush h.1 pkt now) rfl rfl h.2.2

theorem N.maybeQueuePingreq {w w' : World} {now : Nat} (heq : w.maybeQueuePingreq now = .ok w') (h : N w) : N w' := by
  unfold World.maybeQueuePingreq at heq
  split at heq
  · simp at heq
  · rename_i s hs
    simp at heq; subst heq
    exact h.toN (NpCore.queuePing h.1 hs) rfl rfl h.2.2

theorem doneFrame_control (w : World) (pkt : Flushed) (a : ControlAction) (h : (w.doneFrame pkt).tag = .control a) :
    pkt = .control a := by
  unfold World.doneFrame at h
  cases pkt with
  | control x => simp only [Tag.control.injEq] at h; rw [h]
  | release id => simp only [] at h; split at h <;> simp at h
  | retained id => simp only [] at h; split at h <;> simp at h

/-- `set_written`: the log grows by the entry of the packet just completed — no PINGREQ under keep-alive 0. -/
theorem N.setWritten {w : World} (h : N w) (pkt : Flushed) (a c : Nat) (hp : PktOK w.sess pkt) :
    N (w.setWritten pkt a c) := by
  have h1 : NpCore (w.sess.setWritten pkt a c) w.nets.length w.log := NpCore.setWritten h.1 pkt a c
  refine ⟨?_, h.2.1, h.2.2⟩
  show NpCore (w.sess.setWritten pkt a c) w.nets.length (if a ≥ c then w.log ++ [w.doneFrame pkt] else w.log)
  split
  · refine h1.log_append _ ?_
    intro h0 x hx hping
    exact hp x (doneFrame_control w pkt x hx) hping h0
  · exact h1

theorem N.processReceivedPacket {w : World} (h : N w) : N (w.processReceivedPacket).1 := by
  unfold World.processReceivedPacket
  split
  · exact h
  · simp only []
    have h1 : N { w with sess := w.sess.takePkt.1 } := h.toN (NpCore.takePkt h.1) rfl rfl h.2.2
    split
    · exact h1.hd
    · rename_i len pkt hres
      have h2 : N { ({ w with sess := w.sess.takePkt.1 } : World) with sess := (w.sess.takePkt.1.handle pkt).1 } :=
        h1.toN (NpCore.handle h1.1 pkt) rfl rfl h1.2.2
      split <;> first | exact h2 | exact h2.hd

theorem N.deliver {w : World} (h : N w) (n : String) (len : Nat) : NpInv (w.deliver n len) := by
  obtain ⟨hv, hf⟩ := view_deliver w n len
  have hn : (w.deliver n len).nets.length = w.nets.length := congrArg View.ord hv
  exact h.done (deliver_sess _ _ _) (deliver_log _ _ _) hn hf

/-- The CONNACK is processed: from the handshake state, whatever it says. -/
theorem NH.activate {w : World} (h : NH w) (sp : Bool) (block : Bytes) : NpInv (World.activate w sp block) := by
  have hc := NpHs.activate h.1 sp block w.now
  unfold World.activate
  split
  · rename_i s e heq
    rw [heq] at hc
    exact (h.toN (w' := { w with sess := s, conn := w.conn.map (fun (c : Conn) => { c with live := false }) })
      hc rfl rfl h.2.2).done rfl rfl rfl rfl
  · rename_i s heq
    rw [heq] at hc
    exact (h.toN (w' := { w with sess := s, conn := some { live := true, resumed := sp } })
      hc rfl rfl h.2.2).done rfl rfl rfl rfl

theorem NH.connectGotPacket {w : World} (h : NH w) : NpInv (World.connectGotPacket w) := by
  unfold World.connectGotPacket
  simp only []
  have h1 : NH { w with sess := w.sess.takePkt.1 } := h.toNH (NpHs.takePkt h.1) rfl rfl h.2.2
  split
  · exact h1.n.hd.done rfl rfl rfl rfl
  · split
    · exact h1.n.done rfl rfl rfl rfl
    · exact h1.activate _ _
  · exact h1.n.hd.done rfl rfl rfl rfl
  · exact h1.n.hd.done rfl rfl rfl rfl

/-! ### Which packet a step writes -/

theorem prepareStep_write_control {w : World} {step : Outbound.Step} {pkt : Flushed} {bs : Bytes} {wr len : Nat}
    (h : prepareStep w step = .write pkt bs wr len) (a : ControlAction) (hp : pkt = .control a) :
    ∃ st, step = .control a st := by
  subst hp
  unfold prepareStep at h
  cases step with
  | control x st =>
    cases st with
    | write n =>
      simp only [] at h
      split at h
      · simp at h
      · split at h
        · simp at h
        · simp only [Prepared.write.injEq, Flushed.control.injEq] at h
          exact ⟨_, by rw [h.1]⟩
    | flush => simp at h
    | sent => simp at h
  | release id rc st =>
    cases st with
    | write n =>
      simp only [] at h
      split at h
      · simp at h
      · split at h <;> simp at h
    | flush => simp at h
    | sent => simp at h
  | retained id off len' st =>
    cases st with
    | write n =>
      simp only [] at h
      split at h <;> simp at h
    | flush => simp at h
    | sent => simp at h

theorem nextStep_control_mem {o : Outbound} {a : ControlAction} {st : SendState}
    (h : o.nextStep = some (.control a st)) : a ∈ o.acts := by
  have key : ∀ ip, o.nextStepPrio ip = some (.control a st) → a ∈ o.acts := by
    intro ip hp
    obtain ⟨l₁, e, l₂, hl, _, he, _⟩ := nextStepPrio_control hp
    unfold Outbound.acts
    rw [hl]
    exact List.mem_map.mpr ⟨e, by simp, he⟩
  unfold Outbound.nextStep at h
  split at h
  · rename_i s hs
    simp only [Option.some.injEq] at h
    subst h
    exact key true hs
  · exact key false h

/-- The packet `perform_outbound_step` is about to write is a PINGREQ only under a keep-alive that is not 0:
it comes from the control queue. -/
theorem pktOK_of_step {w : World} (h : N w) {step : Outbound.Step} (hs : w.sess.data.outbound.nextStep = some step)
    {pkt : Flushed} {bs : Bytes} {wr len : Nat} (hp : prepareStep w step = .write pkt bs wr len) : PktOK w.sess pkt := by
  intro a ha hping h0
  obtain ⟨st, rfl⟩ := prepareStep_write_control hp a ha
  exact h.1.q h0 a (nextStep_control_mem hs) hping

/-! ### The thirteen machine functions -/

def NMachine (fuel : Nat) : Prop :=
  (∀ w k, N w → NpInv (flushLoop fuel w k)) ∧
  (∀ w ctx step now, N w → w.sess.data.outbound.nextStep = some step → NpInv (performStep fuel w ctx step now)) ∧
  (∀ w ctx pkt bytes wr len now, N w → PktOK w.sess pkt → NpInv (doStepWrite fuel w ctx pkt bytes wr len now)) ∧
  (∀ w ctx pkt now, N w → NpInv (doStepFlush fuel w ctx pkt now)) ∧
  (∀ w ctx adv, N w → NpInv (stepReturned fuel w ctx adv)) ∧
  (∀ w k, N w → NpInv (afterFlush fuel w k)) ∧
  (∀ w which bytes, N w → (which = 0 → NH w) → NpInv (doLocalWrite fuel w which bytes)) ∧
  (∀ w which, N w → (which = 0 → NH w) → NpInv (doLocalFlush fuel w which)) ∧
  (∀ w, NH w → NpInv (doConnRead fuel w)) ∧
  (∀ w o adv, N w → NpInv (driveLoop fuel w o adv)) ∧
  (∀ w o adv, N w → NpInv (driveAfterService fuel w o adv)) ∧
  (∀ w o, N w → NpInv (driveEnter fuel w o)) ∧
  (∀ w o d y, N w → NpInv (doWaitRead fuel w o d y))

theorem N.fuel {w : World} (h : N w) : NpInv (w.emit "fuel") := h.done rfl rfl rfl h.2.2

theorem nmachine_zero : NMachine 0 := by
  refine ⟨?_, ?_, ?_, ?_, ?_, ?_, ?_, ?_, ?_, ?_, ?_, ?_, ?_⟩ <;> intros <;>
    simp only [flushLoop, performStep, doStepWrite, doStepFlush, stepReturned, afterFlush, doLocalWrite, doLocalFlush,
      doConnRead, driveLoop, driveAfterService, driveEnter, doWaitRead] <;>
    first | (apply N.fuel; assumption) | (apply N.fuel; apply NH.n; assumption)

theorem nstep_stepReturned (fuel : Nat) (ih : NMachine fuel) :
    ∀ w ctx adv, N w → NpInv (stepReturned (fuel + 1) w ctx adv) := by
  intro w ctx adv h
  obtain ⟨i1, _, _, _, _, _, _, _, _, _, i11, _, _⟩ := ih
  unfold stepReturned
  split
  · exact i1 _ _ h
  · exact i11 _ _ _ h

theorem nstep_doStepFlush (fuel : Nat) (ih : NMachine fuel) :
    ∀ w ctx pkt now, N w → NpInv (doStepFlush (fuel + 1) w ctx pkt now) := by
  intro w ctx pkt now h
  obtain ⟨_, _, _, _, i5, _⟩ := ih
  simp only [doStepFlush]
  split
  · rename_i w' heq; exact (h.ioFlush heq).suspend True.intro
  · rename_i w' k heq; exact (h.ioFlush heq).hd.done rfl rfl rfl rfl
  · rename_i w' heq; exact i5 _ _ _ ((h.ioFlush heq).completeFlush pkt now)

theorem nstep_doStepWrite (fuel : Nat) (ih : NMachine fuel) :
    ∀ w ctx pkt bytes wr len now, N w → PktOK w.sess pkt → NpInv (doStepWrite (fuel + 1) w ctx pkt bytes wr len now) := by
  intro w ctx pkt bytes wr len now h hp
  obtain ⟨_, _, _, i4, i5, _⟩ := ih
  simp only [doStepWrite]
  split
  · rename_i w' heq
    exact (h.ioWrite heq).suspend (by show PktOK w'.sess pkt; rw [io_write_sess' heq]; exact hp)
  · rename_i w' heq; exact ((h.ioWrite heq).df _).done rfl rfl rfl rfl
  · rename_i w' k heq; exact (h.ioWrite heq).hd.done rfl rfl rfl rfl
  · rename_i w' count heq
    have h2 : N (w'.setWritten pkt (wr + count) len) :=
      (h.ioWrite heq).setWritten pkt _ _ (by rw [io_write_sess' heq]; exact hp)
    split
    · exact i5 _ _ _ h2
    · exact i4 _ _ _ _ h2

theorem nstep_performStep (fuel : Nat) (ih : NMachine fuel) :
    ∀ w ctx step now, N w → w.sess.data.outbound.nextStep = some step → NpInv (performStep (fuel + 1) w ctx step now) := by
  intro w ctx step now h hs
  obtain ⟨_, _, i3, i4, i5, _⟩ := ih
  simp only [performStep]
  split
  · exact (h.fs _ _).done rfl rfl rfl rfl
  · exact i5 _ _ _ h
  · split
    · exact (h.df _).done rfl rfl rfl rfl
    · exact i4 _ _ _ _ h
  · rename_i pkt bs wr len hprep
    split
    · exact (h.df _).done rfl rfl rfl rfl
    · exact i3 _ _ _ _ _ _ _ h (pktOK_of_step h hs hprep)

theorem nstep_flushLoop (fuel : Nat) (ih : NMachine fuel) :
    ∀ w k, N w → NpInv (flushLoop (fuel + 1) w k) := by
  intro w k h
  obtain ⟨_, i2, _, _, _, i6, _⟩ := ih
  simp only [flushLoop]
  split
  · exact (h.df _).done rfl rfl rfl rfl
  · rename_i w' heq
    have h' := h.maybeQueuePingreq heq
    split
    · exact i6 _ _ h'
    · rename_i step hstep
      exact i2 _ _ _ _ h' hstep

theorem nstep_driveEnter (fuel : Nat) (ih : NMachine fuel) :
    ∀ w o, N w → NpInv (driveEnter (fuel + 1) w o) := by
  intro w o h
  obtain ⟨_, _, _, _, _, _, _, _, _, i10, _⟩ := ih
  simp only [driveEnter]
  split
  · exact h.done rfl rfl rfl rfl
  · exact i10 _ _ _ h

theorem nstep_doLocalFlush (fuel : Nat) (ih : NMachine fuel) :
    ∀ w which, N w → (which = 0 → NH w) → NpInv (doLocalFlush (fuel + 1) w which) := by
  intro w which h hh
  obtain ⟨_, _, _, _, _, _, _, _, i9, _⟩ := ih
  simp only [doLocalFlush]
  split
  · rename_i w' heq
    have hs := h.ioFlush heq
    refine hs.suspend ?_
    split
    · rename_i h0; exact ((hh h0).ioFlush heq).1
    · split <;> exact True.intro
  · rename_i w' k heq
    have hs := h.ioFlush heq
    split
    · exact hs.done rfl rfl rfl rfl
    · split <;> exact hs.hd.done rfl rfl rfl rfl
  · rename_i w' heq
    have hs := h.ioFlush heq
    split
    · rename_i h0
      have hsh := (hh h0).ioFlush heq
      exact i9 _ (hsh.toNH (NpHs.clearPing hsh.1) rfl rfl hsh.2.2)
    · split
      · exact (hs.toN (w' := { w' with sess := w'.sess.noteActivity w'.now })
          (NpCore.noteActivity hs.1 _) rfl rfl hs.2.2).done rfl rfl rfl rfl
      · exact hs.hd.done rfl rfl rfl rfl

theorem nstep_doLocalWrite (fuel : Nat) (ih : NMachine fuel) :
    ∀ w which bytes, N w → (which = 0 → NH w) → NpInv (doLocalWrite (fuel + 1) w which bytes) := by
  intro w which bytes h hh
  obtain ⟨_, _, _, _, _, _, i7, i8, _⟩ := ih
  simp only [doLocalWrite]
  split
  · rcases discDone_cases w which with ⟨e, _⟩ | ⟨e, hne, _⟩ <;> rw [e]
    · exact i8 _ _ h hh
    · exact i8 _ _ h.hd (fun h0 => absurd h0 hne)
  · split
    · rename_i w' heq
      have hs := h.ioWrite heq
      refine hs.suspend ?_
      split
      · rename_i h0; exact ((hh h0).ioWrite heq).1
      · split <;> exact True.intro
    · rename_i w' n heq; exact i7 _ _ _ (h.ioWrite heq) (fun h0 => (hh h0).ioWrite heq)
    · rename_i w' heq
      have hs := h.ioWrite heq
      split
      · exact hs.done rfl rfl rfl rfl
      · split <;> exact hs.hd.done rfl rfl rfl rfl
    · rename_i w' k heq
      have hs := h.ioWrite heq
      split
      · exact hs.done rfl rfl rfl rfl
      · split <;> exact hs.hd.done rfl rfl rfl rfl

theorem nstep_doConnRead (fuel : Nat) (ih : NMachine fuel) :
    ∀ w, NH w → NpInv (doConnRead (fuel + 1) w) := by
  intro w h
  obtain ⟨_, _, _, _, _, _, _, _, i9, _⟩ := ih
  simp only [doConnRead]
  split
  · exact h.connectGotPacket
  · split
    · exact h.n.hd.done rfl rfl rfl rfl
    · rename_i s1 window hw
      have h1 : NH { w with sess := s1 } := h.toNH (NpHs.window h.1 hw) rfl rfl h.2.2
      split
      · exact h1.connectGotPacket
      · split
        · rename_i w' heq; exact (h1.ioRead heq).n.suspend (h1.ioRead heq).1
        · rename_i w' heq; exact (h1.ioRead heq).n.hd.done rfl rfl rfl rfl
        · rename_i w' k heq; exact (h1.ioRead heq).n.hd.done rfl rfl rfl rfl
        · rename_i w' bytes heq
          have h2 := h1.ioRead heq
          exact i9 _ (h2.toNH (NpHs.commit h2.1 bytes) rfl rfl h2.2.2)

theorem nstep_doWaitRead (fuel : Nat) (ih : NMachine fuel) :
    ∀ w o d y, N w → NpInv (doWaitRead (fuel + 1) w o d y) := by
  intro w o d y h
  obtain ⟨_, _, _, _, _, _, _, _, _, _, _, i12, i13⟩ := ih
  simp only [doWaitRead]
  split
  · exact i12 _ _ h
  · split
    · exact h.hd.done rfl rfl rfl rfl
    · rename_i s1 window hw
      have h1 : N { w with sess := s1 } := h.toN (NpCore.window h.1 hw) rfl rfl h.2.2
      split
      · exact i12 _ _ h1
      · split
        · rename_i w' heq; exact (h1.ioRead heq).hd.done rfl rfl rfl rfl
        · rename_i w' k heq; exact (h1.ioRead heq).hd.done rfl rfl rfl rfl
        · rename_i w' bytes heq
          have h2 := h1.ioRead heq
          exact i13 _ _ _ _ (h2.toN (NpCore.commit h2.1 bytes) rfl rfl h2.2.2)
        · rename_i w' heq
          have hs := h1.ioRead heq
          split
          · exact hs.suspend True.intro
          · split
            · split
              · exact i12 _ _ hs
              · split
                · exact N.suspend (w := ({ w' with wakes := w'.wakes + 1 } : World).emit "spin")
                    (hs.eq rfl rfl rfl hs.2.2) True.intro
                · exact i13 _ _ _ _ (hs.eq rfl rfl rfl hs.2.2)
            · exact hs.suspend True.intro

theorem nstep_driveLoop (fuel : Nat) (ih : NMachine fuel) :
    ∀ w o adv, N w → NpInv (driveLoop (fuel + 1) w o adv) := by
  intro w o adv h
  obtain ⟨_, i2, _, _, _, _, _, _, _, i10, i11, _, _⟩ := ih
  simp only [driveLoop]
  split
  · have h1 := h.processReceivedPacket
    split
    · rename_i w' e heq; rw [heq] at h1; exact h1.done rfl rfl rfl rfl
    · rename_i w' len heq; rw [heq] at h1; exact h1.deliver _ _
    · rename_i w' heq; rw [heq] at h1; exact i10 _ _ _ h1
  · repeat' split
    all_goals first
      | exact h.hd.done rfl rfl rfl rfl
      | exact h.done rfl rfl rfl rfl
      | exact i11 _ _ _ (h.maybeQueuePingreq (by assumption))
      | exact i2 _ _ _ _ (h.maybeQueuePingreq (by assumption)) (by assumption)

theorem nstep_driveAfterService (fuel : Nat) (ih : NMachine fuel) :
    ∀ w o adv, N w → NpInv (driveAfterService (fuel + 1) w o adv) := by
  intro w o adv h
  obtain ⟨_, _, _, _, _, _, _, _, _, i10, _, i12, i13⟩ := ih
  unfold driveAfterService
  split
  · have h1 := h.processReceivedPacket
    split
    · rename_i w' e heq; rw [heq] at h1; exact h1.done rfl rfl rfl rfl
    · rename_i w' len heq; rw [heq] at h1; exact h1.deliver _ _
    · rename_i w' heq; rw [heq] at h1; exact i10 _ _ _ h1
  · split
    · split
      · split
        · exact h.done rfl rfl rfl rfl
        · exact h.done rfl rfl rfl rfl
        · exact i12 _ _ h
      · split
        · exact h.done rfl rfl rfl rfl
        · exact i13 _ _ _ _ h
    · exact i10 _ _ _ h

theorem nstep_afterFlush (fuel : Nat) (ih : NMachine fuel) :
    ∀ w k, N w → NpInv (afterFlush (fuel + 1) w k) := by
  intro w k h
  obtain ⟨i1, _, _, _, _, _, i7, _⟩ := ih
  unfold afterFlush
  cases k with
  | post name op => exact h.done rfl rfl rfl rfl
  | discPre d =>
    simp only []
    repeat' split
    all_goals first
      | exact h.done rfl rfl rfl rfl
      | exact i7 _ _ _ h (fun h0 => by cases h0)
  | subPre r =>
    simp only []
    split
    · exact h.done rfl rfl rfl rfl
    · have ha : N { ({ w with sess := w.sess.alloc.1 } : World) with sess := (w.sess.alloc.1.encode (fun cap _ =>
          encodeWithOffset cap (subscribeChunks w.sess.alloc.2 (.slice r.props) r.topics) MT_Subscribe FLAGS_Subscribe)).1 } :=
        h.toN (by dsimp only; exact NpCore.encode (NpCore.alloc h.1) _) rfl rfl h.2.2
      split
      · exact ha.done rfl rfl rfl rfl
      · split
        · exact ha.done rfl rfl rfl rfl
        · split
          · exact ha.done rfl rfl rfl rfl
          · rename_i s3 hs3
            apply i1
            exact ha.toN (NpCore.retain ha.1 hs3) rfl rfl ha.2.2
  | unsubPre r =>
    simp only []
    split
    · exact h.done rfl rfl rfl rfl
    · have ha : N { ({ w with sess := w.sess.alloc.1 } : World) with sess := (w.sess.alloc.1.encode (fun cap _ =>
          encodeWithOffset cap (unsubscribeChunks w.sess.alloc.2 (.slice r.props) r.topics) MT_Unsubscribe FLAGS_Unsubscribe)).1 } :=
        h.toN (by dsimp only; exact NpCore.encode (NpCore.alloc h.1) _) rfl rfl h.2.2
      split
      · exact ha.done rfl rfl rfl rfl
      · split
        · exact ha.done rfl rfl rfl rfl
        · split
          · exact ha.done rfl rfl rfl rfl
          · rename_i s3 hs3
            apply i1
            exact ha.toN (NpCore.retain ha.1 hs3) rfl rfl ha.2.2
  | publishPre r =>
    simp only []
    split
    · exact h.done rfl rfl rfl rfl
    · generalize effectiveQos w.sess.rt.maxQos w.sess.downgrade r.qos = qos
      split
      · have h1 : N { w with sess := w.sess.alloc.1 } := h.toN (NpCore.alloc h.1) rfl rfl h.2.2
        split
        · exact h1.done rfl rfl rfl rfl
        · split
          · exact h1.done rfl rfl rfl rfl
          · have ha : N { ({ w with sess := w.sess.alloc.1 } : World) with sess := (w.sess.alloc.1.encode (fun cap fill =>
                encodePublishWithOffset cap { topic := r.topic, packetId := some w.sess.alloc.2, props := r.props, retain := r.retain, qos := qos, dup := false } r.payload fill)).1 } :=
              h1.toN (by dsimp only; exact NpCore.encode h1.1 _) rfl rfl h1.2.2
            split
            · exact ha.done rfl rfl rfl rfl
            · split
              · exact ha.done rfl rfl rfl rfl
              · split
                · exact ha.done rfl rfl rfl rfl
                · rename_i s3 hs3
                  apply i1
                  exact ha.toN (NpCore.retain ha.1 hs3) rfl rfl ha.2.2
      · split
        · exact h.done rfl rfl rfl rfl
        · have ha : N { w with sess := (w.sess.encode (fun cap fill => encodePublishWithOffset cap
              { topic := r.topic, packetId := none, props := r.props, retain := r.retain, qos := 0, dup := false } r.payload fill)).1 } :=
            h.toN (by dsimp only; exact NpCore.encode h.1 _) rfl rfl h.2.2
          split
          · exact ha.done rfl rfl rfl rfl
          · split
            · exact ha.done rfl rfl rfl rfl
            · exact i7 _ _ _ ha (fun h0 => by cases h0)

theorem nmachine : ∀ fuel, NMachine fuel := by
  intro fuel
  induction fuel with
  | zero => exact nmachine_zero
  | succ fuel ih =>
    exact ⟨nstep_flushLoop fuel ih, nstep_performStep fuel ih, nstep_doStepWrite fuel ih,
      nstep_doStepFlush fuel ih, nstep_stepReturned fuel ih, nstep_afterFlush fuel ih,
      nstep_doLocalWrite fuel ih, nstep_doLocalFlush fuel ih, nstep_doConnRead fuel ih,
      nstep_driveLoop fuel ih, nstep_driveAfterService fuel ih, nstep_driveEnter fuel ih,
      nstep_doWaitRead fuel ih⟩

/-! ### `poll`, the directives, programs -/

theorem NpInv.eq {w w' : World} (h : NpInv w) (hs : w'.sess = w.sess) (hl : w'.log = w.log)
    (hn : w'.nets.length = w.nets.length) (hf : w'.fut = w.fut ∨ w'.fut = none) : NpInv w' := by
  refine ⟨by rw [hs, hl, hn]; exact h.1, fun pc hpc => ?_⟩
  rw [hs, hl, hn]
  rcases hf with hf | hf
  · exact h.2 pc (by rw [← hf]; exact hpc)
  · rw [hf] at hpc; cases hpc

theorem npoll (w : World) (hn : w.nets ≠ []) (h : NpInv w) : NpInv (World.poll w) := by
  obtain ⟨_, _, i3, i4, _, _, i7, i8, i9, _, _, _, i13⟩ := nmachine pollFuel
  unfold World.poll
  simp only []
  split
  · exact h.eq rfl rfl rfl (.inl rfl)
  · rename_i pc hpc
    have hpc' : w.fut = some pc := hpc
    have hg := h.2 pc hpc'
    have h1 : N { ({ w with wakes := 0, lastIoStarved := false } : World) with fut := none } := ⟨h.1, hn, rfl⟩
    have hh : NpHs w.sess w.nets.length w.log →
        NH { ({ w with wakes := 0, lastIoStarved := false } : World) with fut := none } := fun x => ⟨x, hn, rfl⟩
    split
    · exact i3 _ _ _ _ _ _ _ h1 hg
    · exact i4 _ _ _ _ h1
    · exact i7 _ _ _ h1 (fun _ => hh hg)
    · exact i8 _ _ h1 (fun _ => hh hg)
    · exact i9 _ (hh hg)
    · exact i7 _ _ _ h1 (fun h0 => by cases h0)
    · exact i8 _ _ h1 (fun h0 => by cases h0)
    · exact i7 _ _ _ h1 (fun h0 => by cases h0)
    · exact i8 _ _ h1 (fun h0 => by cases h0)
    · exact i13 _ _ _ _ h1

theorem poll_nets_length (w : World) (hn : w.nets ≠ []) : (World.poll w).nets.length = w.nets.length :=
  (wpoll (Q := fun x => x.nets ≠ [] ∧ x.nets.length = w.nets.length)
    { emit := fun _ _ h => h, sess := fun _ _ h => h, fut := fun _ _ h => h, conn := fun _ _ h => h,
      slot := fun _ _ h => h, starved := fun _ _ h => h, wakes := fun _ _ h => h, lastRes := fun _ _ h => h,
      handles := fun _ _ h => h,
      setCurNet := fun x n h => by
        obtain ⟨s1, _, _, _⟩ := setCurNet_spec x n h.1
        exact ⟨nets_ne_of_length h.1 s1, s1.trans h.2⟩,
      log := fun _ _ _ h => h } w ⟨hn, rfl⟩).2

theorem ngoLoop (n : Nat) (w : World) (hn : w.nets ≠ []) (h : NpInv w) : NpInv (World.goLoop n w) := by
  induction n generalizing w with
  | zero => exact h.eq rfl rfl rfl (.inl rfl)
  | succ n ih =>
    simp only [World.goLoop]
    have h1 : NpInv { (World.poll { w with slot := some 250 }) with slot := none } :=
      (npoll { w with slot := some 250 } hn (h.eq rfl rfl rfl (.inl rfl))).eq rfl rfl rfl (.inl rfl)
    have hn1 : ({ (World.poll { w with slot := some 250 }) with slot := none } : World).nets ≠ [] := by
      have := poll_nets_length { w with slot := some 250 } hn
      exact nets_ne_of_length (w := w) hn this
    repeat' split
    all_goals first
      | exact h1
      | exact ih _ hn1 h1

theorem ncancel (w : World) (h : NpInv w) : NpInv w.cancelFut := by
  unfold World.cancelFut
  split
  · exact h.eq rfl rfl rfl (.inr rfl)
  · exact h

theorem cancelFut_N (w : World) (hn : w.nets ≠ []) (h : NpInv w) : N w.cancelFut := by
  unfold World.cancelFut
  split
  · exact ⟨h.1, hn, rfl⟩
  · rename_i hf
    exact ⟨h.1, hn, by simpa using hf⟩

theorem ndropConn (w : World) (h : NpInv w) : NpInv w.dropConn := by
  rw [dropConn_eq]
  split
  · exact (ncancel w h).eq rfl rfl rfl (.inl rfl)
  · exact ncancel w h

theorem nstartOp (w : World) (name : String) (body : World → World) (hnl : w.nets = [] → w.conn = none)
    (hb : ∀ w', N w' → NpInv (body w')) (h : NpInv w) : NpInv (w.startOp name body) := by
  unfold World.startOp
  split
  · exact h.eq rfl rfl rfl (.inl rfl)
  · rename_i hc
    have hn : w.nets ≠ [] := fun h0 => hc (by rw [hnl h0]; rfl)
    have hN := cancelFut_N w hn h
    exact hb _ (hN.eq rfl rfl rfl hN.2.2)

theorem nstartConnect (w : World) (hlb : ∀ f ∈ w.log, f.net ≤ w.nets.length) : NpInv w.startConnect := by
  rw [startConnect_eq]
  obtain ⟨c1, c2, _, _, c5, _, _⟩ := connectStart_spec w
  have hlog := connectStart_log w
  have hne : w.connectStart.nets ≠ [] := by rw [c2]; simp
  have hL : NoPingL w.connectStart.nets.length w.connectStart.log := by
    intro f hf hnet
    rw [hlog] at hf
    have := hlb f hf
    rw [c2] at hnet
    simp at hnet
    omega
  have h1 : NH w.connectStart := ⟨by rw [c1]; exact NpHs.beginConnect _ hL, hne, c5⟩
  have h2 : NH { w.connectStart with sess := (w.connectStart.sess.encode (connEnc w.connectStart.sess.connectPacket)).1 } :=
    h1.toNH (by dsimp only; exact NpHs.encode h1.1 _) rfl rfl h1.2.2
  simp only []
  split
  · exact h2.n.done rfl rfl rfl rfl
  · exact (nmachine pollFuel).2.2.2.2.2.2.1 _ _ _ h2.n (fun _ => h2)

/-- **Every directive keeps it** (the world invariant `WInv` supplies: no transport, no handle and nothing
suspended; the log names only transports that exist). -/
theorem nexec (w : World) (d : Directive) (hW : WInv w) (h : NpInv w) : NpInv (w.execDirective d) := by
  obtain ⟨i1, _, _, _, _, _, _, _, _, _, _, i12, _⟩ := nmachine pollFuel
  have hnl : w.nets = [] → w.conn = none := fun h0 => (hW.netless h0).1
  have hnf : w.fut.isNone = false → w.nets ≠ [] := by
    intro hf h0
    rw [(hW.netless h0).2.1] at hf
    cases hf
  cases d with
  | bad => exact h.eq rfl rfl rfl (.inl rfl)
  | connect => exact nstartConnect w hW.logBound
  | publish r =>
    simp only [World.execDirective]
    apply nstartOp w _ _ hnl _ h
    intro w' hw'
    split
    · exact hw'.done rfl rfl rfl rfl
    · exact i1 _ _ hw'
  | subscribe r =>
    simp only [World.execDirective]
    apply nstartOp w _ _ hnl _ h
    intro w' hw'
    repeat' split
    all_goals first
      | exact hw'.done rfl rfl rfl rfl
      | exact i1 _ _ hw'
  | unsubscribe r =>
    simp only [World.execDirective]
    apply nstartOp w _ _ hnl _ h
    intro w' hw'
    repeat' split
    all_goals first
      | exact hw'.done rfl rfl rfl rfl
      | exact i1 _ _ hw'
  | disconnect dd =>
    simp only [World.execDirective]
    apply nstartOp w _ _ hnl _ h
    intro w' hw'
    repeat' split
    all_goals first
      | exact hw'.done rfl rfl rfl rfl
      | exact i1 _ _ hw'
  | poll =>
    simp only [World.execDirective]
    exact nstartOp w _ _ hnl (fun w' hw' => i12 _ _ hw') h
  | recv =>
    simp only [World.execDirective]
    exact nstartOp w _ _ hnl (fun w' hw' => i12 _ _ hw') h
  | drive =>
    simp only [World.execDirective]
    exact nstartOp w _ _ hnl (fun w' hw' => i12 _ _ hw') h
  | d n =>
    simp only [World.execDirective]
    split
    · exact h.eq rfl rfl rfl (.inl rfl)
    · rename_i hf
      have hn : w.nets ≠ [] := hnf (by cases hfu : w.fut <;> simp [hfu] at hf ⊢)
      exact (npoll { w with slot := some n } hn (h.eq rfl rfl rfl (.inl rfl))).eq rfl rfl rfl (.inl rfl)
  | go =>
    simp only [World.execDirective]
    split
    · exact h.eq rfl rfl rfl (.inl rfl)
    · rename_i hf
      exact ngoLoop _ _ (hnf (by cases hfu : w.fut <;> simp [hfu] at hf ⊢)) h
  | tick us =>
    simp only [World.execDirective]
    split
    · exact h.eq rfl rfl rfl (.inl rfl)
    · split
      · rename_i hf
        have hn : w.nets ≠ [] := by
          intro h0
          have : w.fut = none := (hW.netless h0).2.1
          simp [this] at hf
        exact npoll { w with now := w.now + us } hn (h.eq rfl rfl rfl (.inl rfl))
      · exact h.eq rfl rfl rfl (.inl rfl)
  | rx bytes =>
    simp only [World.execDirective]
    split
    · exact h.eq rfl rfl rfl (.inl rfl)
    · rename_i hne
      have hn : w.nets ≠ [] := by intro h0; simp [h0] at hne
      exact h.eq rfl rfl (setCurNet_spec w _ hn).1 (.inl rfl)
  | cancel => exact ncancel w h
  | drop => exact ndropConn w h
  | setpid n =>
    simp only [World.execDirective]
    split
    · exact h.eq rfl rfl rfl (.inl rfl)
    · rename_i hcond
      have hf : w.fut = none := by
        cases hfu : w.fut with
        | none => rfl
        | some pc => simp [hfu] at hcond
      exact ⟨NpCore.setPid h.1 n, fun pc hpc => by rw [show ({ w with sess := w.sess.setPid n } : World).fut = w.fut from rfl, hf] at hpc; cases hpc⟩
  | decode bs => exact h.eq rfl rfl rfl (.inl rfl)

theorem NpInv_init (cfg : Cfg) : NpInv { sess := Session.new cfg } := by
  refine ⟨⟨(fun _ => rfl), fun _ a ha => ?_, fun _ f hf => ?_⟩, fun pc hpc => ?_⟩
  · simp [Outbound.acts, Session.new, Outbound.new] at ha
  · simp at hf
  · cases hpc

/-- **Every program keeps it.** -/
theorem nrun (ds : List Directive) (w : World) (hW : WInv w) (h : NpInv w) : NpInv (ds.foldl World.execDirective w) := by
  induction ds generalizing w with
  | nil => exact h
  | cons d ds ih =>
    simp only [List.foldl]
    exact ih _ (exec_WInv w d hW) (nexec w d hW h)

/-- After any program: under an effective keep-alive of 0 there is no PINGREQ timer, no PINGREQ in the
control queue, and no PINGREQ entry of the current transport in the transmission log. -/
theorem np_of_run (cfg : Cfg) (ds : List Directive) :
    NpInv (ds.foldl World.execDirective { sess := Session.new cfg }) :=
  nrun ds _ (WInv_init cfg) (NpInv_init cfg)

end Minimq
