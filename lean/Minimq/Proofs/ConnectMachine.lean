import Minimq.Proofs.ReadMachine
import Minimq.Proofs.SessionFacts
import Minimq.Proofs.Decode
import Minimq.Proofs.FuelAdequate
/-
The CONNECT / CONNACK handshake at the level of the machine (whole `World`, I/O decisions): what one
decision `d k` does to a handshake suspended in `write_all`, in the flush, or in the read of the
answer; the four phases of the handshake with a potential that every decision decreases; how the
handshake ends, case by case. For `Theorems/C12Machine.lean`.
-/

namespace Minimq
open Gen World Outbound

/-! ## I/O calls with and without a decision, in closed form -/

/-- Bytes a write decision `k` accepts of `len` offered: `250` = all. -/
def wcount (k len : Nat) : Nat := if k = 250 then len else min k len

theorem wcount_bounds {k len : Nat} (hk : 1 ≤ k) (hl : len ≠ 0) : 1 ≤ wcount k len ∧ wcount k len ≤ len := by
  unfold wcount; split <;> omega

/-- The world after a write decision `k` accepted a prefix of `bytes`. -/
def World.wrote (w : World) (k : Nat) (bytes : Bytes) : World :=
  let w1 : World := { w with slot := none, lastIoStarved := false }
  let w2 := w1.setCurNet { w1.curNet with wire := w1.curNet.wire ++ bytes.take (wcount k bytes.length) }
  w2.emit s!"w {w2.netIdx} {hex (bytes.take (wcount k bytes.length))}"

theorem ioWrite_some (w : World) (bytes : Bytes) (k : Nat) (hs : w.slot = some k) (hk : k ≤ 250) :
    w.ioWrite bytes = (w.wrote k bytes, .ok (wcount k bytes.length)) := by
  unfold World.ioWrite
  rw [hs]
  simp only []
  rw [if_pos hk]
  rfl

theorem ioWrite_none (w : World) (bytes : Bytes) (hs : w.slot = none) :
    w.ioWrite bytes = ({ (w.emit s!"wp {w.netIdx}") with lastIoStarved := false }, .pending) := by
  unfold World.ioWrite; rw [hs]

theorem ioFlush_some (w : World) (k : Nat) (hs : w.slot = some k) (hk : k ≤ 251) :
    w.ioFlush = ((({ w with slot := none, lastIoStarved := false } : World).emit
      s!"f {w.netIdx} ok @{w.now}"), .ok) := by
  unfold World.ioFlush
  rw [hs]
  simp only []
  rw [if_pos hk]
  rfl

theorem ioFlush_none (w : World) (hs : w.slot = none) :
    w.ioFlush = ({ (w.emit s!"fp {w.netIdx}") with lastIoStarved := false }, .pending) := by
  unfold World.ioFlush; rw [hs]

theorem wrote_fields (w : World) (k : Nat) (bytes : Bytes) (hn : w.nets ≠ []) :
    (w.wrote k bytes).sess = w.sess ∧ (w.wrote k bytes).conn = w.conn ∧ (w.wrote k bytes).fut = w.fut ∧
    (w.wrote k bytes).now = w.now ∧ (w.wrote k bytes).slot = none ∧ (w.wrote k bytes).lastRes = w.lastRes ∧
    (w.wrote k bytes).nets = w.nets.dropLast ++
      [{ w.curNet with wire := w.curNet.wire ++ bytes.take (wcount k bytes.length) }] :=
  ⟨rfl, rfl, rfl, rfl, rfl, rfl, rfl⟩
end Minimq

namespace Minimq
open Gen World Outbound

theorem poll_connWrite (w : World) (bytes : Bytes) (h : w.fut = some (.connWrite bytes)) :
    World.poll w = doLocalWrite pollFuel w.pollBase 0 bytes := by
  unfold World.poll; simp only [h]; rfl

theorem poll_connFlush (w : World) (h : w.fut = some .connFlush) :
    World.poll w = doLocalFlush pollFuel w.pollBase 0 := by
  unfold World.poll; simp only [h]; rfl

theorem poll_connRead (w : World) (h : w.fut = some .connRead) :
    World.poll w = doConnRead pollFuel w.pollBase := by
  unfold World.poll; simp only [h]; rfl

/-! ### `write_all` / flush of the handshake, one call at a time (any fuel) -/

theorem dlw_write (fuel : Nat) (w : World) (rest : Bytes) (k : Nat) (hs : w.slot = some k) (hk : k ≤ 250)
    (hne : rest ≠ []) :
    doLocalWrite (fuel + 1) w 0 rest = doLocalWrite fuel (w.wrote k rest) 0 (rest.drop (wcount k rest.length)) := by
  have hemp : rest.isEmpty = false := by cases rest <;> simp_all
  simp only [doLocalWrite, hemp, Bool.false_eq_true, if_false]
  rw [ioWrite_some _ rest k hs hk]

theorem dlw_pending (fuel : Nat) (w : World) (rest : Bytes) (hs : w.slot = none) (hne : rest ≠ []) :
    doLocalWrite (fuel + 1) w 0 rest =
      ({ (w.emit s!"wp {w.netIdx}") with lastIoStarved := false } : World).suspend (.connWrite rest) := by
  have hemp : rest.isEmpty = false := by cases rest <;> simp_all
  simp only [doLocalWrite, hemp, Bool.false_eq_true, if_false]
  rw [ioWrite_none _ rest hs]
  rfl

theorem dlw_empty (fuel : Nat) (w : World) : doLocalWrite (fuel + 1) w 0 [] = doLocalFlush fuel w 0 := by
  simp only [doLocalWrite, List.isEmpty_nil, if_true, discDone_zero]

theorem dlf_pending (fuel : Nat) (w : World) (hs : w.slot = none) :
    doLocalFlush (fuel + 1) w 0 =
      ({ (w.emit s!"fp {w.netIdx}") with lastIoStarved := false } : World).suspend .connFlush := by
  simp only [doLocalFlush]
  rw [ioFlush_none _ hs]
  rfl

theorem dlf_ok (fuel : Nat) (w : World) (k : Nat) (hs : w.slot = some k) (hk : k ≤ 251) :
    doLocalFlush (fuel + 1) w 0 =
      doConnRead fuel { (({ w with slot := none, lastIoStarved := false } : World).emit
        s!"f {w.netIdx} ok @{w.now}") with sess := w.sess.clearPing } := by
  simp only [doLocalFlush]
  rw [ioFlush_some _ k hs hk]
  rfl

/-- One write decision on a handshake suspended in `write_all`: a prefix is accepted; if bytes remain
the operation is suspended in the write again with exactly the rest, otherwise in the flush. -/
theorem d_connWrite (W : World) (rest : Bytes) (k : Nat) (hfut : W.fut = some (.connWrite rest))
    (hne : rest ≠ []) (hk : k ≤ 250) :
    let W1 := (({ W with slot := some k } : World).pollBase).wrote k rest
    W.execDirective (.d k) =
      if rest.drop (wcount k rest.length) = [] then
        { (({ (W1.emit s!"fp {W1.netIdx}") with lastIoStarved := false } : World).suspend .connFlush) with slot := none }
      else
        { (({ (W1.emit s!"wp {W1.netIdx}") with lastIoStarved := false } : World).suspend
            (.connWrite (rest.drop (wcount k rest.length)))) with slot := none } := by
  intro W1
  rw [execDirective_d W k (by simp [hfut])]
  rw [poll_connWrite { W with slot := some k } rest hfut]
  have h1 : doLocalWrite pollFuel (({ W with slot := some k } : World).pollBase) 0 rest =
      doLocalWrite (3998 + 1) W1 0 (rest.drop (wcount k rest.length)) :=
    dlw_write (3998 + 1) _ rest k rfl hk hne
  rw [h1]
  by_cases he : rest.drop (wcount k rest.length) = []
  · rw [if_pos he, he, dlw_empty, dlf_pending 3997 W1 rfl]
  · rw [if_neg he, dlw_pending 3998 W1 _ rfl he]

/-- One decision on a handshake suspended in the flush of CONNECT: the flush succeeds, the keep-alive
deadlines are cleared, and `fill_packet_reader` looks at the reader. -/
theorem d_connFlush (W : World) (k : Nat) (hfut : W.fut = some .connFlush) (hk : k ≤ 250) :
    W.execDirective (.d k) =
      { doConnRead (3998 + 1)
          { (({ (({ W with slot := some k } : World).pollBase) with slot := none, lastIoStarved := false } : World).emit
              s!"f {W.netIdx} ok @{W.now}") with sess := W.sess.clearPing } with slot := none } := by
  rw [execDirective_d W k (by simp [hfut])]
  rw [poll_connFlush { W with slot := some k } hfut]
  rw [show pollFuel = 3998 + 1 + 1 from rfl, dlf_ok (3998 + 1) _ k rfl (by omega)]
  rfl
end Minimq

namespace Minimq
open Gen World Outbound

/-! ### `fill_packet_reader` of the handshake, one call at a time (any fuel) -/

theorem dcr_avail (fuel : Nat) (w : World) (ha : w.sess.reader.packetAvailable = true) :
    doConnRead (fuel + 1) w = connectGotPacket w := by
  simp only [doConnRead, ha, if_true]

theorem dcr_zero (fuel : Nat) (w : World) (r1 : Reader)
    (hna : w.sess.reader.packetAvailable = false) (hw : w.sess.reader.receiveWindow = some (r1, 0)) :
    doConnRead (fuel + 1) w = connectGotPacket { w with sess := { w.sess with reader := r1 } } := by
  simp only [doConnRead, hna, Bool.false_eq_true, if_false, session_window_of hw, if_true]

theorem dcr_read (fuel : Nat) (w : World) (r1 : Reader)
    (n k : Nat) (hna : w.sess.reader.packetAvailable = false)
    (hw : w.sess.reader.receiveWindow = some (r1, n)) (hn : n ≠ 0) (hs : w.slot = some k)
    (hk : k ≤ 250) (hc : takeCount k n w.curNet.rx.length ≠ 0) :
    doConnRead (fuel + 1) w =
      doConnRead fuel
        { (({ w with sess := { w.sess with reader := r1 } } : World).gotBytes
            (takeCount k n w.curNet.rx.length)) with
          sess := { w.sess with reader := r1.commit (w.curNet.rx.take (takeCount k n w.curNet.rx.length)) } } := by
  have hio := ioRead_ok ({ w with sess := { w.sess with reader := r1 } } : World) n k hs hk hc
  simp only [doConnRead, hna, Bool.false_eq_true, if_false, session_window_of hw, if_neg hn]
  rw [hio]
  rfl

theorem dcr_pending (fuel : Nat) (w : World) (r1 : Reader)
    (n : Nat) (hna : w.sess.reader.packetAvailable = false)
    (hw : w.sess.reader.receiveWindow = some (r1, n)) (hn : n ≠ 0) (hs : w.slot = none) :
    doConnRead (fuel + 1) w =
      ({ (({ w with sess := { w.sess with reader := r1 } } : World).emit s!"rp {w.netIdx}") with
          lastIoStarved := false } : World).suspend .connRead := by
  have hio := ioRead_none ({ w with sess := { w.sess with reader := r1 } } : World) n hs
  simp only [doConnRead, hna, Bool.false_eq_true, if_false, session_window_of hw, if_neg hn]
  rw [hio]
  rfl

/-- A read decision while the transport has nothing to deliver: the read stays pending. -/
theorem dcr_starved (fuel : Nat) (w : World) (r1 : Reader)
    (n k : Nat) (hna : w.sess.reader.packetAvailable = false)
    (hw : w.sess.reader.receiveWindow = some (r1, n)) (hn : n ≠ 0) (hs : w.slot = some k)
    (hk : k ≤ 250) (hrx : w.curNet.rx = []) :
    doConnRead (fuel + 1) w =
      ({ (({ w with sess := { w.sess with reader := r1 }, slot := none } : World).emit s!"rs {w.netIdx}") with
          lastIoStarved := true } : World).suspend .connRead := by
  simp only [doConnRead, hna, Bool.false_eq_true, if_false, session_window_of hw, if_neg hn]
  have : ({ w with sess := { w.sess with reader := r1 } } : World).ioRead n =
      ({ (({ w with sess := { w.sess with reader := r1 }, slot := none } : World).emit s!"rs {w.netIdx}") with
          lastIoStarved := true }, .pending) := by
    unfold World.ioRead
    simp only [hs]
    rw [if_pos hk]
    have hrx' : ({ w with sess := { w.sess with reader := r1 }, slot := none } : World).curNet.rx = [] := hrx
    simp only [hrx', List.length_nil, Nat.min_zero, ite_self, if_true]
    rfl
  rw [this]

/-- The first half of a read decision on a handshake waiting for the CONNACK. -/
theorem dc_read_eq (W : World) (n k : Nat)
    (hfut : W.fut = some .connRead)
    (hna : W.sess.reader.packetAvailable = false)
    (hw : W.sess.reader.receiveWindow = some (W.sess.reader, n)) (hn : n ≠ 0)
    (hne : W.curNet.rx ≠ []) (hk1 : 1 ≤ k) (hk : k ≤ 250) :
    W.execDirective (.d k) =
      { doConnRead (3998 + 1)
          (W.withRead (W.sess.reader.fed W.curNet.rx (takeCount k n W.curNet.rx.length))
            (W.curNet.rx.drop (takeCount k n W.curNet.rx.length))
            [W.rLine (takeCount k n W.curNet.rx.length)] none) with slot := none } := by
  have hnets := nets_ne_of_rx hne
  have hlen : W.curNet.rx.length ≠ 0 := by
    intro h0; exact hne (List.eq_nil_of_length_eq_zero h0)
  obtain ⟨hc1, _, _⟩ := takeCount_bounds (k := k) (n := n) (len := W.curNet.rx.length) hk1 hn hlen
  rw [execDirective_d W k (by simp [hfut])]
  rw [poll_connRead { W with slot := some k } hfut]
  have h1 := dcr_read (3998 + 1) ({ W with slot := some k } : World).pollBase W.sess.reader n k
    hna hw hn rfl hk (by show takeCount k n W.curNet.rx.length ≠ 0; omega)
  have h2 := after_read_world ({ W with slot := some k } : World).pollBase W.sess.reader
    (takeCount k n W.curNet.rx.length) hnets rfl rfl
  have key : doConnRead (3998 + 1 + 1) ({ W with slot := some k } : World).pollBase =
      doConnRead (3998 + 1)
        (W.withRead (W.sess.reader.fed W.curNet.rx (takeCount k n W.curNet.rx.length))
          (W.curNet.rx.drop (takeCount k n W.curNet.rx.length))
          [W.rLine (takeCount k n W.curNet.rx.length)] none) :=
    h1.trans (congrArg (fun q => doConnRead (3998 + 1) q) h2)
  exact congrArg (fun q : World => ({ q with slot := none } : World)) key

/-- **The decision completes the CONNACK (or whatever packet the broker sent).** -/
theorem dc_packet (W : World) (k : Nat)
    (hfut : W.fut = some .connRead) (hwait : Waiting W.sess.reader W.curNet.rx)
    (hne : W.curNet.rx ≠ []) (hk1 : 1 ≤ k) (hk : k ≤ 250)
    (hkind : readKind W.sess.reader W.curNet.rx (W.readCount k) = .packet) :
    frame1 W.sess.reader.cap (W.sess.reader.data ++ W.curNet.rx) =
      .packet (W.sess.reader.data ++ W.curNet.rx.take (W.readCount k)) (W.curNet.rx.drop (W.readCount k)) ∧
    W.execDirective (.d k) =
      { connectGotPacket
          (W.withRead (W.sess.reader.packetOf (W.sess.reader.data ++ W.curNet.rx.take (W.readCount k)))
            (W.curNet.rx.drop (W.readCount k)) [W.rLine (W.readCount k)] none) with slot := none } := by
  obtain ⟨hn, hw, hc1, hcn, hcl⟩ := read_setup hwait hne hk1
  have heq := dc_read_eq W W.window k hfut hwait.notAvail hw hn hne hk1 hk
  change W.execDirective (.d k) = { doConnRead (3998 + 1)
    (W.withRead (W.sess.reader.fed W.curNet.rx (W.readCount k)) (W.curNet.rx.drop (W.readCount k))
      [W.rLine (W.readCount k)] none) with slot := none } at heq
  unfold readKind at hkind
  by_cases ha : (W.sess.reader.fed W.curNet.rx (W.readCount k)).packetAvailable = true
  · obtain ⟨hf1, hrd⟩ := read_packet hwait hw hc1 hcn hcl ha
    refine ⟨hf1, ?_⟩
    rw [heq, dcr_avail _ _ ha, hrd]
  · rw [if_neg ha] at hkind
    have ha' : (W.sess.reader.fed W.curNet.rx (W.readCount k)).packetAvailable = false := by
      simpa using ha
    cases hw2 : (W.sess.reader.fed W.curNet.rx (W.readCount k)).receiveWindow with
    | none => rw [hw2] at hkind; cases hkind
    | some p =>
      obtain ⟨r3, n'⟩ := p
      rw [hw2] at hkind
      cases n' with
      | succ m => simp at hkind
      | zero =>
        obtain ⟨hf1, hrd⟩ := read_zero hwait hw hc1 hcn hcl hw2
        refine ⟨hf1, ?_⟩
        rw [heq, dcr_zero _ _ r3 ha' hw2, hrd]
        rfl

/-- **The decision makes the reader fail.** -/
theorem dc_malformed (W : World) (k : Nat)
    (hfut : W.fut = some .connRead) (hwait : Waiting W.sess.reader W.curNet.rx)
    (hne : W.curNet.rx ≠ []) (hk1 : 1 ≤ k) (hk : k ≤ 250)
    (hkind : readKind W.sess.reader W.curNet.rx (W.readCount k) = .malformed) :
    frame1 W.sess.reader.cap (W.sess.reader.data ++ W.curNet.rx) =
      .stop (.malformed (W.sess.reader.data ++ W.curNet.rx.take (W.readCount k))) ∧
    W.execDirective (.d k) =
      { ((W.withRead (W.sess.reader.fed W.curNet.rx (W.readCount k))
            (W.curNet.rx.drop (W.readCount k)) [W.rLine (W.readCount k)] none).handleDisconnect).finishErr
          "connect" .peerInvalid with slot := none } := by
  obtain ⟨hn, hw, hc1, hcn, hcl⟩ := read_setup hwait hne hk1
  have heq := dc_read_eq W W.window k hfut hwait.notAvail hw hn hne hk1 hk
  change W.execDirective (.d k) = { doConnRead (3998 + 1)
    (W.withRead (W.sess.reader.fed W.curNet.rx (W.readCount k)) (W.curNet.rx.drop (W.readCount k))
      [W.rLine (W.readCount k)] none) with slot := none } at heq
  unfold readKind at hkind
  by_cases ha : (W.sess.reader.fed W.curNet.rx (W.readCount k)).packetAvailable = true
  · rw [if_pos ha] at hkind; cases hkind
  · rw [if_neg ha] at hkind
    have ha' : (W.sess.reader.fed W.curNet.rx (W.readCount k)).packetAvailable = false := by
      simpa using ha
    cases hw2 : (W.sess.reader.fed W.curNet.rx (W.readCount k)).receiveWindow with
    | some p =>
      obtain ⟨r3, n'⟩ := p
      rw [hw2] at hkind
      cases n' <;> simp at hkind
    | none =>
      refine ⟨read_malformed hwait hw hc1 hcn hcl hw2, ?_⟩
      rw [heq, doConnRead_malformed _ _ ha' hw2]

/-- **The decision leaves the packet incomplete**: suspended in the same read, nothing lost. -/
theorem dc_more (W : World) (k : Nat)
    (hfut : W.fut = some .connRead)
    (hwait : Waiting W.sess.reader W.curNet.rx)
    (hne : W.curNet.rx ≠ []) (hk1 : 1 ≤ k) (hk : k ≤ 250)
    (hkind : readKind W.sess.reader W.curNet.rx (W.readCount k) = .more) :
    W.execDirective (.d k) =
      W.withRead (W.sess.reader.holding (W.sess.reader.data ++ W.curNet.rx.take (W.readCount k)))
        (W.curNet.rx.drop (W.readCount k)) [W.rpLine, W.rLine (W.readCount k)]
        (some .connRead) ∧
    Waiting (W.sess.reader.holding (W.sess.reader.data ++ W.curNet.rx.take (W.readCount k)))
      (W.curNet.rx.drop (W.readCount k)) ∧
    (W.curNet.rx.drop (W.readCount k) = [] →
      frame1 W.sess.reader.cap (W.sess.reader.data ++ W.curNet.rx) =
        .stop (.exhausted (W.sess.reader.data ++ W.curNet.rx))) := by
  obtain ⟨hn, hw, hc1, hcn, hcl⟩ := read_setup hwait hne hk1
  have hnets := nets_ne_of_rx hne
  have heq := dc_read_eq W W.window k hfut hwait.notAvail hw hn hne hk1 hk
  change W.execDirective (.d k) = { doConnRead (3998 + 1)
    (W.withRead (W.sess.reader.fed W.curNet.rx (W.readCount k)) (W.curNet.rx.drop (W.readCount k))
      [W.rLine (W.readCount k)] none) with slot := none } at heq
  unfold readKind at hkind
  by_cases ha : (W.sess.reader.fed W.curNet.rx (W.readCount k)).packetAvailable = true
  · rw [if_pos ha] at hkind; cases hkind
  · rw [if_neg ha] at hkind
    have ha' : (W.sess.reader.fed W.curNet.rx (W.readCount k)).packetAvailable = false := by
      simpa using ha
    cases hw2 : (W.sess.reader.fed W.curNet.rx (W.readCount k)).receiveWindow with
    | none => rw [hw2] at hkind; cases hkind
    | some p =>
      obtain ⟨r3, n'⟩ := p
      rw [hw2] at hkind
      cases n' with
      | zero => simp at hkind
      | succ m =>
        obtain ⟨hwait3, hrd, hex⟩ := read_more hwait hw hc1 hcn hcl hw2 (Nat.succ_ne_zero m)
        rw [← hrd]
        refine ⟨?_, hwait3, hex⟩
        rw [heq, dcr_pending 3998 (W.withRead (W.sess.reader.fed W.curNet.rx (W.readCount k))
          (W.curNet.rx.drop (W.readCount k)) [W.rLine (W.readCount k)] none) r3 (m + 1) ha' hw2
          (Nat.succ_ne_zero m) rfl]
        unfold World.withRead World.suspend World.emit World.rpLine
        simp only [List.cons_append, List.nil_append]
        simp only [World.netIdx]
        rw [netIdx_concat _ _ hnets]
end Minimq

namespace Minimq
open Gen World Outbound

/-! ## The handshake as a sequence of phases -/

/-- What the handshake theorems fix: the older transports, the session after CONNECT was encoded,
the CONNECT, the bytes the broker answers with, the (virtual) time. -/
structure HsP where
  ns0 : List Net
  S : Session
  pkt : Bytes
  ack : Bytes
  now0 : Nat

/-- The two worlds agree on everything except the trace and the ghost bookkeeping. -/
structure CoreEq (a c : World) : Prop where
  sess : a.sess = c.sess
  conn : a.conn = c.conn
  nets : a.nets = c.nets
  fut : a.fut = c.fut
  now : a.now = c.now
  lastRes : a.lastRes = c.lastRes

/-- Suspended in `write_all` with `j` bytes of CONNECT on the wire and exactly the rest pending. -/
structure HsWrite (P : HsP) (j : Nat) (W : World) : Prop where
  fut : W.fut = some (.connWrite (P.pkt.drop j))
  hj : j < P.pkt.length
  nets : W.nets = P.ns0 ++ [{ wire := P.pkt.take j, rx := P.ack }]
  sess : W.sess = P.S
  conn : W.conn = none
  now : W.now = P.now0
  slot : W.slot = none

/-- The whole CONNECT is on the wire; suspended in its flush. -/
structure HsFlush (P : HsP) (W : World) : Prop where
  fut : W.fut = some .connFlush
  nets : W.nets = P.ns0 ++ [{ wire := P.pkt, rx := P.ack }]
  sess : W.sess = P.S
  conn : W.conn = none
  now : W.now = P.now0
  slot : W.slot = none

/-- CONNECT flushed, deadlines cleared; suspended in the read of the answer with its first `i` bytes
in the reader and exactly the rest still with the transport. -/
structure HsRead (P : HsP) (i : Nat) (W : World) : Prop where
  fut : W.fut = some .connRead
  hi : i < P.ack.length
  nets : W.nets = P.ns0 ++ [{ wire := P.pkt, rx := P.ack.drop i }]
  sess : W.sess = { P.S.clearPing with reader := P.S.reader.holding (P.ack.take i) }
  waiting : Waiting (P.S.reader.holding (P.ack.take i)) (P.ack.drop i)
  conn : W.conn = none
  now : W.now = P.now0
  slot : W.slot = none

/-- The answer is complete: the world is (up to trace and ghosts) what `connect_handshake` makes of
the packet in the reader. -/
structure HsEnd (P : HsP) (W : World) : Prop where
  ex : ∃ Ws : World, Ws.sess = { P.S.clearPing with reader := P.S.reader.packetOf P.ack } ∧ Ws.conn = none ∧
    Ws.nets = P.ns0 ++ [{ wire := P.pkt, rx := [] }] ∧ Ws.now = P.now0 ∧ CoreEq W (connectGotPacket Ws)
  slot : W.slot = none

/-- The phases, indexed by the number of decisions that certainly suffice to finish. -/
inductive Hs (P : HsP) : Nat → World → Prop
  | write {W : World} (j : Nat) (h : HsWrite P j W) : Hs P (P.pkt.length - j + 1 + P.ack.length) W
  | flush {W : World} (h : HsFlush P W) : Hs P (1 + P.ack.length) W
  | read {W : World} (i : Nat) (h : HsRead P i W) : Hs P (P.ack.length - i) W
  | done {W : World} (h : HsEnd P W) : Hs P 0 W

/-- What the theorems need of the parameters: the session has a fresh reader with room, and the
answer is exactly one frame that fits the receive buffer. -/
structure HsP.Ok (P : HsP) : Prop where
  rdData : P.S.reader.data = []
  rdLen : P.S.reader.packetLength = none
  frame : frame1 P.S.reader.cap P.ack = .packet P.ack []
  pktNe : P.pkt ≠ []

theorem HsP.Ok.ackLen {P : HsP} (h : P.Ok) : 2 ≤ P.ack.length := by
  have := frame1_packet_shorter h.frame
  simp at this; omega

theorem curNet_of_nets {W : World} {ns : List Net} {n : Net} (h : W.nets = ns ++ [n]) : W.curNet = n := by
  unfold World.curNet; rw [h]; simp

theorem step_write {P : HsP} {j : Nat} {W : World} (h : HsWrite P j W) {k : Nat} (hk1 : 1 ≤ k) (hk : k ≤ 250) :
    ∃ m, m ≤ P.pkt.length - j + P.ack.length ∧ Hs P m (W.execDirective (.d k)) := by
  have hne : P.pkt.drop j ≠ [] := by
    intro h0; have := congrArg List.length h0; simp at this; have := h.hj; omega
  have hlen : (P.pkt.drop j).length = P.pkt.length - j := by simp
  have hlen0 : (P.pkt.drop j).length ≠ 0 := by have := h.hj; omega
  obtain ⟨hc1, hc2⟩ := wcount_bounds (k := k) hk1 hlen0
  have hexec := d_connWrite W (P.pkt.drop j) k h.fut hne hk
  simp only [] at hexec
  have hcur : W.curNet = { wire := P.pkt.take j, rx := P.ack } := curNet_of_nets h.nets
  have hdl : W.nets.dropLast = P.ns0 := by rw [h.nets]; simp
  have hnets' : ((({ W with slot := some k } : World).pollBase).wrote k (P.pkt.drop j)).nets =
        P.ns0 ++ [{ wire := P.pkt.take (j + wcount k (P.pkt.drop j).length), rx := P.ack }] := by
    show W.nets.dropLast ++ [{ W.curNet with wire := W.curNet.wire ++ (P.pkt.drop j).take (wcount k (P.pkt.drop j).length) }] = _
    rw [hdl, hcur, List.take_add]
  generalize wcount k (P.pkt.drop j).length = c at hc1 hc2 hexec hnets'
  rw [hlen] at hc2
  by_cases he : (P.pkt.drop j).drop c = []
  · rw [if_pos he] at hexec
    have hall : j + c = P.pkt.length := by
      have := congrArg List.length he
      simp only [List.length_drop, List.length_nil] at this; omega
    refine ⟨1 + P.ack.length, by have := h.hj; omega, ?_⟩
    rw [hexec]
    refine Hs.flush ⟨rfl, ?_, h.sess, h.conn, h.now, rfl⟩
    show (((({ W with slot := some k } : World).pollBase).wrote k (P.pkt.drop j))).nets = _
    rw [hnets', hall, List.take_length]
  · rw [if_neg he] at hexec
    have hlt : j + c < P.pkt.length := by
      rcases Nat.lt_or_ge (j + c) P.pkt.length with h1 | h1
      · exact h1
      · exfalso; apply he
        apply List.eq_nil_of_length_eq_zero
        simp only [List.length_drop]; omega
    refine ⟨P.pkt.length - (j + c) + 1 + P.ack.length, by omega, ?_⟩
    rw [hexec]
    refine Hs.write _ ⟨?_, hlt, ?_, h.sess, h.conn, h.now, rfl⟩
    · show some (Pc.connWrite ((P.pkt.drop j).drop c)) = _
      rw [List.drop_drop]
    · show (((({ W with slot := some k } : World).pollBase).wrote k (P.pkt.drop j))).nets = _
      exact hnets'

theorem step_flush {P : HsP} (hP : P.Ok) (hcap : 1 ≤ P.S.reader.cap) {W : World} (h : HsFlush P W) {k : Nat} (hk : k ≤ 250) :
    Hs P P.ack.length (W.execDirective (.d k)) := by
  have hw := Waiting_fresh P.S.reader P.ack hP.rdData hP.rdLen hcap
  obtain ⟨n, hn, hwin⟩ := hw.win
  have hcan := hw.canonical
  rw [hP.rdData] at hcan
  rw [d_connFlush W k h.fut hk]
  have hsess : ({ (({ (({ W with slot := some k } : World).pollBase) with slot := none, lastIoStarved := false } : World).emit
      s!"f {W.netIdx} ok @{W.now}") with sess := W.sess.clearPing } : World).sess.reader = P.S.reader := by
    show W.sess.clearPing.reader = _
    rw [h.sess]; rfl
  rw [dcr_pending 3998 _ P.S.reader n (by rw [hsess]; exact hw.notAvail) (by rw [hsess]; exact hwin) hn rfl]
  refine (show Hs P (P.ack.length - 0) _ from Hs.read 0 ⟨rfl, by have := hP.ackLen; omega, ?_, ?_, ?_, h.conn, h.now, rfl⟩)
  · show W.nets = _
    rw [h.nets]; simp
  · show ({ W.sess.clearPing with reader := P.S.reader } : Session) = _
    rw [h.sess, List.take_zero, ← hcan]
  · rw [List.take_zero, List.drop_zero, ← hcan]; exact hw
end Minimq

namespace Minimq
open Gen World Outbound

theorem CoreEq.refl (a : World) : CoreEq a a := ⟨rfl, rfl, rfl, rfl, rfl, rfl⟩

theorem step_read {P : HsP} (hP : P.Ok) {i : Nat} {W : World} (h : HsRead P i W) {k : Nat} (hk1 : 1 ≤ k) (hk : k ≤ 250) :
    ∃ m, m + 1 ≤ P.ack.length - i ∧ Hs P m (W.execDirective (.d k)) := by
  have hcur : W.curNet = { wire := P.pkt, rx := P.ack.drop i } := curNet_of_nets h.nets
  have hrx : W.curNet.rx = P.ack.drop i := by rw [hcur]
  have hrd : W.sess.reader = P.S.reader.holding (P.ack.take i) := by rw [h.sess]
  have hne : W.curNet.rx ≠ [] := by
    rw [hrx]; intro h0; have := congrArg List.length h0; simp at this; have := h.hi; omega
  have hwait : Waiting W.sess.reader W.curNet.rx := by rw [hrd, hrx]; exact h.waiting
  have hstream : W.sess.reader.data ++ W.curNet.rx = P.ack := by
    rw [hrd, hrx, holding_data, List.take_append_drop]
  have hcap : W.sess.reader.cap = P.S.reader.cap := by rw [hrd]; rfl
  obtain ⟨_, _, hc1, _, hcl⟩ := read_setup hwait hne hk1
  have hdl : W.nets.dropLast = P.ns0 := by rw [h.nets]; simp
  generalize hc : W.readCount k = c at hc1 hcl
  rw [hrx] at hcl
  simp only [List.length_drop] at hcl
  have htake : W.sess.reader.data ++ W.curNet.rx.take c = P.ack.take (i + c) := by
    rw [hrd, hrx, holding_data, List.take_add]
  have hdrop : W.curNet.rx.drop c = P.ack.drop (i + c) := by rw [hrx, List.drop_drop]
  cases hkind : readKind W.sess.reader W.curNet.rx (W.readCount k) with
  | packet =>
    obtain ⟨hf, hexec⟩ := dc_packet W k h.fut hwait hne hk1 hk hkind
    rw [hstream, hcap, hP.frame, hc] at hf
    simp only [Frame1.packet.injEq] at hf
    obtain ⟨hf1, hf2⟩ := hf
    refine ⟨0, by have := h.hi; omega, ?_⟩
    rw [hexec, hc, ← hf1, ← hf2]
    refine Hs.done ⟨⟨W.withRead (W.sess.reader.packetOf P.ack) [] [W.rLine c] none, ?_, h.conn, ?_, h.now, ⟨rfl, rfl, rfl, rfl, rfl, rfl⟩⟩, rfl⟩
    · show ({ W.sess with reader := W.sess.reader.packetOf P.ack } : Session) = _
      rw [h.sess]; rfl
    · show W.nets.dropLast ++ [{ W.curNet with rx := [] }] = _
      rw [hdl, hcur]
  | malformed =>
    obtain ⟨hf, _⟩ := dc_malformed W k h.fut hwait hne hk1 hk hkind
    rw [hstream, hcap, hP.frame] at hf
    cases hf
  | more =>
    obtain ⟨hexec, hw3, hex⟩ := dc_more W k h.fut hwait hne hk1 hk hkind
    rw [hc] at hexec hw3 hex
    have hnotend : P.ack.drop (i + c) ≠ [] := by
      intro h0
      have := hex (hdrop.trans h0)
      rw [hstream, hcap, hP.frame] at this
      cases this
    have hlt : i + c < P.ack.length := by
      rcases Nat.lt_or_ge (i + c) P.ack.length with h1 | h1
      · exact h1
      · exfalso; apply hnotend
        apply List.eq_nil_of_length_eq_zero
        simp only [List.length_drop]; omega
    refine ⟨P.ack.length - (i + c), by omega, ?_⟩
    rw [hexec]
    refine Hs.read (i + c) ⟨rfl, hlt, ?_, ?_, ?_, h.conn, h.now, rfl⟩
    · show W.nets.dropLast ++ [{ W.curNet with rx := W.curNet.rx.drop c }] = _
      rw [hdl, hcur]
      show P.ns0 ++ [({ wire := P.pkt, rx := (P.ack.drop i).drop c } : Net)] = _
      rw [List.drop_drop]
    · show ({ W.sess with reader := W.sess.reader.holding (W.sess.reader.data ++ W.curNet.rx.take c) } : Session) = _
      rw [htake, h.sess]; rfl
    · rw [htake, hdrop, hrd, holding_holding] at hw3
      exact hw3

/-- Once the handshake has ended, further decisions find nothing to resume. -/
theorem step_done {P : HsP} {W : World} (h : HsEnd P W) (k : Nat) : HsEnd P (W.execDirective (.d k)) := by
  obtain ⟨⟨Ws, h1, h2, h3, h4, hce⟩, hs⟩ := h
  have hfut : W.fut = none := hce.fut.trans (connectGotPacket_net Ws).2
  have : W.execDirective (.d k) = W.emit "bad-op" := by
    simp only [World.execDirective, hfut, Option.isNone_none, if_true]
  rw [this]
  exact ⟨⟨Ws, h1, h2, h3, h4, ⟨hce.sess, hce.conn, hce.nets, hce.fut, hce.now, hce.lastRes⟩⟩, hs⟩

theorem Hs.step {P : HsP} (hP : P.Ok) (hcap : 1 ≤ P.S.reader.cap) {m : Nat} {W : World} (h : Hs P m W) {k : Nat}
    (hk1 : 1 ≤ k) (hk : k ≤ 250) : ∃ m', m' ≤ m - 1 ∧ Hs P m' (W.execDirective (.d k)) := by
  cases h with
  | write j hw =>
    obtain ⟨m', hm, hs⟩ := step_write hw hk1 hk
    exact ⟨m', by have := hw.hj; omega, hs⟩
  | flush hf => exact ⟨P.ack.length, by omega, step_flush hP hcap hf hk⟩
  | read i hr =>
    obtain ⟨m', hm, hs⟩ := step_read hP hr hk1 hk
    exact ⟨m', by omega, hs⟩
  | done hd => exact ⟨0, Nat.zero_le _, Hs.done (step_done hd k)⟩

/-- Feed the decisions `ks`, one `d k` directive each. -/
def runDs (ks : List Nat) (W : World) : World := (ks.map Directive.d).foldl World.execDirective W

theorem runDs_cons (k : Nat) (ks : List Nat) (W : World) : runDs (k :: ks) W = runDs ks (W.execDirective (.d k)) := rfl

/-- **Progress.** Every decision brings the handshake at least one unit closer to its end; after as
many decisions as the potential says, it has ended. -/
theorem Hs.run {P : HsP} (hP : P.Ok) (hcap : 1 ≤ P.S.reader.cap) : ∀ (ks : List Nat) {m : Nat} {W : World},
    Hs P m W → (∀ k ∈ ks, 1 ≤ k ∧ k ≤ 250) → ∃ m', m' ≤ m - ks.length ∧ Hs P m' (runDs ks W)
  | [], m, W, h, _ => ⟨m, by simp, h⟩
  | k :: ks, m, W, h, hks => by
    obtain ⟨hk1, hk⟩ := hks k (List.mem_cons_self ..)
    obtain ⟨m1, hm1, h1⟩ := h.step hP hcap hk1 hk
    obtain ⟨m2, hm2, h2⟩ := Hs.run hP hcap ks h1 (fun k' hk' => hks k' (List.mem_cons_of_mem _ hk'))
    exact ⟨m2, by simp only [List.length_cons]; omega, by rw [runDs_cons]; exact h2⟩

theorem Hs.zero {P : HsP} (hP : P.Ok) {W : World} (h : Hs P 0 W) : HsEnd P W := by
  generalize hm : (0 : Nat) = m at h
  cases h with
  | write j hw => have := hw.hj; omega
  | flush hf => omega
  | read i hr => have := hr.hi; omega
  | done hd => exact hd
end Minimq

namespace Minimq
open Gen World Outbound

/-! ### A well-formed server packet is exactly one frame -/

theorem lenField_encodeVarint (n : Nat) (rest : Bytes) (h : n ≤ 268435455) :
    lenField 4 (encodeVarint n ++ rest) = .complete (encodeVarint n).length n := by
  unfold encodeVarint
  split
  · simp only [List.cons_append, List.nil_append, lenField, b_toNat, List.length_singleton]
    rw [if_pos (by omega)]
    congr 1; omega
  · split
    · simp only [List.cons_append, List.nil_append, lenField, b_toNat, List.length_cons, List.length_nil]
      rw [if_neg (by omega), if_pos (by omega)]
      simp only []
      congr 1; omega
    · split
      · simp only [List.cons_append, List.nil_append, lenField, b_toNat, List.length_cons, List.length_nil]
        rw [if_neg (by omega), if_neg (by omega), if_pos (by omega)]
        simp only []
        congr 1; omega
      · simp only [List.cons_append, List.nil_append, lenField, b_toNat, List.length_cons, List.length_nil]
        rw [if_neg (by omega), if_neg (by omega), if_neg (by omega), if_pos (by omega)]
        simp only []
        congr 1; omega

/-- A fixed header byte, the canonical remaining length and exactly that many bytes: one frame, for
every receive buffer that can hold it. -/
theorem frame1_framed (cap : Nat) (hdr : UInt8) (body : Bytes) (hn : body.length ≤ 268435455)
    (hcap : (hdr :: (encodeVarint body.length ++ body)).length ≤ cap) :
    frame1 cap (hdr :: (encodeVarint body.length ++ body)) = .packet (hdr :: (encodeVarint body.length ++ body)) [] := by
  have hfh : fixedHeader (hdr :: (encodeVarint body.length ++ body)) =
      .complete (1 + (encodeVarint body.length).length) (1 + (encodeVarint body.length).length + body.length) := by
    simp only [fixedHeader, lenField_encodeVarint _ _ hn]
  have hlen : (hdr :: (encodeVarint body.length ++ body)).length = 1 + (encodeVarint body.length).length + body.length := by
    simp only [List.length_cons, List.length_append]; omega
  unfold frame1
  rw [hfh]
  simp only []
  rw [if_neg (by omega), if_neg (by omega), ← hlen, List.take_length, List.drop_length]

theorem frame1_encodeServer (cap : Nat) (p : Spec.ServerPacket) (hwf : p.wf = true)
    (hcap : (Spec.encodeServer p).length ≤ cap) :
    frame1 cap (Spec.encodeServer p) = .packet (Spec.encodeServer p) [] := by
  have hlen : (Spec.body p).length ≤ 268435455 := by
    unfold Spec.ServerPacket.wf at hwf
    simp only [Bool.and_eq_true, decide_eq_true_eq] at hwf
    exact hwf.1
  unfold Spec.encodeServer at hcap ⊢
  rw [encVarint_eq _ hlen] at hcap ⊢
  exact frame1_framed cap _ _ hlen hcap
end Minimq

namespace Minimq
open Gen World Outbound

/-! ### Entering the handshake: `connect`, then the broker's answer arrives -/

/-- The parameters of the handshake started from `w` with CONNECT `pkt`, answered with `ack`. -/
def hsP (w : World) (pkt ack : Bytes) : HsP :=
  { ns0 := w.nets,
    S := (w.sess.beginConnect.encode (connEnc w.sess.beginConnect.connectPacket)).1,
    pkt := pkt, ack := ack, now0 := w.now }

theorem hsP_reader (w : World) (pkt ack : Bytes) :
    (hsP w pkt ack).S.reader = w.sess.reader.reset := by
  show (w.sess.beginConnect.encode _).1.reader = _
  rw [Session.encode_fst]; rfl

theorem connectStart_slot (w : World) : w.connectStart.slot = w.slot := by
  show w.dropConn.slot = _
  unfold World.dropConn World.cancelFut
  simp only []
  split <;> split <;> rfl

/-- `connect` with no decision available: CONNECT is encoded, the write is pending, the operation is
suspended holding the whole CONNECT; then the broker's bytes arrive on the new transport. -/
theorem hs_enter (w : World) (hinv : w.sess.data.outbound.ArenaInv) (hslot : w.slot = none) (off : Nat) (pkt ack : Bytes)
    (he : encodeConnect w.sess.data.outbound.scratchLen w.sess.beginConnect.connectPacket = .ok (off, pkt)) :
    HsWrite (hsP w pkt ack) 0 ((w.execDirective .connect).execDirective (.rx ack)) := by
  obtain ⟨hs, hpos⟩ := (startConnect_spec w hinv).2 off pkt he
  obtain ⟨c1, c2, c3, c4, c5, c6, c7⟩ := connectStart_spec w
  have hne : pkt ≠ [] := by intro h0; rw [h0] at hpos; simp at hpos
  have hconn : w.execDirective .connect = w.startConnect := rfl
  rw [hconn, hs]
  rw [show pollFuel = 3999 + 1 from rfl, dlw_pending 3999 _ pkt (by show w.connectStart.slot = none; rw [connectStart_slot, hslot]) hne]
  -- now the `rx` directive
  generalize hX : (({ (({ w.connectStart with sess := (w.sess.beginConnect.encode (connEnc w.sess.beginConnect.connectPacket)).1 } : World).emit
      s!"wp {({ w.connectStart with sess := (w.sess.beginConnect.encode (connEnc w.sess.beginConnect.connectPacket)).1 } : World).netIdx}") with
      lastIoStarved := false } : World).suspend (.connWrite pkt)) = X
  have hXn : X.nets = w.nets ++ [({ } : Net)] := by rw [← hX]; exact c2
  have hXs : X.sess = (hsP w pkt ack).S := by rw [← hX]; rfl
  have hXc : X.conn = none := by rw [← hX]; exact c6
  have hXnow : X.now = w.now := by rw [← hX]; exact c7
  have hXslot : X.slot = none := by rw [← hX]; show w.connectStart.slot = none; rw [connectStart_slot, hslot]
  have hXf : X.fut = some (.connWrite pkt) := by rw [← hX]; rfl
  have hemp : X.nets.isEmpty = false := by rw [hXn]; simp
  have hcur : X.curNet = ({ } : Net) := curNet_of_nets hXn
  have hrx : X.execDirective (.rx ack) = X.setCurNet { X.curNet with rx := X.curNet.rx ++ ack } := by
    simp only [World.execDirective, hemp, Bool.false_eq_true, if_false]
  rw [hrx]
  refine ⟨by rw [List.drop_zero]; exact hXf, hpos, ?_, hXs, hXc, hXnow, hXslot⟩
  show X.nets.dropLast ++ [{ X.curNet with rx := X.curNet.rx ++ ack }] = _
  rw [hXn, hcur]
  simp [hsP]

/-! ### What `connect_handshake` makes of the packet in the reader -/

/-- The session when the answer has been taken out of the reader. -/
def HsP.taken (P : HsP) : Session :=
  { P.S.clearPing with reader := { P.S.reader with data := [], packetLength := none, last := P.ack } }

theorem takePkt_packetOf (s : Session) (r : Reader) (ack : Bytes) :
    ({ s with reader := r.packetOf ack } : Session).takePkt =
      ({ s with reader := { r with data := [], packetLength := none, last := ack } },
        (fromBuffer ack).map fun p => (ack.length, p)) := by
  unfold Session.takePkt Reader.takePacket Reader.packetOf
  simp only [List.take_length]
  cases fromBuffer ack <;> rfl

/-- The end of the handshake, case by case, for a world `Ws` holding the complete answer. -/
theorem connectGotPacket_cases (P : HsP) (Ws : World)
    (h1 : Ws.sess = { P.S.clearPing with reader := P.S.reader.packetOf P.ack }) (h2 : Ws.conn = none)
    (h4 : Ws.now = P.now0) :
    -- accepted
    (∀ sp rc block, fromBuffer P.ack = some (.connAck sp rc block) → reasonSuccess rc = true → connackBlockOk block →
      (connectGotPacket Ws).sess = P.taken.activated sp block P.now0 ∧
      (connectGotPacket Ws).conn = some { live := true, resumed := sp } ∧
      (connectGotPacket Ws).lastRes = some (.ok ())) ∧
    -- refused by reason code
    (∀ sp rc block, fromBuffer P.ack = some (.connAck sp rc block) → reasonSuccess rc = false →
      (connectGotPacket Ws).sess = P.taken ∧ (connectGotPacket Ws).conn = none ∧
      (connectGotPacket Ws).lastRes = some (.error (.peerRejected rc))) ∧
    -- success code, unacceptable properties
    (∀ sp rc block, fromBuffer P.ack = some (.connAck sp rc block) → reasonSuccess rc = true → ¬ connackBlockOk block →
      (connectGotPacket Ws).sess = P.taken.rejected sp ∧ (connectGotPacket Ws).conn = none ∧
      (connectGotPacket Ws).lastRes = some (.error .peerInvalid)) ∧
    -- not decodable
    (fromBuffer P.ack = none →
      (connectGotPacket Ws).sess = P.taken.handleDisconnect ∧ (connectGotPacket Ws).conn = none ∧
      (connectGotPacket Ws).lastRes = some (.error .peerInvalid)) ∧
    -- some other packet
    (∀ p, fromBuffer P.ack = some p → (∀ sp rc block, p ≠ .connAck sp rc block) →
      (connectGotPacket Ws).sess = P.taken.handleDisconnect ∧ (connectGotPacket Ws).conn = none ∧
      ((connectGotPacket Ws).lastRes = some (.error .peerInvalid) ∨
       (connectGotPacket Ws).lastRes = some (.error .disconnected))) := by
  have htk : Ws.sess.takePkt = (P.taken, (fromBuffer P.ack).map fun p => (P.ack.length, p)) := by
    rw [h1]; exact takePkt_packetOf _ _ _
  refine ⟨?_, ?_, ?_, ?_, ?_⟩
  · intro sp rc block hfb hrc hb
    unfold World.connectGotPacket
    rw [htk, hfb]
    simp only [Option.map_some, hrc, Bool.not_true, Bool.false_eq_true, if_false]
    unfold World.activate
    simp only []
    rw [h4, (activate_eq P.taken sp block P.now0).1 hb]
    exact ⟨rfl, rfl, rfl⟩
  · intro sp rc block hfb hrc
    unfold World.connectGotPacket
    rw [htk, hfb]
    simp only [Option.map_some, hrc, Bool.not_false, if_true]
    exact ⟨rfl, h2, rfl⟩
  · intro sp rc block hfb hrc hb
    unfold World.connectGotPacket
    rw [htk, hfb]
    simp only [Option.map_some, hrc, Bool.not_true, Bool.false_eq_true, if_false]
    unfold World.activate
    simp only []
    rw [h4, (activate_eq P.taken sp block P.now0).2 hb]
    refine ⟨rfl, ?_, rfl⟩
    show Ws.conn.map _ = none
    rw [h2]; rfl
  · intro hfb
    unfold World.connectGotPacket
    rw [htk, hfb]
    refine ⟨rfl, ?_, rfl⟩
    show Ws.conn.map _ = none
    rw [h2]; rfl
  · intro p hfb hp
    unfold World.connectGotPacket
    rw [htk, hfb]
    have hc : Ws.conn.map (fun (c : Conn) => { c with live := false }) = none := by rw [h2]; rfl
    cases p with
    | connAck sp rc block => exact absurd rfl (hp sp rc block)
    | disconnect rc props => exact ⟨rfl, hc, Or.inr rfl⟩
    | publish => exact ⟨rfl, hc, Or.inl rfl⟩
    | pubAck => exact ⟨rfl, hc, Or.inl rfl⟩
    | pubRec => exact ⟨rfl, hc, Or.inl rfl⟩
    | pubRel => exact ⟨rfl, hc, Or.inl rfl⟩
    | pubComp => exact ⟨rfl, hc, Or.inl rfl⟩
    | subAck => exact ⟨rfl, hc, Or.inl rfl⟩
    | unsubAck => exact ⟨rfl, hc, Or.inl rfl⟩
    | pingResp => exact ⟨rfl, hc, Or.inl rfl⟩
end Minimq

namespace Minimq
open Gen World Outbound

theorem frame_cap {cap : Nat} {ack : Bytes} (h : frame1 cap ack = .packet ack []) : ack.length ≤ cap ∧ 2 ≤ ack.length := by
  obtain ⟨hl, t, _, htc, hts, hpk, _⟩ := frame1_packet h
  have h2 := frame1_packet_shorter h
  have : ack.length = (ack.take t).length := by rw [← hpk]
  simp only [List.length_take] at this
  simp only [List.length_nil] at h2
  omega

theorem hsP_ok (w : World) (pkt ack : Bytes) (hne : pkt ≠ [])
    (hframe : frame1 w.sess.reader.cap ack = .packet ack []) : (hsP w pkt ack).Ok := by
  refine ⟨?_, ?_, ?_, hne⟩
  · rw [hsP_reader]; rfl
  · rw [hsP_reader]; rfl
  · rw [hsP_reader]; exact hframe

/-- **The handshake under any decisions.** From any world (arena laid out sanely, no decision
pending), if CONNECT can be encoded, `connect` followed by the arrival of an answer that is one frame
fitting the receive buffer, followed by any decisions `d k` with `1 ≤ k ≤ 250`, is in one of the four
phases, at most `|CONNECT| + 1 + |answer| − (number of decisions)` decisions away from the end. -/
theorem handshake_run (w : World) (hinv : w.sess.data.outbound.ArenaInv) (hslot : w.slot = none) (off : Nat)
    (pkt ack : Bytes)
    (he : encodeConnect w.sess.data.outbound.scratchLen w.sess.beginConnect.connectPacket = .ok (off, pkt))
    (hframe : frame1 w.sess.reader.cap ack = .packet ack [])
    (ks : List Nat) (hks : ∀ k ∈ ks, 1 ≤ k ∧ k ≤ 250) :
    ∃ m, m ≤ pkt.length + 1 + ack.length - ks.length ∧
      Hs (hsP w pkt ack) m (runDs ks ((w.execDirective .connect).execDirective (.rx ack))) := by
  have hent := hs_enter w hinv hslot off pkt ack he
  have hne : pkt ≠ [] := by
    intro h0; have := hent.hj; rw [show (hsP w pkt ack).pkt = pkt from rfl, h0] at this; simp at this
  have hP := hsP_ok w pkt ack hne hframe
  have hcap : 1 ≤ (hsP w pkt ack).S.reader.cap := by
    rw [hsP_reader]; show 1 ≤ w.sess.reader.cap; have := frame_cap hframe; omega
  have h0 : Hs (hsP w pkt ack) (pkt.length - 0 + 1 + ack.length) _ := Hs.write 0 hent
  obtain ⟨m, hm, h⟩ := Hs.run hP hcap ks h0 hks
  exact ⟨m, by omega, h⟩

theorem handshake_ends (w : World) (hinv : w.sess.data.outbound.ArenaInv) (hslot : w.slot = none) (off : Nat)
    (pkt ack : Bytes)
    (he : encodeConnect w.sess.data.outbound.scratchLen w.sess.beginConnect.connectPacket = .ok (off, pkt))
    (hframe : frame1 w.sess.reader.cap ack = .packet ack [])
    (ks : List Nat) (hks : ∀ k ∈ ks, 1 ≤ k ∧ k ≤ 250) (hlen : pkt.length + 1 + ack.length ≤ ks.length) :
    HsEnd (hsP w pkt ack) (runDs ks ((w.execDirective .connect).execDirective (.rx ack))) := by
  obtain ⟨m, hm, h⟩ := handshake_run w hinv hslot off pkt ack he hframe ks hks
  have hm0 : m = 0 := by omega
  subst hm0
  have hent := hs_enter w hinv hslot off pkt ack he
  have hne : pkt ≠ [] := by
    intro h0; have := hent.hj; rw [show (hsP w pkt ack).pkt = pkt from rfl, h0] at this; simp at this
  exact Hs.zero (hsP_ok w pkt ack hne hframe) h

/-- What the phases say about bytes: nothing is lost and nothing is duplicated — the wire of the new
transport followed by what is still to be written is the CONNECT; the reader followed by what the
transport still holds is the answer. -/
theorem Hs.conserved {P : HsP} {m : Nat} {W : World} (h : Hs P m W) (hm : m ≠ 0) :
    W.nets.dropLast = P.ns0 ∧ W.conn = none ∧ W.now = P.now0 ∧
    ((∃ j, W.fut = some (.connWrite (P.pkt.drop j)) ∧ W.curNet.wire = P.pkt.take j ∧ W.curNet.rx = P.ack ∧ W.sess = P.S) ∨
     (W.fut = some .connFlush ∧ W.curNet.wire = P.pkt ∧ W.curNet.rx = P.ack ∧ W.sess = P.S) ∨
     (∃ i, W.fut = some .connRead ∧ W.curNet.wire = P.pkt ∧ W.sess.reader.data = P.ack.take i ∧
        W.curNet.rx = P.ack.drop i ∧ W.sess.data = P.S.data)) := by
  cases h with
  | write j hw =>
    have hc := curNet_of_nets hw.nets
    exact ⟨by rw [hw.nets]; simp, hw.conn, hw.now, Or.inl ⟨j, hw.fut, by rw [hc], by rw [hc], hw.sess⟩⟩
  | flush hf =>
    have hc := curNet_of_nets hf.nets
    exact ⟨by rw [hf.nets]; simp, hf.conn, hf.now, Or.inr (Or.inl ⟨hf.fut, by rw [hc], by rw [hc], hf.sess⟩)⟩
  | read i hr =>
    have hc := curNet_of_nets hr.nets
    exact ⟨by rw [hr.nets]; simp, hr.conn, hr.now,
      Or.inr (Or.inr ⟨i, hr.fut, by rw [hc], by rw [hr.sess]; rfl, by rw [hc], by rw [hr.sess]; rfl⟩)⟩
  | done hd => exact absurd rfl hm
end Minimq

namespace Minimq
open Gen World Outbound Fuel

theorem call_slot_none (c : Call) (h : c.world.slot = none) : (c.run pollFuel).slot = none :=
  (run_pollFuel_final c).rel.slot_none h

theorem cancelFut_slot (w : World) : w.cancelFut.slot = w.slot := by
  unfold World.cancelFut; split <;> rfl

theorem dropConn_slot (w : World) : w.dropConn.slot = w.slot := by
  unfold World.dropConn
  simp only []
  split
  · exact cancelFut_slot w
  · exact cancelFut_slot w

theorem goLoop_slot_none (n : Nat) (w : World) (h : w.slot = none) : (World.goLoop n w).slot = none := by
  induction n generalizing w with
  | zero => exact h
  | succ n ih =>
    simp only [World.goLoop]
    repeat' split
    all_goals first
      | rfl
      | exact ih _ rfl

/-- **No I/O decision is left over between directives**: every directive leaves the decision slot
empty if it found it empty. -/
theorem execDirective_slot_none (w : World) (d : Directive) (h : w.slot = none) : (w.execDirective d).slot = none := by
  have hop : ∀ (name : String) (body : World → World), (∀ w', w'.slot = none → (body w').slot = none) →
      (w.startOp name body).slot = none := by
    intro name body hb
    unfold World.startOp
    split
    · exact h
    · exact hb _ (by show w.cancelFut.slot = none; rw [cancelFut_slot]; exact h)
  cases d with
  | bad => exact h
  | connect =>
    show w.startConnect.slot = none
    unfold World.startConnect
    simp only []
    split
    · show w.dropConn.slot = none; rw [dropConn_slot]; exact h
    · exact call_slot_none (.DLW _ 0 _) (by show w.dropConn.slot = none; rw [dropConn_slot]; exact h)
  | publish r =>
    refine hop _ _ fun w' hw' => ?_
    split
    · exact hw'
    · exact call_slot_none (.FL w' _) hw'
  | subscribe r =>
    refine hop _ _ fun w' hw' => ?_
    repeat' split
    all_goals first
      | exact hw'
      | exact call_slot_none (.FL w' _) hw'
  | unsubscribe r =>
    refine hop _ _ fun w' hw' => ?_
    repeat' split
    all_goals first
      | exact hw'
      | exact call_slot_none (.FL w' _) hw'
  | disconnect dd =>
    refine hop _ _ fun w' hw' => ?_
    simp only []
    repeat' split
    all_goals first
      | exact hw'
      | exact call_slot_none (.FL w' _) hw'
  | poll => exact hop _ _ fun w' hw' => call_slot_none (.DE w' .poll) hw'
  | recv => exact hop _ _ fun w' hw' => call_slot_none (.DE w' .recv) hw'
  | drive => exact hop _ _ fun w' hw' => call_slot_none (.DE w' .drive) hw'
  | d n =>
    simp only [World.execDirective]
    split
    · exact h
    · rfl
  | go =>
    simp only [World.execDirective]
    split
    · exact h
    · exact goLoop_slot_none _ _ h
  | tick us =>
    simp only [World.execDirective]
    split
    · exact h
    · split
      · exact (poll_rel _).slot_none h
      · exact h
  | rx bytes =>
    simp only [World.execDirective]
    split
    · exact h
    · exact h
  | cancel => show w.cancelFut.slot = none; rw [cancelFut_slot]; exact h
  | drop => show w.dropConn.slot = none; rw [dropConn_slot]; exact h
  | setpid n =>
    simp only [World.execDirective]
    split
    · exact h
    · exact h
  | decode bs => exact h

theorem run_slot_none (ds : List Directive) (w : World) (h : w.slot = none) :
    (ds.foldl World.execDirective w).slot = none := by
  induction ds generalizing w with
  | nil => exact h
  | cons d ds ih => exact ih _ (execDirective_slot_none w d h)
end Minimq
