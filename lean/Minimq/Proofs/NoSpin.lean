import Minimq.Proofs.FuelAdequate
/-
No busy loop inside `poll()` — part 1: the vocabulary and the service pass.

`doWaitRead` counts a *self-wake* when `with_deadline` is entered with a deadline that has already
passed (the timer registers, is woken at once, and is polled again); after 64 of them in one POLL the
model prints `spin` (finding F13 was exactly this: an expired `next_deadline` while a PINGREQ was
outstanding). Here:

 * `Fresh now d`: the deadline `d` is `none` or strictly in the future;
 * `Served w`: if nothing is left to send, `next_deadline()` is fresh — what holds after a service
   pass (`service_served`: the ping timeout, if one is running, has not expired, or the connection
   would have been closed; a due PINGREQ has been queued, or is still pending, and then there *is*
   something left to send);
 * `Good c`: the invariant of the calls that can lead to `wait_for_progress` — `doWaitRead` with
   `yielded = false` always has a fresh deadline;
 * `K b c`: `Good c` and at most `b` self-wakes so far, where `b = 1` also allows a hand-made await
   point `waitRead _ d false` with an expired deadline (the machine itself only ever suspends with
   `yielded = true`);
 * `Lines w w'`: the trace grew only by lines that contain a blank (so by neither `spin` nor `fuel`).
-/
namespace Minimq
open Gen World Fuel
namespace NoSpin

/-! ### Deadlines -/

/-- The deadline is absent or strictly in the future. -/
def Fresh (now : Nat) : Option Nat → Prop
  | none => True
  | some d => now < d

/-- After a service pass: if nothing is left to send, the next deadline is fresh. -/
def Served (w : World) : Prop :=
  w.sess.data.outbound.nextStep = none → Fresh w.now w.sess.rt.nextDeadline

/-- The invariant of the calls of the drive loop. -/
def Good : Call → Prop
  | .DWR w _ d false => Fresh w.now d
  | .DAS w _ false => Served w
  | .SR w (.drive adv _) a => (adv || a) = false → Served w
  | .PS w (.drive false _) step _ => isDone (prepareStep w step) = true → Served w
  | _ => True

/-- `doWaitRead` before its timer has yielded. -/
def isWait : Call → Bool
  | .DWR _ _ _ false => true
  | _ => false

/-- `Good`, and at most `b` self-wakes; for `b = 1` also a not yet yielded `doWaitRead` with an
arbitrary deadline, as long as it has not woken itself. -/
def K (b : Nat) (c : Call) : Prop :=
  c.world.wakes ≤ b ∧ (Good c ∨ (b = 1 ∧ isWait c = true ∧ c.world.wakes = 0))

theorem K.same {b : Nat} {c c' : Call} (k : K b c) (hw : c'.world.wakes = c.world.wakes) (hg : Good c') :
    K b c' := ⟨by rw [hw]; exact k.1, .inl hg⟩

/-! ### An entry that is not yet sent keeps the scheduler busy -/

theorem matches_some_priority (st : SendState) (h : st ≠ .sent) :
    st.matchesPriority true = true ∨ st.matchesPriority false = true := by
  cases st with
  | sent => exact absurd rfl h
  | flush => exact .inl rfl
  | write n => cases n with
    | zero => exact .inr rfl
    | succ k => exact .inl rfl

theorem find_some_of_mem {α} (p : α → Bool) (l : List α) (a : α) (ha : a ∈ l) (hp : p a = true) :
    ∃ x, l.find? p = some x := by
  cases h : l.find? p with
  | some x => exact ⟨x, rfl⟩
  | none => exact absurd hp (by simpa using List.find?_eq_none.mp h a ha)

theorem nextStepPrio_control (o : Outbound) (b : Bool) (e : PendingControl) (he : e ∈ o.control)
    (hm : e.state.matchesPriority b = true) : o.nextStepPrio b ≠ none := by
  obtain ⟨x, hx⟩ := find_some_of_mem (fun e : PendingControl => e.state.matchesPriority b) o.control e he hm
  unfold Outbound.nextStepPrio
  rw [hx]; simp

/-- A control entry that is not `sent` means `next_step()` has something to offer. -/
theorem nextStep_of_control (o : Outbound) (e : PendingControl) (he : e ∈ o.control) (hs : e.state ≠ .sent) :
    o.nextStep ≠ none := by
  unfold Outbound.nextStep
  rcases matches_some_priority e.state hs with h | h
  · have := nextStepPrio_control o true e he h
    cases hp : o.nextStepPrio true with
    | none => exact absurd hp this
    | some s => simp
  · cases hp : o.nextStepPrio true with
    | some s => simp
    | none => simpa using nextStepPrio_control o false e he h

theorem nextStep_of_pendingPingreq (o : Outbound) (h : o.hasPendingPingreq = true) : o.nextStep ≠ none := by
  unfold Outbound.hasPendingPingreq at h
  obtain ⟨e, he, hp⟩ := List.any_eq_true.mp h
  simp only [Bool.and_eq_true, decide_eq_true_eq] at hp
  exact nextStep_of_control o e he (by simpa using hp.2)

/-! ### The service pass -/

theorem nextDeadline_of_timeout (r : Runtime) (pt : Nat) (h : r.pingTimeout = some pt) : r.nextDeadline = some pt := by
  unfold Runtime.nextDeadline; rw [h]; cases r.nextPing <;> rfl

theorem nextDeadline_no_timeout (r : Runtime) (h : r.pingTimeout = none) : r.nextDeadline = r.nextPing := by
  unfold Runtime.nextDeadline; rw [h]; cases r.nextPing <;> rfl

/-- When `maybe_queue_pingreq` does queue, there is something to send afterwards. -/
theorem queued_nextStep (s s' : Session)
    (h : (match checkSize s.rt (encodeControl ControlAction.pingReq) with
      | .error e => Except.error e
      | .ok () =>
        match s.data.outbound.queueControl ControlAction.pingReq with
        | none => .error .inflightExhausted
        | some o => .ok (s.setOutbound o)) = .ok s') : s'.data.outbound.nextStep ≠ none := by
  split at h
  · simp at h
  · split at h
    · simp at h
    · rename_i o ho
      simp only [Except.ok.injEq] at h
      subst h
      unfold Outbound.queueControl at ho
      split at ho
      · simp at ho
      · simp only [Option.some.injEq] at ho
        subst ho
        exact nextStep_of_control _ { action := ControlAction.pingReq, state := .write 0 }
          (by simp [Session.setOutbound]) (by intro h; cases h)

/-- `maybe_queue_pingreq(now)` succeeded and nothing is left to send: then no PINGREQ is due. -/
theorem queuePing_served (s s' : Session) (now : Nat) (hq : s.queuePing now = .ok s')
    (hn : s'.data.outbound.nextStep = none) :
    s' = s ∧ (s.rt.pingTimeout = none → ∀ np, s.rt.nextPing = some np → now < np) := by
  unfold Session.queuePing at hq
  cases hpt : s.rt.pingTimeout with
  | some pt =>
    simp only [hpt, Option.isNone_some, Bool.false_and, Bool.false_eq_true, if_false, Except.ok.injEq] at hq
    exact ⟨hq.symm, fun h => by simp at h⟩
  | none =>
    cases hnp : s.rt.nextPing with
    | none =>
      simp only [hpt, hnp, Option.isNone_none, Bool.and_false, Bool.false_and, Bool.false_eq_true, if_false,
        Except.ok.injEq] at hq
      exact ⟨hq.symm, fun _ np h => by simp at h⟩
    | some np =>
      simp only [hpt, hnp, Option.isNone_none, Bool.true_and] at hq
      by_cases hd : now ≥ np
      · cases hp : s.data.outbound.hasPendingPingreq with
        | true =>
          simp only [hp, Bool.not_true, Bool.and_false, Bool.false_eq_true, if_false, Except.ok.injEq] at hq
          subst hq
          exact absurd hn (nextStep_of_pendingPingreq _ hp)
        | false =>
          simp only [hp, hd, decide_true, Bool.not_false, Bool.and_self, if_true] at hq
          exact absurd hn (queued_nextStep s s' hq)
      · simp only [hd, decide_false, Bool.false_and, Bool.false_eq_true, if_false, Except.ok.injEq] at hq
        refine ⟨hq.symm, fun _ np' h => ?_⟩
        simp only [Option.some.injEq] at h; omega

/-- **The service pass leaves a fresh deadline.** If `service(now)` did not close the connection
(the ping timeout has not expired) and `maybe_queue_pingreq(now)` succeeded, and afterwards nothing
is left to send, then `next_deadline()` is `None` or strictly later than `now`. -/
theorem service_served (w w1 : World) (ht : timedOut w = false)
    (hq : w.maybeQueuePingreq w.now = .ok w1) :
    Served w1 ∧ w1.now = w.now ∧ w1.wakes = w.wakes ∧ w1.out = w.out := by
  unfold World.maybeQueuePingreq at hq
  cases hs : w.sess.queuePing w.now with
  | error e => rw [hs] at hq; simp at hq
  | ok s =>
    rw [hs] at hq
    simp only [Except.ok.injEq] at hq
    subst hq
    refine ⟨?_, rfl, rfl, rfl⟩
    intro hn
    show Fresh w.now s.rt.nextDeadline
    obtain ⟨rfl, hdue⟩ := queuePing_served w.sess s w.now hs hn
    cases hpt : w.sess.rt.pingTimeout with
    | some pt =>
      rw [nextDeadline_of_timeout _ pt hpt]
      unfold timedOut at ht
      rw [hpt] at ht
      simp only [decide_eq_false_iff_not, ge_iff_le, Nat.not_le] at ht
      exact ht
    | none =>
      rw [nextDeadline_no_timeout _ hpt]
      cases hnp : w.sess.rt.nextPing with
      | none => trivial
      | some np => exact hdue hpt np hnp

/-! ### Trace lines -/

/-- From `w` to `w'` the trace grew only by lines that contain a blank. -/
def Lines (w w' : World) : Prop := ∃ new, w'.out = new ++ w.out ∧ ∀ l ∈ new, ' ' ∈ l.toList

theorem Lines.refl (w : World) : Lines w w := ⟨[], rfl, by simp⟩

theorem Lines.trans {a b c : World} (h1 : Lines a b) (h2 : Lines b c) : Lines a c := by
  obtain ⟨n1, e1, f1⟩ := h1
  obtain ⟨n2, e2, f2⟩ := h2
  refine ⟨n2 ++ n1, by rw [e2, e1, List.append_assoc], ?_⟩
  intro l hl
  rcases List.mem_append.mp hl with h | h
  · exact f2 l h
  · exact f1 l h

theorem Lines.of_eq {w a b : World} (h : Lines w a) (ho : b.out = a.out) : Lines w b := by
  unfold Lines; rw [ho]; exact h

theorem Lines.of_eq_left {a a' b : World} (h : Lines a b) (ho : a'.out = a.out) : Lines a' b := by
  unfold Lines; rw [ho]; exact h

theorem Lines.emit {w a : World} (h : Lines w a) (l : String) (hl : ' ' ∈ l.toList) : Lines w (a.emit l) := by
  refine h.trans ⟨[l], rfl, ?_⟩
  intro x hx; simp only [List.mem_singleton] at hx; subst hx; exact hl

theorem Lines.foldl_emit {w a : World} (ls : List String) (h : Lines w a) (hl : ∀ l ∈ ls, ' ' ∈ l.toList) :
    Lines w (ls.foldl World.emit a) := by
  induction ls generalizing a with
  | nil => exact h
  | cons x xs ih => exact ih (h.emit x (hl x (by simp))) (fun l m => hl l (by simp [m]))

theorem Lines.finish {w a : World} (h : Lines w a) (line : String) : Lines w (a.finish line) :=
  (h.emit (s!"{line} @{a.now}") (by simp [toString])).of_eq rfl

theorem Lines.finishErr {w a : World} (h : Lines w a) (op : String) (e : Err) : Lines w (a.finishErr op e) :=
  (h.finish _).of_eq rfl

theorem Lines.suspend {w a : World} (h : Lines w a) (pc : Pc) : Lines w (a.suspend pc) := h.of_eq rfl

theorem Lines.handleDisconnect {w a : World} (h : Lines w a) : Lines w a.handleDisconnect := h.of_eq rfl

theorem Lines.failStep {w a : World} (h : Lines w a) (ctx : StepCtx) (st : Outbound.Step) : Lines w (a.failStep ctx st) :=
  h.of_eq (failStep_out a ctx st)

theorem Lines.discFail {w a : World} (h : Lines w a) (ctx : StepCtx) : Lines w (a.discFail ctx) :=
  h.of_eq (discFail_out a ctx)

theorem Lines.finishOp {w a : World} (h : Lines w a) (name : String) (op : Op) : Lines w (a.finishOp name op) :=
  Lines.finish (a := { a with handles := a.handles ++ [op] }) (h.of_eq rfl) _

theorem msgLines_spaced (topic payload : Bytes) (qos : Nat) (retain : Bool) (block : Bytes) :
    ∀ l ∈ msgLines topic payload qos retain block, ' ' ∈ l.toList := by
  intro l hl
  unfold msgLines at hl
  simp only [List.mem_append, List.mem_cons, List.mem_map, List.not_mem_nil, or_false] at hl
  rcases hl with ((h | h | h) | ⟨⟨tc, cc⟩, _, h⟩) | h <;> subst h <;> simp [toString]

theorem Lines.deliver {w a : World} (h : Lines w a) (name : String) (len : Nat) : Lines w (a.deliver name len) := by
  unfold World.deliver
  simp only []
  split
  · exact Lines.foldl_emit _ (h.finish _) (msgLines_spaced _ _ _ _ _)
  · exact (h.finish _).emit _ (by decide)

theorem ne_spin_of_space (s : String) (h : ' ' ∈ s.toList) : s ≠ "spin" := by
  intro e; subst e; revert h; decide

/-! ### The I/O calls once more: their trace lines, and the clock -/

theorem one_line {l x : String} (hx : ' ' ∈ x.toList) : l ∈ [x] → ' ' ∈ l.toList := by
  intro hl; simp only [List.mem_singleton] at hl; subst hl; exact hx

theorem ioWrite_lines {w w1 : World} {bs : Bytes} {r : WriteRes} (h : w.ioWrite bs = (w1, r)) :
    Lines w w1 ∧ w1.now = w.now := by
  unfold World.ioWrite at h
  cases hs : w.slot with
  | none =>
    rw [hs] at h; simp only [Prod.mk.injEq] at h; obtain ⟨rfl, rfl⟩ := h
    exact ⟨⟨[_], rfl, fun l => one_line (by simp [toString])⟩, rfl⟩
  | some n =>
    rw [hs] at h; simp only [] at h
    repeat' split at h
    all_goals
      simp only [Prod.mk.injEq] at h; obtain ⟨rfl, rfl⟩ := h
      exact ⟨⟨[_], rfl, fun l => one_line (by simp [toString])⟩, rfl⟩

theorem ioFlush_lines {w w1 : World} {r : FlushRes} (h : w.ioFlush = (w1, r)) :
    Lines w w1 ∧ w1.now = w.now := by
  unfold World.ioFlush at h
  cases hs : w.slot with
  | none =>
    rw [hs] at h; simp only [Prod.mk.injEq] at h; obtain ⟨rfl, rfl⟩ := h
    exact ⟨⟨[_], rfl, fun l => one_line (by simp [toString])⟩, rfl⟩
  | some n =>
    rw [hs] at h; simp only [] at h
    repeat' split at h
    all_goals
      simp only [Prod.mk.injEq] at h; obtain ⟨rfl, rfl⟩ := h
      exact ⟨⟨[_], rfl, fun l => one_line (by simp [toString])⟩, rfl⟩

theorem ioRead_lines {w w1 : World} {n : Nat} {r : ReadRes} (h : w.ioRead n = (w1, r)) :
    Lines w w1 ∧ w1.now = w.now := by
  unfold World.ioRead at h
  cases hs : w.slot with
  | none =>
    rw [hs] at h; simp only [Prod.mk.injEq] at h; obtain ⟨rfl, rfl⟩ := h
    exact ⟨⟨[_], rfl, fun l => one_line (by simp [toString])⟩, rfl⟩
  | some k =>
    rw [hs] at h; simp only [] at h
    repeat' split at h
    all_goals
      simp only [Prod.mk.injEq] at h; obtain ⟨rfl, rfl⟩ := h
      exact ⟨⟨[_], rfl, fun l => one_line (by simp [toString])⟩, rfl⟩

end NoSpin
end Minimq
