import Minimq.Proofs.WireLog
/-
Acknowledgements against the inbound log (C04 on the wire).

`Session.inlog` (ghost) records every packet handed to `handle_packet` on the current connection with
the control actions its handling queued; it is restarted by a successful CONNACK with one record that
lists what was still queued from earlier connections. `AckEq`: the control actions written completely
on the current transport (log entries tagged `.control`), followed by the ones still waiting in the
control queue, are exactly the recorded ones, in the order of the records — PINGREQ, which is queued by
the keep-alive and not by an inbound packet, left out on both sides.
-/
namespace Minimq
open Gen World Outbound

/-- The control action of a log entry. -/
def LogEntry.ctl? (f : LogEntry) : Option ControlAction :=
  match f.tag with
  | .control a => some a
  | _ => none

/-- The control actions in a log, in the order they were written. -/
def ctlActs (l : List LogEntry) : List ControlAction := l.filterMap LogEntry.ctl?

theorem ctlActs_append (l l' : List LogEntry) : ctlActs (l ++ l') = ctlActs l ++ ctlActs l' := by
  simp [ctlActs, List.filterMap_append]

/-- Without the keep-alive probes. -/
def nonPing (l : List ControlAction) : List ControlAction := l.filter (fun a => a.typ != MT_PingReq)

theorem nonPing_append (l l' : List ControlAction) : nonPing (l ++ l') = nonPing l ++ nonPing l' := by
  simp [nonPing]

/-- The control actions in the queue that have not been written completely, oldest first. -/
def Outbound.pendActs (o : Outbound) : List ControlAction :=
  (o.control.filter (fun e => e.state.isWrite)).map PendingControl.action

/-- The control actions recorded in an inbound log. -/
def owedActs (il : List InRec) : List ControlAction := nonPing (il.flatMap (·.acks))

theorem owedActs_append (il il' : List InRec) : owedActs (il ++ il') = owedActs il ++ owedActs il' := by
  simp [owedActs, nonPing_append]

/-- **The accounting.** Written acknowledgements, then waiting ones = recorded ones, in order. -/
def AckEq (s : Session) (l : List LogEntry) : Prop :=
  nonPing (ctlActs l) ++ nonPing s.data.outbound.pendActs = owedActs s.inlog

theorem AckEq.same {s s' : Session} {l : List LogEntry} (h : AckEq s l)
    (hc : s'.data.outbound.control = s.data.outbound.control) (hi : s'.inlog = s.inlog) : AckEq s' l := by
  unfold AckEq Outbound.pendActs at *
  rw [hc, hi]; exact h

theorem pendActs_of_fresh {o : Outbound} (h : ∀ e ∈ o.control, e.state = .write 0) :
    o.pendActs = o.control.map PendingControl.action := by
  unfold Outbound.pendActs
  rw [List.filter_eq_self.mpr]
  intro e he
  rw [h e he]; rfl

/-- With the head of the control queue in whatever state and everything behind it waiting. -/
theorem pendActs_cons {o : Outbound} {e : PendingControl} {rest : List PendingControl} (hc : o.control = e :: rest)
    (hrest : ∀ x ∈ rest, x.state = .write 0) :
    o.pendActs = if e.state.isWrite then e.action :: rest.map PendingControl.action else rest.map PendingControl.action := by
  have hrestW : rest.filter (fun e => e.state.isWrite) = rest :=
    List.filter_eq_self.mpr (fun x hx => by rw [hrest x hx]; rfl)
  unfold Outbound.pendActs
  rw [hc, List.filter_cons]
  split <;> simp [hrestW]

theorem queueControl_control {o o' : Outbound} {a : ControlAction} (hq : o.queueControl a = some o') :
    o'.control = o.control ++ [⟨a, .write 0⟩] := by
  unfold Outbound.queueControl at hq
  split at hq
  · simp at hq
  · simp only [Option.some.injEq] at hq; subst hq; rfl

theorem AckEq.append_other {s : Session} {l : List LogEntry} (h : AckEq s l) (f : LogEntry) (hf : f.ctl? = none) :
    AckEq s (l ++ [f]) := by
  unfold AckEq at *
  have : ctlActs (l ++ [f]) = ctlActs l := by simp [ctlActs_append, ctlActs, hf]
  rw [this]; exact h

/-- A keep-alive probe is queued. -/
theorem AckEq.queuePing {s s' : Session} {now : Nat} {l : List LogEntry} (h : AckEq s l) (hq : s.queuePing now = .ok s') :
    AckEq s' l := by
  rcases Session.queuePing_ok hq with rfl | ⟨o, ho, rfl⟩
  · exact h
  · unfold Outbound.queueControl at ho
    split at ho
    · simp at ho
    · simp only [Option.some.injEq] at ho; subst ho
      unfold AckEq Outbound.pendActs at *
      simp only [Session.setOutbound, List.filter_append, List.map_append, nonPing_append]
      have : nonPing (List.map PendingControl.action
          (List.filter (fun e => e.state.isWrite) [{ action := ControlAction.pingReq, state := SendState.write 0 }])) = [] := by
        decide
      rw [this, List.append_nil]; exact h

/-- `set_written` on the current entry. -/
theorem AckEq.setWritten {s : Session} {l : List LogEntry} {step : Outbound.Step} {j : Nat} (k : Nat) (h : AckEq s l)
    (hs : s.data.outbound.Slot step) (hst : step.state = .write j) (wr len : Nat) :
    (wr < len → AckEq (s.setWritten step.flushed wr len) l) ∧
    (len ≤ wr → AckEq (s.setWritten step.flushed wr len) (l ++ [s.data.outbound.done k step.flushed])) := by
  have hin : ∀ pkt, (s.setWritten pkt wr len).inlog = s.inlog := by
    intro pkt; unfold Session.setWritten; cases pkt <;> rfl
  cases hs with
  | control a st rest hc hrest hrel hret =>
    simp only [Outbound.Step.state] at hst
    have hctl : (s.setWritten (.control a) wr len).data.outbound.control = ⟨a, SendState.afterWrite wr len⟩ :: rest := by
      rw [Session.setWritten_outbound]
      simp [Outbound.setWritten, setControlWritten, hc, modifyFirst]
    have hpend : s.data.outbound.pendActs = a :: rest.map PendingControl.action := by
      rw [pendActs_cons hc hrest, hst]; rfl
    constructor
    · intro hlt
      unfold AckEq at *
      rw [hin]
      have : (s.setWritten (.control a) wr len).data.outbound.pendActs = a :: rest.map PendingControl.action := by
        rw [pendActs_cons hctl hrest, afterWrite_lt hlt]; rfl
      simp only [Outbound.Step.flushed]
      rw [this, ← hpend]; exact h
    · intro hge
      unfold AckEq at *
      rw [hin]
      have hp' : (s.setWritten (.control a) wr len).data.outbound.pendActs = rest.map PendingControl.action := by
        rw [pendActs_cons hctl hrest, afterWrite_ge hge]; rfl
      have hd : ctlActs (l ++ [s.data.outbound.done k (.control a)]) = ctlActs l ++ [a] := by
        simp [ctlActs_append, ctlActs, Outbound.done, LogEntry.ctl?]
      simp only [Outbound.Step.flushed]
      rw [hp', hd, nonPing_append, List.append_assoc, ← h, hpend]
      congr 1
      show nonPing [a] ++ nonPing (rest.map PendingControl.action) = nonPing (a :: rest.map PendingControl.action)
      rw [← nonPing_append]; rfl
  | release pre id rc st rs ps post hr hpre hpost hctl hret hsent =>
    have hsame : AckEq (s.setWritten (.release id) wr len) l :=
      h.same (by rw [Session.setWritten_outbound]; rfl) (hin _)
    refine ⟨fun _ => hsame, fun _ => hsame.append_other _ ?_⟩
    simp only [Outbound.Step.flushed, Outbound.done]
    split <;> rfl
  | retained pre e post hr hpre hpost hctl hrel hsent =>
    have hsame : AckEq (s.setWritten (.retained e.id) wr len) l :=
      h.same (by rw [Session.setWritten_outbound]; rfl) (hin _)
    refine ⟨fun _ => hsame, fun _ => hsame.append_other _ ?_⟩
    simp only [Outbound.Step.flushed, Outbound.done]
    split <;> rfl

/-- `complete_flush` on the current entry. -/
theorem AckEq.completeFlush {s : Session} {l : List LogEntry} {step : Outbound.Step} (h : AckEq s l)
    (hs : s.data.outbound.Slot step) (hst : step.state = .flush) (now : Nat) : AckEq (s.completeFlush step.flushed now) l := by
  have hin : ∀ pkt, (s.completeFlush pkt now).inlog = s.inlog := by
    intro pkt; unfold Session.completeFlush; cases pkt <;> rfl
  cases hs with
  | control a st rest hc hrest hrel hret =>
    simp only [Outbound.Step.state] at hst
    have hrestS : rest.filter (fun e => decide (e.state ≠ SendState.sent)) = rest :=
      List.filter_eq_self.mpr (fun e he => by rw [hrest e he]; decide)
    have hpend : s.data.outbound.pendActs = rest.map PendingControl.action := by
      rw [pendActs_cons hc hrest, hst]; rfl
    have hctl' : (s.completeFlush (.control a) now).data.outbound.control = rest := by
      rw [Session.completeFlush_outbound]
      simp only [Outbound.completeFlush, flushControl, hc, modifyFirst, beq_self_eq_true, if_true, List.filter_cons]
      rw [if_neg (by simp)]
      exact hrestS
    have hp' : (s.completeFlush (.control a) now).data.outbound.pendActs = rest.map PendingControl.action := by
      rw [pendActs_of_fresh (by rw [hctl']; exact hrest), hctl']
    unfold AckEq at *
    simp only [Outbound.Step.flushed]
    rw [hin, hp', ← hpend]; exact h
  | release pre id rc st rs ps post hr hpre hpost hctl hret hsent =>
    exact h.same (by rw [Session.completeFlush_outbound]; rfl) (hin _)
  | retained pre e post hr hpre hpost hctl hrel hsent =>
    exact h.same (by rw [Session.completeFlush_outbound]; rfl) (hin _)

/-! ### Inbound packets -/

/-- Handling an inbound packet leaves the control queue alone or appends one fresh entry. -/
theorem handlePacket_control (d : SessionData) (r : Runtime) (p : Recv) :
    (handlePacket d r p).1.outbound.control = d.outbound.control ∨
    ∃ a, (handlePacket d r p).1.outbound.control = d.outbound.control ++ [⟨a, .write 0⟩] := by
  cases p with
  | connAck sp rc props => exact Or.inl rfl
  | pingResp => exact Or.inl rfl
  | disconnect rc props => exact Or.inl rfl
  | subAck id props codes =>
    left; simp only [handlePacket]
    split
    · rfl
    · split <;> exact (ackPacket_frame d.outbound id .subAck).2.2.1
  | unsubAck id props codes =>
    left; simp only [handlePacket]
    split
    · rfl
    · split <;> exact (ackPacket_frame d.outbound id .unsubAck).2.2.1
  | pubAck id rs =>
    left; simp only [handlePacket]
    split
    · rfl
    · split <;> exact (ackPacket_frame d.outbound id .pubAck).2.2.1
  | pubComp id rs =>
    left; simp only [handlePacket]
    split
    · rfl
    · unfold Outbound.ackRelease
      split <;> split <;> rfl
  | pubRec id rs =>
    left; simp only [handlePacket]
    have hack := (ackPacket_frame d.outbound id .pubRec).2.2.1
    split
    · split
      · exact hack
      · split
        · exact hack
        · split
          · exact hack
          · rename_i o' hq
            unfold Outbound.queueRelease at hq
            split at hq
            · simp at hq
            · simp only [Option.some.injEq] at hq; subst hq; exact hack
    · split
      · split <;> rfl
      · rfl
  | pubRel id rs =>
    simp only [handlePacket]
    repeat' split
    all_goals first
      | exact Or.inl rfl
      | exact Or.inr ⟨_, queueControl_control (by assumption)⟩
  | publish topic id props payload retain qos dup =>
    simp only [handlePacket]
    repeat' split
    all_goals first
      | exact Or.inl rfl
      | exact Or.inr ⟨_, queueControl_control (by assumption)⟩

theorem Session.handle_inlog (s : Session) (p : Recv) :
    (s.handle p).1.inlog = s.inlog ++ [⟨some p, ((s.handle p).1.data.outbound.control.drop s.data.outbound.control.length).map
      PendingControl.action⟩] := rfl

/-- An inbound packet is handled: the record and the queue grow by the same actions. -/
theorem AckEq.handle {s : Session} {l : List LogEntry} (h : AckEq s l) (p : Recv) : AckEq (s.handle p).1 l := by
  unfold AckEq at *
  rw [Session.handle_inlog, owedActs_append, ← h, List.append_assoc]
  congr 1
  rw [Session.handle_fst_data]
  rcases handlePacket_control s.data s.rt p with hc | ⟨a, hc⟩
  · simp [Outbound.pendActs, hc, owedActs, nonPing]
  · simp [Outbound.pendActs, hc, owedActs, List.filter_append, nonPing_append, SendState.isWrite]

/-- An accepted CONNACK restarts the inbound log with what is queued. -/
theorem AckEq.activate (s : Session) (sp : Bool) (block : Bytes) (now : Nat) (hok : (s.activate sp block now).2 = .ok ())
    (hfresh : ∀ e ∈ (s.activate sp block now).1.data.outbound.control, e.state = .write 0) :
    AckEq (s.activate sp block now).1 [] := by
  have hb := (activate_ok_iff s sp block now).1 hok
  have he := (activate_eq s sp block now).1 hb
  unfold AckEq
  rw [pendActs_of_fresh hfresh]
  rw [he]
  simp [Session.activated, owedActs, ctlActs, nonPing]


/-! ### Steps that touch neither the control queue nor the inbound log -/

theorem takePkt_inlog (s : Session) : s.takePkt.1.inlog = s.inlog := by
  unfold Session.takePkt; rfl

theorem window_inlog {s s1 : Session} {n : Nat} (h : s.window = some (s1, n)) : s1.inlog = s.inlog := by
  unfold Session.window at h
  split at h
  · simp at h
  · simp only [Option.some.injEq, Prod.mk.injEq] at h; rw [← h.1]

theorem alloc_ctl (s : Session) :
    s.alloc.1.data.outbound.control = s.data.outbound.control ∧ s.alloc.1.inlog = s.inlog := by
  rw [Session.alloc_fst]
  exact ⟨by show s.data.nextPacketId.1.outbound.control = _; rw [nextPacketId_outbound], rfl⟩

theorem encode_ctl {ε : Type} (s : Session) (enc : Nat → (Nat → Nat → Bytes) → Except ε (Nat × Bytes)) :
    (s.encode enc).1.data.outbound.control = s.data.outbound.control ∧ (s.encode enc).1.inlog = s.inlog := by
  rw [Session.encode_fst]
  exact ⟨(encodeAt_frame s.data.outbound enc).2.2.1, rfl⟩

theorem retain_ctl {s s3 : Session} {id off len : Nat} {isPub : Bool} (hr : s.retain id off len isPub = some s3) :
    s3.data.outbound.control = s.data.outbound.control ∧ s3.inlog = s.inlog := by
  unfold Session.retain at hr
  split at hr
  · simp at hr
  · rename_i o ho
    obtain ⟨_, rfl⟩ := retainPacket_some ho
    simp only [Option.some.injEq] at hr; subst hr
    split <;> exact ⟨rfl, rfl⟩

theorem AckEq.encode {ε : Type} {s : Session} {l : List LogEntry} (h : AckEq s l)
    (enc : Nat → (Nat → Nat → Bytes) → Except ε (Nat × Bytes)) : AckEq (s.encode enc).1 l :=
  h.same (encode_ctl s enc).1 (encode_ctl s enc).2

theorem AckEq.alloc {s : Session} {l : List LogEntry} (h : AckEq s l) : AckEq s.alloc.1 l :=
  h.same (alloc_ctl s).1 (alloc_ctl s).2

theorem AckEq.retain {s s3 : Session} {l : List LogEntry} {id off len : Nat} {isPub : Bool} (h : AckEq s l)
    (hr : s.retain id off len isPub = some s3) : AckEq s3 l :=
  h.same (retain_ctl hr).1 (retain_ctl hr).2

end Minimq
