import Minimq.Proofs.SpecProps
/-
The crate's property validation table against the specification's table.
-/
namespace Minimq
open Gen

def ctxWhere : Ctx → Spec.Where
  | .Publish => .publish
  | .Subscribe => .subscribe
  | .Unsubscribe => .unsubscribe
  | .Disconnect => .disconnect
  | .Will => .will

theorem validFor_iff_spec (c : Ctx) (p : Property) (hwf : p.wf = true) :
    p.validFor c = true ↔
      (Spec.allowedIn (ctxWhere c) p.kind.id = true ∧ Spec.legalValue p.kind.id p.val.num = true) := by
  obtain ⟨k, v⟩ := p
  cases c <;> cases k <;> cases v <;>
    simp [Property.wf, PropKind.declShape] at hwf <;>
    dsimp only [Property.validFor, PVal.num, PropKind.id, ctxWhere] <;>
    simp [PropKind.validValue, validCtx, Spec.allowedIn, Spec.legalValue, MAXV]

/-- The numeric payload of a well-typed property survives the translation to the reference's view. -/
theorem toSpec_num (p : Property) (hwf : p.wf = true) : p.toSpec.val.num = p.val.num := by
  obtain ⟨k, v⟩ := p
  cases k <;> cases v <;> simp [Property.wf, PropKind.declShape] at hwf <;>
    simp [Property.toSpec, PropKind.serShape, Spec.Val.num, PVal.num]

/-- What validation accepts, the reference accepts. -/
theorem legal_of_validFor (c : Ctx) (ps : List Property) (hwf : ∀ p ∈ ps, p.wf = true)
    (hv : ∀ p ∈ ps, p.validFor c = true) :
    ∀ p ∈ ps, Spec.allowedIn (ctxWhere c) p.kind.id = true ∧ Spec.legalValue p.kind.id p.toSpec.val.num = true := by
  intro p hp
  rw [toSpec_num p (hwf p hp)]
  exact (validFor_iff_spec c p (hwf p hp)).mp (hv p hp)

end Minimq
