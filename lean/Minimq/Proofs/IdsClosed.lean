import Minimq.Proofs.Lift
import Minimq.Proofs.Ids
/-
`IdInv` is closed under every session primitive, hence an invariant of every program.
-/
namespace Minimq
open Gen World Outbound

theorem setOutbound_data (s : Session) (o : Outbound) : (s.setOutbound o).data = { s.data with outbound := o } := rfl

theorem IdInv_flush_like {o o' : Outbound} (h : o.IdInv)
    (h1 : o'.retained.map (·.id) = o.retained.map (·.id)) (h2 : o'.release.map (·.id) = o.release.map (·.id)) :
    o'.IdInv := IdInv_of_same_ids h h1 h2

theorem Session.encode_fst {ε : Type} (s : Session) (enc : Nat → (Nat → Nat → Bytes) → Except ε (Nat × Bytes)) :
    (s.encode enc).1 = s.setOutbound (s.data.outbound.encodeAt enc).1 := by
  unfold Session.encode
  cases s.data.outbound.encodeAt enc; rfl

theorem Session.alloc_fst (s : Session) : s.alloc.1 = { s with data := s.data.nextPacketId.1 } := by
  unfold Session.alloc
  cases s.data.nextPacketId; rfl

theorem Session.alloc_snd (s : Session) : s.alloc.2 = s.data.nextPacketId.2 := by
  unfold Session.alloc
  cases s.data.nextPacketId; rfl

theorem Session.handle_fst_data (s : Session) (p : Recv) : (s.handle p).1.data = (handlePacket s.data s.rt p).1 := by
  unfold Session.handle
  cases handlePacket s.data s.rt p with
  | mk d r => cases r; rfl

theorem Session.takePkt_data (s : Session) : s.takePkt.1.data = s.data ∧ s.takePkt.1.rt = s.rt := by
  unfold Session.takePkt
  cases s.reader.takePacket; exact ⟨rfl, rfl⟩

theorem ite_ok_cases {α ε} {c : Prop} [Decidable c] {a : Except ε α} {s s' : α}
    (h : (if c then a else Except.ok s) = Except.ok s') : a = Except.ok s' ∨ s' = s := by
  split at h
  · exact Or.inl h
  · simp at h; exact Or.inr h.symm

/-- The two ways `maybe_queue_pingreq` can succeed. -/
theorem Session.queuePing_ok {s s' : Session} {now : Nat} (h : s.queuePing now = .ok s') :
    s' = s ∨ ∃ o, s.data.outbound.queueControl ControlAction.pingReq = some o ∧ s' = s.setOutbound o := by
  unfold Session.queuePing at h
  simp only [] at h
  rcases ite_ok_cases h with h1 | h1
  · cases hc : checkSize s.rt (encodeControl ControlAction.pingReq) with
    | error e => rw [hc] at h1; simp at h1
    | ok u =>
      rw [hc] at h1
      simp only [] at h1
      cases hq : s.data.outbound.queueControl ControlAction.pingReq with
      | none => rw [hq] at h1; simp at h1
      | some o => rw [hq] at h1; simp at h1; exact Or.inr ⟨o, rfl, h1.symm⟩
  · exact Or.inl h1

theorem closed_IdInv : Closed (fun s => s.data.IdInv) where
  queuePing := by
    intro s now s' h hq
    rcases Session.queuePing_ok hq with rfl | ⟨o, ho, rfl⟩
    · exact h
    · exact ⟨IdInv_queueControl h.out ho, h.pid⟩
  completeFlush := by
    intro s pkt now h
    refine ⟨?_, h.pid⟩
    simp only [Session.completeFlush, Session.setOutbound]
    cases pkt <;> simp only []
    · exact IdInv_of_same_ids h.out rfl rfl
    · exact IdInv_of_same_ids h.out rfl (by simp [flushRelease, modifyFirst_map_id])
    · exact IdInv_of_same_ids h.out (by simp [flushRetained, modifyFirst_map_id]) rfl
  setWritten := by
    intro s pkt a c h
    refine ⟨?_, h.pid⟩
    simp only [Session.setWritten, Session.setOutbound]
    cases pkt <;> simp only []
    · exact IdInv_of_same_ids h.out rfl rfl
    · exact IdInv_of_same_ids h.out rfl (by simp [setReleaseWritten, modifyFirst_map_id])
    · exact IdInv_of_same_ids h.out (by simp [setRetainedWritten, modifyFirst_map_id]) rfl
  takePkt := by intro s h; show (s.takePkt.1.data).IdInv; rw [(Session.takePkt_data s).1]; exact h
  handle := by intro s p h; show ((s.handle p).1.data).IdInv; rw [Session.handle_fst_data]; exact handlePacket_IdInv s.data s.rt p h
  handleDisconnect := by intro s h; exact ⟨IdInv_rearm h.out, h.pid⟩
  activate := by
    intro s sp block now h
    unfold Session.activate
    simp only []
    have h0 : (if (!sp) = true then { s with data := s.data.reset } else s).data.IdInv := by
      split
      · exact ⟨IdInv_clear s.data.outbound, by simp [SessionData.reset]⟩
      · exact h
    split
    · exact ⟨IdInv_rearm h0.out, h0.pid⟩
    · exact ⟨h0.out, h0.pid⟩
  alloc := by
    intro s h
    show (s.alloc.1.data).IdInv
    rw [Session.alloc_fst]
    have hf := nextPacketId_fresh s.data h.pid h.out.retCap h.out.relCap
    simp only [] at hf
    obtain ⟨_, _, _, _, h5, h6, h7, _⟩ := hf
    exact ⟨h7 ▸ h.out, ⟨h5, h6⟩⟩
  encodeConnect := by intro s c h; show ((s.encode _).1.data).IdInv; rw [Session.encode_fst]; exact ⟨IdInv_encodeAt _ h.out, h.pid⟩
  encodeAfterAlloc := by
    intro ε s enc _ h
    show ((s.alloc.1.encode enc).1.data).IdInv
    rw [Session.encode_fst, Session.alloc_fst]
    have hf := nextPacketId_fresh s.data h.pid h.out.retCap h.out.relCap
    simp only [] at hf
    obtain ⟨_, _, _, _, h5, h6, h7, _⟩ := hf
    exact ⟨IdInv_encodeAt _ (h7 ▸ h.out), ⟨h5, h6⟩⟩
  encodeScratch := by intro ε s enc _ h; show ((s.encode enc).1.data).IdInv; rw [Session.encode_fst]; exact ⟨IdInv_encodeAt _ h.out, h.pid⟩
  enqueue := by
    intro ε s enc off len isPub s3 _ _ _ _ h _ _ hr
    rw [Session.encode_fst, Session.alloc_fst, Session.alloc_snd] at hr
    unfold Session.retain at hr
    split at hr
    · simp at hr
    · rename_i o ho
      have := enqueue_IdInv s.data h enc off len o ho
      simp at hr; subst hr
      split <;> exact this.2.2
  clearPing := by intro s h; exact h
  noteActivity := by intro s now h; exact h
  window := by
    intro s s' n h hw
    unfold Session.window at hw
    split at hw
    · simp at hw
    · simp at hw; rw [← hw.1]; exact h
  commit := by intro s bytes h; exact h
  beginConnect := by intro s h; exact ⟨IdInv_rearm h.out, h.pid⟩
  setPid := by intro s n h1 h2 h; exact ⟨h.out, ⟨h1, h2⟩⟩
end Minimq
