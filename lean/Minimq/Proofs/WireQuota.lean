import Minimq.Proofs.WireHist
import Minimq.Proofs.Quota
import Minimq.Proofs.Exchange
/-
The send window (C06) against the transmission log.

 * counting: distinct serials that occur in the log on a PUBLISH and are still retained are at most
   `pubCount` many, hence (window invariant) together with the release entries at most `maxSendQuota`;
 * `maxSendQuota` is written only by an accepted CONNACK, with min(Receive Maximum, local limit);
 * every retained packet in the log is still retained or was removed by one particular step, the
   handling of its acknowledgement or the CONNACK of a fresh session (`Resolved`, lifted with `HClosed`).
-/
namespace Minimq
open Gen World Outbound

/-! ### Counting -/

theorem isPubPkt_unDup (l : Bytes) : isPubPkt (unDup l) = isPubPkt l := by
  cases l with
  | nil => rfl
  | cons x r =>
    simp only [unDup, isPubPkt, unDupByte, b, UInt8.toNat_ofNat']
    have := x.toNat_lt
    congr 1
    omega

theorem isPubPkt_of_unDup_eq {a c : Bytes} (h : unDup a = unDup c) : isPubPkt a = isPubPkt c := by
  rw [← isPubPkt_unDup a, h, isPubPkt_unDup]

/-- The serials of the retained PUBLISH packets. -/
def Outbound.pubSers (o : Outbound) : List Nat :=
  (o.retained.filter (fun e => isPubPkt (slice o.buf e.offset e.len))).map (·.ser)

theorem pubSers_length (o : Outbound) : o.pubSers.length = o.pubCount := by
  unfold Outbound.pubSers Outbound.pubCount Outbound.contents contents
  rw [List.length_map, List.filter_map, List.length_map]
  rfl

/-- A log entry of a retained packet that is a PUBLISH. -/
def LogEntry.isPublish (f : LogEntry) : Bool :=
  match f.tag with
  | .retained _ _ => isPubPkt f.bytes
  | _ => false

/-- A serial that occurs in the log on a PUBLISH and is still retained is the serial of a retained PUBLISH. -/
theorem Hist.pubSer {s : Session} {l : List LogEntry} (h : Hist s l) {f : LogEntry} (hf : f ∈ l) {t : Nat}
    (ht : f.ser? = some t) (hp : f.isPublish = true) (hs : t ∈ s.data.outbound.sers) : t ∈ s.data.outbound.pubSers := by
  obtain ⟨e, he, hser⟩ := List.mem_map.mp hs
  unfold LogEntry.ser? at ht
  unfold LogEntry.isPublish at hp
  cases htag : f.tag with
  | retained t' i =>
    rw [htag] at ht hp
    simp only [Option.some.injEq] at ht hp
    subst ht
    have hc := h.cur f hf e he i (by rw [hser]; exact htag)
    refine List.mem_map.mpr ⟨e, List.mem_filter.mpr ⟨he, ?_⟩, hser⟩
    show isPubPkt (slice s.data.outbound.buf e.offset e.len) = true
    rw [← isPubPkt_of_unDup_eq hc.2]; exact hp
  | control a => rw [htag] at ht; simp at ht
  | release a c => rw [htag] at ht; simp at ht
  | unknown => rw [htag] at ht; simp at ht

/-- **Counting.** Distinct serials, each still retained and each recorded in the log on a PUBLISH,
are at most as many as there are retained PUBLISH packets. -/
theorem Hist.count {s : Session} {l : List LogEntry} (h : Hist s l) (ts : List Nat) (hn : ts.Nodup)
    (hts : ∀ t ∈ ts, t ∈ s.data.outbound.sers ∧ ∃ f ∈ l, f.ser? = some t ∧ f.isPublish = true) :
    ts.length ≤ s.data.outbound.pubCount := by
  rw [← pubSers_length]
  refine nodup_subset_length ts _ hn (fun t ht => ?_)
  obtain ⟨hs, f, hf, hser, hp⟩ := hts t ht
  exact h.pubSer hf hser hp hs

/-- With the window invariant: such serials plus the release entries are within `maxSendQuota`. -/
theorem Hist.window {s : Session} {l : List LogEntry} (h : Hist s l) (hq : QuotaP s) (hd : s.rt.deficit = false)
    (ts : List Nat) (hn : ts.Nodup)
    (hts : ∀ t ∈ ts, t ∈ s.data.outbound.sers ∧ ∃ f ∈ l, f.ser? = some t ∧ f.isPublish = true) :
    ts.length + s.data.outbound.release.length ≤ s.rt.maxSendQuota := by
  have hc := h.count ts hn hts
  have hi := inflight_eq s.data.outbound hq.1.1
  rcases hq.2 with hdef | hw
  · rw [hd] at hdef; cases hdef
  · omega

theorem sers_length_of_all (l : List LogEntry) (h : ∀ f ∈ l, f.ser? ≠ none) : (sers l).length = l.length := by
  induction l with
  | nil => rfl
  | cons x xs ih =>
    have hx := h x (by simp)
    cases hs : x.ser? with
    | none => exact absurd hs hx
    | some t =>
      simp only [sers, List.filterMap_cons, hs, List.length_cons]
      exact congrArg (· + 1) (ih (fun f hf => h f (by simp [hf])))

theorem sers_sublist {l l' : List LogEntry} (h : l'.Sublist l) : (sers l').Sublist (sers l) :=
  h.filterMap _

theorem mem_sers {l : List LogEntry} {t : Nat} (h : t ∈ sers l) : ∃ f ∈ l, f.ser? = some t := by
  simpa [sers] using h

theorem nodup_of_lt {l : List Nat} (h : l.Pairwise (· < ·)) : l.Nodup :=
  h.imp (fun hab => Nat.ne_of_lt hab)

/-- The entry is a PUBLISH of a retained packet whose serial is still in the retained queue: the
PUBLISH has been transmitted and neither its PUBACK nor its PUBREC has been handled. -/
def Outbound.awaitsAck (o : Outbound) (f : LogEntry) : Bool :=
  match f.tag with
  | .retained t _ => isPubPkt f.bytes && o.sers.contains t
  | _ => false

theorem awaitsAck_spec {o : Outbound} {f : LogEntry} (h : o.awaitsAck f = true) :
    ∃ t, f.ser? = some t ∧ f.isPublish = true ∧ t ∈ o.sers := by
  unfold Outbound.awaitsAck at h
  unfold LogEntry.ser? LogEntry.isPublish
  cases htag : f.tag with
  | retained t i =>
    rw [htag] at h
    simp only [Bool.and_eq_true, List.contains_iff_mem] at h
    exact ⟨t, rfl, h.1, h.2⟩
  | control a => rw [htag] at h; simp at h
  | release a c => rw [htag] at h; simp at h
  | unknown => rw [htag] at h; simp at h

/-- On a log whose serials increase (one untorn transport): the entries awaiting their acknowledgement
plus the release entries are within `maxSendQuota`. -/
theorem Hist.window_log {s : Session} {l l' : List LogEntry} (h : Hist s l) (hq : QuotaP s) (hd : s.rt.deficit = false)
    (hsub : l'.Sublist l) (hsorted : (sers l').Pairwise (· < ·)) :
    (l'.filter s.data.outbound.awaitsAck).length + s.data.outbound.release.length ≤ s.rt.maxSendQuota := by
  have hall : ∀ f ∈ l'.filter s.data.outbound.awaitsAck, f.ser? ≠ none := by
    intro f hf
    obtain ⟨t, ht, _⟩ := awaitsAck_spec (List.mem_filter.mp hf).2
    rw [ht]; simp
  rw [← sers_length_of_all _ hall]
  refine h.window hq hd _ (nodup_of_lt (hsorted.sublist (sers_sublist List.filter_sublist))) ?_
  intro t ht
  obtain ⟨f, hf, hser⟩ := mem_sers ht
  obtain ⟨hfl, hfa⟩ := List.mem_filter.mp hf
  obtain ⟨t', ht', hp, hs⟩ := awaitsAck_spec hfa
  rw [hser] at ht'
  simp only [Option.some.injEq] at ht'
  subst ht'
  exact ⟨hs, f, hsub.subset hfl, hser, hp⟩

/-! ### Who writes `maxSendQuota` -/

theorem handlePacket_maxq (d : SessionData) (r : Runtime) (p : Recv) :
    (handlePacket d r p).2.1.maxSendQuota = r.maxSendQuota := by
  cases p <;> simp only [handlePacket] <;> (repeat' split) <;> rfl

theorem retain_maxq {s s3 : Session} {id off len : Nat} {isPub : Bool} (hr : s.retain id off len isPub = some s3) :
    s3.rt.maxSendQuota = s.rt.maxSendQuota := by
  unfold Session.retain at hr
  split at hr
  · simp at hr
  · simp only [Option.some.injEq] at hr; subst hr
    split <;> rfl

/-- Of all the primitives only `activate` on an acceptable CONNACK writes `maxSendQuota`, and what it
writes is min(Receive Maximum, local limit) — the local limit if there is no Receive Maximum. -/
theorem Prim.maxq {s s' : Session} (h : Prim s s') :
    s'.rt.maxSendQuota = s.rt.maxSendQuota ∨
    ∃ sp block now, s' = (s.activate sp block now).1 ∧ (s.activate sp block now).2 = .ok () ∧
      s'.rt.maxSendQuota = negotiatedQuota block := by
  cases h with
  | queuePing _ now _ hq => left; rw [queuePing_rt hq]
  | completeFlush _ pkt now => exact Or.inl (completeFlush_quota_fields _ _ _).2.1
  | setWritten _ pkt a c => exact Or.inl rfl
  | takePkt => left; rw [(Session.takePkt_data s).2]
  | handle _ p => left; rw [Session.handle_fst_rt]; exact handlePacket_maxq _ _ _
  | handleDisconnect => exact Or.inl rfl
  | activate _ sp block now =>
    by_cases hb : connackBlockOk block
    · right
      refine ⟨sp, block, now, rfl, (activate_ok_iff s sp block now).2 hb, ?_⟩
      rw [(activate_eq s sp block now).1 hb]
      exact (connackSettings_quota (s.preActivate sp).rt.configuredKeepaliveMs block).2
    · left
      rw [(activate_eq s sp block now).2 hb]
      cases sp <;> rfl
  | alloc => left; rw [alloc_rt]
  | encodeConnect _ c => left; rw [encode_rt]
  | encodeAfterAlloc _ enc he => left; rw [alloc_encode_rt]
  | encodeScratch _ enc he => left; rw [encode_rt]
  | enqueue _ enc off len isPub _ typ he ht hp hq hres hr => left; rw [retain_maxq hr, alloc_encode_rt]
  | clearPing => exact Or.inl rfl
  | noteActivity _ now => exact Or.inl rfl
  | window _ _ n hw => left; rw [(window_fields hw).2]
  | commit _ bytes => exact Or.inl rfl
  | beginConnect => exact Or.inl rfl
  | setPid _ n h1 h2 => exact Or.inl rfl

theorem negotiatedQuota_le (block : Bytes) : negotiatedQuota block ≤ maxInflight := by
  unfold negotiatedQuota
  split
  · exact Nat.min_le_right _ _
  · exact Nat.le_refl _

/-- After the first accepted CONNACK the maximum send quota is within the local limit. -/
def MaxQ (s : Session) : Prop := s.data.everAccepted = true → s.rt.maxSendQuota ≤ maxInflight

theorem closed_MaxQ : Closed MaxQ :=
  (closed_iff_prim MaxQ).2 (fun s s' hp h => by
    intro hacc
    rcases hp.maxq with he | ⟨sp, block, now, _, _, he⟩
    · rw [he]
      cases h0 : s.data.everAccepted with
      | true => exact h h0
      | false =>
        obtain ⟨sp, block, now, rfl, hok⟩ := hp.everAccepted_changes.2 h0 hacc
        rw [← he]
        have hb := (activate_ok_iff s sp block now).1 hok
        rw [(activate_eq s sp block now).1 hb]
        show (connackSettings (s.preActivate sp).rt.configuredKeepaliveMs block).2.1 ≤ _
        rw [(connackSettings_quota _ block).2]; exact negotiatedQuota_le block
    · rw [he]; exact negotiatedQuota_le block)

/-! ### Where the logged packets went -/

theorem Prim.step {s s' : Session} (h : Prim s s') : SessStep s s' := by
  cases h with
  | queuePing _ now _ hq => exact .queuePing _ now _ hq
  | completeFlush _ pkt now => exact .completeFlush _ pkt now
  | setWritten _ pkt a c => exact .setWritten _ pkt a c
  | takePkt => exact .takePkt _
  | handle _ p => exact .handle _ p
  | handleDisconnect => exact .handleDisconnect _
  | activate _ sp block now => exact .activate _ sp block now
  | alloc => exact .alloc _
  | encodeConnect _ c => exact .encode _ _ (EncOk_encodeConnect c)
  | encodeAfterAlloc _ enc he => exact .encodeAfterAlloc _ enc he
  | encodeScratch _ enc he => exact .encode _ enc he
  | enqueue _ enc off len isPub _ typ he ht hp hq hres hr => exact .enqueue _ enc off len isPub _ typ he ht hp hq hres hr
  | clearPing => exact .clearPing _
  | noteActivity _ now => exact .noteActivity _ now
  | window _ _ n hw => exact .window _ _ n hw
  | commit _ bytes => exact .commit _ bytes
  | beginConnect => exact .beginConnect _
  | setPid _ n h1 h2 => exact .setPid _ n h1 h2

/-- The retained packet with serial `t`, of which `f` records a transmission, left the retained queue
in the step from `a` to `b`: that step handled the acknowledgement the packet was waiting for, or was
the CONNACK of a fresh broker session (`Removal`); until then the arena held, up to the DUP bit, the
bytes that `f` records. -/
def ResolvedAt (a b : Session) (f : LogEntry) (t : Nat) : Prop :=
  Removal a b t ∧ ∃ e ∈ a.data.outbound.retained, e.ser = t ∧
    unDup f.bytes = unDup (slice a.data.outbound.buf e.offset e.len)

/-- The history of the logged packets: each is still retained, or one particular earlier step resolved it. -/
structure Traced (I : Session → Prop) (s0 s : Session) (l : List LogEntry) : Prop where
  hist : Hist s l
  inv : I s
  reach : Reach I s0 s
  each : ∀ f ∈ l, ∀ t i, f.tag = .retained t i → t ∈ s.data.outbound.sers ∨
    ∃ a b, Reach I s0 a ∧ SessStep a b ∧ Reach I b s ∧ ResolvedAt a b f t

theorem Traced.prim {I : Session → Prop} (hI : Closed I) {s0 s s' : Session} (l : List LogEntry) (hp : Prim s s')
    (h : Traced I s0 s l) : Traced I s0 s' l := by
  have hi' : I s' := hI.prim hp h.inv
  refine ⟨Hist.prim l hp h.hist, hi', h.reach.tail hp.step hi', ?_⟩
  intro f hf t i ht
  rcases h.each f hf t i ht with hs | ⟨a, c, r1, st, r2, hres⟩
  · by_cases hs' : t ∈ s'.data.outbound.sers
    · exact Or.inl hs'
    · right
      obtain ⟨e, he, hser⟩ := List.mem_map.mp hs
      have hc := h.hist.cur f hf e he i (by rw [hser]; exact ht)
      exact ⟨s, s', h.reach, hp.step, Reach.refl _, hp.step.loss hs hs', e, he, hser, hc.2⟩
  · exact Or.inr ⟨a, c, r1, st, r2.tail hp.step hi', hres⟩

/-- What `doneFrame` records for a retained packet: an entry that is in the queue. -/
theorem doneFrame_retained (w : World) (pkt : Flushed) (t i : Nat) (ht : (w.doneFrame pkt).tag = .retained t i) :
    ∃ e ∈ w.sess.data.outbound.retained, e.ser = t := by
  unfold World.doneFrame at ht
  cases pkt with
  | control x => simp at ht
  | release id =>
    simp only [] at ht
    split at ht <;> simp at ht
  | retained id =>
    simp only [] at ht
    split at ht
    · rename_i e hfind
      simp only [Tag.retained.injEq] at ht
      exact ⟨e, List.mem_of_find?_eq_some hfind, ht.1⟩
    · simp at ht

theorem Traced.done {I : Session → Prop} (hI : Closed I) {s0 : Session} (w : World) (pkt : Flushed) (a c : Nat)
    (h : Traced I s0 w.sess w.log) : Traced I s0 (w.setWritten pkt a c).sess (w.setWritten pkt a c).log := by
  have h1 : Traced I s0 (w.sess.setWritten pkt a c) w.log := Traced.prim hI _ (Prim.setWritten _ pkt a c) h
  refine ⟨Hist.done w pkt a c h.hist, h1.inv, h1.reach, ?_⟩
  show ∀ f ∈ (if a ≥ c then w.log ++ [w.doneFrame pkt] else w.log), _
  split
  · intro f hf t i ht
    rcases List.mem_append.mp hf with hm | hm
    · exact h1.each f hm t i ht
    · simp only [List.mem_singleton] at hm; subst hm
      left
      obtain ⟨e, he, hser⟩ := doneFrame_retained w pkt t i ht
      have hmem : (e.ser, e.id, e.offset, e.len) ∈
          w.sess.data.outbound.retained.map (fun x => (x.ser, x.id, x.offset, x.len)) := List.mem_map.mpr ⟨e, he, rfl⟩
      rw [← setWritten_retained_same w.sess.data.outbound pkt a c, ← Session.setWritten_outbound] at hmem
      obtain ⟨e', he', heq⟩ := List.mem_map.mp hmem
      simp only [Prod.mk.injEq] at heq
      exact List.mem_map.mpr ⟨e', he', heq.1.trans hser⟩
  · exact h1.each

theorem hclosed_Traced {I : Session → Prop} (hI : Closed I) (s0 : Session) : HClosed (Traced I s0) :=
  ⟨fun l hp h => Traced.prim hI l hp h, Traced.done hI⟩

theorem Traced_init {I : Session → Prop} (cfg : Cfg) (h : I (Session.new cfg)) :
    Traced I (Session.new cfg) (Session.new cfg) [] :=
  ⟨Hist_init cfg, h, Reach.refl _, by intro f hf; simp at hf⟩

/-- For a PUBLISH the acknowledgement of `Removal` is a PUBACK or a PUBREC. -/
theorem ResolvedAt.publish {a b : Session} {f : LogEntry} {t : Nat} (h : ResolvedAt a b f t)
    (hinv : a.data.outbound.ArenaInv ∧ a.data.outbound.SerInv) (hp : isPubPkt f.bytes = true) :
    (∃ id rs, (b = (a.handle (.pubAck id rs)).1 ∨ b = (a.handle (.pubRec id rs)).1) ∧
        ∃ e ∈ a.data.outbound.retained, e.ser = t ∧ e.id = id) ∨
    (∃ block now, b = (a.activate false block now).1) := by
  obtain ⟨hrem, e0, he0, hser0, hb⟩ := h
  rcases hrem with ⟨p, id, k, l₁, e, l₂, rfl, hack, hret, _, hser, hid, hk, _⟩ | hfresh
  · left
    have he : e ∈ a.data.outbound.retained := by rw [hret]; simp
    have : e0 = e := ser_inj hinv.2 he0 he (hser0.trans hser.symm)
    subst this
    have hpub : isPubPkt (slice a.data.outbound.buf e0.offset e0.len) = true := by
      rw [← isPubPkt_of_unDup_eq hb]; exact hp
    rw [headerAt_isPub _ hinv.1 e0 he, acknowledges_pub k _ hk] at hpub
    cases p with
    | pubAck i rs =>
      simp only [Recv.ackOf, Option.some.injEq, Prod.mk.injEq] at hack
      exact ⟨i, rs, Or.inl rfl, e0, he, hser, hid.trans hack.1.symm⟩
    | pubRec i rs =>
      simp only [Recv.ackOf, Option.some.injEq, Prod.mk.injEq] at hack
      exact ⟨i, rs, Or.inr rfl, e0, he, hser, hid.trans hack.1.symm⟩
    | subAck i x y =>
      simp only [Recv.ackOf, Option.some.injEq, Prod.mk.injEq] at hack
      rw [← hack.2] at hpub; simp at hpub
    | unsubAck i x y =>
      simp only [Recv.ackOf, Option.some.injEq, Prod.mk.injEq] at hack
      rw [← hack.2] at hpub; simp at hpub
    | _ => simp [Recv.ackOf] at hack
  · exact Or.inr hfresh

end Minimq
