import Minimq.Proofs.Lift
/-
Lifting for predicates on the *world* that do not depend on what the operations compute (only the
current transport is ever touched; the ghost marks are not changed): such a predicate is preserved by the thirteen
machine functions, by `poll`, and by every directive other than `connect` (which opens a transport).
The proof architecture is that of `Proofs/Lift.lean`.
-/
namespace Minimq
open Gen World

/-- A predicate on the world that survives every elementary update the operations perform. -/
structure WStable (Q : World → Prop) : Prop where
  emit : ∀ (w : World) l, Q w → Q (w.emit l)
  sess : ∀ (w : World) (s : Session), Q w → Q { w with sess := s }
  fut : ∀ (w : World) f, Q w → Q { w with fut := f }
  conn : ∀ (w : World) c, Q w → Q { w with conn := c }
  slot : ∀ (w : World) a, Q w → Q { w with slot := a }
  starved : ∀ (w : World) a, Q w → Q { w with lastIoStarved := a }
  wakes : ∀ (w : World) a, Q w → Q { w with wakes := a }
  lastRes : ∀ (w : World) a, Q w → Q { w with lastRes := a }
  handles : ∀ (w : World) a, Q w → Q { w with handles := a }
  setCurNet : ∀ (w : World) n, Q w → Q (w.setCurNet n)
  /-- The transmission log is only ever extended, by an entry for the current transport. -/
  log : ∀ (w : World) (f : LogEntry), f.net = w.nets.length → Q w → Q { w with log := w.log ++ [f] }

section
variable {Q : World → Prop} (hq : WStable Q)
include hq

theorem WStable.finish (w : World) (l : String) (h : Q w) : Q (w.finish l) :=
  hq.lastRes _ _ (hq.fut _ none (hq.emit w _ h))

theorem WStable.finishErr (w : World) (o : String) (e : Err) (h : Q w) : Q (w.finishErr o e) :=
  hq.lastRes _ _ (hq.finish _ _ h)

theorem WStable.suspend (w : World) (pc : Pc) (h : Q w) : Q (w.suspend pc) := hq.fut _ _ h

theorem WStable.handleDisconnect (w : World) (h : Q w) : Q w.handleDisconnect :=
  hq.sess _ _ (hq.conn _ _ h)

theorem WStable.finishOp (w : World) (n : String) (op : Op) (h : Q w) : Q (w.finishOp n op) :=
  hq.finish _ _ (hq.handles _ _ h)

omit hq in
theorem doneFrame_net (w : World) (pkt : Flushed) : (w.doneFrame pkt).net = w.nets.length := by
  unfold World.doneFrame
  cases pkt with
  | control a => rfl
  | release id => simp only []; split <;> rfl
  | retained id => simp only []; split <;> rfl

theorem WStable.setWritten (w : World) (pkt : Flushed) (a c : Nat) (h : Q w) : Q (w.setWritten pkt a c) := by
  unfold World.setWritten
  split
  · exact hq.sess _ _ (hq.log _ _ (doneFrame_net w pkt) h)
  · exact hq.sess _ _ h
theorem WStable.completeFlush (w : World) (pkt : Flushed) (now : Nat) (h : Q w) : Q (w.completeFlush pkt now) := hq.sess _ _ h

theorem WStable.ioWrite (w : World) (bs : Bytes) (h : Q w) : Q (w.ioWrite bs).1 := by
  unfold World.ioWrite
  cases hs : w.slot with
  | none => exact hq.starved _ _ (hq.emit _ _ h)
  | some n =>
    simp only []
    have h1 : Q { w with slot := none, lastIoStarved := false } := hq.starved _ _ (hq.slot _ none h)
    split
    · exact hq.emit _ _ (hq.setCurNet _ _ h1)
    · split
      · exact hq.emit _ _ h1
      · exact hq.emit _ _ h1

theorem WStable.ioFlush (w : World) (h : Q w) : Q (w.ioFlush).1 := by
  unfold World.ioFlush
  cases hs : w.slot with
  | none => exact hq.starved _ _ (hq.emit _ _ h)
  | some n =>
    simp only []
    have h1 : Q { w with slot := none, lastIoStarved := false } := hq.starved _ _ (hq.slot _ none h)
    split
    · exact hq.emit _ _ h1
    · exact hq.emit _ _ h1

theorem WStable.ioRead (w : World) (n : Nat) (h : Q w) : Q (w.ioRead n).1 := by
  unfold World.ioRead
  cases hs : w.slot with
  | none => exact hq.starved _ _ (hq.emit _ _ h)
  | some k =>
    simp only []
    have h1 : Q { w with slot := none } := hq.slot _ none h
    repeat' split
    all_goals first
      | exact hq.starved _ _ (hq.emit _ _ h1)
      | exact hq.starved _ _ (hq.emit _ _ (hq.setCurNet _ _ h1))

theorem WStable.ioWrite' {w w' : World} {bs : Bytes} {r : WriteRes} (heq : w.ioWrite bs = (w', r)) (h : Q w) : Q w' := by
  have := hq.ioWrite w bs h; rw [heq] at this; exact this
theorem WStable.ioFlush' {w w' : World} {r : FlushRes} (heq : w.ioFlush = (w', r)) (h : Q w) : Q w' := by
  have := hq.ioFlush w h; rw [heq] at this; exact this
theorem WStable.ioRead' {w w' : World} {n : Nat} {r : ReadRes} (heq : w.ioRead n = (w', r)) (h : Q w) : Q w' := by
  have := hq.ioRead w n h; rw [heq] at this; exact this

theorem WStable.deliver (w : World) (n : String) (len : Nat) (h : Q w) : Q (w.deliver n len) := by
  unfold World.deliver
  simp only []
  have h1 := hq.finish w s!"ret {n} ok msg" h
  split
  · have : ∀ (ls : List String) (w0 : World), Q w0 → Q (ls.foldl World.emit w0) := by
      intro ls; induction ls with
      | nil => intro w0 h0; exact h0
      | cons l ls ih => intro w0 h0; exact ih _ (hq.emit _ _ h0)
    exact this _ _ h1
  · exact hq.emit _ _ h1

theorem WStable.processReceivedPacket (w : World) (h : Q w) : Q (w.processReceivedPacket).1 := by
  unfold World.processReceivedPacket
  split
  · exact h
  · simp only []
    have h1 : Q { w with sess := w.sess.takePkt.1 } := hq.sess _ _ h
    split
    · exact hq.handleDisconnect _ h1
    · rename_i len pkt hres
      have h2 : Q { ({ w with sess := w.sess.takePkt.1 } : World) with sess := (w.sess.takePkt.1.handle pkt).1 } := hq.sess _ _ h1
      split <;> first | exact h2 | exact hq.handleDisconnect _ h2

theorem WStable.activate (w : World) (sp : Bool) (block : Bytes) (h : Q w) : Q (World.activate w sp block) := by
  unfold World.activate
  split
  · exact hq.finishErr _ _ _ (hq.conn _ _ (hq.sess _ _ h))
  · exact hq.finish _ _ (hq.conn _ _ (hq.sess _ _ h))

theorem WStable.connectGotPacket (w : World) (h : Q w) : Q (World.connectGotPacket w) := by
  unfold World.connectGotPacket
  simp only []
  have h1 : Q { w with sess := w.sess.takePkt.1 } := hq.sess _ _ h
  split
  · exact hq.finishErr _ _ _ (hq.handleDisconnect _ h1)
  · split
    · exact hq.finishErr _ _ _ h1
    · exact hq.activate _ _ _ h1
  · exact hq.finishErr _ _ _ (hq.handleDisconnect _ h1)
  · exact hq.finishErr _ _ _ (hq.handleDisconnect _ h1)

theorem WStable.maybeQueuePingreq {w w' : World} {now : Nat} (heq : w.maybeQueuePingreq now = .ok w') (h : Q w) : Q w' := by
  unfold World.maybeQueuePingreq at heq
  split at heq
  · simp at heq
  · simp at heq; subst heq; exact hq.sess _ _ h

theorem WStable.failStep (w : World) (ctx : StepCtx) (st : Outbound.Step) (h : Q w) : Q (w.failStep ctx st) := by
  rcases failStep_cases w ctx st with e | e <;> rw [e]
  · exact h
  · exact hq.handleDisconnect _ h

theorem WStable.discFail (w : World) (ctx : StepCtx) (h : Q w) : Q (w.discFail ctx) := by
  rcases discFail_cases w ctx with ⟨e, _⟩ | ⟨e, _⟩ <;> rw [e]
  · exact h
  · exact hq.handleDisconnect _ h

/-- The statement proved for all thirteen mutually recursive machine functions at once. -/
def WMachine (Q : World → Prop) (fuel : Nat) : Prop :=
  (∀ w k, Q w → Q (flushLoop fuel w k)) ∧
  (∀ w ctx step now, Q w → Q (performStep fuel w ctx step now)) ∧
  (∀ w ctx pkt bytes wr len now, Q w → Q (doStepWrite fuel w ctx pkt bytes wr len now)) ∧
  (∀ w ctx pkt now, Q w → Q (doStepFlush fuel w ctx pkt now)) ∧
  (∀ w ctx adv, Q w → Q (stepReturned fuel w ctx adv)) ∧
  (∀ w k, Q w → Q (afterFlush fuel w k)) ∧
  (∀ w which bytes, Q w → Q (doLocalWrite fuel w which bytes)) ∧
  (∀ w which, Q w → Q (doLocalFlush fuel w which)) ∧
  (∀ w, Q w → Q (doConnRead fuel w)) ∧
  (∀ w o adv, Q w → Q (driveLoop fuel w o adv)) ∧
  (∀ w o adv, Q w → Q (driveAfterService fuel w o adv)) ∧
  (∀ w o, Q w → Q (driveEnter fuel w o)) ∧
  (∀ w o d y, Q w → Q (doWaitRead fuel w o d y))

theorem wmachine_zero : WMachine Q 0 := by
  refine ⟨?_, ?_, ?_, ?_, ?_, ?_, ?_, ?_, ?_, ?_, ?_, ?_, ?_⟩ <;> intros <;>
    simp only [flushLoop, performStep, doStepWrite, doStepFlush, stepReturned, afterFlush, doLocalWrite, doLocalFlush,
      doConnRead, driveLoop, driveAfterService, driveEnter, doWaitRead] <;> apply hq.emit <;> assumption

omit hq in
theorem wstep_stepReturned (fuel : Nat) (ih : WMachine Q fuel) :
    ∀ w ctx adv, Q w → Q (stepReturned (fuel + 1) w ctx adv) := by
  intro w ctx adv h
  obtain ⟨i1, _, _, _, _, _, _, _, _, _, i11, _, _⟩ := ih
  unfold stepReturned
  split
  · exact i1 _ _ h
  · exact i11 _ _ _ h

theorem wstep_doStepFlush (fuel : Nat) (ih : WMachine Q fuel) :
    ∀ w ctx pkt now, Q w → Q (doStepFlush (fuel + 1) w ctx pkt now) := by
  intro w ctx pkt now h
  obtain ⟨_, _, _, _, i5, _⟩ := ih
  simp only [doStepFlush]
  split
  · rename_i w' heq; exact hq.suspend _ _ (hq.ioFlush' heq h)
  · rename_i w' k heq; exact hq.finishErr _ _ _ (hq.handleDisconnect _ (hq.ioFlush' heq h))
  · rename_i w' heq; exact i5 _ _ _ (hq.completeFlush _ _ _ (hq.ioFlush' heq h))

theorem wstep_doStepWrite (fuel : Nat) (ih : WMachine Q fuel) :
    ∀ w ctx pkt bytes wr len now, Q w → Q (doStepWrite (fuel + 1) w ctx pkt bytes wr len now) := by
  intro w ctx pkt bytes wr len now h
  obtain ⟨_, _, _, i4, i5, _⟩ := ih
  simp only [doStepWrite]
  split
  · rename_i w' heq; exact hq.suspend _ _ (hq.ioWrite' heq h)
  · rename_i w' heq; exact hq.finishErr _ _ _ (hq.discFail _ _ (hq.ioWrite' heq h))
  · rename_i w' k heq; exact hq.finishErr _ _ _ (hq.handleDisconnect _ (hq.ioWrite' heq h))
  · rename_i w' count heq
    have h2 : Q (w'.setWritten pkt (wr + count) len) := hq.setWritten _ _ _ _ (hq.ioWrite' heq h)
    split
    · exact i5 _ _ _ h2
    · exact i4 _ _ _ _ h2

theorem wstep_performStep (fuel : Nat) (ih : WMachine Q fuel) :
    ∀ w ctx step now, Q w → Q (performStep (fuel + 1) w ctx step now) := by
  intro w ctx step now h
  obtain ⟨_, _, i3, i4, i5, _⟩ := ih
  simp only [performStep]
  split
  · exact hq.finishErr _ _ _ (hq.failStep _ _ _ h)
  · exact i5 _ _ _ h
  · split
    · exact hq.finishErr _ _ _ (hq.discFail _ _ h)
    · exact i4 _ _ _ _ h
  · split
    · exact hq.finishErr _ _ _ (hq.discFail _ _ h)
    · exact i3 _ _ _ _ _ _ _ h

theorem wstep_flushLoop (fuel : Nat) (ih : WMachine Q fuel) :
    ∀ w k, Q w → Q (flushLoop (fuel + 1) w k) := by
  intro w k h
  obtain ⟨_, i2, _, _, _, i6, _⟩ := ih
  simp only [flushLoop]
  split
  · exact hq.finishErr _ _ _ (hq.discFail _ _ h)
  · rename_i w' heq
    have h' := hq.maybeQueuePingreq heq h
    split
    · exact i6 _ _ h'
    · exact i2 _ _ _ _ h'

theorem wstep_driveEnter (fuel : Nat) (ih : WMachine Q fuel) :
    ∀ w o, Q w → Q (driveEnter (fuel + 1) w o) := by
  intro w o h
  obtain ⟨_, _, _, _, _, _, _, _, _, i10, _⟩ := ih
  simp only [driveEnter]
  split
  · exact hq.finishErr _ _ _ h
  · exact i10 _ _ _ h

theorem wstep_doLocalFlush (fuel : Nat) (ih : WMachine Q fuel) :
    ∀ w which, Q w → Q (doLocalFlush (fuel + 1) w which) := by
  intro w which h
  obtain ⟨_, _, _, _, _, _, _, _, i9, _⟩ := ih
  simp only [doLocalFlush]
  split
  · rename_i w' heq; exact hq.suspend _ _ (hq.ioFlush' heq h)
  · rename_i w' k heq
    have hs := hq.ioFlush' heq h
    split
    · exact hq.finishErr _ _ _ hs
    · split <;> exact hq.finishErr _ _ _ (hq.handleDisconnect _ hs)
  · rename_i w' heq
    have hs := hq.ioFlush' heq h
    split
    · exact i9 _ (hq.sess _ _ hs)
    · split
      · exact hq.finish _ _ (hq.sess _ _ hs)
      · exact hq.finish _ _ (hq.handleDisconnect _ hs)

theorem wstep_doLocalWrite (fuel : Nat) (ih : WMachine Q fuel) :
    ∀ w which bytes, Q w → Q (doLocalWrite (fuel + 1) w which bytes) := by
  intro w which bytes h
  obtain ⟨_, _, _, _, _, _, i7, i8, _⟩ := ih
  simp only [doLocalWrite]
  split
  · apply i8
    rcases discDone_cases w which with ⟨e, _⟩ | ⟨e, _⟩ <;> rw [e]
    · exact h
    · exact hq.handleDisconnect _ h
  · split
    · rename_i w' heq; exact hq.suspend _ _ (hq.ioWrite' heq h)
    · rename_i w' n heq; exact i7 _ _ _ (hq.ioWrite' heq h)
    · rename_i w' heq
      have hs := hq.ioWrite' heq h
      split
      · exact hq.finishErr _ _ _ hs
      · split <;> exact hq.finishErr _ _ _ (hq.handleDisconnect _ hs)
    · rename_i w' k heq
      have hs := hq.ioWrite' heq h
      split
      · exact hq.finishErr _ _ _ hs
      · split <;> exact hq.finishErr _ _ _ (hq.handleDisconnect _ hs)

theorem wstep_doConnRead (fuel : Nat) (ih : WMachine Q fuel) :
    ∀ w, Q w → Q (doConnRead (fuel + 1) w) := by
  intro w h
  obtain ⟨_, _, _, _, _, _, _, _, i9, _⟩ := ih
  simp only [doConnRead]
  split
  · exact hq.connectGotPacket _ h
  · split
    · exact hq.finishErr _ _ _ (hq.handleDisconnect _ h)
    · rename_i s1 window hw
      have h1 : Q { w with sess := s1 } := hq.sess _ _ h
      split
      · exact hq.connectGotPacket _ h1
      · split
        · rename_i w' heq; exact hq.suspend _ _ (hq.ioRead' heq h1)
        · rename_i w' heq; exact hq.finishErr _ _ _ (hq.handleDisconnect _ (hq.ioRead' heq h1))
        · rename_i w' k heq; exact hq.finishErr _ _ _ (hq.handleDisconnect _ (hq.ioRead' heq h1))
        · rename_i w' bytes heq
          exact i9 _ (hq.sess _ _ (hq.ioRead' heq h1))

theorem wstep_doWaitRead (fuel : Nat) (ih : WMachine Q fuel) :
    ∀ w o d y, Q w → Q (doWaitRead (fuel + 1) w o d y) := by
  intro w o d y h
  obtain ⟨_, _, _, _, _, _, _, _, _, _, _, i12, i13⟩ := ih
  simp only [doWaitRead]
  split
  · exact i12 _ _ h
  · split
    · exact hq.finishErr _ _ _ (hq.handleDisconnect _ h)
    · rename_i s1 window hw
      have h1 : Q { w with sess := s1 } := hq.sess _ _ h
      split
      · exact i12 _ _ h1
      · split
        · rename_i w' heq; exact hq.finishErr _ _ _ (hq.handleDisconnect _ (hq.ioRead' heq h1))
        · rename_i w' k heq; exact hq.finishErr _ _ _ (hq.handleDisconnect _ (hq.ioRead' heq h1))
        · rename_i w' bytes heq
          exact i13 _ _ _ _ (hq.sess _ _ (hq.ioRead' heq h1))
        · rename_i w' heq
          have hs := hq.ioRead' heq h1
          split
          · exact hq.suspend _ _ hs
          · split
            · split
              · exact i12 _ _ hs
              · split
                · exact hq.suspend _ _ (hq.emit _ _ (hq.wakes _ _ hs))
                · exact i13 _ _ _ _ (hq.wakes _ _ hs)
            · exact hq.suspend _ _ hs

theorem wstep_driveLoop (fuel : Nat) (ih : WMachine Q fuel) :
    ∀ w o adv, Q w → Q (driveLoop (fuel + 1) w o adv) := by
  intro w o adv h
  obtain ⟨_, i2, _, _, _, _, _, _, _, i10, i11, _, _⟩ := ih
  simp only [driveLoop]
  split
  · have h1 := hq.processReceivedPacket w h
    split
    · rename_i w' e heq; rw [heq] at h1; exact hq.finishErr _ _ _ h1
    · rename_i w' len heq; rw [heq] at h1; exact hq.deliver _ _ _ h1
    · rename_i w' heq; rw [heq] at h1; exact i10 _ _ _ h1
  · repeat' split
    all_goals first
      | exact hq.finishErr _ _ _ (hq.handleDisconnect _ h)
      | exact hq.finishErr _ _ _ h
      | exact i11 _ _ _ (hq.maybeQueuePingreq (by assumption) h)
      | exact i2 _ _ _ _ (hq.maybeQueuePingreq (by assumption) h)

theorem wstep_driveAfterService (fuel : Nat) (ih : WMachine Q fuel) :
    ∀ w o adv, Q w → Q (driveAfterService (fuel + 1) w o adv) := by
  intro w o adv h
  obtain ⟨_, _, _, _, _, _, _, _, _, i10, _, i12, i13⟩ := ih
  unfold driveAfterService
  split
  · have h1 := hq.processReceivedPacket w h
    split
    · rename_i w' e heq; rw [heq] at h1; exact hq.finishErr _ _ _ h1
    · rename_i w' len heq; rw [heq] at h1; exact hq.deliver _ _ _ h1
    · rename_i w' heq; rw [heq] at h1; exact i10 _ _ _ h1
  · split
    · split
      · split
        · exact hq.finish _ _ h
        · exact hq.finish _ _ h
        · exact i12 _ _ h
      · split
        · exact hq.finish _ _ h
        · exact i13 _ _ _ _ h
    · exact i10 _ _ _ h

theorem wstep_afterFlush (fuel : Nat) (ih : WMachine Q fuel) :
    ∀ w k, Q w → Q (afterFlush (fuel + 1) w k) := by
  intro w k h
  obtain ⟨i1, _, _, _, _, _, i7, _⟩ := ih
  unfold afterFlush
  cases k with
  | post name op => exact hq.finishOp _ _ _ h
  | discPre d =>
    simp only []
    repeat' split
    all_goals first
      | exact hq.finishErr _ _ _ h
      | exact i7 _ _ _ h
  | subPre r =>
    simp only []
    repeat' split
    all_goals first
      | exact hq.finishErr _ _ _ h
      | exact hq.finishErr _ _ _ (hq.sess _ _ (hq.sess _ _ h))
      | exact i1 _ _ (hq.sess _ _ (hq.sess _ _ (hq.sess _ _ h)))
  | unsubPre r =>
    simp only []
    repeat' split
    all_goals first
      | exact hq.finishErr _ _ _ h
      | exact hq.finishErr _ _ _ (hq.sess _ _ (hq.sess _ _ h))
      | exact i1 _ _ (hq.sess _ _ (hq.sess _ _ (hq.sess _ _ h)))
  | publishPre r =>
    simp only []
    repeat' split
    all_goals first
      | exact hq.finishErr _ _ _ h
      | exact hq.finishErr _ _ _ (hq.sess _ _ h)
      | exact hq.finishErr _ _ _ (hq.sess _ _ (hq.sess _ _ h))
      | exact i1 _ _ (hq.sess _ _ (hq.sess _ _ (hq.sess _ _ h)))
      | exact i7 _ _ _ (hq.sess _ _ h)

theorem wmachine : ∀ fuel, WMachine Q fuel := by
  intro fuel
  induction fuel with
  | zero => exact wmachine_zero hq
  | succ fuel ih =>
    exact ⟨wstep_flushLoop hq fuel ih, wstep_performStep hq fuel ih, wstep_doStepWrite hq fuel ih,
      wstep_doStepFlush hq fuel ih, wstep_stepReturned fuel ih, wstep_afterFlush hq fuel ih,
      wstep_doLocalWrite hq fuel ih, wstep_doLocalFlush hq fuel ih, wstep_doConnRead hq fuel ih,
      wstep_driveLoop hq fuel ih, wstep_driveAfterService hq fuel ih, wstep_driveEnter hq fuel ih,
      wstep_doWaitRead hq fuel ih⟩

theorem wpoll (w : World) (h : Q w) : Q (World.poll w) := by
  obtain ⟨_, _, i3, i4, _, _, i7, i8, i9, _, _, _, i13⟩ := wmachine hq pollFuel
  unfold World.poll
  simp only []
  have h0 : Q { w with wakes := 0, lastIoStarved := false } := hq.starved _ false (hq.wakes w 0 h)
  split
  · exact h0
  · have h1 : Q { ({ w with wakes := 0, lastIoStarved := false } : World) with fut := none } := hq.fut _ _ h0
    split
    · exact i3 _ _ _ _ _ _ _ h1
    · exact i4 _ _ _ _ h1
    · exact i7 _ _ _ h1
    · exact i8 _ _ h1
    · exact i9 _ h1
    · exact i7 _ _ _ h1
    · exact i8 _ _ h1
    · exact i7 _ _ _ h1
    · exact i8 _ _ h1
    · exact i13 _ _ _ _ h1

theorem wgoLoop (n : Nat) (w : World) (h : Q w) : Q (World.goLoop n w) := by
  induction n generalizing w with
  | zero => exact hq.emit _ _ h
  | succ n ih =>
    simp only [World.goLoop]
    have h1 : Q { (World.poll { w with slot := some 250 }) with slot := none } := hq.slot _ _ (wpoll hq _ (hq.slot _ _ h))
    repeat' split
    all_goals first
      | exact h1
      | exact ih _ h1

theorem wdropConn (w : World) (hcancel : Q w → Q w.cancelFut) (h : Q w) : Q w.dropConn := by
  unfold World.dropConn
  simp only []
  split
  · exact hq.conn _ _ (hq.emit _ _ (hcancel h))
  · exact hcancel h

theorem wstartOp (w : World) (hcancel : Q w → Q w.cancelFut) (name : String) (body : World → World)
    (hb : ∀ w', Q w' → Q (body w')) (h : Q w) : Q (w.startOp name body) := by
  unfold World.startOp
  split
  · exact hq.emit _ _ h
  · exact hb _ (hq.starved _ false (hq.wakes _ 0 (hcancel h)))

/-- Every directive other than `connect` preserves a stable predicate that also survives dropping the
suspended future and the passing of time. -/
theorem wexec_noconnect (w : World) (hcancel : Q w → Q w.cancelFut) (hnow : ∀ (w : World) t, Q w → Q { w with now := t })
    (d : Directive) (hd : ∀ _ : d = .connect, False) (h : Q w) : Q (w.execDirective d) := by
  obtain ⟨i1, _, _, _, _, _, _, _, _, _, _, i12, _⟩ := wmachine hq pollFuel
  cases d with
  | bad => exact hq.emit _ _ h
  | connect => exact (hd rfl).elim
  | publish r =>
    simp only [World.execDirective]
    apply wstartOp hq w hcancel _ _ _ h
    intro w' hw'
    split
    · exact hq.finishErr _ _ _ hw'
    · exact i1 _ _ hw'
  | subscribe r =>
    simp only [World.execDirective]
    apply wstartOp hq w hcancel _ _ _ h
    intro w' hw'
    repeat' split
    all_goals first
      | exact hq.finishErr _ _ _ hw'
      | exact i1 _ _ hw'
  | unsubscribe r =>
    simp only [World.execDirective]
    apply wstartOp hq w hcancel _ _ _ h
    intro w' hw'
    repeat' split
    all_goals first
      | exact hq.finishErr _ _ _ hw'
      | exact i1 _ _ hw'
  | disconnect dd =>
    simp only [World.execDirective]
    apply wstartOp hq w hcancel _ _ _ h
    intro w' hw'
    repeat' split
    all_goals first
      | exact hq.finishErr _ _ _ hw'
      | exact hq.finish _ _ hw'
      | exact i1 _ _ hw'
  | poll =>
    simp only [World.execDirective]
    exact wstartOp hq w hcancel _ _ (fun w' hw' => i12 _ _ hw') h
  | recv =>
    simp only [World.execDirective]
    exact wstartOp hq w hcancel _ _ (fun w' hw' => i12 _ _ hw') h
  | drive =>
    simp only [World.execDirective]
    exact wstartOp hq w hcancel _ _ (fun w' hw' => i12 _ _ hw') h
  | d n =>
    simp only [World.execDirective]
    split
    · exact hq.emit _ _ h
    · exact hq.slot _ _ (wpoll hq _ (hq.slot _ _ h))
  | go =>
    simp only [World.execDirective]
    split
    · exact hq.emit _ _ h
    · exact wgoLoop hq _ _ h
  | tick us =>
    simp only [World.execDirective]
    split
    · exact hq.emit _ _ h
    · split
      · exact wpoll hq _ (hnow _ _ h)
      · exact hnow _ _ h
  | rx bytes =>
    simp only [World.execDirective]
    split
    · exact hq.emit _ _ h
    · exact hq.setCurNet _ _ h
  | cancel => exact hcancel h
  | drop => exact wdropConn hq w hcancel h
  | setpid n =>
    simp only [World.execDirective]
    split
    · exact hq.emit _ _ h
    · exact hq.sess _ _ h
  | decode bs => exact hq.emit _ _ h
end

end Minimq
