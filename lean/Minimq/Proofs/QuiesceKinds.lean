import Minimq.Proofs.LiftWorld
import Minimq.Proofs.QuiesceInv
/-
Bounded quiescence (C16, liveness half) — part 7: the kinds of the retained packets.

`KnownKinds` (every retained packet is a QoS 1 / QoS 2 PUBLISH, a SUBSCRIBE or an UNSUBSCRIBE) is NOT an
invariant of every world a program produces: `PubReq.qos` is a natural number, and `publish` with `qos = 3`
retains a packet with first byte `0x36`, which no acknowledgement matches (see `Theorems/C16Setting.lean`).
It is an invariant of the programs whose `publish` directives ask for QoS 0, 1 or 2 — the values of the
Rust `QoS` enum, and the only ones the directive parser lets through: the three encoders that retain
produce the headers `0x32 … 0x35`, `0x82`, `0xA2`; `compact` and `encode` keep the bytes of retained
packets; `arm_replay` only sets the DUP bit, which the acknowledgement matching ignores.
-/
namespace Minimq
open Gen World Outbound
namespace Quiesce

/-! ### Headers the broker answers -/

/-- First byte of a QoS 1 / QoS 2 PUBLISH, a SUBSCRIBE or an UNSUBSCRIBE. -/
def known (h : Nat) : Bool :=
  AckKind.pubAck.acknowledges h || AckKind.pubRec.acknowledges h || AckKind.subAck.acknowledges h ||
    AckKind.unsubAck.acknowledges h

theorem ansHeader_isSome (h id : Nat) : (ansHeader h id).isSome = known h := by
  unfold ansHeader known
  cases AckKind.pubAck.acknowledges h <;> cases AckKind.pubRec.acknowledges h <;>
    cases AckKind.subAck.acknowledges h <;> cases AckKind.unsubAck.acknowledges h <;> rfl

/-- The packet is of a kind the broker answers. -/
def QK (bs : Bytes) : Prop := known (hd bs) = true

/-- Every retained packet satisfies `Q`. -/
def AllPk (Q : Bytes → Prop) (o : Outbound) : Prop := ∀ bs ∈ o.contents, Q bs

theorem knownKinds_iff (o : Outbound) : KnownKinds o ↔ AllPk QK o := by
  unfold KnownKinds AllPk retView Outbound.contents Minimq.contents QK
  constructor
  · intro h bs hbs
    obtain ⟨e, he, rfl⟩ := List.mem_map.mp hbs
    have := h _ (List.mem_map.mpr ⟨e, he, rfl⟩)
    rw [ansHeader_isSome] at this; exact this
  · intro h v hv
    obtain ⟨e, he, rfl⟩ := List.mem_map.mp hv
    rw [ansHeader_isSome]; exact h _ (List.mem_map.mpr ⟨e, he, rfl⟩)

theorem known_dup (x : UInt8) : known (dupByte x).toNat = known x.toNat := by
  have hx := x.toNat_lt
  have h1 : (dupByte x).toNat / 16 = x.toNat / 16 := by
    simp only [dupByte, b, UInt8.toNat_ofNat']; omega
  have h2 : (dupByte x).toNat / 2 % 4 = x.toNat / 2 % 4 := by
    simp only [dupByte, b, UInt8.toNat_ofNat']; omega
  simp only [known, AckKind.acknowledges, h1, h2]

theorem QK_setDup (bs : Bytes) (h : QK bs) : QK (setDup bs) := by
  cases bs with
  | nil => exact h
  | cons x r =>
    show known (dupByte x).toNat = true
    rw [known_dup]; exact h

/-! ### A property of every retained packet that the DUP bit does not affect is kept by the arena -/

section
variable {Q : Bytes → Prop}

theorem AllPk_same {o o' : Outbound} (h : AllPk Q o) (hb : o'.buf = o.buf)
    (hl : layout o'.retained = layout o.retained) : AllPk Q o' := by
  intro bs hbs
  apply h
  simp only [Outbound.contents] at hbs ⊢
  rw [hb, contents_of_layout hl] at hbs
  exact hbs

theorem AllPk_queueControl {o o' : Outbound} {a : ControlAction} (h : o.queueControl a = some o') (hf : AllPk Q o) :
    AllPk Q o' := by
  unfold Outbound.queueControl at h
  split at h
  · simp at h
  · simp at h; subst h; exact AllPk_same hf rfl rfl

theorem AllPk_queueRelease {o o' : Outbound} {id rc ps : Nat} (h : o.queueRelease id rc ps = some o') (hf : AllPk Q o) :
    AllPk Q o' := by
  unfold Outbound.queueRelease at h
  split at h
  · simp at h
  · simp at h; subst h; exact AllPk_same hf rfl rfl

theorem AllPk_ackRelease (o : Outbound) (id : Nat) (hf : AllPk Q o) : AllPk Q (o.ackRelease id).1 := by
  unfold Outbound.ackRelease
  split
  · exact AllPk_same hf rfl rfl
  · exact hf

theorem AllPk_ackPacket (o : Outbound) (id : Nat) (k : AckKind) (h : o.ArenaInv) (hf : AllPk Q o) :
    AllPk Q (o.ackPacket id k).1 := by
  obtain ⟨_, ht, hn, _⟩ := ackPacket_spec o id k h
  cases hfound : (o.ackPacket id k).2 with
  | false => rw [hn hfound]; exact hf
  | true =>
    obtain ⟨hc, _⟩ := ht hfound
    intro bs hbs
    rw [hc] at hbs
    apply hf
    simp only [Minimq.contents, Outbound.contents, List.mem_map] at hbs ⊢
    obtain ⟨e, he, rfl⟩ := hbs
    exact ⟨e, (removeFirst_sublist _ _).subset he, rfl⟩

theorem AllPk_armReplay (hdup : ∀ bs, Q bs → Q (setDup bs)) (o : Outbound) (h : o.ArenaInv) (hf : AllPk Q o) :
    AllPk Q o.armReplay := by
  obtain ⟨_, hc, _⟩ := armReplay_spec o h
  rcases hc with hc | ⟨he, _⟩
  · intro bs hbs
    rw [hc, List.mem_map] at hbs
    obtain ⟨x, hx, rfl⟩ := hbs
    exact hdup x (hf x hx)
  · rw [he]; exact hf

theorem AllPk_rearm (hdup : ∀ bs, Q bs → Q (setDup bs)) (o : Outbound) (h : o.ArenaInv) (hf : AllPk Q o) :
    AllPk Q o.rearm := by
  have hd : o.dropPingreq.ArenaInv := ArenaInv_of_layout h rfl rfl rfl
  exact AllPk_armReplay hdup _ hd (AllPk_same hf rfl rfl)

theorem AllPk_encodeAt {ε : Type} (o : Outbound) (enc : Nat → (Nat → Nat → Bytes) → Except ε (Nat × Bytes))
    (h : o.ArenaInv) (he : EncOk enc) (hf : AllPk Q o) : AllPk Q (o.encodeAt enc).1 := by
  obtain ⟨_, hc, _⟩ := encodeAt_spec o enc h he
  intro bs hbs; rw [hc] at hbs; exact hf bs hbs

/-- Every packet the encoder produces satisfies `Q`. -/
def EncAll {ε : Type} (Q : Bytes → Prop) (enc : Nat → (Nat → Nat → Bytes) → Except ε (Nat × Bytes)) : Prop :=
  ∀ cap view off pkt, enc cap view = .ok (off, pkt) → Q pkt

theorem AllPk_retain {ε : Type} (o o' : Outbound) (enc : Nat → (Nat → Nat → Bytes) → Except ε (Nat × Bytes))
    (h : o.ArenaInv) (he : EncOk enc) (hQ : EncAll Q enc) (hf : AllPk Q o) (id off len : Nat)
    (hres : (o.encodeAt enc).2 = .ok (off, len))
    (hr : (o.encodeAt enc).1.retainPacket id off len = some o') : AllPk Q o' := by
  obtain ⟨hi, hc, _, _, hbl, _, _, _, hpos⟩ := encodeAt_spec o enc h he
  obtain ⟨p1, p2, p3⟩ := hpos off len hres
  obtain ⟨_, rc, _⟩ := retainPacket_spec _ o' id off len hi p1 (by rw [hbl]; exact p2) p3 hr
  obtain ⟨off0, pkt, hpk, hsl, _⟩ := encodeAt_packet o enc h he off len hres
  intro bs hbs
  rw [rc, hc, List.mem_append, List.mem_singleton] at hbs
  rcases hbs with hbs | rfl
  · exact hf bs hbs
  · rw [hsl]; exact hQ _ _ _ _ hpk

theorem AllPk_handlePacket (d : SessionData) (r : Runtime) (p : Recv) (ha : d.outbound.ArenaInv)
    (hf : AllPk Q d.outbound) : AllPk Q (Minimq.handlePacket d r p).1.outbound := by
  have hack := fun id k => AllPk_ackPacket d.outbound id k ha hf
  cases p with
  | connAck sp rc props => exact hf
  | pingResp => exact hf
  | disconnect rc props => exact hf
  | subAck id props codes =>
    simp only [Minimq.handlePacket]
    split
    · exact hf
    · split <;> exact hack id .subAck
  | unsubAck id props codes =>
    simp only [Minimq.handlePacket]
    split
    · exact hf
    · split <;> exact hack id .unsubAck
  | pubAck id rs =>
    simp only [Minimq.handlePacket]
    split
    · exact hf
    · split <;> exact hack id .pubAck
  | pubComp id rs =>
    simp only [Minimq.handlePacket]
    split
    · exact hf
    · split <;> exact AllPk_ackRelease _ _ hf
  | pubRec id rs =>
    simp only [Minimq.handlePacket]
    split
    · split
      · exact hack id .pubRec
      · split
        · exact hack id .pubRec
        · split
          · exact hack id .pubRec
          · rename_i o' hq
            exact AllPk_queueRelease hq (hack id .pubRec)
    · split
      · split <;> exact hf
      · exact hf
  | pubRel id rs =>
    simp only [Minimq.handlePacket]
    repeat' split
    all_goals first
      | exact hf
      | exact AllPk_queueControl (by assumption) hf
  | publish topic id props payload retain qos dup =>
    simp only [Minimq.handlePacket]
    repeat' split
    all_goals first
      | exact hf
      | exact AllPk_queueControl (by assumption) hf

/-- The invariant on the session: arena layout and serials (`closed_ArenaP`), and `Q` of every retained
packet. -/
def PkP (Q : Bytes → Prop) (s : Session) : Prop :=
  (s.data.outbound.ArenaInv ∧ s.data.outbound.SerInv) ∧ AllPk Q s.data.outbound

theorem PkP_new (Q : Bytes → Prop) (cfg : Cfg) : PkP Q (Session.new cfg) :=
  ⟨⟨ArenaInv_new cfg.tx, ⟨by simp [Session.new, Outbound.new], by simp [Session.new, Outbound.new]⟩⟩,
   by intro bs hbs; simp [Session.new, Outbound.new, Outbound.contents, Minimq.contents] at hbs⟩

theorem PkP_activate (hdup : ∀ bs, Q bs → Q (setDup bs)) (s : Session) (sp : Bool) (block : Bytes) (now : Nat)
    (h : PkP Q s) : PkP Q (s.activate sp block now).1 := by
  refine ⟨arena_of_closed h.1 (fun hp => (closed_ArenaP _).activate s sp block now hp), ?_⟩
  unfold Session.activate
  simp only []
  have h0 : PkP Q (if (!sp) = true then { s with data := s.data.reset } else s) := by
    split
    · exact ⟨((OStep.clear s.data.outbound) h.1).1, by
        intro bs hbs; simp [SessionData.reset, Outbound.contents, Outbound.clear, Minimq.contents] at hbs⟩
    · exact h
  generalize (if (!sp) = true then { s with data := s.data.reset } else s) = s0 at h0 ⊢
  split
  · exact AllPk_rearm hdup _ h0.1.1 h0.2
  · exact h0.2

/-- The enqueue step, for an encoder all of whose packets satisfy `Q`. -/
theorem PkP_enqueue {ε : Type} (s : Session) (enc : Nat → (Nat → Nat → Bytes) → Except ε (Nat × Bytes))
    (off len : Nat) (isPub : Bool) (s3 : Session) (typ : Nat) (he : EncOk enc) (ht : EncTyp enc typ)
    (hiff : isPub = true ↔ typ = MT_Publish) (hQ : EncAll Q enc) (h : PkP Q s)
    (hquota : isPub = true → s.rt.sendQuota ≠ 0) (hres : (s.alloc.1.encode enc).2 = .ok (off, len))
    (hr : (s.alloc.1.encode enc).1.retain s.alloc.2 off len isPub = some s3) : PkP Q s3 := by
  refine ⟨arena_of_closed h.1 (fun hp => (closed_ArenaP _).enqueue s enc off len isPub s3 typ he ht hiff hp hquota hres hr), ?_⟩
  rw [Session.encode_fst, Session.alloc_fst, Session.alloc_snd] at hr
  rw [Session.encode_snd, Session.alloc_fst] at hres
  unfold Session.retain at hr
  split at hr
  · simp at hr
  · rename_i o ho
    simp only [Session.setOutbound] at ho hres
    rw [nextPacketId_outbound] at ho hres
    have := AllPk_retain s.data.outbound o enc h.1.1 he hQ h.2 _ off len hres ho
    simp at hr; subst hr
    split <;> exact this
end

/-! ### What the three encoders that retain produce -/

theorem finalize_hdr {w : W} {typ flags off : Nat} {pkt : Bytes} (h : w.finalize typ flags = .ok (off, pkt)) :
    ∃ rest, pkt = b (typ * 16 + flags % 16) :: rest := by
  unfold W.finalize at h
  split at h
  · simp at h
  · split at h
    · simp at h
    · simp only [Except.ok.injEq, Prod.mk.injEq] at h
      exact ⟨_, h.2.symm⟩

theorem encodeWithOffset_hdr {cs : List (Except SerErr Bytes)} {typ flags cap off : Nat} {pkt : Bytes}
    (h : encodeWithOffset cap cs typ flags = .ok (off, pkt)) : ∃ rest, pkt = b (typ * 16 + flags % 16) :: rest := by
  simp only [encodeWithOffset] at h
  split at h
  · simp at h
  · exact finalize_hdr h

theorem encodePublish_hdr {hd : PublishHeader} {payload : Payload} {fill : Nat → Nat → Bytes} {cap off : Nat}
    {pkt : Bytes} (he : encodePublishWithOffset cap hd payload fill = .ok (off, pkt)) :
    ∃ rest, pkt = b (MT_Publish * 16 + hd.flags % 16) :: rest := by
  simp only [encodePublishWithOffset] at he
  split at he
  · simp at he
  · split at he
    · simp at he
    · split at he
      · simp at he
      · split at he
        · simp at he
        · rename_i r hr
          simp only [Except.ok.injEq] at he
          subst he
          exact finalize_hdr hr
    · split at he
      · simp at he
      · split at he
        · simp at he
        · rename_i r hr
          simp only [Except.ok.injEq] at he
          subst he
          exact finalize_hdr hr

theorem QK_of_hdr {pkt : Bytes} {n : Nat} (h : ∃ rest, pkt = b n :: rest) (hk : known (n % 256) = true) : QK pkt := by
  obtain ⟨rest, rfl⟩ := h
  show known (b n).toNat = true
  rw [b_toNat]; exact hk

theorem EncAll_subscribe (cs : List (Except SerErr Bytes)) :
    EncAll QK (fun cap (_ : Nat → Nat → Bytes) => encodeWithOffset cap cs MT_Subscribe FLAGS_Subscribe) :=
  fun _ _ _ _ h => QK_of_hdr (encodeWithOffset_hdr h) (by decide)

theorem EncAll_unsubscribe (cs : List (Except SerErr Bytes)) :
    EncAll QK (fun cap (_ : Nat → Nat → Bytes) => encodeWithOffset cap cs MT_Unsubscribe FLAGS_Unsubscribe) :=
  fun _ _ _ _ h => QK_of_hdr (encodeWithOffset_hdr h) (by decide)

theorem EncAll_publish (hd : PublishHeader) (payload : Payload) (hq : hd.qos = 1 ∨ hd.qos = 2) (hdup : hd.dup = false) :
    EncAll QK (fun cap fill => encodePublishWithOffset cap hd payload fill) := by
  intro cap view off pkt h
  refine QK_of_hdr (encodePublish_hdr h) ?_
  unfold PublishHeader.flags
  rw [hdup]
  rcases hq with hq | hq <;> rw [hq] <;> cases hd.retain <;> decide

theorem effectiveQos_le (m : Option Nat) (d : Bool) (q : Nat) : effectiveQos m d q ≤ q := by
  unfold effectiveQos
  split
  · split
    · rename_i h; simp at h; omega
    · exact Nat.le_refl _
  · exact Nat.le_refl _

/-! ### The lifting -/

/-- The request asks for a QoS of the protocol (the Rust `QoS` enum has no other values). -/
def QosOK : AfterFlush → Prop
  | .publishPre r => r.qos ≤ 2
  | _ => True

/-- The arena is laid out sanely and every retained packet is of a kind the broker answers. -/
def KindP (s : Session) : Prop := PkP QK s

theorem wclosed_KindP : WClosed QosOK (fun s _ => KindP s) where
  post := fun _ _ => trivial
  queuePing := by
    intro s _ now s' h hq
    refine ⟨arena_of_closed h.1 (fun hp => (closed_ArenaP _).queuePing s now s' hp hq), ?_⟩
    rcases Session.queuePing_ok hq with rfl | ⟨o, ho, rfl⟩
    · exact h.2
    · exact AllPk_queueControl ho h.2
  completeFlush := by
    intro s _ pkt now h
    refine ⟨arena_of_closed h.1 (fun hp => (closed_ArenaP _).completeFlush s pkt now hp), ?_⟩
    simp only [Session.completeFlush, Session.setOutbound]
    cases pkt <;> simp only []
    · exact AllPk_same h.2 rfl rfl
    · exact AllPk_same h.2 rfl rfl
    · exact AllPk_same h.2 rfl (layout_of_offsets4 (map_modifyFirst_state _ (fun _ => .sent) _))
  setWritten := by
    intro s _ pkt a c h
    refine ⟨arena_of_closed h.1 (fun hp => (closed_ArenaP _).setWritten s pkt a c hp), ?_⟩
    simp only [Session.setWritten, Session.setOutbound]
    cases pkt <;> simp only []
    · exact AllPk_same h.2 rfl rfl
    · exact AllPk_same h.2 rfl rfl
    · exact AllPk_same h.2 rfl (layout_of_offsets4 (map_modifyFirst_state _ (fun _ => SendState.afterWrite a c) _))
  takePkt := by
    intro s _ h
    have := Session.takePkt_data s
    unfold KindP PkP
    rw [this.1]; exact h
  handle := by
    intro s _ p h
    refine ⟨arena_of_closed h.1 (fun hp => (closed_ArenaP _).handle s p hp), ?_⟩
    rw [Session.handle_fst_data]
    exact AllPk_handlePacket s.data s.rt p h.1.1 h.2
  handleDisconnect := by
    intro s _ h
    exact ⟨arena_of_closed h.1 (fun hp => (closed_ArenaP _).handleDisconnect s hp), AllPk_rearm QK_setDup _ h.1.1 h.2⟩
  activateErr := fun s _ sp block now _ h _ => PkP_activate QK_setDup s sp block now h
  activateOk := fun s _ sp block now h _ => PkP_activate QK_setDup s sp block now h
  alloc := by
    intro s _ h
    have ho : s.alloc.1.data.outbound = s.data.outbound := by
      rw [Session.alloc_fst]; exact nextPacketId_outbound s.data
    unfold KindP PkP; rw [ho]; exact h
  encodeConnect := by
    intro s _ c h
    refine ⟨arena_of_closed h.1 (fun hp => (closed_ArenaP _).encodeConnect s c hp), ?_⟩
    rw [Session.encode_fst]; exact AllPk_encodeAt _ _ h.1.1 (EncOk_encodeConnect c) h.2
  encodeAfterAlloc := by
    intro ε s _ enc he h
    refine ⟨arena_of_closed h.1 (fun hp => (closed_ArenaP _).encodeAfterAlloc s enc he hp), ?_⟩
    rw [Session.encode_fst, Session.alloc_fst]
    simp only [Session.setOutbound]
    rw [nextPacketId_outbound]
    exact AllPk_encodeAt _ _ h.1.1 he h.2
  encodeScratch := by
    intro ε s _ enc he h
    refine ⟨arena_of_closed h.1 (fun hp => (closed_ArenaP _).encodeScratch s enc he hp), ?_⟩
    rw [Session.encode_fst]; exact AllPk_encodeAt _ _ h.1.1 he h.2
  enqueueSub := fun s _ r off len s3 _ h hres hr =>
    PkP_enqueue s _ off len false s3 _ (EncOk_encodeWithOffset _ _ _) (EncTyp_encodeWithOffset _ _ _ (by decide))
      (by decide) (EncAll_subscribe _) h (by simp) hres hr
  enqueueUnsub := fun s _ r off len s3 _ h hres hr =>
    PkP_enqueue s _ off len false s3 _ (EncOk_encodeWithOffset _ _ _) (EncTyp_encodeWithOffset _ _ _ (by decide))
      (by decide) (EncAll_unsubscribe _) h (by simp) hres hr
  enqueuePub := by
    intro s _ r qos off len s3 hA hq hpos h hquota hres hr
    have hle : qos ≤ 2 := by
      have := effectiveQos_le s.rt.maxQos s.downgrade r.qos
      have hA' : r.qos ≤ 2 := hA
      omega
    exact PkP_enqueue s _ off len true s3 _ (EncOk_encodePublish _ _) (EncTyp_encodePublish _ _) (by decide)
      (EncAll_publish _ _ (by show qos = 1 ∨ qos = 2; omega) rfl) h (fun _ => hquota) hres hr
  clearPing := fun _ _ h => h
  noteActivity := fun _ _ _ h => h
  window := by
    intro s _ s' n h hw
    unfold Session.window at hw
    split at hw
    · simp at hw
    · simp at hw; rw [← hw.1]; exact h
  commit := fun _ _ _ h => h
  beginConnect := by
    intro s _ h
    exact ⟨arena_of_closed h.1 (fun hp => (closed_ArenaP _).beginConnect s hp), AllPk_rearm QK_setDup _ h.1.1 h.2⟩
  setPid := fun _ _ _ _ _ h => h
  drop := fun _ _ h => h

/-- **Programs that publish with QoS 0, 1 or 2 only** — and the worlds they produce. -/
def QosProgram (ds : List Directive) : Prop := ∀ r, Directive.publish r ∈ ds → r.qos ≤ 2

theorem dirGood_of_qosProgram {ds : List Directive} (h : QosProgram ds) : ∀ d ∈ ds, DirGood QosOK d := by
  intro d hd
  cases d with
  | publish r => exact h r hd
  | _ => exact True.intro

/-- After a program that publishes with QoS 0, 1 or 2 only, every retained packet is a QoS 1 / QoS 2
PUBLISH, a SUBSCRIBE or an UNSUBSCRIBE. -/
theorem knownKinds_run (cfg : Cfg) (ds : List Directive) (hq : QosProgram ds) :
    KnownKinds (ds.foldl World.execDirective { sess := Session.new cfg }).sess.data.outbound := by
  have h0 : GW QosOK (fun s _ => KindP s) ({ sess := Session.new cfg } : World) :=
    ⟨PkP_new QK cfg, fun pc hpc => (by cases hpc)⟩
  have h := grun wclosed_KindP ds _ (dirGood_of_qosProgram hq) h0
  exact (knownKinds_iff _).mpr h.1.2

end Quiesce
end Minimq
