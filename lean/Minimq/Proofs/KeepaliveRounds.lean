import Minimq.Proofs.KeepaliveMachine
/-
Keep-alive over arbitrarily many rounds (for `Theorems/C10Rounds.lean`): what `pingreq_cycle` and
`pingresp_in_time` of `Proofs/KeepaliveMachine.lean` do not export (the whole session after the round,
the connection handle, the decision slot, the last result); `poll()` called again after it has returned;
the states `Armed` and `Pinged` that a round alternates between; a schedule of rounds as a list of
directives, for an application waiting in `recv()` or calling `poll()` in a loop; and the induction over
the schedule.
-/
namespace Minimq
open Gen World Outbound

/-! ## The PINGREQ half of a round, with everything the next round needs -/

/-- `pingreq_cycle`, the parts it does not state: the connection handle and the last result are
untouched by all three directives, every intermediate state is a suspended operation, and the session
after the flush is the old one with the PINGREQ queued, written and flushed at `t`; no decision is
left over. -/
theorem pingreq_cycle_more (W : World) (outer : Outer) (hI : IdleWait W outer)
    (hctl : W.sess.data.outbound.control = []) (hpt : W.sess.rt.pingTimeout = none) (p : Nat)
    (hnp : W.sess.rt.nextPing = some p) (hsz : W.sess.rt.packetTooLarge 2 = false)
    (us : Nat) (hb : W.now + us ≤ 4611686018427387904) (hdue : p ≤ W.now + us)
    (k1 k2 : Nat) (hk1 : 2 ≤ k1 ∧ k1 ≤ 250) (hk2 : k2 ≤ 250) :
    let t := W.now + us
    let A := W.execDirective (.tick us)
    let B := A.execDirective (.d k1)
    let C := B.execDirective (.d k2)
    (A.conn = W.conn ∧ A.lastRes = W.lastRes) ∧
    (B.conn = W.conn ∧ B.lastRes = W.lastRes) ∧
    (C.conn = W.conn ∧ C.slot = none ∧
      C.sess = (W.sess.withPing.setWritten (.control ControlAction.pingReq) 2 2).completeFlush
        (.control ControlAction.pingReq) t ∧
      (outer = .recv → C.lastRes = W.lastRes)) := by
  intro t A B C
  have hdl : W.sess.rt.nextDeadline = some p := by
    rw [NoSpin.nextDeadline_no_timeout _ hpt, hnp]
  have hfut : W.fut = some (.waitRead outer (some p) true) := by rw [hI.fut, hdl]
  have hA : A = _ := tick_fires W outer p us hfut hI.slot hI.waiting hb hdue
  rw [show (3999 : Nat) = 3998 + 1 from rfl,
    de_live 3998 _ outer (show ({ ((({ W with now := W.now + us } : World).pollBase).emit s!"rp {W.netIdx}") with
      lastIoStarved := false } : World).live = true from hI.live)] at hA
  rw [show (3998 : Nat) = 3995 + 3 from rfl,
    driveLoop_ping_due 3995 ({ ((({ W with now := W.now + us } : World).pollBase).emit s!"rp {W.netIdx}") with
      lastIoStarved := false } : World) outer false hI.waiting.notAvail hI.slot hI.live hpt p hnp hdue hI.idle hctl hsz] at hA
  have hAfut : A.fut = some (.stepWrite (.drive false outer) (.control ControlAction.pingReq) pingBytes 0 2 t) := by
    rw [hA]; rfl
  have hAsess : A.sess = W.sess.withPing := by rw [hA]; rfl
  have hAnets : A.nets = W.nets := by rw [hA]; rfl
  have hAnow : A.now = t := by rw [hA]; rfl
  have hAconn : A.conn = W.conn := by rw [hA]; rfl
  have hAres : A.lastRes = W.lastRes := by rw [hA]; rfl
  have hAcur : A.curNet = W.curNet := by unfold World.curNet; rw [hAnets]
  obtain ⟨b1, b2, b3, b4, b5, _, b7, _⟩ :=
    d_pingWrite_fields A (.drive false outer) t k1 hAfut hk1.1 hk1.2 (hAnets ▸ hI.nets)
  rw [hAnets, hAcur] at b3
  have hBsess : B.sess = W.sess.withPing.setWritten (.control ControlAction.pingReq) 2 2 := by rw [b2, hAsess]
  obtain ⟨c1, _, _, _⟩ := pingCycle_outbound W.sess t hctl
  have hBlive : B.live = true := by
    have : B.conn = W.conn := b4.trans hAconn
    unfold World.live; rw [this]; exact hI.live
  have hBcur : B.curNet.rx = W.curNet.rx := by
    have := curNet_of_nets b3
    rw [this]
  have hBwait : Waiting B.sess.reader B.curNet.rx := by
    rw [hBcur, hBsess]; exact hI.waiting
  have hBn : (B.sess.completeFlush (.control ControlAction.pingReq) t).data.outbound.nextStep = none := by
    rw [hBsess, c1]; exact hI.idle
  have hBnow : B.now = t := b5.trans hAnow
  refine ⟨⟨hAconn, hAres⟩, ⟨b4.trans hAconn, b7.trans hAres⟩, ?_⟩
  cases outer with
  | drive => exact absurd rfl hI.outer_ne
  | poll =>
    have hC : C = _ := d_pingFlush_poll B false t k2 b1 hk2 hBwait.notAvail hBn
    simp only [] at hC
    have e4 : C.conn = B.conn := by rw [hC]; rfl
    have e5 : C.sess = B.sess.completeFlush (.control ControlAction.pingReq) t := by rw [hC]; rfl
    refine ⟨e4.trans (b4.trans hAconn), by rw [hC], by rw [e5, hBsess], ?_⟩
    intro h; cases h
  | recv =>
    have hC : C = _ := d_pingFlush_recv B false t k2 b1 hk2 hBlive hBwait hBn (by rw [hBnow, RT_val]; omega)
    simp only [] at hC
    have e4 : C.conn = B.conn := by rw [hC]; rfl
    have e5 : C.sess = B.sess.completeFlush (.control ControlAction.pingReq) t := by rw [hC]; rfl
    have e7 : C.lastRes = B.lastRes := by rw [hC]; rfl
    refine ⟨e4.trans (b4.trans hAconn), by rw [hC], by rw [e5, hBsess], ?_⟩
    intro _; exact e7.trans (b7.trans hAres)

/-! ## The PINGRESP half of a round, with everything the next round needs -/

theorem fresh_window (r : Reader) (hd : r.data = []) (hp : r.packetLength = none) (hc : 1 ≤ r.cap) :
    r.receiveWindow = some (r, 1) := by
  rw [receiveWindow_unknown r hp, hd]
  simp only [fixedHeader, List.length_nil]
  rw [if_pos (by omega)]

theorem pingResp_first_read (W : World) (hd : W.sess.reader.data = []) (hp : W.sess.reader.packetLength = none)
    (hc : 2 ≤ W.sess.reader.cap) (hrx : W.curNet.rx = pingRespBytes) (k : Nat) (hk1 : 1 ≤ k) :
    W.readCount k = 1 ∧ readKind W.sess.reader W.curNet.rx 1 = .more := by
  have hw := fresh_window W.sess.reader hd hp (by omega)
  have hwin : W.window = 1 := by unfold World.window; rw [hw]
  have hcount : W.readCount k = 1 := by
    unfold World.readCount takeCount
    rw [hwin, hrx]
    show (if k = 250 then min 1 2 else min k (min 1 2)) = 1
    split <;> omega
  refine ⟨hcount, ?_⟩
  have hp' : (W.sess.reader.fed W.curNet.rx 1).packetLength = none := hp
  have hdat : (W.sess.reader.fed W.curNet.rx 1).data = [b 0xD0] := by
    rw [fed_data, hd, hrx]; rfl
  unfold readKind
  rw [packetAvailable_false_of_none hp', receiveWindow_unknown _ hp', hdat]
  have hfh : fixedHeader [b 0xD0] = .incomplete := by decide
  rw [hfh]
  simp only [Bool.false_eq_true, if_false]
  rw [if_pos (by show 1 + 1 ≤ W.sess.reader.cap; omega)]
  rfl

theorem pingresp_more (W : World) (outer : Outer) (hI : IdleWait W outer) (t : Nat)
    (hpt : W.sess.rt.pingTimeout = some t) (hnow : W.now < t)
    (hrd : W.sess.reader.data = [] ∧ W.sess.reader.packetLength = none ∧ 2 ≤ W.sess.reader.cap)
    (hrx : W.curNet.rx = [])
    (hnp : ∀ np, W.sess.rt.nextPing = some np → W.now < np)
    (r1 r2 : Nat) (h1 : 1 ≤ r1 ∧ r1 ≤ 250) (h2 : 1 ≤ r2 ∧ r2 ≤ 250) :
    let X := W.execDirective (.rx pingRespBytes)
    let Y := X.execDirective (.d r1)
    let R := Y.execDirective (.d r2)
    (X.conn = W.conn ∧ X.fut = W.fut ∧ X.lastRes = W.lastRes) ∧
    (Y.conn = W.conn ∧ Y.fut.isSome = true ∧ Y.lastRes = W.lastRes) ∧
    R = readPacket [r1, r2] X ∧
    R.sess = W.sess.afterPingResp ∧ R.conn = W.conn ∧ R.slot = none ∧ R.nets ≠ [] ∧
    (outer = .recv → R.lastRes = W.lastRes) := by
  intro X Y R
  have hdl : W.sess.rt.nextDeadline = some t := NoSpin.nextDeadline_of_timeout _ _ hpt
  have hemp : W.nets.isEmpty = false := by
    cases hn : W.nets with
    | nil => exact absurd hn hI.nets
    | cons x xs => rfl
  have hW1 : X = W.setCurNet { W.curNet with rx := W.curNet.rx ++ pingRespBytes } := by
    show W.execDirective (.rx pingRespBytes) = _
    simp only [World.execDirective, hemp, Bool.false_eq_true, if_false]
  have h1cur : X.curNet = { W.curNet with rx := pingRespBytes } := by
    rw [hW1, hrx]; simp [World.setCurNet, World.curNet]
  have h1sess : X.sess = W.sess := by rw [hW1]; rfl
  have h1fut : X.fut = some (.waitRead outer (some t) true) := by rw [hW1]; show W.fut = _; rw [hI.fut, hdl]
  have h1now : X.now = W.now := by rw [hW1]; rfl
  have h1conn : X.conn = W.conn := by rw [hW1]; rfl
  have h1res : X.lastRes = W.lastRes := by rw [hW1]; rfl
  have h1rx : X.curNet.rx = pingRespBytes := by rw [h1cur]
  have hwait1 : Waiting X.sess.reader X.curNet.rx := by
    rw [h1sess]; exact Waiting_fresh _ _ hrd.1 hrd.2.1 (by omega)
  -- the first read decision: one byte, more needed
  obtain ⟨hcount, hkind⟩ := pingResp_first_read X (by rw [h1sess]; exact hrd.1) (by rw [h1sess]; exact hrd.2.1)
    (by rw [h1sess]; exact hrd.2.2) h1rx r1 h1.1
  have hkind' : readKind X.sess.reader X.curNet.rx (X.readCount r1) = .more := by rw [hcount]; exact hkind
  obtain ⟨hY, _, _⟩ := d_more X outer (some t) true r1 h1fut (by rw [h1now]; exact hnow) hwait1
    (by rw [h1rx]; decide) h1.1 h1.2 hkind'
  have hYe : Y = _ := hY
  have hdone : X.readDone r1 = false := by
    unfold World.readDone
    rw [hkind', hcount, h1rx]; rfl
  have hRP : R = readPacket [r1, r2] X := by
    simp only [readPacket, hdone, Bool.false_eq_true, if_false]
    split <;> rfl
  refine ⟨⟨h1conn, ?_, h1res⟩, ⟨?_, ?_, ?_⟩, hRP, ?_⟩
  · rw [h1fut, hI.fut, hdl]
  · rw [hYe]; exact h1conn
  · rw [hYe]; rfl
  · rw [hYe]; exact h1res
  -- the whole packet
  obtain ⟨io, _, hfin⟩ := readPacket_final [r1, r2] X outer (some t) true h1fut (by rw [h1now]; exact hnow) hwait1
    (by rw [h1rx]; decide)
    (by intro k hk; simp only [List.mem_cons, List.not_mem_nil, or_false] at hk; rcases hk with rfl | rfl; exact h1; exact h2)
    (by rw [h1rx]; exact Nat.le_refl 2)
  have hframe : frame1 X.sess.reader.cap (X.sess.reader.data ++ X.curNet.rx) = .packet pingRespBytes [] := by
    rw [h1sess, hrd.1, h1rx]; exact frame1_pingResp _ hrd.2.2
  have hR : R = { driveEnter 3998 (X.withRead (X.sess.reader.packetOf pingRespBytes) [] io none) outer with slot := none } := by
    rw [hRP, hfin]; unfold World.finalRead; rw [hframe]
  generalize hWp : X.withRead (X.sess.reader.packetOf pingRespBytes) [] io none = Wp at hR
  have hpsess : Wp.sess = { W.sess with reader := W.sess.reader.packetOf pingRespBytes } := by
    rw [← hWp]; show ({ X.sess with reader := _ } : Session) = _; rw [h1sess]
  have hpconn : Wp.conn = W.conn := by rw [← hWp]; exact h1conn
  have hpres : Wp.lastRes = W.lastRes := by rw [← hWp]; exact h1res
  have hplive : Wp.live = true := by unfold World.live; rw [hpconn]; exact hI.live
  have hpnow : Wp.now = W.now := by rw [← hWp]; exact h1now
  have hpcur : Wp.curNet = { W.curNet with rx := [] } := by rw [← hWp, withRead_curNet, h1cur]
  have hpne : Wp.nets ≠ [] := by
    rw [← hWp]; show X.nets.dropLast ++ [_] ≠ []
    simp
  have hde := driveEnter_pingResp 3990 Wp outer hI.outer_ne W.sess hpsess hplive (by rw [← hWp]; rfl) (by omega)
    (by rw [hpcur]) (by intro np h; rw [hpnow]; exact hnp np h) hI.idle
  simp only [] at hde
  cases outer with
  | drive => exact absurd rfl hI.outer_ne
  | poll =>
    rw [hde] at hR
    refine ⟨by rw [hR]; rfl, by rw [hR]; exact hpconn, by rw [hR], by rw [hR]; exact hpne, ?_⟩
    intro h; cases h
  | recv =>
    rw [hde] at hR
    refine ⟨by rw [hR]; rfl, by rw [hR]; exact hpconn, by rw [hR], by rw [hR]; exact hpne, ?_⟩
    intro _; rw [hR]; exact hpres

/-! ## `poll()` called again -/

/-- The application calls `poll()` on a live connection with no operation suspended, the reader waiting,
nothing to send, no ping timeout expired and no PINGREQ due: the service pass does nothing and the
operation suspends in `wait_for_progress` — `IdleWait`. Nothing else changes. -/
theorem poll_again (W : World) (hfut : W.fut = none) (hlive : W.live = true) (hslot : W.slot = none)
    (hwait : Waiting W.sess.reader W.curNet.rx) (hn : W.sess.data.outbound.nextStep = none) (hnets : W.nets ≠ [])
    (hto : ∀ t, W.sess.rt.pingTimeout = some t → W.now < t)
    (hq : W.sess.queuePing W.now = .ok W.sess) :
    let R := W.execDirective .poll
    IdleWait R .poll ∧ R.sess = W.sess ∧ R.nets = W.nets ∧ R.conn = W.conn ∧ R.now = W.now ∧
    R.lastRes = W.lastRes ∧ R.log = W.log := by
  intro R
  have hconn : W.conn.isNone = false := by
    unfold World.live at hlive
    cases hc : W.conn with
    | none => rw [hc] at hlive; cases hlive
    | some c => rfl
  have hcf : W.cancelFut = W := by unfold World.cancelFut; simp [hfut]
  have hR : R = driveEnter pollFuel ({ W with wakes := 0, lastIoStarved := false } : World) .poll := by
    show W.execDirective .poll = _
    simp only [World.execDirective, World.startOp, hconn, Bool.false_eq_true, if_false, hcf]
  rw [show pollFuel = 3999 + 1 from rfl,
    de_live 3999 _ .poll (show ({ W with wakes := 0, lastIoStarved := false } : World).live = true from hlive),
    show (3999 : Nat) = 3996 + 3 from rfl,
    driveLoop_idle 3996 ({ W with wakes := 0, lastIoStarved := false } : World) .poll (by intro h; cases h)
      hwait hslot hto hq hn] at hR
  rw [hR]
  refine ⟨⟨(by intro h; cases h), rfl, hlive, hslot, hwait, hn, hnets⟩, rfl, rfl, rfl, rfl, rfl, rfl⟩

/-! ## Running directive lists; a property that holds at every point of a run -/

/-- Execute a list of directives. -/
def run (ds : List Directive) (W : World) : World := ds.foldl World.execDirective W

theorem run_nil (W : World) : run [] W = W := rfl
theorem run_cons (d : Directive) (ds : List Directive) (W : World) : run (d :: ds) W = run ds (W.execDirective d) := rfl
theorem run_append (a c : List Directive) (W : World) : run (a ++ c) W = run c (run a W) := by
  unfold run; rw [List.foldl_append]

/-- `P` holds before the first directive, between any two, and after the last. -/
def Stays (P : World → Prop) : List Directive → World → Prop
  | [], W => P W
  | d :: ds, W => P W ∧ Stays P ds (W.execDirective d)

theorem Stays.append {P : World → Prop} : ∀ (a c : List Directive) (W : World),
    Stays P a W → Stays P c (run a W) → Stays P (a ++ c) W
  | [], _, _, _, h2 => h2
  | d :: a, c, W, h1, h2 => ⟨h1.1, Stays.append a c (W.execDirective d) h1.2 h2⟩

theorem Stays.last {P : World → Prop} : ∀ (ds : List Directive) (W : World), Stays P ds W → P (run ds W)
  | [], _, h => h
  | d :: ds, W, h => Stays.last ds (W.execDirective d) h.2

theorem Stays.take {P : World → Prop} : ∀ (ds : List Directive) (W : World) (n : Nat),
    Stays P ds W → Stays P (ds.take n) W
  | [], _, n, h => by rw [List.take_nil]; exact h
  | d :: ds, W, 0, h => h.1
  | d :: ds, W, n + 1, h => ⟨h.1, Stays.take ds (W.execDirective d) n h.2⟩

/-- `P` holds after every prefix of the directives. -/
theorem Stays.prefix {P : World → Prop} (ds : List Directive) (W : World) (h : Stays P ds W) (n : Nat) :
    P (run (ds.take n) W) :=
  Stays.last _ _ (Stays.take ds W n h)

theorem Stays.mono {P Q : World → Prop} (hpq : ∀ W, P W → Q W) : ∀ (ds : List Directive) (W : World),
    Stays P ds W → Stays Q ds W
  | [], W, h => hpq W h
  | d :: ds, W, h => ⟨hpq W h.1, Stays.mono hpq ds (W.execDirective d) h.2⟩

/-- `recv()`: the connection is live, the operation is suspended (it has not returned), and the last
result is still `res` (nothing has returned since). -/
def StillWaiting (res : Option (Except Err Unit)) (W : World) : Prop :=
  W.live = true ∧ W.fut.isSome = true ∧ W.lastRes = res

/-- `poll()`: the connection is live and no error has been returned: the last result is still `res` or
it is `Ok`. -/
def Alive (res : Option (Except Err Unit)) (W : World) : Prop :=
  W.live = true ∧ (W.lastRes = res ∨ W.lastRes = some (.ok ()))

/-- What holds at every point of a run of keep-alive rounds. -/
def Good (o : Outer) (res : Option (Except Err Unit)) (W : World) : Prop :=
  match o with
  | .recv => StillWaiting res W
  | _ => Alive res W

/-- How the last result may have changed: not at all (`recv()`), or to `Ok` (`poll()`). -/
def Rel (o : Outer) (res r : Option (Except Err Unit)) : Prop :=
  match o with
  | .recv => r = res
  | _ => r = res ∨ r = some (.ok ())

theorem Good.of_waiting {o : Outer} {res : Option (Except Err Unit)} {W : World} (h : StillWaiting res W) :
    Good o res W := by
  cases o with
  | recv => exact h
  | poll => exact ⟨h.1, Or.inl h.2.2⟩
  | drive => exact ⟨h.1, Or.inl h.2.2⟩

theorem Rel.refl (o : Outer) (res : Option (Except Err Unit)) : Rel o res res := by
  cases o with
  | recv => rfl
  | poll => exact Or.inl rfl
  | drive => exact Or.inl rfl

theorem Rel.of_eq {o : Outer} {res r : Option (Except Err Unit)} (h : r = res) : Rel o res r := h ▸ Rel.refl o r

theorem Rel.trans {o : Outer} {res a c : Option (Except Err Unit)} (h1 : Rel o res a) (h2 : Rel o a c) : Rel o res c := by
  cases o with
  | recv => exact Eq.trans h2 h1
  | poll =>
    rcases h2 with h2 | h2
    · rw [h2]; exact h1
    · exact Or.inr h2
  | drive =>
    rcases h2 with h2 | h2
    · rw [h2]; exact h1
    · exact Or.inr h2

theorem Good.rebase {o : Outer} {res a : Option (Except Err Unit)} (h1 : Rel o res a) (W : World) (h : Good o a W) :
    Good o res W := by
  cases o with
  | recv => have h1' : a = res := h1; rw [← h1']; exact h
  | poll => exact ⟨h.1, Rel.trans (o := .poll) h1 h.2⟩
  | drive => exact ⟨h.1, Rel.trans (o := .drive) h1 h.2⟩

/-- `Good`, spelled out: the connection is live; for `recv()` the operation is still suspended and
nothing has returned; in any case the last result is the old one or `Ok` — no error has been returned. -/
theorem Good.spell {o : Outer} {res : Option (Except Err Unit)} {W : World} (h : Good o res W) :
    W.live = true ∧ (o = .recv → W.fut.isSome = true ∧ W.lastRes = res) ∧
    (W.lastRes = res ∨ W.lastRes = some (.ok ())) := by
  cases o with
  | recv => exact ⟨h.1, fun _ => h.2, Or.inl h.2.2⟩
  | poll => exact ⟨h.1, (fun h' => by cases h'), h.2⟩
  | drive => exact ⟨h.1, (fun h' => by cases h'), h.2⟩

theorem IdleWait.still {W : World} {outer : Outer} (h : IdleWait W outer) : StillWaiting W.lastRes W :=
  ⟨h.live, by rw [h.fut]; rfl, rfl⟩

/-! ## Virtual time of a list of wake-ups -/

/-- The clock after ticks `us`. -/
def elapse : Nat → List Nat → Nat
  | now, [] => now
  | now, u :: us => elapse (now + u) us

/-- Every one of the ticks `us` lands before `d`. -/
def AllBefore (d : Nat) : Nat → List Nat → Prop
  | _, [] => True
  | now, u :: us => now + u < d ∧ AllBefore d (now + u) us

theorem le_elapse : ∀ (us : List Nat) (now : Nat), now ≤ elapse now us
  | [], _ => Nat.le_refl _
  | u :: us, now => Nat.le_trans (Nat.le_add_right now u) (le_elapse us (now + u))

theorem elapse_lt {d : Nat} : ∀ (us : List Nat) (now : Nat), now < d → AllBefore d now us → elapse now us < d
  | [], _, h, _ => h
  | u :: us, now, _, h => elapse_lt us (now + u) h.1 h.2

/-! ## What a stretch of the run did to the outside -/

def pingEntry (net : Nat) : LogEntry := { net := net, tag := .control ControlAction.pingReq, bytes := pingBytes }

/-- Between `W` and `R` exactly `n` PINGREQs went out on the current transport: the other transports
are untouched, the wire grew by `n` times `C0 00`, the transmission log by `n` PINGREQ entries; the
session's data (queues, arena, packet identifiers) is the same. -/
structure Sent (W R : World) (n : Nat) : Prop where
  others : R.nets.dropLast = W.nets.dropLast
  len : R.nets.length = W.nets.length
  wire : R.curNet.wire = W.curNet.wire ++ (List.replicate n pingBytes).flatten
  log : R.log = W.log ++ List.replicate n (pingEntry W.nets.length)
  data : R.sess.data = W.sess.data

theorem Sent.refl (W : World) : Sent W W 0 := ⟨rfl, rfl, by simp, by simp, rfl⟩

theorem Sent.same {W R : World} (hn : R.nets = W.nets) (hl : R.log = W.log) (hs : R.sess = W.sess) : Sent W R 0 :=
  ⟨by rw [hn], by rw [hn], by unfold World.curNet; rw [hn]; simp, by rw [hl]; simp, by rw [hs]⟩

theorem Sent.trans {W X R : World} {n m : Nat} (h1 : Sent W X n) (h2 : Sent X R m) : Sent W R (n + m) := by
  refine ⟨h2.others.trans h1.others, h2.len.trans h1.len, ?_, ?_, ?_⟩
  · rw [h2.wire, h1.wire, ← List.replicate_append_replicate, List.flatten_append, List.append_assoc]
  · rw [h2.log, h1.log, h1.len, ← List.replicate_append_replicate, List.append_assoc]
  · exact h2.data.trans h1.data

theorem length_of_dropLast {a c : List Net} (h : a.dropLast = c.dropLast) (ha : a ≠ []) (hc : c ≠ []) :
    a.length = c.length := by
  have h1 := congrArg List.length h
  simp only [List.length_dropLast] at h1
  have := List.length_pos_iff.mpr ha
  have := List.length_pos_iff.mpr hc
  omega

/-- A leg of the run: the directives `ds` from `W` send exactly `n` PINGREQs and nothing else, the last
result changes at most as `Rel` allows, and `Good` holds at every point. -/
structure Leg (o : Outer) (ds : List Directive) (W : World) (n : Nat) : Prop where
  sent : Sent W (run ds W) n
  res : Rel o W.lastRes (run ds W).lastRes
  stays : Stays (Good o W.lastRes) ds W

theorem Leg.trans {o : Outer} {a c : List Directive} {W : World} {n m : Nat}
    (h1 : Leg o a W n) (h2 : Leg o c (run a W) m) : Leg o (a ++ c) W (n + m) := by
  refine ⟨?_, ?_, ?_⟩
  · rw [run_append]; exact h1.sent.trans h2.sent
  · rw [run_append]; exact h1.res.trans h2.res
  · exact Stays.append a c W h1.stays (Stays.mono (Good.rebase h1.res) c _ h2.stays)

theorem Leg.nil (o : Outer) {W : World} (h : Good o W.lastRes W) : Leg o [] W 0 :=
  ⟨Sent.refl W, Rel.refl o _, h⟩

/-! ## The two states a round alternates between -/

/-- What `IdleWait` says apart from the suspension itself. -/
structure QuietW (W : World) : Prop where
  live : W.live = true
  slot : W.slot = none
  waiting : Waiting W.sess.reader W.curNet.rx
  idle : W.sess.data.outbound.nextStep = none
  nets : W.nets ≠ []

theorem IdleWait.quiet {W : World} {o : Outer} (h : IdleWait W o) : QuietW W :=
  ⟨h.live, h.slot, h.waiting, h.idle, h.nets⟩

theorem QuietW.idleWait {W : World} {o : Outer} (h : QuietW W) (ho : o ≠ .drive)
    (hf : W.fut = some (.waitRead o W.sess.rt.nextDeadline true)) : IdleWait W o :=
  ⟨ho, hf, h.live, h.slot, h.waiting, h.idle, h.nets⟩

/-- The session and transport side of `Armed`: nothing is queued, no ping timeout is running, a PINGREQ
fits the broker's Maximum Packet Size, the effective keep-alive is `ka` ms, the PINGREQ timer is armed
from `t0`, the reader is at a packet boundary with room for a PINGRESP, the transport has nothing to
deliver. -/
structure ArmedS (W : World) (ka t0 : Nat) : Prop where
  ctl : W.sess.data.outbound.control = []
  noTimeout : W.sess.rt.pingTimeout = none
  fits : W.sess.rt.packetTooLarge 2 = false
  ka : W.sess.rt.keepaliveMs = ka
  armed : W.sess.rt.nextPing = W.sess.rt.keepaliveSendInterval.map (fun i => t0 + i * 1000)
  reader : W.sess.reader.data = [] ∧ W.sess.reader.packetLength = none ∧ 2 ≤ W.sess.reader.cap
  rx : W.curNet.rx = []

/-- The state a round starts from and ends in: the application waits in `poll()`/`recv()` after a full
service pass (`IdleWait`), and `ArmedS`: the PINGREQ timer is armed from `t0`, the completion time of the
previous client packet. -/
structure Armed (W : World) (outer : Outer) (ka t0 : Nat) : Prop extends ArmedS W ka t0 where
  idle : IdleWait W outer

/-- The session and transport side of `Pinged`: as `ArmedS`, but the ping timeout `t + 5 s` is running
and has not been reached, and the timer is armed from `t`. -/
structure PingedS (W : World) (ka t : Nat) : Prop where
  ctl : W.sess.data.outbound.control = []
  timeout : W.sess.rt.pingTimeout = some (t + ROUND_TRIP_TIMEOUT_MS * 1000)
  fresh : W.now < t + ROUND_TRIP_TIMEOUT_MS * 1000
  fits : W.sess.rt.packetTooLarge 2 = false
  ka : W.sess.rt.keepaliveMs = ka
  armed : W.sess.rt.nextPing = W.sess.rt.keepaliveSendInterval.map (fun i => t + i * 1000)
  reader : W.sess.reader.data = [] ∧ W.sess.reader.packetLength = none ∧ 2 ≤ W.sess.reader.cap
  rx : W.curNet.rx = []

/-- The state between the PINGREQ completed at `t` and its PINGRESP: the application waits, and
`PingedS`. -/
structure Pinged (W : World) (outer : Outer) (ka t : Nat) : Prop extends PingedS W ka t where
  idle : IdleWait W outer

/-- Above the F12 boundary the PINGREQ interval is the keep-alive minus the round-trip bound. -/
theorem interval_of_ka (r : Runtime) (hka : 2 * ROUND_TRIP_TIMEOUT_MS ≤ r.keepaliveMs) :
    r.keepaliveSendInterval = some (r.keepaliveMs - ROUND_TRIP_TIMEOUT_MS) := by
  have hka0 : r.keepaliveMs ≠ 0 := by rw [RT_val] at hka; omega
  rw [keepaliveSendInterval_of_pos _ hka0]
  have hmin : min ROUND_TRIP_TIMEOUT_MS (r.keepaliveMs / 2) = ROUND_TRIP_TIMEOUT_MS :=
    Nat.min_eq_left (by rw [RT_val] at hka ⊢; omega)
  rw [hmin]

theorem ArmedS.nextPing {W : World} {ka t0 : Nat} (h : ArmedS W ka t0)
    (hka : 2 * ROUND_TRIP_TIMEOUT_MS ≤ ka) :
    W.sess.rt.nextPing = some (t0 + (ka - ROUND_TRIP_TIMEOUT_MS) * 1000) := by
  rw [h.armed, interval_of_ka _ (by rw [h.ka]; exact hka), h.ka]; rfl

theorem ArmedS.deadline {W : World} {ka t0 : Nat} (h : ArmedS W ka t0)
    (hka : 2 * ROUND_TRIP_TIMEOUT_MS ≤ ka) :
    W.sess.rt.nextDeadline = some (t0 + (ka - ROUND_TRIP_TIMEOUT_MS) * 1000) := by
  rw [NoSpin.nextDeadline_no_timeout _ h.noTimeout, h.nextPing hka]

theorem PingedS.nextPing {W : World} {ka t : Nat} (h : PingedS W ka t)
    (hka : 2 * ROUND_TRIP_TIMEOUT_MS ≤ ka) :
    W.sess.rt.nextPing = some (t + (ka - ROUND_TRIP_TIMEOUT_MS) * 1000) := by
  rw [h.armed, interval_of_ka _ (by rw [h.ka]; exact hka), h.ka]; rfl

theorem PingedS.deadline {W : World} {ka t : Nat} (h : PingedS W ka t) :
    W.sess.rt.nextDeadline = some (t + ROUND_TRIP_TIMEOUT_MS * 1000) :=
  NoSpin.nextDeadline_of_timeout _ _ h.timeout

theorem Armed.nextPing {W : World} {outer : Outer} {ka t0 : Nat} (h : Armed W outer ka t0)
    (hka : 2 * ROUND_TRIP_TIMEOUT_MS ≤ ka) :
    W.sess.rt.nextPing = some (t0 + (ka - ROUND_TRIP_TIMEOUT_MS) * 1000) := h.toArmedS.nextPing hka

theorem Pinged.nextPing {W : World} {outer : Outer} {ka t : Nat} (h : Pinged W outer ka t)
    (hka : 2 * ROUND_TRIP_TIMEOUT_MS ≤ ka) :
    W.sess.rt.nextPing = some (t + (ka - ROUND_TRIP_TIMEOUT_MS) * 1000) := h.toPingedS.nextPing hka

/-! ## Wake-ups before the deadline of the wait -/

/-- Any number of ticks that all stay before the deadline `d` of the wait: the session, the transports,
the handle, the log and the last result are untouched, the operation stays suspended in the same read
after every one of them, the clock has advanced by their sum. -/
theorem early_ticks (outer : Outer) (d : Nat) : ∀ (us : List Nat) (W : World), IdleWait W outer →
    W.sess.rt.nextDeadline = some d → AllBefore d W.now us → elapse W.now us ≤ 4611686018427387904 →
    let R := run (us.map Directive.tick) W
    IdleWait R outer ∧ R.sess = W.sess ∧ R.nets = W.nets ∧ R.conn = W.conn ∧ R.now = elapse W.now us ∧
    R.lastRes = W.lastRes ∧ R.log = W.log ∧ Stays (StillWaiting W.lastRes) (us.map Directive.tick) W
  | [], W, hI, _, _, _ => ⟨hI, rfl, rfl, rfl, rfl, rfl, rfl, hI.still⟩
  | u :: us, W, hI, hdl, hbef, hb => by
    intro R
    have hb1 : W.now + u ≤ 4611686018427387904 := Nat.le_trans (le_elapse us (W.now + u)) hb
    obtain ⟨a1, a2, a3, a4, a5, a6, a7, a8⟩ :=
      tick_waits_fields W outer (some d) true u (by rw [hI.fut, hdl]) hI.slot hI.waiting hb1 hbef.1
    have hI1 : IdleWait (W.execDirective (.tick u)) outer := by
      refine ⟨hI.outer_ne, ?_, ?_, a6, ?_, ?_, ?_⟩
      · rw [a1, a2, hdl]
      · unfold World.live; rw [a4]; exact hI.live
      · have : (W.execDirective (.tick u)).curNet = W.curNet := by unfold World.curNet; rw [a3]
        rw [a2, this]; exact hI.waiting
      · rw [a2]; exact hI.idle
      · rw [a3]; exact hI.nets
    obtain ⟨c1, c2, c3, c4, c5, c6, c7, c8⟩ :=
      early_ticks outer d us (W.execDirective (.tick u)) hI1 (by rw [a2]; exact hdl) (by rw [a5]; exact hbef.2)
        (by rw [a5]; exact hb)
    rw [a7] at c8
    exact ⟨c1, c2.trans a2, c3.trans a3, c4.trans a4, by show _ = elapse (W.now + u) us; rw [← a5]; exact c5,
      c6.trans a7, c7.trans a8, hI.still, c8⟩

/-- The same as a leg of the run. -/
theorem early_leg (outer : Outer) (d : Nat) (us : List Nat) (W : World) (hI : IdleWait W outer)
    (hdl : W.sess.rt.nextDeadline = some d) (hbef : AllBefore d W.now us)
    (hb : elapse W.now us ≤ 4611686018427387904) :
    let R := run (us.map Directive.tick) W
    IdleWait R outer ∧ R.sess = W.sess ∧ R.curNet = W.curNet ∧ R.now = elapse W.now us ∧
    Leg outer (us.map Directive.tick) W 0 := by
  intro R
  obtain ⟨c1, c2, c3, _, c5, c6, c7, c8⟩ := early_ticks outer d us W hI hdl hbef hb
  have hcur : R.curNet = W.curNet := by unfold World.curNet; rw [c3]
  exact ⟨c1, c2, hcur, c5, Sent.same c3 c7 c2, Rel.of_eq c6, Stays.mono (fun _ h => Good.of_waiting h) _ _ c8⟩

/-- Early wake-ups keep `Armed`. -/
theorem Armed.early {W : World} {outer : Outer} {ka t0 : Nat} (h : Armed W outer ka t0)
    (hka : 2 * ROUND_TRIP_TIMEOUT_MS ≤ ka) (us : List Nat)
    (hbef : AllBefore (t0 + (ka - ROUND_TRIP_TIMEOUT_MS) * 1000) W.now us)
    (hb : elapse W.now us ≤ 4611686018427387904) :
    let R := run (us.map Directive.tick) W
    Armed R outer ka t0 ∧ R.now = elapse W.now us ∧ Leg outer (us.map Directive.tick) W 0 := by
  intro R
  obtain ⟨c1, c2, c3, c4, c5⟩ := early_leg outer _ us W h.idle (h.toArmedS.deadline hka) hbef hb
  refine ⟨⟨⟨?_, ?_, ?_, ?_, ?_, ?_, ?_⟩, c1⟩, c4, c5⟩
  · rw [c2]; exact h.ctl
  · rw [c2]; exact h.noTimeout
  · rw [c2]; exact h.fits
  · rw [c2]; exact h.ka
  · rw [c2]; exact h.armed
  · rw [c2]; exact h.reader
  · rw [c3]; exact h.rx

/-- Early wake-ups keep `Pinged`. -/
theorem Pinged.early {W : World} {outer : Outer} {ka t : Nat} (h : Pinged W outer ka t) (us : List Nat)
    (hbef : AllBefore (t + ROUND_TRIP_TIMEOUT_MS * 1000) W.now us)
    (hb : elapse W.now us ≤ 4611686018427387904) :
    let R := run (us.map Directive.tick) W
    Pinged R outer ka t ∧ R.now = elapse W.now us ∧ Leg outer (us.map Directive.tick) W 0 := by
  intro R
  obtain ⟨c1, c2, c3, c4, c5⟩ := early_leg outer _ us W h.idle h.toPingedS.deadline hbef hb
  refine ⟨⟨⟨?_, ?_, ?_, ?_, ?_, ?_, ?_, ?_⟩, c1⟩, c4, c5⟩
  · rw [c2]; exact h.ctl
  · rw [c2]; exact h.timeout
  · rw [c4]; exact elapse_lt us W.now h.fresh hbef
  · rw [c2]; exact h.fits
  · rw [c2]; exact h.ka
  · rw [c2]; exact h.armed
  · rw [c2]; exact h.reader
  · rw [c3]; exact h.rx

/-! ## Going on after a PINGREQ or a PINGRESP -/

/-- The directive with which the application goes on waiting: none for `recv()`, which has not returned;
`poll` for `poll()`, which has returned `Ok(None)`. -/
def again : Outer → List Directive
  | .poll => [Directive.poll]
  | _ => []

theorem lastRes_ok {r : Option (Except Err Unit)}
    (h : match r with | some (.ok ()) => True | _ => False) : r = some (.ok ()) := by
  match r, h with
  | some (.ok ()), _ => rfl

/-- After the PINGREQ has been flushed, or the PINGRESP handled, in a state where a service pass has
nothing to do: `recv()` is suspended in `wait_for_progress` already; `poll()` has returned `Ok(None)` and
is called again, and is then suspended there as well. Nothing else changes. -/
theorem resume (o : Outer) (ho : o = .recv ∨ o = .poll) (X : World) (res : Option (Except Err Unit)) (hq : QuietW X)
    (hto : ∀ t, X.sess.rt.pingTimeout = some t → X.now < t) (hqp : X.sess.queuePing X.now = .ok X.sess)
    (hr : o = .recv → X.fut = some (.waitRead .recv X.sess.rt.nextDeadline true) ∧ X.lastRes = res)
    (hp : o = .poll → X.fut = none ∧ X.lastRes = some (.ok ())) :
    let R := run (again o) X
    IdleWait R o ∧ R.sess = X.sess ∧ R.nets = X.nets ∧ R.now = X.now ∧ R.log = X.log ∧
    Rel o res R.lastRes ∧ Stays (Good o res) (again o) X := by
  intro R
  rcases ho with rfl | rfl
  · obtain ⟨hf, hl⟩ := hr rfl
    have hI : IdleWait X .recv := hq.idleWait (by intro h; cases h) hf
    exact ⟨hI, rfl, rfl, rfl, rfl, hl, hq.live, by rw [hf]; rfl, hl⟩
  · obtain ⟨hf, hl⟩ := hp rfl
    obtain ⟨p1, p2, p3, p4, p5, p6, p7⟩ := poll_again X hf hq.live hq.slot hq.waiting hq.idle hq.nets hto hqp
    have hR : R = X.execDirective .poll := rfl
    rw [← hR] at p1 p2 p3 p4 p5 p6 p7
    refine ⟨p1, p2, p3, p5, p7, Or.inr (p6.trans hl), ⟨hq.live, Or.inr hl⟩, p1.live, Or.inr (p6.trans hl)⟩

/-! ## The two halves of a round -/

theorem completeFlush_ping_other (s : Session) (t : Nat) :
    (s.completeFlush (.control ControlAction.pingReq) t).rt.maximumPacketSize = s.rt.maximumPacketSize ∧
    (s.completeFlush (.control ControlAction.pingReq) t).rt.keepaliveSendInterval = s.rt.keepaliveSendInterval :=
  ⟨rfl, rfl⟩

/-- **The PINGREQ half.** From `Armed`, the tick that reaches the PINGREQ time, the write decision and
the flush decision (and, for `poll()`, the next call) lead to `Pinged` at the time `t` of the tick; one
`C0 00` went out; `recv()` has not returned at any point, `poll()` has returned `Ok(None)`. -/
theorem Armed.send {W : World} {o : Outer} {ka t0 : Nat} (ho : o = .recv ∨ o = .poll) (h : Armed W o ka t0)
    (hka : 2 * ROUND_TRIP_TIMEOUT_MS ≤ ka) (us k1 k2 : Nat)
    (hb : W.now + us ≤ 4611686018427387904)
    (hdue : t0 + (ka - ROUND_TRIP_TIMEOUT_MS) * 1000 ≤ W.now + us)
    (hk1 : 2 ≤ k1 ∧ k1 ≤ 250) (hk2 : k2 ≤ 250) :
    let R := run ([Directive.tick us, .d k1, .d k2] ++ again o) W
    Pinged R o ka (W.now + us) ∧ R.now = W.now + us ∧ Leg o ([Directive.tick us, .d k1, .d k2] ++ again o) W 1 := by
  intro R
  have hI := h.idle
  obtain ⟨⟨a1, _, a3, _, _⟩, ⟨b1, b2, b3⟩, c1, c2, c3, c4, c5, c6, c7, c8, c9, c10⟩ :=
    pingreq_cycle W o hI h.ctl h.noTimeout _ (h.nextPing hka) h.fits us hb hdue k1 k2 hk1 hk2
  obtain ⟨⟨m1, m2⟩, ⟨m3, m4⟩, m5, m6, m7, m8⟩ :=
    pingreq_cycle_more W o hI h.ctl h.noTimeout _ (h.nextPing hka) h.fits us hb hdue k1 k2 hk1 hk2
  -- the world after the flush decision
  obtain ⟨X, hX⟩ : ∃ X, X = ((W.execDirective (.tick us)).execDirective (.d k1)).execDirective (.d k2) := ⟨_, rfl⟩
  rw [← hX] at c1 c2 c3 c4 c5 c6 c7 c8 c9 c10 m5 m6 m7 m8
  have hnets : X.nets = W.nets.dropLast ++ [{ W.curNet with wire := W.curNet.wire ++ pingBytes }] := c1.trans b2
  have hcur : X.curNet = { W.curNet with wire := W.curNet.wire ++ pingBytes } := curNet_of_nets hnets
  have hlen : X.nets.length = W.nets.length := by
    rw [hnets]
    have := List.length_pos_iff.mpr hI.nets
    simp; omega
  have hdlX : X.sess.rt.nextDeadline = some (W.now + us + ROUND_TRIP_TIMEOUT_MS * 1000) :=
    NoSpin.nextDeadline_of_timeout _ _ c5
  obtain ⟨f1, f2⟩ := completeFlush_ping_other (W.sess.withPing.setWritten (.control ControlAction.pingReq) 2 2) (W.now + us)
  have hQ : QuietW X := by
    refine ⟨c4, m6, ?_, ?_, ?_⟩
    · rw [c8, hcur]; exact hI.waiting
    · rw [c7]; exact hI.idle
    · rw [hnets]; simp
  have hS : PingedS X ka (W.now + us) := by
    refine ⟨?_, c5, ?_, ?_, ?_, ?_, ?_, ?_⟩
    · rw [c7]; exact h.ctl
    · rw [c3, RT_val]; omega
    · have : X.sess.rt.maximumPacketSize = W.sess.rt.maximumPacketSize := by rw [m7]; exact f1
      unfold Runtime.packetTooLarge; rw [this]; exact h.fits
    · rw [m7]; exact h.ka
    · rw [c6]
      have : X.sess.rt.keepaliveSendInterval = W.sess.rt.keepaliveSendInterval := by rw [m7]; exact f2
      rw [this]
    · rw [c8]; exact h.reader
    · rw [hcur]; exact h.rx
  have hSent : Sent W X 1 := by
    refine ⟨?_, hlen, ?_, ?_, c7⟩
    · rw [hnets]; simp
    · rw [hcur]; simp
    · rw [c2, b3]; rfl
  -- going on
  obtain ⟨g1, g2, g3, g4, g5, g6, g7⟩ := resume o ho X W.lastRes hQ
    (by intro t' ht'; rw [c5] at ht'; have := Option.some.inj ht'; rw [c3, RT_val] at *; omega)
    (queuePing_while_waiting _ _ _ c5)
    (by intro ho'; subst ho'; exact ⟨by rw [hdlX]; exact c10 rfl, m8 rfl⟩)
    (by intro ho'; subst ho'; exact ⟨(c9 rfl).1, lastRes_ok (c9 rfl).2⟩)
  have hR : R = run (again o) X := by rw [hX]; rfl
  rw [← hR] at g1 g2 g3 g4 g5 g6
  have hRcur : R.curNet = X.curNet := by unfold World.curNet; rw [g3]
  refine ⟨⟨⟨?_, ?_, ?_, ?_, ?_, ?_, ?_, ?_⟩, g1⟩, g4.trans c3, ⟨?_, g6, ?_⟩⟩
  · rw [g2]; exact hS.ctl
  · rw [g2]; exact hS.timeout
  · rw [g4]; exact hS.fresh
  · rw [g2]; exact hS.fits
  · rw [g2]; exact hS.ka
  · rw [g2]; exact hS.armed
  · rw [g2]; exact hS.reader
  · rw [hRcur]; exact hS.rx
  · exact hSent.trans (Sent.same g3 g5 g2)
  · refine ⟨Good.of_waiting hI.still, Good.of_waiting ⟨?_, ?_, m2⟩, Good.of_waiting ⟨?_, ?_, m4⟩, ?_⟩
    · unfold World.live; rw [m1]; exact hI.live
    · rw [a1]; rfl
    · unfold World.live; rw [m3]; exact hI.live
    · rw [b1]; rfl
    · rw [← hX]; exact g7

/-- **The PINGRESP half.** From `Pinged` (so before the timeout), the PINGRESP `D0 00` arrives and two
read decisions deliver it (the reader asks for one byte, then for the second; for `poll()` the next call
follows): the state is `Armed` from `t` again, at the same virtual time; nothing went out; `recv()` has
not returned at any point, `poll()` has returned `Ok(None)`. -/
theorem Pinged.answer {W : World} {o : Outer} {ka t : Nat} (ho : o = .recv ∨ o = .poll) (h : Pinged W o ka t)
    (hka : 2 * ROUND_TRIP_TIMEOUT_MS ≤ ka) (r1 r2 : Nat)
    (h1 : 1 ≤ r1 ∧ r1 ≤ 250) (h2 : 1 ≤ r2 ∧ r2 ≤ 250) :
    let R := run ([Directive.rx pingRespBytes, .d r1, .d r2] ++ again o) W
    Armed R o ka t ∧ R.now = W.now ∧ Leg o ([Directive.rx pingRespBytes, .d r1, .d r2] ++ again o) W 0 := by
  intro R
  have hI := h.idle
  have hltnp : W.now < t + (ka - ROUND_TRIP_TIMEOUT_MS) * 1000 := by
    have hf : W.now < t + ROUND_TRIP_TIMEOUT_MS * 1000 := h.fresh
    have h5 : ROUND_TRIP_TIMEOUT_MS * 1000 ≤ (ka - ROUND_TRIP_TIMEOUT_MS) * 1000 :=
      Nat.mul_le_mul_right 1000 (by rw [RT_val] at hka ⊢; omega)
    exact Nat.lt_of_lt_of_le hf (Nat.add_le_add_left h5 t)
  have hnp : ∀ np, W.sess.rt.nextPing = some np → W.now < np := by
    intro np hnp
    rw [h.nextPing hka] at hnp
    have hnp := Option.some.inj hnp
    rw [← hnp]; exact hltnp
  obtain ⟨⟨x1, x2, x3⟩, ⟨y1, y2, y3⟩, hRP, hs, hc, hslot, hne, hres⟩ :=
    pingresp_more W o hI _ h.timeout h.fresh h.reader h.rx hnp r1 r2 h1 h2
  obtain ⟨X, hX⟩ : ∃ X, X = ((W.execDirective (.rx pingRespBytes)).execDirective (.d r1)).execDirective (.d r2) := ⟨_, rfl⟩
  rw [← hX] at hRP hs hc hslot hne hres
  obtain ⟨p1, p2, p3, p4, p5, p6, p7, p8, p9, p10, p11, p12⟩ :=
    pingresp_in_time W o hI _ h.timeout h.fresh h.reader h.rx hnp [r1, r2]
      (by intro k hk; simp only [List.mem_cons, List.not_mem_nil, or_false] at hk; rcases hk with rfl | rfl; exact h1; exact h2)
      (Nat.le_refl 2)
  rw [← hRP] at p1 p2 p3 p4 p5 p6 p7 p8 p9 p10 p11 p12
  obtain ⟨f1, f2, f3, f4⟩ := afterPingResp_fields W.sess
  have hrd : X.sess.reader.data = [] ∧ X.sess.reader.packetLength = none ∧ 2 ≤ X.sess.reader.cap := by
    rw [hs, f3]; exact ⟨rfl, rfl, h.reader.2.2⟩
  have hQ : QuietW X := by
    refine ⟨p5, hslot, Waiting_fresh _ _ hrd.1 hrd.2.1 (by omega), ?_, hne⟩
    rw [p4]; exact hI.idle
  have hS : ArmedS X ka t := by
    refine ⟨?_, p1, ?_, ?_, ?_, hrd, p9⟩
    · rw [p4]; exact h.ctl
    · rw [hs, f1]; exact h.fits
    · rw [p3]; exact h.ka
    · rw [p2, h.armed, hs, f1]; rfl
  have hSent : Sent W X 0 :=
    ⟨p7, length_of_dropLast p7 hne hI.nets, by rw [p8]; simp, by rw [p10]; simp, p4⟩
  obtain ⟨g1, g2, g3, g4, g5, g6, g7⟩ := resume o ho X W.lastRes hQ
    (by intro t' ht'; rw [p1] at ht'; cases ht')
    (queuePing_early _ _ _ (by rw [p2]; exact h.nextPing hka) (by rw [p6]; exact hltnp))
    (by intro ho'; subst ho'; exact ⟨(p12 rfl).fut, hres rfl⟩)
    (by intro ho'; subst ho'; exact ⟨(p11 rfl).1, lastRes_ok (p11 rfl).2⟩)
  have hR : R = run (again o) X := by rw [hX]; rfl
  rw [← hR] at g1 g2 g3 g4 g5 g6
  have hRcur : R.curNet = X.curNet := by unfold World.curNet; rw [g3]
  refine ⟨⟨⟨?_, ?_, ?_, ?_, ?_, ?_, ?_⟩, g1⟩, g4.trans p6, ⟨?_, g6, ?_⟩⟩
  · rw [g2]; exact hS.ctl
  · rw [g2]; exact hS.noTimeout
  · rw [g2]; exact hS.fits
  · rw [g2]; exact hS.ka
  · rw [g2]; exact hS.armed
  · rw [g2]; exact hS.reader
  · rw [hRcur]; exact hS.rx
  · exact hSent.trans (Sent.same g3 g5 g2)
  · refine ⟨Good.of_waiting hI.still, Good.of_waiting ⟨?_, ?_, x3⟩, Good.of_waiting ⟨?_, y2, y3⟩, ?_⟩
    · unfold World.live; rw [x1]; exact hI.live
    · rw [x2, hI.fut]; rfl
    · unfold World.live; rw [y1]; exact hI.live
    · rw [← hX]; exact g7

/-- **No PINGRESP.** From `Pinged` at `t`, a tick to `t + 5 s` or later ends the wait with
`Disconnected`; nothing is written. -/
theorem Pinged.dead {W : World} {outer : Outer} {ka t : Nat} (h : Pinged W outer ka t) (u : Nat)
    (hb : W.now + u ≤ 4611686018427387904) (hd : t + ROUND_TRIP_TIMEOUT_MS * 1000 ≤ W.now + u) :
    let D := W.execDirective (.tick u)
    D.fut = none ∧ D.lastRes = some (.error .disconnected) ∧ D.live = false ∧ D.sess = W.sess.handleDisconnect ∧
    D.nets = W.nets ∧ D.log = W.log :=
  tick_timeout W outer h.idle _ h.timeout u hb hd


/-! ## A schedule of rounds -/

/-- One keep-alive round of an application waiting in `recv()` or calling `poll()` in a loop:
* `early`: delays (µs) of wake-ups that come before the PINGREQ time (any number);
* `us`: delay of the tick that wakes the client at or after the PINGREQ time;
* `k1`, `k2`: the transport's write decision (at least the two bytes) and flush decision;
* `wait`: delays of wake-ups while the PINGRESP is outstanding (any number, all before the ping
  timeout) — the PINGRESP arrives at the time of the last of them;
* `r1`, `r2`: the read decisions that deliver the two bytes of the PINGRESP. -/
structure Round where
  early : List Nat
  us : Nat
  k1 : Nat
  k2 : Nat
  wait : List Nat
  r1 : Nat
  r2 : Nat
  deriving Repr

/-- The directives up to the completion of the PINGREQ (for `poll()`: and the next call of `poll()`,
which has returned `Ok(None)`). -/
def Round.sendDirs (r : Round) (o : Outer) : List Directive :=
  r.early.map Directive.tick ++ ([Directive.tick r.us, .d r.k1, .d r.k2] ++ again o)

/-- The directives from there to the delivery of the PINGRESP (for `poll()`: and the next call). -/
def Round.recvDirs (r : Round) (o : Outer) : List Directive :=
  r.wait.map Directive.tick ++ ([Directive.rx pingRespBytes, .d r.r1, .d r.r2] ++ again o)

def Round.dirs (r : Round) (o : Outer) : List Directive := r.sendDirs o ++ r.recvDirs o

/-- The program of a schedule. -/
def schedule (o : Outer) : List Round → List Directive
  | [] => []
  | r :: rs => r.dirs o ++ schedule o rs

/-- Run a schedule of rounds: its directives, executed with `World.execDirective`. -/
def runRounds (o : Outer) (rs : List Round) (W : World) : World := run (schedule o rs) W

/-- Virtual time at which the round's PINGREQ is completed, if the round starts at `now`. -/
def Round.sentAt (r : Round) (now : Nat) : Nat := elapse now r.early + r.us

/-- Virtual time at which the round ends (the PINGRESP is delivered). -/
def Round.endAt (r : Round) (now : Nat) : Nat := elapse (r.sentAt now) r.wait

/-- The completion times of the PINGREQs of a schedule started at `now`. -/
def pingTimes : List Round → Nat → List Nat
  | [], _ => []
  | r :: rs, now => r.sentAt now :: pingTimes rs (r.endAt now)

/-- The completion time of the last client packet: the last PINGREQ, or `t0` if there was no round. -/
def lastPing (t0 : Nat) : List Round → Nat → Nat
  | [], _ => t0
  | r :: rs, now => lastPing (r.sentAt now) rs (r.endAt now)

/-- Virtual time at the end of the schedule. -/
def endTime : List Round → Nat → Nat
  | [], now => now
  | r :: rs, now => endTime rs (r.endAt now)

/-- The timing hypotheses of the PINGREQ half of a round that starts at `now` with the timer armed from
`t0`, keep-alive `ka` ms: the early wake-ups are before the PINGREQ time `t0 + (ka − 5000) ms`; the waking
tick is at or after it and not later than the end of the keep-alive period `t0 + ka ms`; the write
decision takes both bytes; the wake-ups while the PINGRESP is outstanding are all before the ping
timeout `sentAt + 5 s`. -/
structure Round.SentOK (r : Round) (ka t0 now : Nat) : Prop where
  early : AllBefore (t0 + (ka - ROUND_TRIP_TIMEOUT_MS) * 1000) now r.early
  due : t0 + (ka - ROUND_TRIP_TIMEOUT_MS) * 1000 ≤ r.sentAt now
  prompt : r.sentAt now ≤ t0 + ka * 1000
  k1 : 2 ≤ r.k1 ∧ r.k1 ≤ 250
  k2 : r.k2 ≤ 250
  wait : AllBefore (r.sentAt now + ROUND_TRIP_TIMEOUT_MS * 1000) (r.sentAt now) r.wait

/-- The hypotheses of a whole round: those of the PINGREQ half, and the PINGRESP arrives at the time of
the last wake-up in `wait` (so before the timeout) and is delivered by two real read decisions. -/
structure Round.OK (r : Round) (ka t0 now : Nat) : Prop extends r.SentOK ka t0 now where
  r1 : 1 ≤ r.r1 ∧ r.r1 ≤ 250
  r2 : 1 ≤ r.r2 ∧ r.r2 ≤ 250

/-- Every round of the schedule satisfies its timing hypotheses, each relative to the completion time
of the PINGREQ of the round before it (`t0` for the first). -/
def SchedOK (ka : Nat) : Nat → Nat → List Round → Prop
  | _, _, [] => True
  | t0, now, r :: rs => r.OK ka t0 now ∧ SchedOK ka (r.sentAt now) (r.endAt now) rs

theorem schedule_append (o : Outer) : ∀ (a c : List Round), schedule o (a ++ c) = schedule o a ++ schedule o c
  | [], _ => rfl
  | r :: a, c => by
    show r.dirs o ++ schedule o (a ++ c) = (r.dirs o ++ schedule o a) ++ schedule o c
    rw [schedule_append o a c, List.append_assoc]

theorem runRounds_append (o : Outer) (a c : List Round) (W : World) :
    runRounds o (a ++ c) W = runRounds o c (runRounds o a W) := by
  unfold runRounds; rw [schedule_append, run_append]

theorem runRounds_cons (o : Outer) (r : Round) (rs : List Round) (W : World) :
    runRounds o (r :: rs) W = runRounds o rs (run (r.recvDirs o) (run (r.sendDirs o) W)) := by
  show run (r.dirs o ++ schedule o rs) W = _
  rw [run_append]; unfold Round.dirs; rw [run_append]; rfl

theorem endTime_append : ∀ (a c : List Round) (now : Nat), endTime (a ++ c) now = endTime c (endTime a now)
  | [], _, _ => rfl
  | r :: a, c, now => endTime_append a c (r.endAt now)

theorem lastPing_append : ∀ (a c : List Round) (t0 now : Nat),
    lastPing t0 (a ++ c) now = lastPing (lastPing t0 a now) c (endTime a now)
  | [], _, _, _ => rfl
  | r :: a, c, _, now => lastPing_append a c (r.sentAt now) (r.endAt now)

theorem SchedOK_append (ka : Nat) : ∀ (a c : List Round) (t0 now : Nat),
    SchedOK ka t0 now (a ++ c) ↔ SchedOK ka t0 now a ∧ SchedOK ka (lastPing t0 a now) (endTime a now) c
  | [], _, _, _ => by simp [SchedOK, lastPing, endTime]
  | r :: a, c, t0, now => by
    show (_ ∧ SchedOK ka _ _ (a ++ c)) ↔ (_ ∧ _) ∧ _
    rw [SchedOK_append ka a c]
    exact ⟨fun ⟨h1, h2, h3⟩ => ⟨⟨h1, h2⟩, h3⟩, fun ⟨⟨h1, h2⟩, h3⟩ => ⟨h1, h2, h3⟩⟩

theorem Round.sentAt_le_endAt (r : Round) (now : Nat) : r.sentAt now ≤ r.endAt now := le_elapse _ _

theorem Round.le_sentAt (r : Round) (now : Nat) : now ≤ r.sentAt now :=
  Nat.le_trans (le_elapse r.early now) (Nat.le_add_right _ _)

theorem le_endTime : ∀ (rs : List Round) (now : Nat), now ≤ endTime rs now
  | [], _ => Nat.le_refl _
  | r :: rs, now => Nat.le_trans (Nat.le_trans (r.le_sentAt now) (r.sentAt_le_endAt now)) (le_endTime rs _)

/-! ## One round, and the induction over the schedule -/

/-- **The PINGREQ half of a round and the wait for the answer.** From `Armed` (timer armed from `t0`):
after `sendDirs` the state is `Pinged` at `sentAt` and the clock reads `sentAt`; after the wake-ups of
`wait` it is still `Pinged`, before the timeout; exactly one `C0 00` went out; `recv()` never returned
(`poll()` never returned an error). -/
theorem round_sends {o : Outer} (ho : o = .recv ∨ o = .poll) {ka : Nat} (hka : 2 * ROUND_TRIP_TIMEOUT_MS ≤ ka)
    {W : World} {t0 : Nat} (h : Armed W o ka t0) (r : Round) (hr : r.SentOK ka t0 W.now)
    (hb : r.endAt W.now ≤ 4611686018427387904) :
    let C := run (r.sendDirs o) W
    let Q := run (r.wait.map Directive.tick) C
    (Pinged C o ka (r.sentAt W.now) ∧ C.now = r.sentAt W.now ∧ Leg o (r.sendDirs o) W 1) ∧
    (Pinged Q o ka (r.sentAt W.now) ∧ Q.now = r.endAt W.now ∧
      Leg o (r.wait.map Directive.tick) C 0 ∧ Leg o (r.sendDirs o ++ r.wait.map Directive.tick) W 1) := by
  intro C Q
  have hbs : r.sentAt W.now ≤ 4611686018427387904 := Nat.le_trans (r.sentAt_le_endAt W.now) hb
  have hbe : elapse W.now r.early ≤ 4611686018427387904 := Nat.le_trans (Nat.le_add_right _ _) hbs
  -- early wake-ups
  obtain ⟨e1, e2, e3⟩ := h.early hka r.early hr.early hbe
  -- the PINGREQ
  obtain ⟨s1, s2, s3⟩ := e1.send ho hka r.us r.k1 r.k2 (by rw [e2]; exact hbs) (by rw [e2]; exact hr.due) hr.k1 hr.k2
  have hC : C = run ([Directive.tick r.us, .d r.k1, .d r.k2] ++ again o) (run (r.early.map Directive.tick) W) := by
    show run (_ ++ _) W = _; rw [run_append]
  rw [e2] at s1 s2
  rw [← hC] at s1 s2
  have hCl : Leg o (r.sendDirs o) W 1 := Leg.trans e3 s3
  -- wake-ups while the PINGRESP is outstanding
  obtain ⟨w1, w2, w3⟩ := s1.early r.wait (by rw [s2]; exact hr.wait) (by rw [s2]; exact hb)
  refine ⟨⟨s1, s2, hCl⟩, ⟨w1, ?_, w3, Leg.trans hCl w3⟩⟩
  rw [w2, s2]; rfl

/-- **One round.** From `Armed` (timer armed from `t0`), a round that satisfies its timing hypotheses:
after its PINGREQ half the state is `Pinged` at `sentAt` and the clock reads `sentAt`; after its PINGRESP
half the state is `Armed` from `sentAt`; exactly one `C0 00` went out; `recv()` never returned (`poll()`
never returned an error). -/
theorem round_runs {o : Outer} (ho : o = .recv ∨ o = .poll) {ka : Nat} (hka : 2 * ROUND_TRIP_TIMEOUT_MS ≤ ka)
    {W : World} {t0 : Nat} (h : Armed W o ka t0) (r : Round) (hr : r.OK ka t0 W.now)
    (hb : r.endAt W.now ≤ 4611686018427387904) :
    let C := run (r.sendDirs o) W
    let R := run (r.recvDirs o) C
    (Pinged C o ka (r.sentAt W.now) ∧ C.now = r.sentAt W.now ∧ Leg o (r.sendDirs o) W 1) ∧
    (Armed R o ka (r.sentAt W.now) ∧ R.now = r.endAt W.now ∧ Sent C R 0) ∧
    Leg o (r.dirs o) W 1 := by
  intro C R
  obtain ⟨hs, w1, w2, w3, w4⟩ := round_sends ho hka h r hr.toSentOK hb
  obtain ⟨a1, a2, a3⟩ := w1.answer ho hka r.r1 r.r2 hr.r1 hr.r2
  have hR : R = run ([Directive.rx pingRespBytes, .d r.r1, .d r.r2] ++ again o) (run (r.wait.map Directive.tick) C) := by
    show run (_ ++ _) C = _; rw [run_append]
  rw [← hR] at a1 a2
  have hd : r.dirs o = (r.sendDirs o ++ r.wait.map Directive.tick) ++
      ([Directive.rx pingRespBytes, .d r.r1, .d r.r2] ++ again o) := by
    unfold Round.dirs Round.recvDirs; rw [List.append_assoc]
  refine ⟨hs, ⟨a1, a2.trans w2, ?_⟩, ?_⟩
  · exact (w3.trans a3).sent
  · rw [hd]
    have a3' : Leg o ([Directive.rx pingRespBytes, .d r.r1, .d r.r2] ++ again o)
        (run (r.sendDirs o ++ r.wait.map Directive.tick) W) 0 := by rw [run_append]; exact a3
    exact Leg.trans w4 a3'

/-- **The induction.** From `Armed` (timer armed from `t0`), any schedule all of whose rounds satisfy
their timing hypotheses, ending within the clock's range: the state after the schedule is `Armed` from
the completion time of its last PINGREQ, the clock reads `endTime`, exactly one `C0 00` per round went
out, and `recv()` has not returned (`poll()` has not returned an error) at any point. -/
theorem rounds_run {o : Outer} (ho : o = .recv ∨ o = .poll) {ka : Nat} (hka : 2 * ROUND_TRIP_TIMEOUT_MS ≤ ka) :
    ∀ (rs : List Round) (W : World) (t0 : Nat),
    Armed W o ka t0 → SchedOK ka t0 W.now rs → endTime rs W.now ≤ 4611686018427387904 →
    let R := runRounds o rs W
    Armed R o ka (lastPing t0 rs W.now) ∧ R.now = endTime rs W.now ∧ Leg o (schedule o rs) W rs.length
  | [], W, _, h, _, _ => ⟨h, rfl, Leg.nil o (Good.of_waiting h.idle.still)⟩
  | r :: rs, W, t0, h, hok, hb => by
    intro R
    have hbr : r.endAt W.now ≤ 4611686018427387904 := Nat.le_trans (le_endTime rs _) hb
    obtain ⟨_, ⟨a1, a2, _⟩, hl⟩ := round_runs ho hka h r hok.1 hbr
    obtain ⟨i1, i2, i3⟩ := rounds_run ho hka rs _ _ a1 (by rw [a2]; exact hok.2) (by rw [a2]; exact hb)
    have hR : R = runRounds o rs (run (r.recvDirs o) (run (r.sendDirs o) W)) := runRounds_cons o r rs W
    rw [← hR] at i1 i2
    rw [a2] at i1 i2
    refine ⟨i1, i2, ?_⟩
    have hrun : run (r.dirs o) W = run (r.recvDirs o) (run (r.sendDirs o) W) := by
      unfold Round.dirs; rw [run_append]
    rw [← hrun] at i3
    have := Leg.trans hl i3
    rw [show (r :: rs).length = 1 + rs.length by simp; omega]
    exact this

/-! ## Every round of a schedule -/

/-- **Every round.** Under the hypotheses of `rounds_run`, for every round `r` of the schedule
(`rs = pre ++ r :: post`): the world `Wn` it starts from is `Armed` from the completion time of the
PINGREQ before it, `pre.length` PINGREQs have gone out; `r` satisfies its timing hypotheses there; and
the conclusions of `round_runs` hold for it. -/
theorem rounds_each {o : Outer} (ho : o = .recv ∨ o = .poll) {ka : Nat} (hka : 2 * ROUND_TRIP_TIMEOUT_MS ≤ ka)
    (rs : List Round) (W : World) (t0 : Nat)
    (h : Armed W o ka t0) (hok : SchedOK ka t0 W.now rs) (hb : endTime rs W.now ≤ 4611686018427387904)
    (pre : List Round) (r : Round) (post : List Round) (hsplit : rs = pre ++ r :: post) :
    let Wn := runRounds o pre W
    let tp := lastPing t0 pre W.now
    let C := run (r.sendDirs o) Wn
    let R := run (r.recvDirs o) C
    (Armed Wn o ka tp ∧ Wn.now = endTime pre W.now ∧ Sent W Wn pre.length) ∧
    r.OK ka tp Wn.now ∧
    (Pinged C o ka (r.sentAt Wn.now) ∧ C.now = r.sentAt Wn.now ∧ Sent W C (pre.length + 1)) ∧
    (Armed R o ka (r.sentAt Wn.now) ∧ R.now = r.endAt Wn.now ∧ Sent W R (pre.length + 1)) ∧
    R = runRounds o (pre ++ [r]) W ∧ r.sentAt Wn.now = lastPing t0 (pre ++ [r]) W.now := by
  intro Wn tp C R
  subst hsplit
  obtain ⟨hok1, hok2⟩ := (SchedOK_append ka pre (r :: post) t0 W.now).mp hok
  rw [endTime_append] at hb
  have hb1 : endTime pre W.now ≤ 4611686018427387904 := by
    refine Nat.le_trans ?_ hb
    exact le_endTime (r :: post) _
  have hb2 : r.endAt (endTime pre W.now) ≤ 4611686018427387904 := Nat.le_trans (le_endTime post _) hb
  obtain ⟨i1, i2, i3⟩ := rounds_run ho hka pre W t0 h hok1 hb1
  have i4 : Sent W Wn pre.length := i3.sent
  have hrok : r.OK ka tp Wn.now := by rw [i2]; exact hok2.1
  obtain ⟨⟨c1, c2, c3⟩, ⟨a1, a2, a3⟩, _⟩ := round_runs ho hka i1 r hrok (by rw [i2]; exact hb2)
  have c4 : Sent Wn C 1 := c3.sent
  refine ⟨⟨i1, i2, i4⟩, hrok, ⟨c1, c2, i4.trans c4⟩, ⟨a1, a2, ?_⟩, ?_, ?_⟩
  · exact (i4.trans c4).trans a3
  · rw [runRounds_append]
    show R = runRounds o [r] Wn
    rw [runRounds_cons]; rfl
  · rw [lastPing_append, i2]; rfl

/-- **Consecutive PINGREQs.** For two consecutive rounds `r`, `r'` of the schedule, the clock `C'.now`
at the completion of the second PINGREQ and the clock `C.now` at the completion of the first satisfy
`C.now + (ka − 5000) ms ≤ C'.now ≤ C.now + ka ms`, and between the two completions exactly `C0 00` was
written. -/
theorem rounds_gap {o : Outer} (ho : o = .recv ∨ o = .poll) {ka : Nat} (hka : 2 * ROUND_TRIP_TIMEOUT_MS ≤ ka)
    (rs : List Round) (W : World) (t0 : Nat)
    (h : Armed W o ka t0) (hok : SchedOK ka t0 W.now rs) (hb : endTime rs W.now ≤ 4611686018427387904)
    (pre : List Round) (r r' : Round) (post : List Round) (hsplit : rs = pre ++ r :: r' :: post) :
    let C := run (r.sendDirs o) (runRounds o pre W)
    let C' := run (r'.sendDirs o) (runRounds o (pre ++ [r]) W)
    C'.now ≤ C.now + ka * 1000 ∧ C.now + (ka - ROUND_TRIP_TIMEOUT_MS) * 1000 ≤ C'.now ∧
    C'.curNet.wire = C.curNet.wire ++ pingBytes ∧ C'.log = C.log ++ [pingEntry W.nets.length] := by
  intro C C'
  obtain ⟨_, _, ⟨_, c2, c3⟩, _, e1, e2⟩ := rounds_each ho hka rs W t0 h hok hb pre r (r' :: post) hsplit
  obtain ⟨_, hr', ⟨_, c2', c3'⟩, _, _, _⟩ := rounds_each ho hka rs W t0 h hok hb (pre ++ [r]) r' post
    (by rw [hsplit, List.append_assoc]; rfl)
  rw [← e2] at hr'
  have hCn : C.now = r.sentAt (runRounds o pre W).now := c2
  have hCn' : C'.now = r'.sentAt (runRounds o (pre ++ [r]) W).now := c2'
  refine ⟨?_, ?_, ?_, ?_⟩
  · rw [hCn, hCn']; exact hr'.prompt
  · rw [hCn, hCn']; exact hr'.due
  · have w1 : C.curNet.wire = _ := c3.wire
    have w2 : C'.curNet.wire = _ := c3'.wire
    rw [w2, w1, List.length_append, List.length_singleton, ← List.replicate_append_replicate,
      List.flatten_append, List.append_assoc]
    simp
  · have l1 : C.log = _ := c3.log
    have l2 : C'.log = _ := c3'.log
    rw [l2, l1, List.length_append, List.length_singleton, ← List.replicate_append_replicate,
      List.append_assoc]
    rfl

/-- **The first PINGREQ** is completed within the keep-alive period counted from `t0`. -/
theorem rounds_first {o : Outer} (ho : o = .recv ∨ o = .poll) {ka : Nat} (hka : 2 * ROUND_TRIP_TIMEOUT_MS ≤ ka)
    (rs : List Round) (W : World) (t0 : Nat)
    (h : Armed W o ka t0) (hok : SchedOK ka t0 W.now rs) (hb : endTime rs W.now ≤ 4611686018427387904)
    (r : Round) (post : List Round) (hsplit : rs = r :: post) :
    let C := run (r.sendDirs o) W
    C.now ≤ t0 + ka * 1000 ∧ t0 + (ka - ROUND_TRIP_TIMEOUT_MS) * 1000 ≤ C.now ∧
    C.curNet.wire = W.curNet.wire ++ pingBytes ∧ C.log = W.log ++ [pingEntry W.nets.length] := by
  intro C
  obtain ⟨_, hr, ⟨_, c2, c3⟩, _, _, _⟩ := rounds_each ho hka rs W t0 h hok hb [] r post hsplit
  have hCn : C.now = r.sentAt W.now := c2
  refine ⟨by rw [hCn]; exact hr.prompt, by rw [hCn]; exact hr.due, ?_, ?_⟩
  · have w1 : C.curNet.wire = _ := c3.wire
    rw [w1]; simp
  · have l1 : C.log = _ := c3.log
    rw [l1]; rfl

/-! ## A round that is not answered -/

/-- **An unanswered round.** After any schedule of answered rounds, a round whose PINGREQ half satisfies
its hypotheses but whose PINGRESP does not arrive: through all the wake-ups of `wait` (all before
`sentAt + 5 s`) the application keeps waiting on a live connection; the first tick that reaches
`sentAt + 5 s` ends the wait with `Disconnected`, the handle is dead, the session disconnected, nothing
more is written. -/
theorem rounds_unanswered {o : Outer} (ho : o = .recv ∨ o = .poll) {ka : Nat} (hka : 2 * ROUND_TRIP_TIMEOUT_MS ≤ ka)
    (rs : List Round) (W : World) (t0 : Nat)
    (h : Armed W o ka t0) (hok : SchedOK ka t0 W.now rs) (r : Round)
    (hr : r.SentOK ka (lastPing t0 rs W.now) (endTime rs W.now)) (u : Nat)
    (hd : r.sentAt (endTime rs W.now) + ROUND_TRIP_TIMEOUT_MS * 1000 ≤ r.endAt (endTime rs W.now) + u)
    (hb : r.endAt (endTime rs W.now) + u ≤ 4611686018427387904) :
    let ds := schedule o rs ++ (r.sendDirs o ++ r.wait.map Directive.tick)
    let Q := run ds W
    let D := Q.execDirective (.tick u)
    Leg o ds W (rs.length + 1) ∧
    (Q.now = r.endAt (endTime rs W.now) ∧ Pinged Q o ka (r.sentAt (endTime rs W.now))) ∧
    (D.fut = none ∧ D.lastRes = some (.error .disconnected) ∧ D.live = false ∧ D.sess = Q.sess.handleDisconnect ∧
      D.nets = Q.nets ∧ D.log = Q.log) := by
  intro ds Q D
  have hbr : r.endAt (endTime rs W.now) ≤ 4611686018427387904 := Nat.le_trans (Nat.le_add_right _ _) hb
  have hbe : endTime rs W.now ≤ 4611686018427387904 :=
    Nat.le_trans (Nat.le_trans (r.le_sentAt _) (r.sentAt_le_endAt _)) hbr
  obtain ⟨i1, i2, i3⟩ := rounds_run ho hka rs W t0 h hok hbe
  obtain ⟨_, q1, q2, _, q4⟩ := round_sends ho hka i1 r (by rw [i2]; exact hr) (by rw [i2]; exact hbr)
  rw [i2] at q1 q2
  have hQ : Q = run (r.wait.map Directive.tick) (run (r.sendDirs o) (runRounds o rs W)) := by
    show run (_ ++ (_ ++ _)) W = _
    rw [run_append, run_append]; rfl
  rw [← hQ] at q1 q2
  exact ⟨Leg.trans i3 q4, ⟨q2, q1⟩, q1.dead u (by rw [q2]; exact hb) (by rw [q2]; exact hd)⟩

/-! ## The completion times as a list -/

theorem pingTimes_length : ∀ (rs : List Round) (now : Nat), (pingTimes rs now).length = rs.length
  | [], _ => rfl
  | r :: rs, now => by show (pingTimes rs _).length + 1 = rs.length + 1; rw [pingTimes_length rs]

theorem pingTimes_append : ∀ (a c : List Round) (now : Nat),
    pingTimes (a ++ c) now = pingTimes a now ++ pingTimes c (endTime a now)
  | [], _, _ => rfl
  | r :: a, c, now => by
    show r.sentAt now :: pingTimes (a ++ c) (r.endAt now) = r.sentAt now :: (pingTimes a (r.endAt now) ++ _)
    rw [pingTimes_append a c]; rfl

/-- The `i`-th entry of `pingTimes` is the completion time of the PINGREQ of the `i`-th round. -/
theorem pingTimes_at (pre : List Round) (r : Round) (post : List Round) (now : Nat) :
    (pingTimes (pre ++ r :: post) now)[pre.length]? = some (r.sentAt (endTime pre now)) := by
  rw [pingTimes_append, List.getElem?_append_right (by rw [pingTimes_length]; exact Nat.le_refl _), pingTimes_length,
    Nat.sub_self]
  rfl

/-- Consecutive entries of `t :: ts` are at least the PINGREQ interval and at most the keep-alive apart. -/
def GapsOK (ka : Nat) : Nat → List Nat → Prop
  | _, [] => True
  | t, t' :: ts => t + (ka - ROUND_TRIP_TIMEOUT_MS) * 1000 ≤ t' ∧ t' ≤ t + ka * 1000 ∧ GapsOK ka t' ts

theorem SchedOK.gaps {ka : Nat} : ∀ (rs : List Round) (t0 now : Nat), SchedOK ka t0 now rs →
    GapsOK ka t0 (pingTimes rs now)
  | [], _, _, _ => trivial
  | r :: rs, _, now, h => ⟨h.1.due, h.1.prompt, SchedOK.gaps rs (r.sentAt now) (r.endAt now) h.2⟩

theorem GapsOK.at {ka : Nat} : ∀ (ts : List Nat) (t : Nat), GapsOK ka t ts →
    ∀ (i : Nat) (hi : i + 1 < (t :: ts).length),
      (t :: ts)[i] + (ka - ROUND_TRIP_TIMEOUT_MS) * 1000 ≤ (t :: ts)[i + 1] ∧ (t :: ts)[i + 1] ≤ (t :: ts)[i] + ka * 1000
  | [], _, _, i, hi => by simp at hi
  | t' :: ts, t, h, 0, _ => ⟨h.1, h.2.1⟩
  | t' :: ts, t, h, i + 1, hi => GapsOK.at ts t' h.2.2 i (by simpa using hi)

/-! ## `Armed` for a concrete world -/

/-- What a `waitRead` suspension holds (for `decide` on concrete worlds: `Pc` has no decidable equality). -/
def waitReadOf : Option Pc → Option (Outer × Option Nat × Bool)
  | some (.waitRead o d y) => some (o, d, y)
  | _ => none

theorem fut_of_waitReadOf {f : Option Pc} {o : Outer} {d : Option Nat} {y : Bool}
    (h : waitReadOf f = some (o, d, y)) : f = some (.waitRead o d y) := by
  unfold waitReadOf at h
  split at h
  · simp only [Option.some.injEq, Prod.mk.injEq] at h
    obtain ⟨rfl, rfl, rfl⟩ := h
    rfl
  · cases h

/-- `Armed` from facts that are decidable on a concrete world. -/
theorem Armed.of_checks (W : World) (outer : Outer) (ka t0 : Nat) (ho : outer ≠ .drive)
    (hfut : waitReadOf W.fut = some (outer, W.sess.rt.nextDeadline, true))
    (hlive : W.live = true) (hslot : W.slot = none)
    (hidle : W.sess.data.outbound.nextStep.isNone = true) (hnets : W.nets.isEmpty = false)
    (hctl : W.sess.data.outbound.control.isEmpty = true) (hpt : W.sess.rt.pingTimeout = none)
    (hsz : W.sess.rt.packetTooLarge 2 = false) (hka : W.sess.rt.keepaliveMs = ka)
    (harmed : W.sess.rt.nextPing = W.sess.rt.keepaliveSendInterval.map (fun i => t0 + i * 1000))
    (hrd : W.sess.reader.data = [] ∧ W.sess.reader.packetLength = none ∧ 2 ≤ W.sess.reader.cap)
    (hrx : W.curNet.rx = []) : Armed W outer ka t0 := by
  refine ⟨⟨?_, hpt, hsz, hka, harmed, hrd, hrx⟩,
    ⟨ho, fut_of_waitReadOf hfut, hlive, hslot, Waiting_fresh _ _ hrd.1 hrd.2.1 (by omega), ?_, ?_⟩⟩
  · cases h : W.sess.data.outbound.control with
    | nil => rfl
    | cons x xs => rw [h] at hctl; cases hctl
  · cases h : W.sess.data.outbound.nextStep with
    | none => rfl
    | some s => rw [h] at hidle; cases hidle
  · intro h; rw [h] at hnets; cases hnets


/-! ## Checking a concrete schedule -/

instance AllBefore.dec : ∀ (d now : Nat) (us : List Nat), Decidable (AllBefore d now us)
  | _, _, [] => isTrue trivial
  | d, now, u :: us =>
    have := AllBefore.dec d (now + u) us
    inferInstanceAs (Decidable (now + u < d ∧ AllBefore d (now + u) us))

instance Round.SentOK.dec (r : Round) (ka t0 now : Nat) : Decidable (r.SentOK ka t0 now) :=
  decidable_of_iff
    (AllBefore (t0 + (ka - ROUND_TRIP_TIMEOUT_MS) * 1000) now r.early ∧
      t0 + (ka - ROUND_TRIP_TIMEOUT_MS) * 1000 ≤ r.sentAt now ∧ r.sentAt now ≤ t0 + ka * 1000 ∧
      (2 ≤ r.k1 ∧ r.k1 ≤ 250) ∧ r.k2 ≤ 250 ∧
      AllBefore (r.sentAt now + ROUND_TRIP_TIMEOUT_MS * 1000) (r.sentAt now) r.wait)
    ⟨fun ⟨a, b, c, d, e, f⟩ => ⟨a, b, c, d, e, f⟩, fun h => ⟨h.early, h.due, h.prompt, h.k1, h.k2, h.wait⟩⟩

instance Round.OK.dec (r : Round) (ka t0 now : Nat) : Decidable (r.OK ka t0 now) :=
  decidable_of_iff (r.SentOK ka t0 now ∧ (1 ≤ r.r1 ∧ r.r1 ≤ 250) ∧ (1 ≤ r.r2 ∧ r.r2 ≤ 250))
    ⟨fun ⟨a, b, c⟩ => ⟨a, b, c⟩, fun h => ⟨h.toSentOK, h.r1, h.r2⟩⟩

instance SchedOK.dec (ka : Nat) : ∀ (t0 now : Nat) (rs : List Round), Decidable (SchedOK ka t0 now rs)
  | _, _, [] => isTrue trivial
  | t0, now, r :: rs =>
    have := SchedOK.dec ka (r.sentAt now) (r.endAt now) rs
    inferInstanceAs (Decidable (r.OK ka t0 now ∧ SchedOK ka (r.sentAt now) (r.endAt now) rs))

end Minimq
