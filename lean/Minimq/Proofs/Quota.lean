import Minimq.Proofs.ArenaClosed
/-
The send quota (`send_quota`, `max_send_quota`) against the number of QoS 1/2 exchanges in flight.
-/
namespace Minimq
open Gen World Outbound

/-- The first byte says PUBLISH. -/
def isPubPkt : Bytes → Bool
  | x :: _ => x.toNat / 16 == MT_Publish
  | [] => false

/-- Retained PUBLISH packets, counted on the packet bytes. -/
def Outbound.pubCount (o : Outbound) : Nat := (o.contents.filter isPubPkt).length

theorem slice_head (buf : Bytes) (off len : Nat) (hlen : 0 < len) (h : off + len ≤ buf.length) :
    ∃ rest, slice buf off len = buf[off]'(by omega) :: rest := by
  have hlt : off < buf.length := by omega
  simp only [slice]
  rw [List.drop_eq_getElem_cons hlt]
  cases len with
  | zero => omega
  | succ n => exact ⟨_, List.take_succ_cons⟩

theorem inflight_eq (o : Outbound) (h : o.ArenaInv) : o.inflightPublishes = o.pubCount + o.release.length := by
  unfold inflightPublishes pubCount Outbound.contents contents
  congr 1
  rw [List.filter_map, List.length_map]
  congr 1
  apply List.filter_congr
  intro e he
  have hp := h.pos e he
  have hend : e.offset + e.len ≤ o.buf.length := Nat.le_trans (h.ends e he) h.used_le
  obtain ⟨rest, hs⟩ := slice_head o.buf e.offset e.len hp hend
  simp only [Function.comp, hs, isPubPkt]
  have hlt : e.offset < o.buf.length := by omega
  rw [List.getElem?_eq_getElem hlt]
  simp only []
  rw [Bool.eq_iff_iff]; simp

theorem pubCount_congr {o o' : Outbound} (h : o'.contents = o.contents) : o'.pubCount = o.pubCount := by
  simp [pubCount, h]

theorem isPubPkt_setDup (l : Bytes) : isPubPkt (setDup l) = isPubPkt l := by
  cases l with
  | nil => rfl
  | cons x r =>
    simp only [setDup, isPubPkt, dupByte, b, UInt8.toNat_ofNat']
    have := x.toNat_lt
    congr 1
    omega

theorem filter_removeFirst_length {α} (p q : α → Bool) (l : List α) :
    ((removeFirst p l).filter q).length =
      (l.filter q).length - (match l.find? p with | some e => if q e then 1 else 0 | none => 0) := by
  induction l with
  | nil => rfl
  | cons x xs ih =>
    simp only [removeFirst, List.find?_cons]
    by_cases hp : p x
    · simp only [hp, if_true]
      by_cases hq : q x <;> simp [List.filter_cons, hq]
    · simp only [hp]
      by_cases hq : q x
      · simp only [List.filter_cons, hq, if_true, List.length_cons, Bool.false_eq_true, if_false]
        rw [ih]
        have : (match List.find? p xs with | some e => if q e = true then 1 else 0 | none => 0) ≤ (xs.filter q).length := by
          split
          · rename_i e he
            split
            · rename_i hqe
              exact List.length_pos_of_mem (List.mem_filter.mpr ⟨List.mem_of_find?_eq_some he, hqe⟩)
            · omega
          · omega
        omega
      · simp only [List.filter_cons, hq, Bool.false_eq_true, if_false]
        exact ih

/-- Entry removed by `ack_packet`. -/
theorem ackPacket_found_entry {o : Outbound} {id : Nat} {k : AckKind} (hf : (o.ackPacket id k).2 = true) :
    ∃ e, o.retained.find? (fun (e : RetainedPacket) => e.id == id && k.acknowledges (o.headerAt e.offset)) = some e ∧
      e ∈ o.retained ∧ k.acknowledges (o.headerAt e.offset) = true := by
  unfold ackPacket at hf
  simp only [] at hf
  split at hf
  · rename_i hany
    rw [List.any_eq_true] at hany
    obtain ⟨x, hx, hpx⟩ := hany
    cases hfind : o.retained.find? (fun (e : RetainedPacket) => e.id == id && k.acknowledges (o.headerAt e.offset)) with
    | none =>
      rw [List.find?_eq_none] at hfind
      exact absurd hpx (hfind x hx)
    | some e =>
      have := List.find?_some hfind
      simp only [Bool.and_eq_true] at this
      exact ⟨e, rfl, List.mem_of_find?_eq_some hfind, this.2⟩
  · simp at hf

theorem headerAt_isPub (o : Outbound) (h : o.ArenaInv) (e : RetainedPacket) (he : e ∈ o.retained) :
    isPubPkt (slice o.buf e.offset e.len) = (o.headerAt e.offset / 16 == MT_Publish) := by
  have hp := h.pos e he
  have hend : e.offset + e.len ≤ o.buf.length := Nat.le_trans (h.ends e he) h.used_le
  obtain ⟨rest, hs⟩ := slice_head o.buf e.offset e.len hp hend
  have hlt : e.offset < o.buf.length := by omega
  simp only [hs, isPubPkt, headerAt, List.getElem?_eq_getElem hlt]

theorem acknowledges_pub (k : AckKind) (hdr : Nat) (h : k.acknowledges hdr = true) :
    (hdr / 16 == MT_Publish) = (k == .pubAck || k == .pubRec) := by
  cases k <;> simp only [AckKind.acknowledges, Bool.and_eq_true, beq_iff_eq] at h
  · have : MT_Publish = 3 := rfl
    simp [h, this]
  · have : MT_Publish = 3 := rfl
    simp [h, this]
  · have : MT_Publish = 3 := rfl
    simp [h.1, this]
  · have : MT_Publish = 3 := rfl
    simp [h.1, this]

/-- What `ack_packet` does to the number of exchanges in flight. -/
theorem ackPacket_inflight (o : Outbound) (id : Nat) (k : AckKind) (h : o.ArenaInv) (hf : (o.ackPacket id k).2 = true) :
    (o.ackPacket id k).1.inflightPublishes + (if k = .pubAck ∨ k = .pubRec then 1 else 0) = o.inflightPublishes ∧
    (o.ackPacket id k).1.release = o.release := by
  obtain ⟨hi, ht, _, _, _⟩ := ackPacket_spec o id k h
  obtain ⟨hc, _⟩ := ht hf
  obtain ⟨e, hfind, hmem, hack⟩ := ackPacket_found_entry hf
  have hrel : (o.ackPacket id k).1.release = o.release := by
    unfold ackPacket; simp only []; split
    · exact (compact_spec _ (ArenaInv_sub o _ h (removeFirst_sublist _ _))).2.2.2.2.2.1
    · rfl
  refine ⟨?_, hrel⟩
  rw [inflight_eq _ hi, inflight_eq _ h, hrel]
  have hpc : (o.ackPacket id k).1.pubCount + (if k = .pubAck ∨ k = .pubRec then 1 else 0) = o.pubCount := by
    unfold pubCount
    rw [hc]
    simp only [contents, Outbound.contents]
    rw [List.filter_map, List.length_map, List.filter_map, List.length_map, filter_removeFirst_length, hfind]
    have hq : (isPubPkt ∘ fun (e : RetainedPacket) => slice o.buf e.offset e.len) e = (k == AckKind.pubAck || k == AckKind.pubRec) := by
      simp only [Function.comp]
      rw [headerAt_isPub o h e hmem, acknowledges_pub k _ hack]
    simp only [hq]
    have hge : (if (k == AckKind.pubAck || k == AckKind.pubRec) = true then 1 else 0) ≤
        (o.retained.filter (isPubPkt ∘ fun e => slice o.buf e.offset e.len)).length := by
      split
      · rename_i hk
        apply List.length_pos_of_mem (a := e)
        rw [List.mem_filter]
        refine ⟨hmem, ?_⟩
        simp only [Function.comp]
        rw [headerAt_isPub o h e hmem, acknowledges_pub k _ hack]; exact hk
      · omega
    cases k <;> simp at hge ⊢ <;> omega
  omega

def pubAt (buf : Bytes) (off : Nat) : Bool :=
  match buf[off]? with
  | some x => decide (x.toNat / 16 = MT_Publish)
  | none => false

theorem inflight_def (o : Outbound) :
    o.inflightPublishes = ((o.retained.map (·.offset)).filter (pubAt o.buf)).length + o.release.length := by
  unfold inflightPublishes
  rw [List.filter_map, List.length_map]
  rfl

theorem inflight_congr {o o' : Outbound} (hb : o'.buf = o.buf)
    (hr : o'.retained.map (·.offset) = o.retained.map (·.offset)) (hl : o'.release.length = o.release.length) :
    o'.inflightPublishes = o.inflightPublishes := by
  rw [inflight_def, inflight_def, hb, hr, hl]

end Minimq

namespace Minimq
open Gen World Outbound

/-! ### The quota invariant -/

/-- Window accounting: unless a CONNACK announced a Receive Maximum below the number of publishes that
had to be replayed (ghost flag `deficit`, finding F5c), the remaining send quota plus the number of
QoS 1/2 exchanges in flight never exceeds the maximum send quota. -/
def quotaOk (s : Session) : Prop :=
  s.rt.deficit = true ∨ s.rt.sendQuota + s.data.outbound.inflightPublishes ≤ s.rt.maxSendQuota

def QuotaP (s : Session) : Prop :=
  (s.data.outbound.ArenaInv ∧ s.data.outbound.SerInv) ∧ quotaOk s

theorem quotaOk_same {s s' : Session} (h : quotaOk s)
    (hq : s'.rt.sendQuota = s.rt.sendQuota ∧ s'.rt.maxSendQuota = s.rt.maxSendQuota ∧ s'.rt.deficit = s.rt.deficit)
    (hi : s'.data.outbound.inflightPublishes = s.data.outbound.inflightPublishes) : quotaOk s' := by
  unfold quotaOk at *
  rw [hq.1, hq.2.1, hq.2.2, hi]; exact h

/-- The arena part of the invariant comes from `closed_ArenaP`. -/
theorem arena_of_closed {s s' : Session} (h : s.data.outbound.ArenaInv ∧ s.data.outbound.SerInv)
    (hs : ArenaP s.data.outbound s → ArenaP s.data.outbound s') :
    s'.data.outbound.ArenaInv ∧ s'.data.outbound.SerInv :=
  (hs ⟨h, Keeps.refl _, rfl⟩).1

theorem modifyFirst_length {α} (p : α → Bool) (f : α → α) (l : List α) : (modifyFirst p f l).length = l.length := by
  induction l with
  | nil => rfl
  | cons x xs ih => simp only [modifyFirst]; split <;> simp [ih]

theorem offsets_modifyFirst_state (p : RetainedPacket → Bool) (st : RetainedPacket → SendState) (es : List RetainedPacket) :
    (modifyFirst p (fun e => { e with state := st e }) es).map (·.offset) = es.map (·.offset) := by
  have := congrArg (List.map (fun (t : Nat × Nat × Nat × Nat) => t.2.2.1)) (map_modifyFirst_state p st es)
  rw [List.map_map, List.map_map] at this
  exact this

theorem queueControl_inflight {o o' : Outbound} {a : ControlAction} (h : o.queueControl a = some o') :
    o'.inflightPublishes = o.inflightPublishes := by
  unfold Outbound.queueControl at h
  split at h
  · simp at h
  · simp at h; subst h; exact inflight_congr rfl rfl rfl

theorem queueRelease_inflight {o o' : Outbound} {id rc ps : Nat} (h : o.queueRelease id rc ps = some o') :
    o'.inflightPublishes = o.inflightPublishes + 1 := by
  unfold Outbound.queueRelease at h
  split at h
  · simp at h
  · simp at h; subst h
    rw [inflight_def, inflight_def]; simp; omega

theorem ackRelease_inflight (o : Outbound) (id : Nat) :
    (o.ackRelease id).1.inflightPublishes + (if (o.ackRelease id).2 then 1 else 0) = o.inflightPublishes := by
  unfold Outbound.ackRelease
  split
  · rename_i hany
    rw [inflight_def, inflight_def]
    simp only [if_true]
    have hl := removeFirst_length _ _ hany
    have : 0 < o.release.length := by
      rw [List.any_eq_true] at hany
      obtain ⟨x, hx, _⟩ := hany
      exact List.length_pos_of_mem hx
    omega
  · simp

theorem armReplay_inflight (o : Outbound) (h : o.ArenaInv) : o.armReplay.inflightPublishes = o.inflightPublishes := by
  obtain ⟨hi, hc, _⟩ := armReplay_spec o h
  have hrel : o.armReplay.release.length = o.release.length := by
    unfold armReplay; split
    · rfl
    · simp [markRetainedDup]
  rw [inflight_eq _ hi, inflight_eq _ h, hrel]
  congr 1
  rcases hc with hc | ⟨he, _⟩
  · unfold pubCount
    rw [hc, List.filter_map, List.length_map]
    congr 1
    apply List.filter_congr
    intro l _
    simp [Function.comp, isPubPkt_setDup]
  · rw [he]

theorem rearm_inflight (o : Outbound) (h : o.ArenaInv) : o.rearm.inflightPublishes = o.inflightPublishes := by
  have hd : o.dropPingreq.ArenaInv := ArenaInv_of_layout h rfl rfl rfl
  unfold Outbound.rearm
  rw [armReplay_inflight _ hd]
  exact inflight_congr rfl rfl rfl

theorem encodeAt_inflight {ε : Type} (o : Outbound) (enc : Nat → (Nat → Nat → Bytes) → Except ε (Nat × Bytes))
    (h : o.ArenaInv) (he : EncOk enc) : (o.encodeAt enc).1.inflightPublishes = o.inflightPublishes := by
  obtain ⟨hi, hc, _, _, _, hr, _⟩ := encodeAt_spec o enc h he
  rw [inflight_eq _ hi, inflight_eq _ h, hr, pubCount_congr hc]

theorem clear_inflight (o : Outbound) : o.clear.inflightPublishes = 0 := by
  rw [inflight_def]; simp [Outbound.clear]

/-- The bytes found at the returned offset are the packet the encoder produced. -/
theorem encodeAt_packet {ε : Type} (o : Outbound) (enc : Nat → (Nat → Nat → Bytes) → Except ε (Nat × Bytes))
    (h : o.ArenaInv) (he : EncOk enc) (off len : Nat) (hres : (o.encodeAt enc).2 = .ok (off, len)) :
    ∃ off0 pkt, enc (o.compact.capacity - o.compact.used) (fun idx n => slice o.compact.buf (o.compact.used + idx) n) = .ok (off0, pkt) ∧
      slice (o.encodeAt enc).1.buf off len = pkt ∧ len = pkt.length := by
  obtain ⟨c1, _, _, _, c5, _⟩ := compact_spec o h
  unfold encodeAt at hres ⊢
  simp only [] at hres ⊢
  generalize hr : enc (o.compact.capacity - o.compact.used)
    (fun idx n => slice o.compact.buf (o.compact.used + idx) n) = res at hres ⊢
  cases res with
  | error e => simp at hres
  | ok r =>
    obtain ⟨off0, pkt⟩ := r
    simp only [Except.ok.injEq, Prod.mk.injEq] at hres
    obtain ⟨rfl, rfl⟩ := hres
    obtain ⟨hb, _⟩ := he _ _ off0 pkt (fun i n => slice_length_le _ _ _) hr
    have hu := c1.used_le
    simp only [capacity] at hb
    refine ⟨off0, pkt, rfl, ?_, rfl⟩
    exact slice_setRange_same _ _ _ (by omega)

/-- Retaining the packet just encoded adds one exchange exactly when it is a PUBLISH. -/
theorem retain_inflight {ε : Type} (o o' : Outbound) (enc : Nat → (Nat → Nat → Bytes) → Except ε (Nat × Bytes))
    (h : o.ArenaInv) (he : EncOk enc) (typ : Nat) (ht : EncTyp enc typ) (id off len : Nat)
    (hres : (o.encodeAt enc).2 = .ok (off, len))
    (hr : (o.encodeAt enc).1.retainPacket id off len = some o') :
    o'.inflightPublishes = o.inflightPublishes + (if typ = MT_Publish then 1 else 0) := by
  obtain ⟨hi, hc, hm, hu, hbl, hrel, _, _, hpos⟩ := encodeAt_spec o enc h he
  obtain ⟨p1, p2, p3⟩ := hpos off len hres
  obtain ⟨ri, rc, _, rb, rr, _, _⟩ := retainPacket_spec _ o' id off len hi p1 (by rw [hbl]; exact p2) p3 hr
  obtain ⟨off0, pkt, hpk, hsl, _⟩ := encodeAt_packet o enc h he off len hres
  obtain ⟨x, rest, hx, hxt⟩ := ht _ _ _ _ hpk
  rw [inflight_eq _ ri, inflight_eq _ h, rr, hrel]
  unfold pubCount
  rw [rc, hc, List.filter_append, List.length_append, hsl, hx]
  simp only [List.filter_cons, List.filter_nil, isPubPkt, hxt]
  by_cases hp : typ = MT_Publish
  · simp [hp]; omega
  · simp [hp]

theorem quotaInc_fields (r : Runtime) :
    (quotaInc r).sendQuota ≤ r.sendQuota + 1 ∧ (quotaInc r).sendQuota ≤ r.maxSendQuota ∧
    (quotaInc r).maxSendQuota = r.maxSendQuota ∧ (quotaInc r).deficit = r.deficit := by
  simp only [quotaInc]
  refine ⟨?_, ?_, trivial, trivial⟩ <;> omega

end Minimq

namespace Minimq
open Gen World Outbound

def qOk (o : Outbound) (r : Runtime) : Prop := r.deficit = true ∨ r.sendQuota + o.inflightPublishes ≤ r.maxSendQuota

theorem qOk_inc {o o' : Outbound} {r : Runtime} (h : qOk o r) (hi : o'.inflightPublishes + 1 = o.inflightPublishes) :
    qOk o' (quotaInc r) := by
  obtain ⟨h1, h2, h3, h4⟩ := quotaInc_fields r
  unfold qOk at *
  rw [h3, h4]
  rcases h with h | h
  · exact Or.inl h
  · right; omega

theorem qOk_le {o o' : Outbound} {r : Runtime} (h : qOk o r) (hi : o'.inflightPublishes ≤ o.inflightPublishes) :
    qOk o' r := by
  unfold qOk at *
  rcases h with h | h
  · exact Or.inl h
  · right; omega

/-- Every inbound packet keeps the window accounting. -/
theorem handlePacket_quota (d : SessionData) (r : Runtime) (p : Recv) (ha : d.outbound.ArenaInv) (h : qOk d.outbound r) :
    qOk (handlePacket d r p).1.outbound (handlePacket d r p).2.1 := by
  have hack := fun id k hf => ackPacket_inflight d.outbound id k ha hf
  cases p with
  | connAck sp rc props => exact h
  | pingResp => exact h
  | disconnect rc props => exact h
  | subAck id props codes =>
    simp only [handlePacket]
    split
    · exact h
    · rename_i hf
      have := (hack id .subAck (by simpa using hf)).1
      simp at this
      split <;> exact qOk_le h (by simp only []; omega)
  | unsubAck id props codes =>
    simp only [handlePacket]
    split
    · exact h
    · rename_i hf
      have := (hack id .unsubAck (by simpa using hf)).1
      simp at this
      split <;> exact qOk_le h (by simp only []; omega)
  | pubAck id rs =>
    simp only [handlePacket]
    split
    · exact h
    · rename_i hf
      have := (hack id .pubAck (by simpa using hf)).1
      simp at this
      split <;> exact qOk_inc h this
  | pubComp id rs =>
    simp only [handlePacket]
    split
    · exact h
    · rename_i hf
      have := ackRelease_inflight d.outbound id
      simp at hf
      rw [hf] at this
      simp at this
      split <;> exact qOk_inc h this
  | pubRec id rs =>
    simp only [handlePacket]
    split
    · rename_i hf
      have := (hack id .pubRec hf).1
      simp at this
      split
      · rename_i hfail
        exact qOk_inc h this
      · rename_i hsucc
        split
        · exact qOk_le h (by simp only []; omega)
        · split
          · exact qOk_le h (by simp only []; omega)
          · rename_i o' hq
            have := queueRelease_inflight hq
            exact qOk_le h (by simp only []; omega)
    · split
      · split <;> exact h
      · exact h
  | pubRel id rs =>
    simp only [handlePacket]
    repeat' split
    all_goals first
      | exact h
      | exact qOk_le h (Nat.le_of_eq (queueControl_inflight (by assumption)))
  | publish topic id props payload retain qos dup =>
    simp only [handlePacket]
    repeat' split
    all_goals first
      | exact h
      | exact qOk_le h (Nat.le_of_eq (queueControl_inflight (by assumption)))

end Minimq

namespace Minimq
open Gen World Outbound

theorem foldl_inv {α β} (inv : β → Prop) (f : β → α → β) (hf : ∀ b a, inv b → inv (f b a)) :
    ∀ (l : List α) (b0 : β), inv b0 → inv (l.foldl f b0)
  | [], _, h => h
  | a :: l, b0, h => foldl_inv inv f hf l (f b0 a) (hf b0 a h)

/-- In the CONNACK loop send quota and maximum send quota stay equal and at most the local limit. -/
def accInv (localQ : Nat) : Except Err Session.ConnackAcc → Prop
  | .ok (sq, msq, _, _, _, _) => sq = msq ∧ msq ≤ localQ
  | .error _ => True

theorem connackStep_accInv (localQ : Nat) (acc : Except Err Session.ConnackAcc) (item : Option Property)
    (h : accInv localQ acc) : accInv localQ (Session.connackStep localQ acc item) := by
  unfold Session.connackStep
  cases acc with
  | error e => trivial
  | ok a =>
    obtain ⟨sq, msq, mq, mps, ka, cid⟩ := a
    simp only [accInv] at h
    cases item with
    | none => trivial
    | some p =>
      simp only []
      split
      all_goals first
        | exact h
        | trivial
        | (split <;> first | trivial | exact h | exact ⟨rfl, Nat.min_le_right _ _⟩)

theorem quotaOk_iff (s : Session) : quotaOk s ↔ qOk s.data.outbound s.rt := Iff.rfl

theorem handleDisconnect_quota (s : Session) (h : QuotaP s) : QuotaP s.handleDisconnect := by
  refine ⟨arena_of_closed h.1 (fun hp => (closed_ArenaP _).handleDisconnect s hp), ?_⟩
  refine quotaOk_same h.2 ?_ ?_
  · exact ⟨rfl, rfl, rfl⟩
  · exact rearm_inflight _ h.1.1

theorem completeFlush_quota_fields (s : Session) (pkt : Flushed) (now : Nat) :
    (s.completeFlush pkt now).rt.sendQuota = s.rt.sendQuota ∧ (s.completeFlush pkt now).rt.maxSendQuota = s.rt.maxSendQuota ∧
    (s.completeFlush pkt now).rt.deficit = s.rt.deficit := by
  unfold Session.completeFlush
  cases pkt with
  | control a =>
    simp only [Runtime.noteOutboundActivity]
    split <;> exact ⟨rfl, rfl, rfl⟩
  | release id => exact ⟨rfl, rfl, rfl⟩
  | retained id => exact ⟨rfl, rfl, rfl⟩

theorem closed_QuotaP : Closed QuotaP where
  queuePing := by
    intro s now s' h hq
    refine ⟨arena_of_closed h.1 (fun hp => (closed_ArenaP _).queuePing s now s' hp hq), ?_⟩
    rcases Session.queuePing_ok hq with rfl | ⟨o, ho, rfl⟩
    · exact h.2
    · exact quotaOk_same h.2 ⟨rfl, rfl, rfl⟩ (queueControl_inflight ho)
  completeFlush := by
    intro s pkt now h
    refine ⟨arena_of_closed h.1 (fun hp => (closed_ArenaP _).completeFlush s pkt now hp), ?_⟩
    refine quotaOk_same h.2 (completeFlush_quota_fields s pkt now) ?_
    · simp only [Session.completeFlush, Session.setOutbound]
      cases pkt <;> simp only []
      · exact inflight_congr rfl rfl rfl
      · exact inflight_congr rfl rfl (by simp [flushRelease, modifyFirst_length])
      · exact inflight_congr rfl (offsets_modifyFirst_state _ (fun _ => .sent) _) rfl
  setWritten := by
    intro s pkt a c h
    refine ⟨arena_of_closed h.1 (fun hp => (closed_ArenaP _).setWritten s pkt a c hp), ?_⟩
    refine quotaOk_same h.2 ⟨rfl, rfl, rfl⟩ ?_
    simp only [Session.setWritten, Session.setOutbound]
    cases pkt <;> simp only []
    · exact inflight_congr rfl rfl rfl
    · exact inflight_congr rfl rfl (by simp [setReleaseWritten, modifyFirst_length])
    · exact inflight_congr rfl (offsets_modifyFirst_state _ (fun _ => SendState.afterWrite a c) _) rfl
  takePkt := by
    intro s h
    have := Session.takePkt_data s
    refine ⟨by rw [this.1]; exact h.1, ?_⟩
    unfold quotaOk; rw [this.1, this.2]; exact h.2
  handle := by
    intro s p h
    refine ⟨arena_of_closed h.1 (fun hp => (closed_ArenaP _).handle s p hp), ?_⟩
    have hq := handlePacket_quota s.data s.rt p h.1.1 h.2
    unfold quotaOk
    unfold Session.handle
    cases hh : handlePacket s.data s.rt p with
    | mk d rest =>
      cases rest with
      | mk rt res =>
        rw [hh] at hq
        exact hq
  handleDisconnect := handleDisconnect_quota
  activate := by
    intro s sp block now h
    have harena := arena_of_closed h.1 (fun hp => (closed_ArenaP _).activate s sp block now hp)
    refine ⟨harena, ?_⟩
    unfold Session.activate
    simp only []
    -- the session after the optional reset
    have h0 : QuotaP (if (!sp) = true then { s with data := s.data.reset } else s) := by
      split
      · refine ⟨?_, ?_⟩
        · have := (OStep.clear s.data.outbound) h.1
          exact this.1
        · unfold quotaOk
          simp only [SessionData.reset, clear_inflight]
          rcases h.2 with hd | hq
          · exact Or.inl hd
          · right; omega
      · exact h
    generalize (if (!sp) = true then { s with data := s.data.reset } else s) = s0 at h0 ⊢
    have hacc := foldl_inv (accInv maxInflight) (Session.connackStep maxInflight) (connackStep_accInv maxInflight)
      (iterEncoded block) (.ok (maxInflight, maxInflight, none, none, s0.rt.configuredKeepaliveMs, none))
      ⟨rfl, Nat.le_refl _⟩
    split
    · exact (handleDisconnect_quota s0 h0).2
    · rename_i sq msq mq mps ka cid heq
      rw [heq] at hacc
      simp only [accInv] at hacc
      unfold quotaOk
      simp only [Runtime.noteOutboundActivity]
      by_cases hd : sq < s0.data.outbound.inflightPublishes
      · left; simp [hd]
      · right; omega
  alloc := by
    intro s h
    have ho : s.alloc.1.data.outbound = s.data.outbound := by
      rw [Session.alloc_fst]; exact nextPacketId_outbound s.data
    have hr : s.alloc.1.rt = s.rt := by rw [Session.alloc_fst]
    refine ⟨by rw [ho]; exact h.1, ?_⟩
    unfold quotaOk; rw [ho, hr]; exact h.2
  encodeConnect := by
    intro s c h
    refine ⟨arena_of_closed h.1 (fun hp => (closed_ArenaP _).encodeConnect s c hp), ?_⟩
    refine quotaOk_same h.2 ?_ ?_
    · rw [Session.encode_fst]; exact ⟨rfl, rfl, rfl⟩
    · rw [Session.encode_fst]; exact encodeAt_inflight _ _ h.1.1 (EncOk_encodeConnect c)
  encodeAfterAlloc := by
    intro ε s enc he h
    refine ⟨arena_of_closed h.1 (fun hp => (closed_ArenaP _).encodeAfterAlloc s enc he hp), ?_⟩
    refine quotaOk_same h.2 ?_ ?_
    · rw [Session.encode_fst, Session.alloc_fst]; exact ⟨rfl, rfl, rfl⟩
    · rw [Session.encode_fst, Session.alloc_fst]
      simp only [Session.setOutbound]
      rw [nextPacketId_outbound]
      exact encodeAt_inflight _ _ h.1.1 he
  encodeScratch := by
    intro ε s enc he h
    refine ⟨arena_of_closed h.1 (fun hp => (closed_ArenaP _).encodeScratch s enc he hp), ?_⟩
    refine quotaOk_same h.2 ?_ ?_
    · rw [Session.encode_fst]; exact ⟨rfl, rfl, rfl⟩
    · rw [Session.encode_fst]; exact encodeAt_inflight _ _ h.1.1 he
  enqueue := by
    intro ε s enc off len isPub s3 typ he ht hiff h hquota hres hr
    refine ⟨arena_of_closed h.1 (fun hp => (closed_ArenaP _).enqueue s enc off len isPub s3 typ he ht hiff hp hquota hres hr), ?_⟩
    rw [Session.encode_fst, Session.alloc_fst, Session.alloc_snd] at hr
    rw [Session.encode_snd, Session.alloc_fst] at hres
    unfold Session.retain at hr
    split at hr
    · simp at hr
    · rename_i o ho
      simp only [Session.setOutbound] at ho hres
      rw [nextPacketId_outbound] at ho hres
      have hinf := retain_inflight s.data.outbound o enc h.1.1 he typ ht _ off len hres ho
      simp at hr; subst hr
      unfold quotaOk
      cases isPub with
      | true =>
        have hty : typ = MT_Publish := hiff.mp rfl
        have hnz := hquota rfl
        rw [if_pos hty] at hinf
        simp only [if_true, Session.setOutbound]
        rcases h.2 with hd | hq
        · exact Or.inl hd
        · right
          show s.rt.sendQuota - 1 + o.inflightPublishes ≤ s.rt.maxSendQuota
          omega
      | false =>
        have hty : typ ≠ MT_Publish := fun hh => by have := hiff.mpr hh; simp at this
        rw [if_neg hty] at hinf
        simp only [Bool.false_eq_true, if_false, Session.setOutbound]
        rcases h.2 with hd | hq
        · exact Or.inl hd
        · right
          show s.rt.sendQuota + o.inflightPublishes ≤ s.rt.maxSendQuota
          omega
  clearPing := by intro s h; exact ⟨h.1, quotaOk_same h.2 ⟨rfl, rfl, rfl⟩ rfl⟩
  noteActivity := by intro s now h; exact ⟨h.1, quotaOk_same h.2 ⟨rfl, rfl, rfl⟩ rfl⟩
  window := by
    intro s s' n h hw
    unfold Session.window at hw
    split at hw
    · simp at hw
    · simp at hw; rw [← hw.1]; exact h
  commit := by intro s bytes h; exact h
  beginConnect := by
    intro s h
    refine ⟨arena_of_closed h.1 (fun hp => (closed_ArenaP _).beginConnect s hp), ?_⟩
    refine quotaOk_same h.2 ⟨rfl, rfl, rfl⟩ ?_
    exact rearm_inflight _ h.1.1
  setPid := by intro s n _ _ h; exact h

end Minimq
