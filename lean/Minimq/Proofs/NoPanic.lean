import Minimq.Proofs.Exchange
import Minimq.Proofs.SessionFacts
import Minimq.Proofs.Ops
/-
C08, "the client never panics" — the two panic sites of the inbound path.

(a) `process_received_packet` ends in
    `Err(Error::InvalidRequest | Error::NotReady | Error::WriteZero) => unreachable!(…)`;
    the model passes every error of `handle_packet` it does not name through (`| .error e => (w, .error e)`).
    Part 1 shows which errors `handlePacket` can return at all: `Disconnected`, `Peer(InvalidPacket)`,
    `Peer(Rejected(rc))`, `Resource(PacketTooLarge)`, `Resource(InflightExhausted)` — for every session
    state and every packet, reachable or not. The suspected source of `InvalidRequest`
    (`checkSize` → `Err.ofSer .custom`) needs an encoder that fails with `Custom`; the encoders of the
    five-byte acknowledgements, of PUBREL and of PINGREQ never fail (`encodeControl_ok`, `encodePubrel_eq`).

(b) `decode_inbound_publish` decodes the first `packet_length` bytes of the receive buffer a second time
    and `expect`s a PUBLISH. In the model `World.deliver` does the same on `reader.last.take len` and prints
    `panic decode_inbound_publish` otherwise. Part 2 shows that the `len` `processReceivedPacket` returns
    always re-decodes to the very PUBLISH that was handled (`prp_redecode`: for every world, no reachability
    needed — `takePacket` leaves exactly the decoded bytes in `reader.last`, `handle` does not touch the
    reader, and only a PUBLISH makes `handlePacket` answer `Ok(true)`). Part 3 lifts this through the
    thirteen machine functions, `poll`, the directives and programs: no line of any trace starts with
    `panic`.
-/
namespace Minimq
open Gen World
namespace NoPanic

/-! ## Part 1: the errors of `handle_packet` -/

/-- The errors `handle_packet` can produce. -/
def Err.inboundKind : Err → Bool
  | .disconnected | .peerInvalid | .peerRejected _ | .packetTooLarge | .inflightExhausted => true
  | _ => false

/-- `encode_control_packet` never fails, whatever the action (the body is empty or the three bytes
identifier + reason code; the stack buffer has nine bytes). -/
theorem encodeControl_ok (a : ControlAction) : ∃ bs, encodeControl a = .ok bs := by
  unfold encodeControl
  simp only []
  split
  · have hb : catChunks ([] : List (Except SerErr Bytes)) = .ok [] := rfl
    rw [encodeWithOffset_complete hb (by decide) (by decide)]
    exact ⟨_, rfl⟩
  · rw [encodeWithOffset_complete (catChunks_ackChunks a.id a.rc) (by simp [u16be]; decide) (by simp [u16be]; decide)]
    exact ⟨_, rfl⟩

/-- `check_control_packet_size` fails with `PacketTooLarge` or not at all. -/
theorem checkSize_control_err {r : Runtime} {a : ControlAction} {e : Err}
    (h : checkSize r (encodeControl a) = .error e) : e = .packetTooLarge := by
  obtain ⟨bs, hb⟩ := encodeControl_ok a
  rw [hb] at h
  unfold checkSize at h
  simp only [] at h
  split at h
  · simp only [Except.error.injEq] at h; exact h.symm
  · cases h

/-- `check_pubrel_size` fails with `PacketTooLarge` or not at all. -/
theorem checkSize_pubrel_err {r : Runtime} {id rc : Nat} {e : Err}
    (h : checkSize r (encodePubrel id rc) = .error e) : e = .packetTooLarge := by
  rw [encodePubrel_eq] at h
  unfold checkSize at h
  simp only [] at h
  split at h
  · simp only [Except.error.injEq] at h; exact h.symm
  · cases h

theorem kind_of_tooLarge {e : Err} (h : e = .packetTooLarge) : Err.inboundKind e = true := by
  subst h; rfl

/-- **Every error of `handle_packet` is one of the five inbound kinds** — for every session state and
every packet. -/
theorem handlePacket_err_kind (d : SessionData) (r : Runtime) (p : Recv) (e : Err)
    (h : (handlePacket d r p).2.2 = .error e) : Err.inboundKind e = true := by
  unfold handlePacket at h
  simp only [] at h
  repeat' split at h
  all_goals first
    | (simp only [Except.error.injEq] at h; subst h
       first
         | rfl
         | exact kind_of_tooLarge (checkSize_control_err (by assumption))
         | exact kind_of_tooLarge (checkSize_pubrel_err (by assumption)))
    | cases h

/-- Only a PUBLISH makes `handle_packet` answer `Ok(true)`. -/
theorem handlePacket_true (d : SessionData) (r : Runtime) (p : Recv)
    (h : (handlePacket d r p).2.2 = .ok true) :
    ∃ topic id props payload retain qos dup, p = .publish topic id props payload retain qos dup := by
  cases p with
  | publish topic id props payload retain qos dup => exact ⟨_, _, _, _, _, _, _, rfl⟩
  | _ =>
    unfold handlePacket at h
    simp only [] at h
    repeat' split at h
    all_goals first
      | cases h
      | (simp only [Except.ok.injEq] at h; cases h)

/-- The same on the session: an error of `Session.handle` is one of the five inbound kinds. -/
theorem handle_err_kind (s : Session) (p : Recv) (e : Err) (h : (s.handle p).2 = .error e) :
    Err.inboundKind e = true :=
  handlePacket_err_kind s.data s.rt p e h

/-- **Every error of `process_received_packet` is one of the five inbound kinds**: the arm
`| .error e => (w, .error e)` of the model (the `unreachable!` arm and the two pass-through arms of the
code) is only ever taken with `Peer(Rejected(rc))` or `Resource(InflightExhausted)`. -/
theorem prp_err_kind (w : World) (e : Err) (h : (w.processReceivedPacket).2 = .error e) :
    Err.inboundKind e = true := by
  unfold World.processReceivedPacket at h
  split at h
  · cases h
  · simp only [] at h
    split at h
    · simp only [Except.error.injEq] at h; subst h; rfl
    · rename_i len pkt hres
      split at h
      · cases h
      · cases h
      · simp only [Except.error.injEq] at h; subst h; rfl
      · simp only [Except.error.injEq] at h; subst h; rfl
      · simp only [Except.error.injEq] at h; subst h; rfl
      · rename_i e' _ _ _ heq
        simp only [Except.error.injEq] at h; subst h
        exact handle_err_kind _ pkt _ heq

/-! ## Part 2: the second decode in `decode_inbound_publish` -/

/-- `take_packet` leaves in `last` exactly the bytes it decoded: decoding the first `l` bytes of `last`
again gives the same packet. -/
theorem takePacket_redecode (r : Reader) (l : Nat) (p : Recv) (h : r.takePacket.2 = some (l, p)) :
    fromBuffer (r.takePacket.1.last.take l) = some p := by
  unfold Reader.takePacket at h ⊢
  cases hp : r.packetLength with
  | none => simp [hp] at h
  | some l' =>
    simp only [hp] at h ⊢
    cases hf : fromBuffer (r.data.take l') with
    | none => simp [hf] at h
    | some q =>
      simp only [hf] at h ⊢
      simp only [Option.some.injEq, Prod.mk.injEq] at h
      obtain ⟨rfl, rfl⟩ := h
      rw [List.take_take, Nat.min_self]; exact hf

/-- **`process_received_packet` returned `Ok(Some(len))`**: the packet it took from the reader and handled
was a PUBLISH, and decoding the first `len` bytes the reader still holds gives that PUBLISH again. For
every world; nothing is assumed about how it was reached. -/
theorem prp_redecode {w w' : World} {len : Nat} (h : w.processReceivedPacket = (w', .ok (some len))) :
    ∃ topic id props payload retain qos dup,
      w.sess.takePkt.2 = some (len, .publish topic id props payload retain qos dup) ∧
      fromBuffer (w'.sess.reader.last.take len) = some (.publish topic id props payload retain qos dup) := by
  unfold World.processReceivedPacket at h
  split at h
  · cases h
  · simp only [] at h
    split at h
    · cases h
    · rename_i len' pkt hres
      split at h
      · rename_i heq
        simp only [Prod.mk.injEq, Except.ok.injEq, Option.some.injEq] at h
        obtain ⟨rfl, rfl⟩ := h
        obtain ⟨topic, id, props, payload, retain, qos, dup, rfl⟩ := handlePacket_true _ _ pkt heq
        exact ⟨topic, id, props, payload, retain, qos, dup, hres, takePacket_redecode _ _ _ hres⟩
      all_goals cases h

/-! ## Part 3: no trace line starts with `panic`

Every line the machine prints begins with a character other than `p` (`ret …`, `w …`, `wp …`, `f …`,
`r …`, `net …`, `msg …`, `reply …`, `owned …`, `dec …`, `s …`, `h …`, `c …`, `bad-op`, `cancel`, `drop`,
`fuel`, `spin`), except the one line of the fallback arm of `deliver`. -/

/-- The line does not start with `panic`. -/
def Good (l : String) : Prop := l.startsWith "panic" = false

/-- No line of the trace so far starts with `panic`. -/
def Clean (w : World) : Prop := ∀ l ∈ w.out, Good l

theorem good_of_head {l : String} {c : Char} (h : l.toList.head? = some c) (hc : c ≠ 'p') : Good l := by
  unfold Good
  rw [String.startsWith_string_eq_false_iff]
  intro hp
  obtain ⟨t, ht⟩ := hp
  rw [← ht] at h
  have : "panic".toList = ['p', 'a', 'n', 'i', 'c'] := by decide
  rw [this] at h
  simp only [List.cons_append, List.head?_cons, Option.some.injEq] at h
  exact hc h.symm

theorem head_append {a : String} (x : String) {c : Char} (h : a.toList.head? = some c) :
    (a ++ x).toList.head? = some c := by
  rw [String.toList_append]
  cases ha : a.toList with
  | nil => rw [ha] at h; cases h
  | cons y ys => rw [ha] at h; exact h

/-- The line the fallback arm prints is not `Good`: the invariant is not vacuous. -/
example : ¬ Good "panic decode_inbound_publish" := by
  unfold Good
  rw [String.startsWith_string_eq_false_iff]
  intro h
  exact h (by decide)

theorem Clean.of_out {w w' : World} (h : Clean w) (ho : w'.out = w.out) : Clean w' := by
  unfold Clean; rw [ho]; exact h

theorem Clean.emit {w : World} (h : Clean w) (l : String) (hl : Good l) : Clean (w.emit l) := by
  intro x hx
  rcases List.mem_cons.mp hx with rfl | hx
  · exact hl
  · exact h x hx

theorem Clean.foldl_emit {w : World} (ls : List String) (h : Clean w) (hl : ∀ l ∈ ls, Good l) :
    Clean (ls.foldl World.emit w) := by
  induction ls generalizing w with
  | nil => exact h
  | cons x xs ih => exact ih (h.emit x (hl x (by simp))) (fun l m => hl l (by simp [m]))

/-- `finish` with a line that begins with `r` (all its callers print `ret …`). -/
theorem Clean.finish {w : World} (h : Clean w) (line : String) (hl : line.toList.head? = some 'r') :
    Clean (w.finish line) :=
  (h.emit (s!"{line} @{w.now}")
    (good_of_head (c := 'r') (head_append _ (head_append _ hl)) (by decide))).of_out rfl

theorem Clean.finishErr {w : World} (h : Clean w) (op : String) (e : Err) : Clean (w.finishErr op e) :=
  (h.finish _ (by simp [toString])).of_out rfl

theorem Clean.finishOp {w : World} (h : Clean w) (name : String) (op : Op) : Clean (w.finishOp name op) :=
  Clean.finish (w := { w with handles := w.handles ++ [op] }) (h.of_out rfl) _ (by simp [toString])

theorem Clean.suspend {w : World} (h : Clean w) (pc : Pc) : Clean (w.suspend pc) := h.of_out rfl

theorem Clean.handleDisconnect {w : World} (h : Clean w) : Clean w.handleDisconnect := h.of_out rfl

theorem Clean.failStep {w : World} (h : Clean w) (ctx : StepCtx) (st : Outbound.Step) : Clean (w.failStep ctx st) :=
  h.of_out (failStep_out w ctx st)

theorem Clean.discFail {w : World} (h : Clean w) (ctx : StepCtx) : Clean (w.discFail ctx) :=
  h.of_out (discFail_out w ctx)

theorem Clean.discDone {w : World} (h : Clean w) (which : Nat) : Clean (w.discDone which) :=
  h.of_out (discDone_out w which)

theorem msgLines_good (topic payload : Bytes) (qos : Nat) (retain : Bool) (block : Bytes) :
    ∀ l ∈ msgLines topic payload qos retain block, Good l := by
  intro l hl
  unfold msgLines at hl
  simp only [List.mem_append, List.mem_cons, List.mem_map, List.not_mem_nil, or_false] at hl
  rcases hl with ((h | h | h) | ⟨⟨tc, cc⟩, _, h⟩) | h <;> subst h
  · exact good_of_head (c := 'm') (by simp [toString]) (by decide)
  · exact good_of_head (c := 'r') (by simp [toString]) (by decide)
  · exact good_of_head (c := 'r') (by simp [toString]) (by decide)
  · exact good_of_head (c := 'o') (by simp [toString]) (by decide)
  · exact good_of_head (c := 'o') (by simp [toString]) (by decide)

/-- When the first `len` bytes of what the reader holds decode to a PUBLISH, `deliver` prints the result
line and the message lines, and nothing else. -/
theorem deliver_of_publish (w : World) (name : String) (len : Nat) {topic props payload : Bytes}
    {id : Option Nat} {retain dup : Bool} {qos : Nat}
    (hd : fromBuffer (w.sess.reader.last.take len) = some (.publish topic id props payload retain qos dup)) :
    w.deliver name len =
      (msgLines topic payload qos retain props).foldl World.emit (w.finish s!"ret {name} ok msg") := by
  unfold World.deliver
  simp only []
  have : (w.finish s!"ret {name} ok msg").sess = w.sess := rfl
  rw [this, hd]

/-- `deliver` keeps the trace clean when the second decode yields a PUBLISH. -/
theorem Clean.deliver {w : World} (h : Clean w) (name : String) (len : Nat)
    (hd : ∃ topic id props payload retain qos dup,
      fromBuffer (w.sess.reader.last.take len) = some (.publish topic id props payload retain qos dup)) :
    Clean (w.deliver name len) := by
  obtain ⟨topic, id, props, payload, retain, qos, dup, hd⟩ := hd
  rw [deliver_of_publish w name len hd]
  exact Clean.foldl_emit _ (h.finish _ (by simp [toString])) (msgLines_good _ _ _ _ _)

/-! ### The I/O calls, `maybe_queue_pingreq`, `process_received_packet` -/

theorem ioWrite_clean {w w1 : World} {bs : Bytes} {r : WriteRes} (h : w.ioWrite bs = (w1, r)) (hc : Clean w) :
    Clean w1 := by
  unfold World.ioWrite at h
  cases hs : w.slot with
  | none =>
    rw [hs] at h; simp only [Prod.mk.injEq] at h; obtain ⟨rfl, rfl⟩ := h
    exact (hc.emit _ (good_of_head (c := 'w') (by simp [toString]) (by decide))).of_out rfl
  | some n =>
    rw [hs] at h; simp only [] at h
    repeat' split at h
    all_goals
      simp only [Prod.mk.injEq] at h; obtain ⟨rfl, rfl⟩ := h
      exact (Clean.emit (w := _) (hc.of_out rfl) _ (good_of_head (c := 'w') (by simp [toString]) (by decide))).of_out rfl

theorem ioFlush_clean {w w1 : World} {r : FlushRes} (h : w.ioFlush = (w1, r)) (hc : Clean w) : Clean w1 := by
  unfold World.ioFlush at h
  cases hs : w.slot with
  | none =>
    rw [hs] at h; simp only [Prod.mk.injEq] at h; obtain ⟨rfl, rfl⟩ := h
    exact (hc.emit _ (good_of_head (c := 'f') (by simp [toString]) (by decide))).of_out rfl
  | some n =>
    rw [hs] at h; simp only [] at h
    repeat' split at h
    all_goals
      simp only [Prod.mk.injEq] at h; obtain ⟨rfl, rfl⟩ := h
      exact (Clean.emit (w := _) (hc.of_out rfl) _ (good_of_head (c := 'f') (by simp [toString]) (by decide))).of_out rfl

theorem ioRead_clean {w w1 : World} {n : Nat} {r : ReadRes} (h : w.ioRead n = (w1, r)) (hc : Clean w) :
    Clean w1 := by
  unfold World.ioRead at h
  cases hs : w.slot with
  | none =>
    rw [hs] at h; simp only [Prod.mk.injEq] at h; obtain ⟨rfl, rfl⟩ := h
    exact (hc.emit _ (good_of_head (c := 'r') (by simp [toString]) (by decide))).of_out rfl
  | some k =>
    rw [hs] at h; simp only [] at h
    repeat' split at h
    all_goals
      simp only [Prod.mk.injEq] at h; obtain ⟨rfl, rfl⟩ := h
      exact (Clean.emit (w := _) (hc.of_out rfl) _ (good_of_head (c := 'r') (by simp [toString]) (by decide))).of_out rfl

theorem maybeQueuePingreq_out {w w' : World} {now : Nat} (h : w.maybeQueuePingreq now = .ok w') : w'.out = w.out := by
  unfold World.maybeQueuePingreq at h
  split at h
  · cases h
  · simp only [Except.ok.injEq] at h; subst h; rfl

theorem Clean.queuePing {w w' : World} {now : Nat} (h : Clean w) (hq : w.maybeQueuePingreq now = .ok w') :
    Clean w' := h.of_out (maybeQueuePingreq_out hq)

theorem prp_out (w : World) : (w.processReceivedPacket).1.out = w.out := by
  unfold World.processReceivedPacket
  split
  · rfl
  · simp only []
    split
    · rfl
    · split <;> rfl

theorem prp_clean {w w' : World} {res : Except Err (Option Nat)} (heq : w.processReceivedPacket = (w', res))
    (h : Clean w) : Clean w' := by
  have := prp_out w
  rw [heq] at this
  exact h.of_out this

theorem prp_redecode' {w w' : World} {len : Nat} (h : w.processReceivedPacket = (w', .ok (some len))) :
    ∃ topic id props payload retain qos dup,
      fromBuffer (w'.sess.reader.last.take len) = some (.publish topic id props payload retain qos dup) := by
  obtain ⟨topic, id, props, payload, retain, qos, dup, _, h2⟩ := prp_redecode h
  exact ⟨topic, id, props, payload, retain, qos, dup, h2⟩

/-! ### The thirteen machine functions -/

/-- The statement proved for all thirteen mutually recursive machine functions at once: each of them
keeps the trace free of `panic` lines. -/
def PMachine (fuel : Nat) : Prop :=
  (∀ w k, Clean w → Clean (flushLoop fuel w k)) ∧
  (∀ w ctx step now, Clean w → Clean (performStep fuel w ctx step now)) ∧
  (∀ w ctx pkt bytes wr len now, Clean w → Clean (doStepWrite fuel w ctx pkt bytes wr len now)) ∧
  (∀ w ctx pkt now, Clean w → Clean (doStepFlush fuel w ctx pkt now)) ∧
  (∀ w ctx adv, Clean w → Clean (stepReturned fuel w ctx adv)) ∧
  (∀ w k, Clean w → Clean (afterFlush fuel w k)) ∧
  (∀ w which bytes, Clean w → Clean (doLocalWrite fuel w which bytes)) ∧
  (∀ w which, Clean w → Clean (doLocalFlush fuel w which)) ∧
  (∀ w, Clean w → Clean (doConnRead fuel w)) ∧
  (∀ w o adv, Clean w → Clean (driveLoop fuel w o adv)) ∧
  (∀ w o adv, Clean w → Clean (driveAfterService fuel w o adv)) ∧
  (∀ w o, Clean w → Clean (driveEnter fuel w o)) ∧
  (∀ w o d y, Clean w → Clean (doWaitRead fuel w o d y))

theorem pmachine_zero : PMachine 0 := by
  refine ⟨?_, ?_, ?_, ?_, ?_, ?_, ?_, ?_, ?_, ?_, ?_, ?_, ?_⟩ <;> intros <;>
    simp only [flushLoop, performStep, doStepWrite, doStepFlush, stepReturned, afterFlush, doLocalWrite, doLocalFlush,
      doConnRead, driveLoop, driveAfterService, driveEnter, doWaitRead] <;>
    exact Clean.emit (by assumption) _ (good_of_head (c := 'f') (by decide) (by decide))

theorem pstep_stepReturned (fuel : Nat) (ih : PMachine fuel) :
    ∀ w ctx adv, Clean w → Clean (stepReturned (fuel + 1) w ctx adv) := by
  intro w ctx adv h
  obtain ⟨i1, _, _, _, _, _, _, _, _, _, i11, _, _⟩ := ih
  unfold stepReturned
  split
  · exact i1 _ _ h
  · exact i11 _ _ _ h

theorem pstep_doStepFlush (fuel : Nat) (ih : PMachine fuel) :
    ∀ w ctx pkt now, Clean w → Clean (doStepFlush (fuel + 1) w ctx pkt now) := by
  intro w ctx pkt now h
  obtain ⟨_, _, _, _, i5, _⟩ := ih
  simp only [doStepFlush]
  split
  · exact (ioFlush_clean (by assumption) h).suspend _
  · exact ((ioFlush_clean (by assumption) h).handleDisconnect).finishErr _ _
  · rename_i w' heq
    have h1 := ioFlush_clean heq h
    exact i5 _ _ _ (h1.of_out rfl)

theorem pstep_doStepWrite (fuel : Nat) (ih : PMachine fuel) :
    ∀ w ctx pkt bytes wr len now, Clean w → Clean (doStepWrite (fuel + 1) w ctx pkt bytes wr len now) := by
  intro w ctx pkt bytes wr len now h
  obtain ⟨_, _, _, i4, i5, _⟩ := ih
  simp only [doStepWrite]
  split
  · exact (ioWrite_clean (by assumption) h).suspend _
  · exact ((ioWrite_clean (by assumption) h).discFail _).finishErr _ _
  · exact ((ioWrite_clean (by assumption) h).handleDisconnect).finishErr _ _
  · rename_i w' count heq
    have h2 : Clean (w'.setWritten pkt (wr + count) len) := (ioWrite_clean heq h).of_out rfl
    split
    · exact i5 _ _ _ h2
    · exact i4 _ _ _ _ h2

theorem pstep_performStep (fuel : Nat) (ih : PMachine fuel) :
    ∀ w ctx step now, Clean w → Clean (performStep (fuel + 1) w ctx step now) := by
  intro w ctx step now h
  obtain ⟨_, _, i3, i4, i5, _⟩ := ih
  simp only [performStep]
  split
  · exact (h.failStep _ _).finishErr _ _
  · exact i5 _ _ _ h
  · split
    · exact (h.discFail _).finishErr _ _
    · exact i4 _ _ _ _ h
  · split
    · exact (h.discFail _).finishErr _ _
    · exact i3 _ _ _ _ _ _ _ h

theorem pstep_flushLoop (fuel : Nat) (ih : PMachine fuel) :
    ∀ w k, Clean w → Clean (flushLoop (fuel + 1) w k) := by
  intro w k h
  obtain ⟨_, i2, _, _, _, i6, _⟩ := ih
  simp only [flushLoop]
  split
  · exact (h.discFail _).finishErr _ _
  · rename_i w' heq
    have h' := h.queuePing heq
    split
    · exact i6 _ _ h'
    · exact i2 _ _ _ _ h'

theorem pstep_driveEnter (fuel : Nat) (ih : PMachine fuel) :
    ∀ w o, Clean w → Clean (driveEnter (fuel + 1) w o) := by
  intro w o h
  obtain ⟨_, _, _, _, _, _, _, _, _, i10, _⟩ := ih
  simp only [driveEnter]
  split
  · exact h.finishErr _ _
  · exact i10 _ _ _ h

theorem pstep_doLocalFlush (fuel : Nat) (ih : PMachine fuel) :
    ∀ w which, Clean w → Clean (doLocalFlush (fuel + 1) w which) := by
  intro w which h
  obtain ⟨_, _, _, _, _, _, _, _, i9, _⟩ := ih
  simp only [doLocalFlush]
  split
  · exact (ioFlush_clean (by assumption) h).suspend _
  · rename_i w' kk heq
    have h1 := ioFlush_clean heq h
    split
    · exact h1.finishErr _ _
    · split <;> exact (h1.handleDisconnect).finishErr _ _
  · rename_i w' heq
    have h1 := ioFlush_clean heq h
    split
    · exact i9 _ (h1.of_out rfl)
    · split
      · exact Clean.finish (w := { w' with sess := w'.sess.noteActivity w'.now }) (h1.of_out rfl) _ (by decide)
      · exact (h1.handleDisconnect).finish _ (by decide)

theorem pstep_doLocalWrite (fuel : Nat) (ih : PMachine fuel) :
    ∀ w which bytes, Clean w → Clean (doLocalWrite (fuel + 1) w which bytes) := by
  intro w which bytes h
  obtain ⟨_, _, _, _, _, _, i7, i8, _⟩ := ih
  simp only [doLocalWrite]
  split
  · exact i8 _ _ (h.discDone _)
  · split
    · exact (ioWrite_clean (by assumption) h).suspend _
    · exact i7 _ _ _ (ioWrite_clean (by assumption) h)
    · rename_i w' heq
      have h1 := ioWrite_clean heq h
      split
      · exact h1.finishErr _ _
      · split <;> exact (h1.handleDisconnect).finishErr _ _
    · rename_i w' kk heq
      have h1 := ioWrite_clean heq h
      split
      · exact h1.finishErr _ _
      · split <;> exact (h1.handleDisconnect).finishErr _ _

theorem clean_activate (w : World) (sp : Bool) (block : Bytes) (h : Clean w) : Clean (World.activate w sp block) := by
  unfold World.activate
  split
  · exact Clean.finishErr (w := { w with sess := _, conn := _ }) (h.of_out rfl) _ _
  · exact Clean.finish (w := { w with sess := _, conn := _ }) (h.of_out rfl) _ (by simp [toString])

theorem clean_connectGotPacket (w : World) (h : Clean w) : Clean (World.connectGotPacket w) := by
  have h0 : Clean ({ w with sess := w.sess.takePkt.1 } : World) := h.of_out rfl
  unfold World.connectGotPacket
  simp only []
  split
  · exact (h0.handleDisconnect).finishErr _ _
  · split
    · exact h0.finishErr _ _
    · exact clean_activate _ _ _ h0
  · exact (h0.handleDisconnect).finishErr _ _
  · exact (h0.handleDisconnect).finishErr _ _

theorem pstep_doConnRead (fuel : Nat) (ih : PMachine fuel) :
    ∀ w, Clean w → Clean (doConnRead (fuel + 1) w) := by
  intro w h
  obtain ⟨_, _, _, _, _, _, _, _, i9, _⟩ := ih
  simp only [doConnRead]
  split
  · exact clean_connectGotPacket _ h
  · split
    · exact (h.handleDisconnect).finishErr _ _
    · rename_i s1 window hw
      have h1 : Clean ({ w with sess := s1 } : World) := h.of_out rfl
      split
      · exact clean_connectGotPacket _ h1
      · split
        · exact (ioRead_clean (by assumption) h1).suspend _
        · exact ((ioRead_clean (by assumption) h1).handleDisconnect).finishErr _ _
        · exact ((ioRead_clean (by assumption) h1).handleDisconnect).finishErr _ _
        · rename_i w' bytes heq
          have h2 := ioRead_clean heq h1
          exact i9 _ (h2.of_out rfl)

theorem pstep_doWaitRead (fuel : Nat) (ih : PMachine fuel) :
    ∀ w o d y, Clean w → Clean (doWaitRead (fuel + 1) w o d y) := by
  intro w o d y h
  obtain ⟨_, _, _, _, _, _, _, _, _, _, _, i12, i13⟩ := ih
  simp only [doWaitRead]
  split
  · exact i12 _ _ h
  · split
    · exact (h.handleDisconnect).finishErr _ _
    · rename_i s1 window hw
      have h1 : Clean ({ w with sess := s1 } : World) := h.of_out rfl
      split
      · exact i12 _ _ h1
      · split
        · exact ((ioRead_clean (by assumption) h1).handleDisconnect).finishErr _ _
        · exact ((ioRead_clean (by assumption) h1).handleDisconnect).finishErr _ _
        · rename_i w' bytes heq
          have h2 := ioRead_clean heq h1
          exact i13 _ _ _ _ (h2.of_out rfl)
        · rename_i w' heq
          have h2 := ioRead_clean heq h1
          split
          · exact h2.suspend _
          · split
            · split
              · exact i12 _ _ h2
              · split
                · exact (Clean.emit (w := { w' with wakes := w'.wakes + 1 }) (h2.of_out rfl) _
                    (good_of_head (c := 's') (by decide) (by decide))).suspend _
                · exact i13 _ _ _ _ (h2.of_out rfl)
            · exact h2.suspend _

theorem pstep_driveLoop (fuel : Nat) (ih : PMachine fuel) :
    ∀ w o adv, Clean w → Clean (driveLoop (fuel + 1) w o adv) := by
  intro w o adv h
  obtain ⟨_, i2, _, _, _, _, _, _, _, i10, i11, _, _⟩ := ih
  simp only [driveLoop]
  split
  · split
    · rename_i w' e heq; exact (prp_clean heq h).finishErr _ _
    · rename_i w' len heq; exact (prp_clean heq h).deliver _ _ (prp_redecode' heq)
    · rename_i w' heq; exact i10 _ _ _ (prp_clean heq h)
  · repeat' split
    all_goals first
      | exact (h.handleDisconnect).finishErr _ _
      | exact h.finishErr _ _
      | exact i11 _ _ _ (h.queuePing (by assumption))
      | exact i2 _ _ _ _ (h.queuePing (by assumption))

theorem pstep_driveAfterService (fuel : Nat) (ih : PMachine fuel) :
    ∀ w o adv, Clean w → Clean (driveAfterService (fuel + 1) w o adv) := by
  intro w o adv h
  obtain ⟨_, _, _, _, _, _, _, _, _, i10, _, i12, i13⟩ := ih
  unfold driveAfterService
  split
  · split
    · rename_i w' e heq; exact (prp_clean heq h).finishErr _ _
    · rename_i w' len heq; exact (prp_clean heq h).deliver _ _ (prp_redecode' heq)
    · rename_i w' heq; exact i10 _ _ _ (prp_clean heq h)
  · split
    · split
      · split
        · exact h.finish _ (by decide)
        · exact h.finish _ (by decide)
        · exact i12 _ _ h
      · split
        · exact h.finish _ (by decide)
        · exact i13 _ _ _ _ h
    · exact i10 _ _ _ h

theorem pstep_afterFlush (fuel : Nat) (ih : PMachine fuel) :
    ∀ w k, Clean w → Clean (afterFlush (fuel + 1) w k) := by
  intro w k h
  obtain ⟨i1, _, _, _, _, _, i7, _⟩ := ih
  unfold afterFlush
  cases k with
  | post name op => exact h.finishOp _ _
  | discPre d =>
    simp only []
    repeat' split
    all_goals first
      | exact h.finishErr _ _
      | exact i7 _ _ _ h
  | subPre r =>
    simp only []
    repeat' split
    all_goals first
      | exact h.finishErr _ _
      | exact Clean.finishErr (w := { w with sess := _ }) (h.of_out rfl) _ _
      | exact i1 _ _ (h.of_out rfl)
  | unsubPre r =>
    simp only []
    repeat' split
    all_goals first
      | exact h.finishErr _ _
      | exact Clean.finishErr (w := { w with sess := _ }) (h.of_out rfl) _ _
      | exact i1 _ _ (h.of_out rfl)
  | publishPre r =>
    simp only []
    repeat' split
    all_goals first
      | exact h.finishErr _ _
      | exact Clean.finishErr (w := { w with sess := _ }) (h.of_out rfl) _ _
      | exact i1 _ _ (h.of_out rfl)
      | exact i7 _ _ _ (h.of_out rfl)

theorem pmachine : ∀ fuel, PMachine fuel := by
  intro fuel
  induction fuel with
  | zero => exact pmachine_zero
  | succ fuel ih =>
    exact ⟨pstep_flushLoop fuel ih, pstep_performStep fuel ih, pstep_doStepWrite fuel ih,
      pstep_doStepFlush fuel ih, pstep_stepReturned fuel ih, pstep_afterFlush fuel ih,
      pstep_doLocalWrite fuel ih, pstep_doLocalFlush fuel ih, pstep_doConnRead fuel ih,
      pstep_driveLoop fuel ih, pstep_driveAfterService fuel ih, pstep_driveEnter fuel ih,
      pstep_doWaitRead fuel ih⟩

/-! ### POLL, the directives, programs -/

theorem clean_poll (w : World) (h : Clean w) : Clean (World.poll w) := by
  obtain ⟨_, _, i3, i4, _, _, i7, i8, i9, _, _, _, i13⟩ := pmachine pollFuel
  unfold World.poll
  simp only []
  split
  · exact h.of_out rfl
  · have h1 : Clean ({ ({ w with wakes := 0, lastIoStarved := false } : World) with fut := none } : World) :=
      h.of_out rfl
    split
    · exact i3 _ _ _ _ _ _ _ h1
    · exact i4 _ _ _ _ h1
    · exact i7 _ _ _ h1
    · exact i8 _ _ h1
    · exact i9 _ h1
    · exact i7 _ _ _ h1
    · exact i8 _ _ h1
    · exact i7 _ _ _ h1
    · exact i8 _ _ h1
    · exact i13 _ _ _ _ h1

theorem clean_goLoop (n : Nat) (w : World) (h : Clean w) : Clean (World.goLoop n w) := by
  induction n generalizing w with
  | zero => exact h.emit _ (good_of_head (c := 's') (by decide) (by decide))
  | succ n ih =>
    simp only [World.goLoop]
    have h1 : Clean ({ World.poll { w with slot := some 250 } with slot := none } : World) :=
      (clean_poll { w with slot := some 250 } (h.of_out rfl)).of_out rfl
    repeat' split
    all_goals first
      | exact h1
      | exact ih _ h1

theorem clean_cancelFut (w : World) (h : Clean w) : Clean w.cancelFut := by
  unfold World.cancelFut
  split
  · exact (h.emit _ (good_of_head (c := 'c') (by decide) (by decide))).of_out rfl
  · exact h

theorem clean_dropConn (w : World) (h : Clean w) : Clean w.dropConn := by
  have h1 := clean_cancelFut w h
  unfold World.dropConn
  simp only []
  split
  · exact (h1.emit _ (good_of_head (c := 'd') (by decide) (by decide))).of_out rfl
  · exact h1

theorem clean_startConnect (w : World) (h : Clean w) : Clean w.startConnect := by
  obtain ⟨_, _, _, _, _, _, i7, _⟩ := pmachine pollFuel
  have hd := clean_dropConn w h
  have h2 : Clean (({ w.dropConn with nets := w.dropConn.nets ++ [({ } : Net)] } : World).emit
      s!"net {({ w.dropConn with nets := w.dropConn.nets ++ [({ } : Net)] } : World).netIdx} open") :=
    Clean.emit (w := { w.dropConn with nets := w.dropConn.nets ++ [({ } : Net)] }) (hd.of_out rfl) _
      (good_of_head (c := 'n') (by simp [toString]) (by decide))
  unfold World.startConnect
  simp only []
  split
  · exact Clean.finishErr (h2.of_out rfl) _ _
  · exact i7 _ _ _ (h2.of_out rfl)

theorem clean_startOp (w : World) (name : String) (body : World → World)
    (hb : ∀ w', Clean w' → Clean (body w')) (h : Clean w) : Clean (w.startOp name body) := by
  unfold World.startOp
  split
  · exact h.emit _ (good_of_head (c := 'r') (by simp [toString]) (by decide))
  · exact hb _ ((clean_cancelFut w h).of_out rfl)

theorem decodeLine_good (bs : Bytes) : Good (decodeLine bs) := by
  unfold decodeLine
  exact good_of_head (c := 'd') (head_append _ (by decide)) (by decide)

theorem good_badOp : Good "bad-op" := good_of_head (c := 'b') (by decide) (by decide)

/-- **Every directive keeps the trace free of `panic` lines.** -/
theorem clean_execDirective (w : World) (d : Directive) (h : Clean w) : Clean (w.execDirective d) := by
  obtain ⟨i1, _, _, _, _, _, _, _, _, _, _, i12, _⟩ := pmachine pollFuel
  cases d with
  | bad => exact h.emit _ good_badOp
  | connect => exact clean_startConnect w h
  | publish r =>
    simp only [World.execDirective]
    apply clean_startOp w _ _ _ h
    intro w' hw'
    split
    · exact hw'.finishErr _ _
    · exact i1 _ _ hw'
  | subscribe r =>
    simp only [World.execDirective]
    apply clean_startOp w _ _ _ h
    intro w' hw'
    repeat' split
    all_goals first
      | exact hw'.finishErr _ _
      | exact i1 _ _ hw'
  | unsubscribe r =>
    simp only [World.execDirective]
    apply clean_startOp w _ _ _ h
    intro w' hw'
    repeat' split
    all_goals first
      | exact hw'.finishErr _ _
      | exact i1 _ _ hw'
  | disconnect dd =>
    simp only [World.execDirective]
    apply clean_startOp w _ _ _ h
    intro w' hw'
    split
    · exact hw'.finish _ (by decide)
    · repeat' split
      all_goals first
        | exact hw'.finishErr _ _
        | exact i1 _ _ hw'
  | poll =>
    simp only [World.execDirective]
    exact clean_startOp w _ _ (fun w' hw' => i12 _ _ hw') h
  | recv =>
    simp only [World.execDirective]
    exact clean_startOp w _ _ (fun w' hw' => i12 _ _ hw') h
  | drive =>
    simp only [World.execDirective]
    exact clean_startOp w _ _ (fun w' hw' => i12 _ _ hw') h
  | d n =>
    simp only [World.execDirective]
    split
    · exact h.emit _ good_badOp
    · exact (clean_poll { w with slot := some n } (h.of_out rfl)).of_out rfl
  | go =>
    simp only [World.execDirective]
    split
    · exact h.emit _ good_badOp
    · exact clean_goLoop _ _ h
  | tick us =>
    simp only [World.execDirective]
    split
    · exact h.emit _ good_badOp
    · split
      · exact clean_poll _ (h.of_out rfl)
      · exact h.of_out rfl
  | rx bytes =>
    simp only [World.execDirective]
    split
    · exact h.emit _ good_badOp
    · exact h.of_out rfl
  | cancel => exact clean_cancelFut w h
  | drop => exact clean_dropConn w h
  | setpid n =>
    simp only [World.execDirective]
    split
    · exact h.emit _ good_badOp
    · exact h.of_out rfl
  | decode bs => exact h.emit _ (decodeLine_good bs)

theorem clean_init (cfg : Cfg) : Clean ({ sess := Session.new cfg } : World) := by
  intro l hl; cases hl

/-- **Every run of directives keeps the trace free of `panic` lines.** -/
theorem clean_run (ds : List Directive) (w : World) (h : Clean w) : Clean (ds.foldl World.execDirective w) := by
  induction ds generalizing w with
  | nil => exact h
  | cons d ds ih => simp only [List.foldl]; exact ih _ (clean_execDirective w d h)

theorem clean_emitState (w : World) (h : Clean w) : Clean w.emitState := by
  unfold World.emitState
  refine ((h.emit _ ?_).emit _ ?_).emit _ ?_
  · unfold stateLine
    exact good_of_head (c := 's') (by simp [toString]) (by decide)
  · unfold handleLine
    split
    · exact good_of_head (c := 'h') (by decide) (by decide)
    · exact good_of_head (c := 'h') (head_append _ (by decide)) (by decide)
  · unfold capLine
    exact good_of_head (c := 'c') (by simp [toString]) (by decide)

theorem clean_exec (w : World) (line : String) (h : Clean w) : Clean (w.exec line) :=
  clean_emitState _ (clean_execDirective w _ h)

/-- The same for program lines (each line is executed and followed by the three state lines). -/
theorem clean_program (ls : List String) (w : World) (h : Clean w) : Clean (ls.foldl World.exec w) := by
  induction ls generalizing w with
  | nil => exact h
  | cons l ls ih => simp only [List.foldl]; exact ih _ (clean_exec w l h)

/-- **No line of the trace of any program text starts with `panic`.** -/
theorem runProgram_good (text : String) : ∀ l ∈ runProgram text, Good l := by
  unfold runProgram
  simp only []
  have hb : ∀ l ∈ ["bad-cfg"], Good l := by
    intro l hl; simp only [List.mem_singleton] at hl; subst hl
    exact good_of_head (c := 'b') (by decide) (by decide)
  have hc : ∀ l ∈ ["cfgerr InvalidConfig"], Good l := by
    intro l hl; simp only [List.mem_singleton] at hl; subst hl
    exact good_of_head (c := 'c') (by decide) (by decide)
  split
  · exact hb
  · repeat' split
    all_goals first
      | exact hb
      | exact hc
      | (intro l hl
         exact clean_program _ _ (clean_init _) l (List.mem_reverse.mp hl))

end NoPanic
end Minimq
