import Minimq.Proofs.Quota
/-
Every packet kept in the transmit arena is one complete, framed MQTT packet (header byte, canonical
remaining length, exactly that many bytes) — in every reachable state.
-/
namespace Minimq
open Gen World Outbound

def Outbound.FramedInv (o : Outbound) : Prop := ∀ bs ∈ o.contents, Framed bs

theorem Framed_setDup (bs : Bytes) (h : Framed bs) : Framed (setDup bs) := by
  obtain ⟨hdr, body, rfl, hb⟩ := h
  exact ⟨dupByte hdr, body, rfl, hb⟩

theorem contents_of_layout {buf : Bytes} {es es' : List RetainedPacket} (h : layout es' = layout es) :
    contents buf es' = contents buf es := by
  have := congrArg (List.map (fun (t : Nat × Nat) => slice buf t.1 t.2)) h
  simp only [layout, List.map_map] at this
  exact this

theorem FramedInv_same {o o' : Outbound} (h : o.FramedInv) (hb : o'.buf = o.buf)
    (hl : layout o'.retained = layout o.retained) : o'.FramedInv := by
  intro bs hbs
  apply h
  simp only [Outbound.contents] at hbs ⊢
  rw [hb, contents_of_layout hl] at hbs
  exact hbs

theorem layout_of_offsets4 {es es' : List RetainedPacket}
    (h : es'.map (fun e => (e.ser, e.id, e.offset, e.len)) = es.map (fun e => (e.ser, e.id, e.offset, e.len))) :
    layout es' = layout es := by
  have := congrArg (List.map (fun (t : Nat × Nat × Nat × Nat) => t.2.2)) h
  simp only [List.map_map] at this
  exact this

theorem queueControl_framed {o o' : Outbound} {a : ControlAction} (h : o.queueControl a = some o') (hf : o.FramedInv) :
    o'.FramedInv := by
  unfold Outbound.queueControl at h
  split at h
  · simp at h
  · simp at h; subst h; exact FramedInv_same hf rfl rfl

theorem queueRelease_framed {o o' : Outbound} {id rc ps : Nat} (h : o.queueRelease id rc ps = some o') (hf : o.FramedInv) :
    o'.FramedInv := by
  unfold Outbound.queueRelease at h
  split at h
  · simp at h
  · simp at h; subst h; exact FramedInv_same hf rfl rfl

theorem ackRelease_framed (o : Outbound) (id : Nat) (hf : o.FramedInv) : (o.ackRelease id).1.FramedInv := by
  unfold Outbound.ackRelease
  split
  · exact FramedInv_same hf rfl rfl
  · exact hf

theorem ackPacket_framed (o : Outbound) (id : Nat) (k : AckKind) (h : o.ArenaInv) (hf : o.FramedInv) :
    (o.ackPacket id k).1.FramedInv := by
  obtain ⟨_, ht, hn, _⟩ := ackPacket_spec o id k h
  cases hfound : (o.ackPacket id k).2 with
  | false => rw [hn hfound]; exact hf
  | true =>
    obtain ⟨hc, _⟩ := ht hfound
    intro bs hbs
    rw [hc] at hbs
    apply hf
    simp only [contents, Outbound.contents, List.mem_map] at hbs ⊢
    obtain ⟨e, he, rfl⟩ := hbs
    exact ⟨e, (removeFirst_sublist _ _).subset he, rfl⟩

theorem armReplay_framed (o : Outbound) (h : o.ArenaInv) (hf : o.FramedInv) : o.armReplay.FramedInv := by
  obtain ⟨_, hc, _⟩ := armReplay_spec o h
  rcases hc with hc | ⟨he, _⟩
  · intro bs hbs
    rw [hc, List.mem_map] at hbs
    obtain ⟨x, hx, rfl⟩ := hbs
    exact Framed_setDup x (hf x hx)
  · rw [he]; exact hf

theorem rearm_framed (o : Outbound) (h : o.ArenaInv) (hf : o.FramedInv) : o.rearm.FramedInv := by
  have hd : o.dropPingreq.ArenaInv := ArenaInv_of_layout h rfl rfl rfl
  exact armReplay_framed _ hd (FramedInv_same hf rfl rfl)

theorem encodeAt_framed {ε : Type} (o : Outbound) (enc : Nat → (Nat → Nat → Bytes) → Except ε (Nat × Bytes))
    (h : o.ArenaInv) (he : EncOk enc) (hf : o.FramedInv) : (o.encodeAt enc).1.FramedInv := by
  obtain ⟨_, hc, _⟩ := encodeAt_spec o enc h he
  intro bs hbs; rw [hc] at hbs; exact hf bs hbs

theorem retain_framed {ε : Type} (o o' : Outbound) (enc : Nat → (Nat → Nat → Bytes) → Except ε (Nat × Bytes))
    (h : o.ArenaInv) (he : EncOk enc) (hf : o.FramedInv) (id off len : Nat)
    (hres : (o.encodeAt enc).2 = .ok (off, len))
    (hr : (o.encodeAt enc).1.retainPacket id off len = some o') : o'.FramedInv := by
  obtain ⟨hi, hc, _, _, hbl, _, _, _, hpos⟩ := encodeAt_spec o enc h he
  obtain ⟨p1, p2, p3⟩ := hpos off len hres
  obtain ⟨_, rc, _⟩ := retainPacket_spec _ o' id off len hi p1 (by rw [hbl]; exact p2) p3 hr
  obtain ⟨off0, pkt, hpk, hsl, _⟩ := encodeAt_packet o enc h he off len hres
  obtain ⟨_, _, hfr⟩ := he _ _ _ _ (fun i n => slice_length_le _ _ _) hpk
  intro bs hbs
  rw [rc, hc, List.mem_append, List.mem_singleton] at hbs
  rcases hbs with hbs | rfl
  · exact hf bs hbs
  · rw [hsl]; exact hfr

theorem handlePacket_framed (d : SessionData) (r : Runtime) (p : Recv) (ha : d.outbound.ArenaInv)
    (hf : d.outbound.FramedInv) : (handlePacket d r p).1.outbound.FramedInv := by
  have hack := fun id k => ackPacket_framed d.outbound id k ha hf
  cases p with
  | connAck sp rc props => exact hf
  | pingResp => exact hf
  | disconnect rc props => exact hf
  | subAck id props codes =>
    simp only [handlePacket]
    split
    · exact hf
    · split <;> exact hack id .subAck
  | unsubAck id props codes =>
    simp only [handlePacket]
    split
    · exact hf
    · split <;> exact hack id .unsubAck
  | pubAck id rs =>
    simp only [handlePacket]
    split
    · exact hf
    · split <;> exact hack id .pubAck
  | pubComp id rs =>
    simp only [handlePacket]
    split
    · exact hf
    · split <;> exact ackRelease_framed _ _ hf
  | pubRec id rs =>
    simp only [handlePacket]
    split
    · split
      · exact hack id .pubRec
      · split
        · exact hack id .pubRec
        · split
          · exact hack id .pubRec
          · rename_i o' hq
            exact queueRelease_framed hq (hack id .pubRec)
    · split
      · split <;> exact hf
      · exact hf
  | pubRel id rs =>
    simp only [handlePacket]
    repeat' split
    all_goals first
      | exact hf
      | exact queueControl_framed (by assumption) hf
  | publish topic id props payload retain qos dup =>
    simp only [handlePacket]
    repeat' split
    all_goals first
      | exact hf
      | exact queueControl_framed (by assumption) hf

/-- The invariant lifted to all executions. -/
def FramedP (s : Session) : Prop :=
  (s.data.outbound.ArenaInv ∧ s.data.outbound.SerInv) ∧ s.data.outbound.FramedInv

theorem closed_FramedP : Closed FramedP where
  queuePing := by
    intro s now s' h hq
    refine ⟨arena_of_closed h.1 (fun hp => (closed_ArenaP _).queuePing s now s' hp hq), ?_⟩
    rcases Session.queuePing_ok hq with rfl | ⟨o, ho, rfl⟩
    · exact h.2
    · exact queueControl_framed ho h.2
  completeFlush := by
    intro s pkt now h
    refine ⟨arena_of_closed h.1 (fun hp => (closed_ArenaP _).completeFlush s pkt now hp), ?_⟩
    simp only [Session.completeFlush, Session.setOutbound]
    cases pkt <;> simp only []
    · exact FramedInv_same h.2 rfl rfl
    · exact FramedInv_same h.2 rfl rfl
    · exact FramedInv_same h.2 rfl (layout_of_offsets4 (map_modifyFirst_state _ (fun _ => .sent) _))
  setWritten := by
    intro s pkt a c h
    refine ⟨arena_of_closed h.1 (fun hp => (closed_ArenaP _).setWritten s pkt a c hp), ?_⟩
    simp only [Session.setWritten, Session.setOutbound]
    cases pkt <;> simp only []
    · exact FramedInv_same h.2 rfl rfl
    · exact FramedInv_same h.2 rfl rfl
    · exact FramedInv_same h.2 rfl (layout_of_offsets4 (map_modifyFirst_state _ (fun _ => SendState.afterWrite a c) _))
  takePkt := by
    intro s h
    have := Session.takePkt_data s
    unfold FramedP
    rw [this.1]; exact h
  handle := by
    intro s p h
    refine ⟨arena_of_closed h.1 (fun hp => (closed_ArenaP _).handle s p hp), ?_⟩
    rw [Session.handle_fst_data]
    exact handlePacket_framed s.data s.rt p h.1.1 h.2
  handleDisconnect := by
    intro s h
    exact ⟨arena_of_closed h.1 (fun hp => (closed_ArenaP _).handleDisconnect s hp), rearm_framed _ h.1.1 h.2⟩
  activate := by
    intro s sp block now h
    refine ⟨arena_of_closed h.1 (fun hp => (closed_ArenaP _).activate s sp block now hp), ?_⟩
    unfold Session.activate
    simp only []
    have h0 : FramedP (if (!sp) = true then { s with data := s.data.reset } else s) := by
      split
      · exact ⟨((OStep.clear s.data.outbound) h.1).1, by intro bs hbs; simp [SessionData.reset, Outbound.contents, Outbound.clear, contents] at hbs⟩
      · exact h
    generalize (if (!sp) = true then { s with data := s.data.reset } else s) = s0 at h0 ⊢
    split
    · exact rearm_framed _ h0.1.1 h0.2
    · exact h0.2
  alloc := by
    intro s h
    have ho : s.alloc.1.data.outbound = s.data.outbound := by
      rw [Session.alloc_fst]; exact nextPacketId_outbound s.data
    unfold FramedP; rw [ho]; exact h
  encodeConnect := by
    intro s c h
    refine ⟨arena_of_closed h.1 (fun hp => (closed_ArenaP _).encodeConnect s c hp), ?_⟩
    rw [Session.encode_fst]; exact encodeAt_framed _ _ h.1.1 (EncOk_encodeConnect c) h.2
  encodeAfterAlloc := by
    intro ε s enc he h
    refine ⟨arena_of_closed h.1 (fun hp => (closed_ArenaP _).encodeAfterAlloc s enc he hp), ?_⟩
    rw [Session.encode_fst, Session.alloc_fst]
    simp only [Session.setOutbound]
    rw [nextPacketId_outbound]
    exact encodeAt_framed _ _ h.1.1 he h.2
  encodeScratch := by
    intro ε s enc he h
    refine ⟨arena_of_closed h.1 (fun hp => (closed_ArenaP _).encodeScratch s enc he hp), ?_⟩
    rw [Session.encode_fst]; exact encodeAt_framed _ _ h.1.1 he h.2
  enqueue := by
    intro ε s enc off len isPub s3 typ he ht hiff h hquota hres hr
    refine ⟨arena_of_closed h.1 (fun hp => (closed_ArenaP _).enqueue s enc off len isPub s3 typ he ht hiff hp hquota hres hr), ?_⟩
    rw [Session.encode_fst, Session.alloc_fst, Session.alloc_snd] at hr
    rw [Session.encode_snd, Session.alloc_fst] at hres
    unfold Session.retain at hr
    split at hr
    · simp at hr
    · rename_i o ho
      simp only [Session.setOutbound] at ho hres
      rw [nextPacketId_outbound] at ho hres
      have := retain_framed s.data.outbound o enc h.1.1 he h.2 _ off len hres ho
      simp at hr; subst hr
      split <;> exact this
  clearPing := by intro s h; exact h
  noteActivity := by intro s now h; exact h
  window := by
    intro s s' n h hw
    unfold Session.window at hw
    split at hw
    · simp at hw
    · simp at hw; rw [← hw.1]; exact h
  commit := by intro s bytes h; exact h
  beginConnect := by
    intro s h
    exact ⟨arena_of_closed h.1 (fun hp => (closed_ArenaP _).beginConnect s hp), rearm_framed _ h.1.1 h.2⟩
  setPid := by intro s n _ _ h; exact h

end Minimq
