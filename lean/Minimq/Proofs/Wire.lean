import Minimq.Proofs.WireLog
import Minimq.Proofs.WireAck
import Minimq.Proofs.WireRelPub
import Minimq.Proofs.WireLift
/-
C01 / C14, whole machine: the bytes accepted by the current transport are the CONNECT, then whole framed
packets each within the Maximum Packet Size of the current connection (`WireIs`), followed by
the written part of at most one more packet, and that part is accounted for by the one queue entry in
progress or by the operation-local write that is suspended. The invariant is stated on a `View` of the
world (session, connection handle, wire of the current transport), each of the thirteen machine
functions gets its own precondition, and the induction is on fuel as in `Proofs/Lift.lean`. The
invariant also carries the ghost transmission log of the current transport (`Lv.log`: it agrees with the
retained queue, `Proofs/WireLog.lean`; its packets are among the whole packets on the wire, `WireIs`). Each
function also gets a potential (`φ…`) bounding the fuel it needs; every call decreases it, so the
out-of-fuel branch is never reached from `pollFuel` and the theorems need no assumption about fuel.
-/
namespace Minimq
open Gen World Outbound

/-! ### Wires -/

/-- `n` bytes are within the Maximum Packet Size `lim` (anything is when no limit was announced). -/
def Fits (lim : Option Nat) (n : Nat) : Prop := ∀ m, lim = some m → n ≤ m

theorem Fits.mono {lim : Option Nat} {a c : Nat} (h : Fits lim c) (hle : a ≤ c) : Fits lim a :=
  fun m hm => Nat.le_trans hle (h m hm)

theorem fits_of_not_tooLarge {r : Runtime} {n : Nat} (h : r.packetTooLarge n = false) : Fits r.maximumPacketSize n :=
  (packetTooLarge_false_iff r n).1 h

/-- The first byte says CONNECT. -/
def IsConnect (bs : Bytes) : Prop := ∃ x rest, bs = x :: rest ∧ x.toNat / 16 = MT_Connect

/-- `wire` is the CONNECT packet `c`, then whole framed packets each within the limit `lim`, then `part`;
the packets recorded in the transmission log (`logb`, their bytes in order) are among the whole packets, in that order. -/
def WireIs (lim : Option Nat) (wire : Bytes) (logb : List Bytes) (part : Bytes) : Prop :=
  ∃ (c : Bytes) (frames : List Bytes), Framed c ∧ IsConnect c ∧ (∀ f ∈ frames, Framed f ∧ Fits lim f.length) ∧
    logb.Sublist frames ∧ wire = c ++ frames.flatten ++ part

/-- `wire` is a prefix of a sequence of whole framed packets: whole packets, then possibly the
beginning of one more. -/
def Pfx (wire : Bytes) : Prop :=
  ∃ frames : List Bytes, (∀ f ∈ frames, Framed f) ∧ ∃ rest, frames.flatten = wire ++ rest

/-- The handshake has put the whole CONNECT on the wire and nothing else. -/
theorem WireIs.first {wire : Bytes} (lim : Option Nat) (h : Framed wire) (hc : IsConnect wire) : WireIs lim wire [] [] :=
  ⟨wire, [], h, hc, by simp, List.Sublist.refl _, by simp⟩

theorem Pfx.of_framed {wire rest : Bytes} (h : Framed (wire ++ rest)) : Pfx wire :=
  ⟨[wire ++ rest], by simpa using h, rest, by simp⟩

theorem WireIs.pfx_nil {lim : Option Nat} {wire : Bytes} {logb : List Bytes} (h : WireIs lim wire logb []) : Pfx wire := by
  obtain ⟨c, fs, hc, _, hf, _, hw⟩ := h
  refine ⟨c :: fs, ?_, [], by simp [hw]⟩
  intro f hm
  rcases List.mem_cons.mp hm with rfl | hm
  · exact hc
  · exact (hf f hm).1

theorem WireIs.pfx_framed {lim : Option Nat} {wire part rest : Bytes} {logb : List Bytes} (h : WireIs lim wire logb part)
    (hfr : Framed (part ++ rest)) : Pfx wire := by
  obtain ⟨c, fs, hc, _, hf, _, hw⟩ := h
  refine ⟨c :: (fs ++ [part ++ rest]), ?_, rest, ?_⟩
  · intro f hm
    rcases List.mem_cons.mp hm with rfl | hm
    · exact hc
    · rcases List.mem_append.mp hm with hm | hm
      · exact (hf f hm).1
      · simp only [List.mem_singleton] at hm; subst hm; exact hfr
  · simp [hw]

theorem WireIs.append {lim : Option Nat} {wire part : Bytes} {logb : List Bytes} (h : WireIs lim wire logb part) (bs : Bytes) :
    WireIs lim (wire ++ bs) logb (part ++ bs) := by
  obtain ⟨c, fs, hc, hcc, hf, hl, hw⟩ := h
  exact ⟨c, fs, hc, hcc, hf, hl, by simp [hw]⟩

/-- The last packet has been completed (a packet that is not recorded in the log). -/
theorem WireIs.close {lim : Option Nat} {wire part : Bytes} {logb : List Bytes} (h : WireIs lim wire logb part) (hfr : Framed part)
    (hfit : Fits lim part.length) : WireIs lim wire logb [] := by
  obtain ⟨c, fs, hc, hcc, hf, hl, hw⟩ := h
  refine ⟨c, fs ++ [part], hc, hcc, ?_, hl.trans (List.sublist_append_left _ _), by simp [hw]⟩
  intro f hm
  rcases List.mem_append.mp hm with hm | hm
  · exact hf f hm
  · simp only [List.mem_singleton] at hm; subst hm; exact ⟨hfr, hfit⟩

/-- The last packet has been completed, and it is recorded in the log. -/
theorem WireIs.closeLog {lim : Option Nat} {wire part : Bytes} {logb : List Bytes} (h : WireIs lim wire logb part)
    (hfr : Framed part) (hfit : Fits lim part.length) : WireIs lim wire (logb ++ [part]) [] := by
  obtain ⟨c, fs, hc, hcc, hf, hl, hw⟩ := h
  refine ⟨c, fs ++ [part], hc, hcc, ?_, hl.append (List.Sublist.refl _), by simp [hw]⟩
  intro f hm
  rcases List.mem_append.mp hm with hm | hm
  · exact hf f hm
  · simp only [List.mem_singleton] at hm; subst hm; exact ⟨hfr, hfit⟩

theorem Pfx.nil : Pfx [] := ⟨[], by simp, [], by simp⟩

/-! ### The ambient session invariants -/

theorem Closed.and_w {P R : Session → Prop} (hp : Closed P) (hr : Closed R) : Closed (fun s => P s ∧ R s) where
  queuePing := fun s now s' h hq => ⟨hp.queuePing s now s' h.1 hq, hr.queuePing s now s' h.2 hq⟩
  completeFlush := fun s pkt now h => ⟨hp.completeFlush s pkt now h.1, hr.completeFlush s pkt now h.2⟩
  setWritten := fun s pkt a c h => ⟨hp.setWritten s pkt a c h.1, hr.setWritten s pkt a c h.2⟩
  takePkt := fun s h => ⟨hp.takePkt s h.1, hr.takePkt s h.2⟩
  handle := fun s p h => ⟨hp.handle s p h.1, hr.handle s p h.2⟩
  handleDisconnect := fun s h => ⟨hp.handleDisconnect s h.1, hr.handleDisconnect s h.2⟩
  activate := fun s sp block now h => ⟨hp.activate s sp block now h.1, hr.activate s sp block now h.2⟩
  alloc := fun s h => ⟨hp.alloc s h.1, hr.alloc s h.2⟩
  encodeConnect := fun s c h => ⟨hp.encodeConnect s c h.1, hr.encodeConnect s c h.2⟩
  encodeAfterAlloc := fun s enc he h => ⟨hp.encodeAfterAlloc s enc he h.1, hr.encodeAfterAlloc s enc he h.2⟩
  encodeScratch := fun s enc he h => ⟨hp.encodeScratch s enc he h.1, hr.encodeScratch s enc he h.2⟩
  enqueue := fun s enc off len isPub s3 typ he ht hiff h hq hres hret =>
    ⟨hp.enqueue s enc off len isPub s3 typ he ht hiff h.1 hq hres hret, hr.enqueue s enc off len isPub s3 typ he ht hiff h.2 hq hres hret⟩
  clearPing := fun s h => ⟨hp.clearPing s h.1, hr.clearPing s h.2⟩
  noteActivity := fun s now h => ⟨hp.noteActivity s now h.1, hr.noteActivity s now h.2⟩
  window := fun s s' n h hw => ⟨hp.window s s' n h.1 hw, hr.window s s' n h.2 hw⟩
  commit := fun s bytes h => ⟨hp.commit s bytes h.1, hr.commit s bytes h.2⟩
  beginConnect := fun s h => ⟨hp.beginConnect s h.1, hr.beginConnect s h.2⟩
  setPid := fun s n h1 h2 h => ⟨hp.setPid s n h1 h2 h.1, hr.setPid s n h1 h2 h.2⟩

/-- Arena layout, whole framed packets in the arena, distinct in-flight identifiers: invariants of every
execution (`closed_FramedP`, `closed_IdInv`) that the wire argument relies on. -/
def SP (s : Session) : Prop := (FramedP s ∧ s.data.IdInv) ∧ RelP s

theorem closed_SP : Closed SP := Closed.and_w (Closed.and_w closed_FramedP closed_IdInv) closed_RelP

theorem SP_new (cfg : Cfg) : SP (Session.new cfg) :=
  ⟨⟨⟨⟨ArenaInv_new cfg.tx, ⟨by simp [Session.new, Outbound.new], by simp [Session.new, Outbound.new]⟩⟩,
     by intro bs hbs; simp [Session.new, Outbound.new, Outbound.contents, contents] at hbs⟩,
   ⟨IdInv_new cfg.tx, by simp [Session.new]⟩⟩, RelP_new cfg⟩

theorem SP.arena {s : Session} (h : SP s) : s.data.outbound.ArenaInv := h.1.1.1.1
theorem SP.ser {s : Session} (h : SP s) : s.data.outbound.SerInv := h.1.1.1.2
theorem SP.framed {s : Session} (h : SP s) : s.data.outbound.FramedInv := h.1.1.2
theorem SP.ids {s : Session} (h : SP s) : s.data.outbound.IdInv := h.1.2.out
theorem SP.rel {s : Session} (h : SP s) : s.data.outbound.RelInv := h.2

/-! ### What the step encoders produce -/

theorem encodeControl_framed {a : ControlAction} {bs : Bytes} (h : encodeControl a = .ok bs) : Framed bs ∧ 0 < bs.length := by
  unfold encodeControl at h
  simp only [] at h
  generalize hr : encodeWithOffset CONTROL_PACKET_LEN (if a.typ = MT_PingReq then [] else ackChunks a.id a.rc) a.typ
    (if a.typ = MT_PubAck then FLAGS_PubAck else if a.typ = MT_PubRec then FLAGS_PubRec
      else if a.typ = MT_PubComp then FLAGS_PubComp else FLAGS_PingReq) = res at h
  cases res with
  | error e => simp [Except.map] at h
  | ok r =>
    obtain ⟨off, pkt⟩ := r
    simp only [Except.map, Except.ok.injEq] at h
    subst h
    have := EncOk_encodeWithOffset _ _ _ CONTROL_PACKET_LEN (fun _ _ => []) off pkt (by simp) hr
    exact ⟨this.2.2, this.2.1⟩

theorem encodePubrel_framed {id rc : Nat} {bs : Bytes} (h : encodePubrel id rc = .ok bs) : Framed bs ∧ 0 < bs.length := by
  unfold encodePubrel at h
  generalize hr : encodeWithOffset CONTROL_PACKET_LEN (ackChunks id rc) MT_PubRel FLAGS_PubRel = res at h
  cases res with
  | error e => simp [Except.map] at h
  | ok r =>
    obtain ⟨off, pkt⟩ := r
    simp only [Except.map, Except.ok.injEq] at h
    subst h
    have := EncOk_encodeWithOffset _ _ _ CONTROL_PACKET_LEN (fun _ _ => []) off pkt (by simp) hr
    exact ⟨this.2.2, this.2.1⟩

theorem retained_entry_bytes {o : Outbound} (ha : o.ArenaInv) (hf : o.FramedInv) {e : RetainedPacket} (he : e ∈ o.retained) :
    (slice o.buf e.offset e.len).length = e.len ∧ Framed (slice o.buf e.offset e.len) ∧ 0 < e.len := by
  have h1 := ha.ends e he
  have h2 := ha.used_le
  refine ⟨slice_length _ _ _ (by omega), ?_, ha.pos e he⟩
  apply hf
  simp only [Outbound.contents, contents, List.mem_map]
  exact ⟨e, he, rfl⟩

/-- What `perform_outbound_step` prepares to write for the current entry. -/
theorem prepareStep_write (w : World) (step : Outbound.Step) (hs : w.sess.data.outbound.Slot step) (hsp : SP w.sess)
    {pkt : Flushed} {bytes : Bytes} {written len : Nat} (h : prepareStep w step = .write pkt bytes written len) :
    pkt = step.flushed ∧ step.state = .write written ∧ w.sess.data.outbound.StepBytes step bytes ∧
      len = bytes.length ∧ Framed bytes ∧ 0 < bytes.length ∧ w.sess.rt.packetTooLarge bytes.length = false := by
  cases hs with
  | control a st rest hc hrest hrel hret =>
    cases st with
    | write wr =>
      simp only [prepareStep] at h
      cases henc : encodeControl a with
      | error e => rw [henc] at h; simp at h
      | ok bs =>
        rw [henc] at h
        simp only [] at h
        split at h
        · simp at h
        · rename_i hbig
          simp only [Prepared.write.injEq] at h
          obtain ⟨rfl, rfl, rfl, rfl⟩ := h
          obtain ⟨h1, h2⟩ := encodeControl_framed henc
          exact ⟨rfl, rfl, henc, rfl, h1, h2, by simpa using hbig⟩
    | flush => simp [prepareStep] at h
    | sent => simp [prepareStep] at h
  | release pre id rc st rs ps post hr hpre hpost hctl hret =>
    cases st with
    | write wr =>
      simp only [prepareStep] at h
      cases henc : encodePubrel id rc with
      | error e => rw [henc] at h; simp at h
      | ok bs =>
        rw [henc] at h
        simp only [] at h
        split at h
        · simp at h
        · rename_i hbig
          simp only [Prepared.write.injEq] at h
          obtain ⟨rfl, rfl, rfl, rfl⟩ := h
          obtain ⟨h1, h2⟩ := encodePubrel_framed henc
          exact ⟨rfl, rfl, henc, rfl, h1, h2, by simpa using hbig⟩
    | flush => simp [prepareStep] at h
    | sent => simp [prepareStep] at h
  | retained pre e post hr hpre hpost hctl hrel =>
    have hmem : e ∈ w.sess.data.outbound.retained := by rw [hr]; simp
    obtain ⟨h1, h2, h3⟩ := retained_entry_bytes hsp.arena hsp.framed hmem
    cases hst : e.state with
    | write wr =>
      simp only [prepareStep, hst] at h
      split at h
      · simp at h
      · rename_i hbig
        simp only [Prepared.write.injEq] at h
        obtain ⟨rfl, rfl, rfl, rfl⟩ := h
        exact ⟨rfl, rfl, ⟨rfl, h1⟩, h1.symm, h2, by rw [Outbound.retainedPacket, h1]; exact h3,
          by rw [Outbound.retainedPacket, h1]; simpa using hbig⟩
    | flush => simp [prepareStep, hst] at h
    | sent => simp [prepareStep, hst] at h

theorem prepareStep_flush (w : World) (step : Outbound.Step) {pkt : Flushed} (h : prepareStep w step = .flush pkt) :
    pkt = step.flushed ∧ step.state = .flush := by
  cases step with
  | control a st =>
    cases st with
    | write wr =>
      simp only [prepareStep] at h
      split at h
      · simp at h
      · split at h <;> simp at h
    | flush => simp only [prepareStep, Prepared.flush.injEq] at h; exact ⟨h.symm, rfl⟩
    | sent => simp [prepareStep] at h
  | release id rc st =>
    cases st with
    | write wr =>
      simp only [prepareStep] at h
      split at h
      · simp at h
      · split at h <;> simp at h
    | flush => simp only [prepareStep, Prepared.flush.injEq] at h; exact ⟨h.symm, rfl⟩
    | sent => simp [prepareStep] at h
  | retained id off len st =>
    cases st with
    | write wr =>
      simp only [prepareStep] at h
      split at h <;> simp at h
    | flush => simp only [prepareStep, Prepared.flush.injEq] at h; exact ⟨h.symm, rfl⟩
    | sent => simp [prepareStep] at h


/-! ### The view of the world the invariant talks about -/

/-- Session, connection handle, whether a transport exists, and the wire of the current transport. -/
structure View where
  sess : Session
  conn : Option Conn
  net : Bool
  wire : Bytes
  /-- Ordinal of the current transport. -/
  ord : Nat
  /-- The part of the transmission log that belongs to the current transport. -/
  log : List LogEntry

/-- The log entries of the current transport. -/
def World.curLog (w : World) : List LogEntry := w.log.filter (fun f => f.net == w.nets.length)

def World.view (w : World) : View :=
  { sess := w.sess, conn := w.conn, net := !w.nets.isEmpty, wire := w.curNet.wire, ord := w.nets.length, log := w.curLog }

namespace View
def live (v : View) : Bool :=
  match v.conn with
  | some c => c.live
  | none => false
def o (v : View) : Outbound := v.sess.data.outbound
def avail (v : View) : Bool := v.sess.reader.packetAvailable
/-- The Maximum Packet Size the CONNACK of the current connection announced, if any. -/
def lim (v : View) : Option Nat := v.sess.rt.maximumPacketSize
/-- What `perform_outbound_step` checked before offering the first byte of a packet. -/
def ok (v : View) : Bytes → Prop := fun bs => Fits v.lim bs.length
end View

theorem View.lim_sess (v : View) {s : Session} (hm : s.rt.maximumPacketSize = v.sess.rt.maximumPacketSize) :
    ({ v with sess := s } : View).lim = v.lim := hm

theorem View.ok_sess (v : View) {s : Session} (hm : s.rt.maximumPacketSize = v.sess.rt.maximumPacketSize) :
    ({ v with sess := s } : View).ok = v.ok := by
  unfold View.ok; rw [View.lim_sess v hm]

theorem view_live (w : World) : w.view.live = w.live := rfl

@[simp] theorem view_emit (w : World) (l : String) : (w.emit l).view = w.view := rfl
@[simp] theorem view_finish (w : World) (l : String) : (w.finish l).view = w.view := rfl
@[simp] theorem view_finishErr (w : World) (o : String) (e : Err) : (w.finishErr o e).view = w.view := rfl
@[simp] theorem view_suspend (w : World) (pc : Pc) : (w.suspend pc).view = w.view := rfl
@[simp] theorem view_finishOp (w : World) (n : String) (op : Op) : (w.finishOp n op).view = w.view := rfl
theorem view_sess (w : World) (s : Session) : ({ w with sess := s } : World).view = { w.view with sess := s } := rfl
theorem view_handleDisconnect (w : World) :
    w.handleDisconnect.view = { w.view with sess := w.sess.handleDisconnect, conn := w.conn.map (fun c => { c with live := false }) } := rfl

theorem view_deliver (w : World) (n : String) (len : Nat) : (w.deliver n len).view = w.view ∧ (w.deliver n len).fut = none := by
  unfold World.deliver
  simp only []
  have : ∀ (ls : List String) (w0 : World), (ls.foldl World.emit w0).view = w0.view ∧ (ls.foldl World.emit w0).fut = w0.fut := by
    intro ls; induction ls with
    | nil => intro w0; exact ⟨rfl, rfl⟩
    | cons l ls ih => intro w0; simp only [List.foldl]; exact ⟨(ih _).1.trans rfl, (ih _).2.trans rfl⟩
  split
  · exact ⟨(this _ _).1.trans rfl, (this _ _).2.trans rfl⟩
  · exact ⟨rfl, rfl⟩

theorem hd_live (v : View) (s : Session) : ({ v with sess := s, conn := v.conn.map (fun c => { c with live := false }) } : View).live = false := by
  unfold View.live
  cases v.conn <;> rfl

theorem ioWrite_conn (w : World) (bs : Bytes) : (w.ioWrite bs).1.conn = w.conn := by
  unfold World.ioWrite
  cases w.slot with
  | none => rfl
  | some k => simp only []; repeat' split
              all_goals rfl

theorem ioRead_conn (w : World) (n : Nat) : (w.ioRead n).1.conn = w.conn := by
  unfold World.ioRead
  cases w.slot with
  | none => rfl
  | some k => simp only []; repeat' split
              all_goals rfl

theorem isEmpty_of_length {l l' : List Net} (h : l'.length = l.length) : l'.isEmpty = l.isEmpty := by
  cases l <;> cases l' <;> simp_all

theorem nets_ne_of_view {w : World} (h : w.view.net = true) : w.nets ≠ [] := by
  intro h0
  simp [World.view, h0] at h

theorem ioWrite_log (w : World) (bs : Bytes) : (w.ioWrite bs).1.log = w.log := by
  unfold World.ioWrite
  cases w.slot with
  | none => rfl
  | some k => simp only []; repeat' split
              all_goals rfl

theorem ioRead_log (w : World) (n : Nat) : (w.ioRead n).1.log = w.log := by
  unfold World.ioRead
  cases w.slot with
  | none => rfl
  | some k => simp only []; repeat' split
              all_goals rfl

theorem ioFlush_view {w w' : World} {r : FlushRes} (heq : w.ioFlush = (w', r)) : w'.view = w.view := by
  have h1 := io_flush_sess' heq
  obtain ⟨_, h2⟩ := ioFlush_net w w' r heq
  have h3 : w'.conn = w.conn ∧ w'.log = w.log := by
    have : (w.ioFlush).1.conn = w.conn ∧ (w.ioFlush).1.log = w.log := by
      unfold World.ioFlush
      cases w.slot with
      | none => exact ⟨rfl, rfl⟩
      | some k => simp only []; split <;> exact ⟨rfl, rfl⟩
    rw [heq] at this; exact this
  simp only [World.view, World.curNet, World.curLog, h1, h2, h3.1, h3.2]

theorem ioRead_view {w w' : World} {n : Nat} {r : ReadRes} (hn : w.view.net = true) (heq : w.ioRead n = (w', r)) :
    w'.view = w.view := by
  have h1 := io_read_sess' heq
  obtain ⟨_, h2, _, h4⟩ := ioRead_net w w' n r (nets_ne_of_view hn) heq
  have h3 : w'.conn = w.conn := by
    have := ioRead_conn w n; rw [heq] at this; exact this
  have h5 : w'.log = w.log := by
    have := ioRead_log w n; rw [heq] at this; exact this
  simp only [World.view, World.curLog, h1, h2, h3, h4, h5, isEmpty_of_length h2]

theorem ioWrite_view {w w' : World} {bs : Bytes} {r : WriteRes} (hn : w.view.net = true) (heq : w.ioWrite bs = (w', r)) :
    match r with
    | .ok k => k ≤ bs.length ∧ w'.view = { w.view with wire := w.view.wire ++ bs.take k }
    | _ => w'.view = w.view := by
  have h1 := io_write_sess' heq
  obtain ⟨_, h2, _, h4⟩ := ioWrite_net w w' bs r (nets_ne_of_view hn) heq
  have h3 : w'.conn = w.conn := by
    have := ioWrite_conn w bs; rw [heq] at this; exact this
  have h5 : w'.log = w.log := by
    have := ioWrite_log w bs; rw [heq] at this; exact this
  cases r with
  | ok k =>
    simp only [] at h4 ⊢
    refine ⟨h4.1, ?_⟩
    simp only [World.view, World.curLog, h1, h2, h3, h4.2, h5, isEmpty_of_length h2]
  | pending => simp only [] at h4 ⊢; simp only [World.view, World.curLog, h1, h2, h3, h4, h5, isEmpty_of_length h2]
  | zero => simp only [] at h4 ⊢; simp only [World.view, World.curLog, h1, h2, h3, h4, h5, isEmpty_of_length h2]
  | err k => simp only [] at h4 ⊢; simp only [World.view, World.curLog, h1, h2, h3, h4, h5, isEmpty_of_length h2]

/-- `set_written` at the world level: the session changes, and when the entry is completely written
it is appended to the log of the current transport. -/
theorem view_setWritten (w : World) (pkt : Flushed) (a c : Nat) :
    (w.setWritten pkt a c).view =
      { w.view with sess := w.view.sess.setWritten pkt a c,
                    log := if a ≥ c then w.view.log ++ [w.view.sess.data.outbound.done w.view.ord pkt] else w.view.log } := by
  unfold World.setWritten
  by_cases h : a ≥ c
  · simp only [h, if_true, World.view, World.curLog, World.curNet, List.filter_append, doneFrame_eq]
    congr 1
    have : (w.sess.data.outbound.done w.nets.length pkt).net = w.nets.length := by
      unfold Outbound.done
      cases pkt with
      | control a => rfl
      | release id => simp only []; split <;> rfl
      | retained id => simp only []; split <;> rfl
    simp [List.filter_cons, this]
  · simp only [h, if_false, World.view, World.curLog, World.curNet]

/-! ### Preconditions of the machine functions, on views -/

/-- A live connection on an existing transport whose wire is the CONNECT, whole packets within the
Maximum Packet Size of this connection, and then `part`; the log of this transport is on the wire and
agrees with the retained queue. -/
structure Lv (v : View) (part : Bytes) : Prop where
  net : v.net = true
  live : v.live = true
  sp : SP v.sess
  wire : WireIs v.lim v.wire (v.log.map (·.bytes)) part
  log : v.o.Log v.ord v.log
  /-- a connection is live only after an accepted CONNACK (ghost flag) -/
  acc : v.sess.data.everAccepted = true
  /-- written acknowledgements, then waiting ones, are the ones recorded in the inbound log -/
  acks : AckEq v.sess v.log
  /-- a PUBREL created on this connection has a transmission of its PUBLISH in this transport's log -/
  relpub : RelPub v.sess v.log

/-- Between steps of `flush_outbound` and whenever no operation is suspended on a live connection:
the queues account for the incomplete packet on the wire, and no complete inbound packet is waiting. -/
def FlushPre (v : View) : Prop := ∃ part, Lv v part ∧ v.o.OState v.ok part ∧ v.avail = false

/-- In `drive_packet`: a complete inbound packet may be waiting, but then nothing is in progress and
nothing is unsent (`drive_packet` reads only when `next_step` has nothing left to do, and the reader
never reads past the packet it is assembling). -/
def DrivePre (v : View) : Prop :=
  ∃ part, Lv v part ∧ v.o.OState v.ok part ∧ (v.avail = true → v.o.Quiet ∧ v.o.nextStep = none)

/-- At the `write` await of `perform_outbound_step`. -/
def WritePre (v : View) (step : Outbound.Step) (bytes : Bytes) (written : Nat) : Prop :=
  Lv v (bytes.take written) ∧ v.o.Slot step ∧ step.state = .write written ∧ v.o.StepBytes step bytes ∧
    written < bytes.length ∧ Framed bytes ∧ v.avail = false ∧ v.ok bytes ∧ v.o.nextStep = some step

/-- At the `flush` await of `perform_outbound_step`. -/
def FlushingPre (v : View) (step : Outbound.Step) : Prop :=
  Lv v [] ∧ v.o.Slot step ∧ step.state = .flush ∧ v.avail = false

def QuietPre (v : View) : Prop := Lv v [] ∧ v.o.Quiet

/-- While `drive_packet` waits for inbound bytes: nothing is left to send. -/
def IdlePre (v : View) : Prop := QuietPre v ∧ v.o.nextStep = none

/-- The handshake: no connection handle, a fresh transport whose log is empty, every queue entry
waiting for its first byte. -/
structure Hand (v : View) : Prop where
  conn : v.conn = none
  log : v.log = []
  fresh : v.o.AllFresh

/-- An operation-local `write_all` with `bytes` still to go. The handshake (`which = 0`) runs without a
connection handle on a fresh transport: what is on the wire and `bytes` make up the CONNECT. A QoS 0
PUBLISH or a DISCONNECT runs on a live connection: whole packets, then `pre`, and `pre ++ bytes` is a
whole packet within the limit. -/
def LocalPre (v : View) (which : Nat) (bytes : Bytes) : Prop :=
  v.net = true ∧ SP v.sess ∧ v.o.Quiet ∧
  ((which = 0 ∧ Hand v ∧ Framed (v.wire ++ bytes) ∧ IsConnect (v.wire ++ bytes)) ∨
   (which ≠ 0 ∧ v.avail = false ∧ ∃ pre, Lv v pre ∧ Framed (pre ++ bytes) ∧ Fits v.lim (pre ++ bytes).length))

def LocalFlushPre (v : View) (which : Nat) : Prop :=
  v.net = true ∧ SP v.sess ∧ v.o.Quiet ∧
  ((which = 0 ∧ Hand v ∧ Framed v.wire ∧ IsConnect v.wire) ∨ (which ≠ 0 ∧ v.avail = false ∧ Lv v []))

/-- What is kept about a connection that is not live (dead, dropped, or not yet established): its
wire is whole packets and possibly the beginning of one more, and its log has each retained packet at
most once, in serial order. -/
def DeadOK (v : View) : Prop := Pfx v.wire ∧ LogSorted v.log

/-- At the `flush` await of `disconnect_with` the DISCONNECT is wholly on the transport and the handle is
already finished (`handle_disconnect()` runs before that flush is awaited): what is kept is what is kept
about any dead connection. -/
def DiscFlushPre (v : View) : Prop := v.net = true ∧ v.live = false ∧ DeadOK v ∧ v.conn.isSome = true

/-- Precondition of `doLocalFlush`. -/
def LFPre (v : View) (which : Nat) : Prop :=
  if which = 0 then LocalFlushPre v 0 else if which = 1 then LocalFlushPre v 1 else DiscFlushPre v

/-- At the `read` await of `wait_for_progress`: the stored deadline is the session's next keep-alive
deadline, the timer has been registered (`yielded`), and the reader has already probed the fixed header
and offered a non-empty window — `receive_buffer` is idempotent, so a fresh call offers the same. -/
def ReadOK (v : View) (d : Option Nat) (y : Bool) : Prop :=
  y = true ∧ d = v.sess.rt.nextDeadline ∧ ∃ n, n ≠ 0 ∧ v.sess.window = some (v.sess, n)

/-- The invariant at each await point. -/
def PcOK (v : View) : Pc → Prop
  | .stepWrite _ pkt bytes written len _ => ∃ step, WritePre v step bytes written ∧ pkt = step.flushed ∧ len = bytes.length
  | .stepFlush _ pkt _ => ∃ step, FlushingPre v step ∧ pkt = step.flushed
  | .connWrite bytes => LocalPre v 0 bytes
  | .connFlush => LocalFlushPre v 0
  | .connRead => LocalFlushPre v 0
  | .q0Write bytes => LocalPre v 1 bytes
  | .q0Flush => LocalFlushPre v 1
  | .discWrite bytes => LocalPre v 2 bytes
  | .discFlush => DiscFlushPre v
  | .waitRead _ d y => IdlePre v ∧ v.avail = false ∧ ReadOK v d y

/-- The invariant between directives. -/
def PhaseV (v : View) (fut : Option Pc) : Prop :=
  match fut with
  | some pc => PcOK v pc
  | none => if v.live = true then FlushPre v else DeadOK v

/-- What every machine function establishes when it returns to the caller or suspends: the invariant. -/
def Post (w : World) : Prop := PhaseV w.view w.fut

theorem Post.suspend {w : World} {pc : Pc} (h : PcOK w.view pc) : Post (w.suspend pc) := h

theorem PhaseV.live {v : View} (h : FlushPre v) : PhaseV v none := by
  obtain ⟨part, hl, _⟩ := h
  simp only [PhaseV, hl.live, if_true]
  exact ⟨part, hl, by assumption⟩

theorem PhaseV.dead {v : View} (hl : v.live = false) (hp : DeadOK v) : PhaseV v none := by
  simp only [PhaseV, hl, Bool.false_eq_true, if_false]; exact hp

theorem Post.live_finish {w : World} (l : String) (h : FlushPre w.view) : Post (w.finish l) := PhaseV.live h
theorem Post.live_finishErr {w : World} (n : String) (e : Err) (h : FlushPre w.view) : Post (w.finishErr n e) := PhaseV.live h
theorem Post.live_finishOp {w : World} (n : String) (op : Op) (h : FlushPre w.view) : Post (w.finishOp n op) := PhaseV.live h
theorem Post.live_deliver {w : World} (n : String) (len : Nat) (h : FlushPre w.view) : Post (w.deliver n len) := by
  obtain ⟨h1, h2⟩ := view_deliver w n len
  unfold Post; rw [h1, h2]; exact PhaseV.live h

theorem Post.dead_finish {w : World} (l : String) (hl : w.view.live = false) (hp : DeadOK w.view) : Post (w.finish l) :=
  PhaseV.dead hl hp
theorem Post.dead_finishErr {w : World} (n : String) (e : Err) (hl : w.view.live = false) (hp : DeadOK w.view) :
    Post (w.finishErr n e) := PhaseV.dead hl hp

theorem Post.hd_finishErr {w : World} (n : String) (e : Err) (hp : DeadOK w.view) : Post ((w.handleDisconnect).finishErr n e) :=
  PhaseV.dead (hd_live w.view w.sess.handleDisconnect) hp
theorem Post.hd_finish {w : World} (l : String) (hp : DeadOK w.view) : Post ((w.handleDisconnect).finish l) :=
  PhaseV.dead (hd_live w.view w.sess.handleDisconnect) hp

/-! ### Transitions between the preconditions (no world involved) -/

theorem Lv.pfx {v : View} {part : Bytes} (h : Lv v part) (ho : v.o.OState v.ok part) : DeadOK v := by
  refine ⟨?_, h.log.sorted⟩
  rcases ho.part_prefix with rfl | ⟨rest, hr⟩
  · exact h.wire.pfx_nil
  · exact h.wire.pfx_framed hr

/-- The session changed, but neither the Maximum Packet Size nor the agreement of the log with the queue. -/
structure SessOK (v : View) (s : Session) : Prop where
  sp : SP s
  mps : s.rt.maximumPacketSize = v.sess.rt.maximumPacketSize
  log : s.data.outbound.Log v.ord v.log
  acc : s.data.everAccepted = true
  acks : AckEq s v.log
  relpub : RelPub s v.log

theorem Lv.sess {v : View} {part : Bytes} (h : Lv v part) {s : Session} (hs : SessOK v s) : Lv { v with sess := s } part :=
  ⟨h.net, h.live, hs.sp, by rw [View.lim_sess v hs.mps]; exact h.wire, hs.log, hs.acc, hs.acks, hs.relpub⟩

/-- The outbound queues did not change at all. -/
theorem SessOK.same {v : View} {s : Session} {part : Bytes} (h : Lv v part) (hs : SP s)
    (hm : s.rt.maximumPacketSize = v.sess.rt.maximumPacketSize) (ho : s.data.outbound = v.sess.data.outbound)
    (hp : Prim v.sess s) (hi : s.inlog = v.sess.inlog) (hr : s.rmark = v.sess.rmark) : SessOK v s :=
  ⟨hs, hm, by rw [ho]; exact h.log, hp.everAccepted_changes.1 h.acc, h.acks.same (by rw [ho]) hi, h.relpub.same_out ho hr⟩

theorem FlushPre.pfx {v : View} (h : FlushPre v) : DeadOK v := by
  obtain ⟨part, hl, ho, _⟩ := h; exact hl.pfx ho

theorem DrivePre.pfx {v : View} (h : DrivePre v) : DeadOK v := by
  obtain ⟨part, hl, ho, _⟩ := h; exact hl.pfx ho

theorem Post.df_finishErr {w : World} (ctx : StepCtx) (n : String) (e : Err) (h : FlushPre w.view) :
    Post ((w.discFail ctx).finishErr n e) := by
  rcases discFail_cases w ctx with ⟨e1, _⟩ | ⟨e1, _⟩ <;> rw [e1]
  · exact Post.live_finishErr _ _ h
  · exact Post.hd_finishErr _ _ h.pfx

theorem Post.fs_finishErr {w : World} (ctx : StepCtx) (st : Outbound.Step) (n : String) (e : Err) (h : FlushPre w.view) :
    Post ((w.failStep ctx st).finishErr n e) := by
  rcases failStep_cases w ctx st with e1 | e1 <;> rw [e1]
  · exact Post.live_finishErr _ _ h
  · exact Post.hd_finishErr _ _ h.pfx

theorem FlushPre.drive {v : View} (h : FlushPre v) : DrivePre v := by
  obtain ⟨part, hl, ho, ha⟩ := h
  exact ⟨part, hl, ho, fun h1 => by rw [ha] at h1; cases h1⟩

theorem DrivePre.flush {v : View} (h : DrivePre v) (ha : v.avail = false) : FlushPre v := by
  obtain ⟨part, hl, ho, _⟩ := h
  exact ⟨part, hl, ho, ha⟩

theorem WritePre.pfx {v : View} {step : Outbound.Step} {bytes : Bytes} {written : Nat} (h : WritePre v step bytes written) :
    DeadOK v :=
  ⟨h.1.wire.pfx_framed (rest := bytes.drop written) (by rw [List.take_append_drop]; exact h.2.2.2.2.2.1), h.1.log.sorted⟩

theorem WritePre.flushPre {v : View} {step : Outbound.Step} {bytes : Bytes} {written : Nat} (h : WritePre v step bytes written) :
    FlushPre v := by
  obtain ⟨hl, hs, hst, hb, hlt, hfr, ha, hok⟩ := h
  cases written with
  | zero => exact ⟨[], by simpa using hl, .quiet (hs.quiet_of_fresh hst), ha⟩
  | succ n => exact ⟨_, hl, .writing step n bytes hs hst hb hlt hfr hok.1, ha⟩

theorem FlushingPre.pfx {v : View} {step : Outbound.Step} (h : FlushingPre v step) : DeadOK v := ⟨h.1.wire.pfx_nil, h.1.log.sorted⟩

theorem FlushingPre.flushPre {v : View} {step : Outbound.Step} (h : FlushingPre v step) : FlushPre v :=
  ⟨[], h.1, .flushing step h.2.1 h.2.2.1, h.2.2.2⟩

theorem QuietPre.pfx {v : View} (h : QuietPre v) : DeadOK v := ⟨h.1.wire.pfx_nil, h.1.log.sorted⟩
theorem QuietPre.flushPre {v : View} (h : QuietPre v) (ha : v.avail = false) : FlushPre v := ⟨[], h.1, .quiet h.2, ha⟩
theorem IdlePre.drive {v : View} (h : IdlePre v) : DrivePre v := ⟨[], h.1.1, .quiet h.1.2, fun _ => ⟨h.1.2, h.2⟩⟩

theorem queuePing_rt {s s' : Session} {now : Nat} (hq : s.queuePing now = .ok s') : s'.rt = s.rt := by
  rcases Session.queuePing_ok hq with rfl | ⟨o, _, rfl⟩ <;> rfl

theorem FlushPre.queuePing {v : View} {s' : Session} {now : Nat} (h : FlushPre v) (hq : v.sess.queuePing now = .ok s') :
    FlushPre { v with sess := s' } := by
  obtain ⟨part, hl, ho, ha⟩ := h
  have hm : s'.rt.maximumPacketSize = v.sess.rt.maximumPacketSize := by rw [queuePing_rt hq]
  refine ⟨part, hl.sess ⟨closed_SP.queuePing _ _ _ hl.sp hq, hm, Log_queuePing hq hl.log, (Prim.queuePing _ _ _ hq).everAccepted_changes.1 hl.acc, hl.acks.queuePing hq, hl.relpub.queuePing hq⟩, ?_, ?_⟩
  · rw [View.ok_sess v hm]; exact OState_queuePing hq ho
  · show s'.reader.packetAvailable = false
    rw [queuePing_reader hq]; exact ha

theorem FlushPre.none {v : View} (h : FlushPre v) (hn : v.o.nextStep = none) : QuietPre v ∧ v.avail = false := by
  obtain ⟨part, hl, ho, ha⟩ := h
  obtain ⟨hq, rfl⟩ := ho.of_nextStep_none hn
  exact ⟨⟨hl, hq⟩, ha⟩

theorem DrivePre.none {v : View} (h : DrivePre v) (hn : v.o.nextStep = none) : IdlePre v := by
  obtain ⟨part, hl, ho, _⟩ := h
  obtain ⟨hq, rfl⟩ := ho.of_nextStep_none hn
  exact ⟨⟨hl, hq⟩, hn⟩

theorem FlushPre.flushing {v : View} {step : Outbound.Step} (h : FlushPre v) (hn : v.o.nextStep = some step)
    (hst : step.state = .flush) : FlushingPre v step := by
  obtain ⟨part, hl, ho, ha⟩ := h
  obtain ⟨hs, hc⟩ := ho.of_nextStep hl.sp.ids hn
  rcases hc with ⟨h1, _⟩ | ⟨_, rfl⟩ | ⟨n, bytes, h1, _⟩
  · rw [hst] at h1; cases h1
  · exact ⟨hl, hs, hst, ha⟩
  · rw [hst] at h1; cases h1

theorem FlushPre.writing {v : View} {step : Outbound.Step} {bytes : Bytes} {written : Nat} (h : FlushPre v)
    (hn : v.o.nextStep = some step) (hst : step.state = .write written) (hb : v.o.StepBytes step bytes)
    (hfr : Framed bytes) (hpos : 0 < bytes.length) (hok : v.ok bytes) : WritePre v step bytes written := by
  obtain ⟨part, hl, ho, ha⟩ := h
  obtain ⟨hs, hc⟩ := ho.of_nextStep hl.sp.ids hn
  rcases hc with ⟨h1, rfl⟩ | ⟨h1, _⟩ | ⟨n, bytes', h1, hb', hlt, _, _, rfl⟩
  · rw [hst] at h1; cases h1
    exact ⟨by simpa using hl, hs, hst, hb, hpos, hfr, ha, hok, hn⟩
  · rw [hst] at h1; cases h1
  · rw [hst] at h1; cases h1
    have := StepBytes_unique hb hb'
    subst this
    exact ⟨hl, hs, hst, hb, hlt, hfr, ha, hok, hn⟩

/-- The transport accepted `count` more bytes of the current entry. When that completes the packet,
the entry is recorded in the log of the transport. -/
theorem WritePre.advance {v : View} {step : Outbound.Step} {bytes : Bytes} {written : Nat} (h : WritePre v step bytes written)
    (count : Nat) (hc : count ≤ (bytes.drop written).length) :
    (written + count < bytes.length →
      FlushPre { v with sess := v.sess.setWritten step.flushed (written + count) bytes.length,
                        wire := v.wire ++ (bytes.drop written).take count }) ∧
    (¬ written + count < bytes.length →
      FlushingPre { v with sess := v.sess.setWritten step.flushed (written + count) bytes.length,
                           wire := v.wire ++ (bytes.drop written).take count,
                           log := v.log ++ [v.o.done v.ord step.flushed] } (step.withState .flush)) := by
  obtain ⟨hl, hs, hst, hb, hlt, hfr, ha, hok⟩ := h
  have hsp := closed_SP.setWritten v.sess step.flushed (written + count) bytes.length hl.sp
  have hwire : WireIs v.lim (v.wire ++ (bytes.drop written).take count) (v.log.map (·.bytes)) (bytes.take (written + count)) := by
    rw [List.take_add]; exact hl.wire.append _
  have hslot := hs.setWritten (written + count) bytes.length
  have hacc' : ∀ a c, (v.sess.setWritten step.flushed a c).data.everAccepted = true :=
    fun a c => (Prim.setWritten _ _ a c).everAccepted_changes.1 hl.acc
  have hack := AckEq.setWritten v.ord hl.acks hs hst (written + count) bytes.length
  have hrp := RelPub.setWritten v.ord hl.relpub hs (written + count) bytes.length
  have hbytes : (v.o.setWritten step.flushed (written + count) bytes.length).StepBytes
      (step.withState (SendState.afterWrite (written + count) bytes.length)) bytes :=
    StepBytes_withState (StepBytes_congr hb (setWritten_buf _ _ _ _)) _
  have hlog := hl.log.setWritten hl.sp.ser hl.sp.rel hs hst (written + count) bytes.length
  have hdone := done_of_slot v.ord hs hb
  simp only [List.length_drop] at hc
  have hle : written + count ≤ bytes.length := by omega
  generalize written + count = wc at *
  constructor
  · intro hlt2
    rw [afterWrite_lt hlt2] at hslot hbytes
    have hlog' : (v.sess.setWritten step.flushed wc bytes.length).data.outbound.Log v.ord v.log := by
      rw [Session.setWritten_outbound]; exact hlog.1 hlt2
    cases wc with
    | zero =>
      refine ⟨[], ⟨hl.net, hl.live, hsp, (by simpa using hwire : WireIs v.lim _ _ []), hlog', hacc' _ _, hack.1 hlt2, hrp.1⟩, .quiet ?_, ha⟩
      show (v.sess.setWritten step.flushed 0 bytes.length).data.outbound.Quiet
      rw [Session.setWritten_outbound]
      exact hslot.quiet_of_fresh (by simp)
    | succ n =>
      refine ⟨_, ⟨hl.net, hl.live, hsp, hwire, hlog', hacc' _ _, hack.1 hlt2, hrp.1⟩, ?_, ha⟩
      show (v.sess.setWritten step.flushed (n + 1) bytes.length).data.outbound.OState v.ok _
      rw [Session.setWritten_outbound]
      exact .writing _ n bytes hslot (by simp) hbytes hlt2 hfr hok.1
  · intro hge
    have heq : wc = bytes.length := by omega
    subst heq
    rw [afterWrite_ge (Nat.le_refl _)] at hslot
    rw [List.take_length] at hwire
    have hlog' : (v.sess.setWritten step.flushed bytes.length bytes.length).data.outbound.Log v.ord
        (v.log ++ [v.o.done v.ord step.flushed]) := by
      rw [Session.setWritten_outbound]; exact hlog.2 (Nat.le_refl _)
    have hwire' : WireIs v.lim (v.wire ++ (bytes.drop written).take count)
        ((v.log ++ [v.o.done v.ord step.flushed]).map (·.bytes)) [] := by
      have := hwire.closeLog hfr hok.1
      rw [List.map_append, List.map_cons, List.map_nil]
      show WireIs v.lim _ (v.log.map (·.bytes) ++ [(v.o.done v.ord step.flushed).bytes]) []
      rw [hdone]; exact this
    refine ⟨⟨hl.net, hl.live, hsp, hwire', hlog', hacc' _ _, hack.2 (Nat.le_refl _), hrp.2⟩, ?_, by simp, ha⟩
    show (v.sess.setWritten step.flushed bytes.length bytes.length).data.outbound.Slot _
    rw [Session.setWritten_outbound]
    exact hslot

theorem handlePacket_mps (d : SessionData) (r : Runtime) (p : Recv) :
    (handlePacket d r p).2.1.maximumPacketSize = r.maximumPacketSize := by
  cases p <;> simp only [handlePacket] <;> (repeat' split) <;> rfl

theorem handle_mps (s : Session) (p : Recv) : (s.handle p).1.rt.maximumPacketSize = s.rt.maximumPacketSize := by
  rw [Session.handle_fst_rt]; exact handlePacket_mps _ _ _

theorem takePkt_mps (s : Session) : s.takePkt.1.rt.maximumPacketSize = s.rt.maximumPacketSize := by
  rw [(Session.takePkt_data s).2]

theorem window_mps {s s1 : Session} {n : Nat} (h : s.window = some (s1, n)) :
    s1.rt.maximumPacketSize = s.rt.maximumPacketSize := by rw [(window_fields h).2]

theorem alloc_rt (s : Session) : s.alloc.1.rt = s.rt := by rw [Session.alloc_fst]

theorem retain_mps {s s3 : Session} {id off len : Nat} {isPub : Bool} (hr : s.retain id off len isPub = some s3) :
    s3.rt.maximumPacketSize = s.rt.maximumPacketSize := by
  unfold Session.retain at hr
  split at hr
  · simp at hr
  · simp only [Option.some.injEq] at hr; subst hr
    split <;> rfl

theorem retain_acc {s s3 : Session} {id off len : Nat} {isPub : Bool} (hr : s.retain id off len isPub = some s3) :
    s3.data.everAccepted = s.data.everAccepted := by
  unfold Session.retain at hr
  split at hr
  · simp at hr
  · simp only [Option.some.injEq] at hr; subst hr
    split <;> rfl

theorem alloc_encode_acc {ε : Type} (s : Session) (enc : Nat → (Nat → Nat → Bytes) → Except ε (Nat × Bytes)) :
    (s.alloc.1.encode enc).1.data.everAccepted = s.data.everAccepted := by
  rw [Session.encode_fst, Session.alloc_fst]; exact (nextPacketId_ghost s.data).1

theorem completeFlush_mps (s : Session) (pkt : Flushed) (now : Nat) :
    (s.completeFlush pkt now).rt.maximumPacketSize = s.rt.maximumPacketSize := by
  unfold Session.completeFlush
  cases pkt with
  | control a => simp only [Runtime.noteOutboundActivity]; split <;> rfl
  | release id => rfl
  | retained id => rfl

/-- The flush of the current entry completed. -/
theorem FlushingPre.done {v : View} {step : Outbound.Step} (h : FlushingPre v step) (now : Nat) :
    FlushPre { v with sess := v.sess.completeFlush step.flushed now } := by
  obtain ⟨hl, hs, hst, ha⟩ := h
  refine ⟨[], hl.sess ⟨closed_SP.completeFlush _ _ _ hl.sp, completeFlush_mps _ _ _, ?_, (Prim.completeFlush _ _ _).everAccepted_changes.1 hl.acc, hl.acks.completeFlush hs hst now, hl.relpub.completeFlush _ now⟩, .quiet ?_, ha⟩
  · rw [Session.completeFlush_outbound]; exact hl.log.completeFlush hs hst
  · show (v.sess.completeFlush step.flushed now).data.outbound.Quiet
    rw [Session.completeFlush_outbound]
    exact hs.completeFlush

theorem Hand.dead {v : View} (h : Hand v) : v.live = false := by simp [View.live, h.conn]

theorem LocalPre.dead {v : View} {bytes : Bytes} (h : LocalPre v 0 bytes) : v.live = false := by
  rcases h.2.2.2 with ⟨_, hc, _⟩ | ⟨h0, _⟩
  · exact hc.dead
  · exact (h0 rfl).elim

theorem LocalFlushPre.dead {v : View} (h : LocalFlushPre v 0) : v.live = false := by
  rcases h.2.2.2 with ⟨_, hc, _⟩ | ⟨h0, _⟩
  · exact hc.dead
  · exact (h0 rfl).elim

theorem LocalPre.pfx {v : View} {which : Nat} {bytes : Bytes} (h : LocalPre v which bytes) : DeadOK v := by
  rcases h.2.2.2 with ⟨_, hc, hfr, _⟩ | ⟨_, _, pre, hl, hfr, _⟩
  · exact ⟨Pfx.of_framed hfr, by rw [hc.log]; exact LogSorted.nil⟩
  · exact ⟨hl.wire.pfx_framed hfr, hl.log.sorted⟩

theorem LocalFlushPre.pfx {v : View} {which : Nat} (h : LocalFlushPre v which) : DeadOK v := by
  rcases h.2.2.2 with ⟨_, hc, hfr, _⟩ | ⟨_, _, hl⟩
  · exact ⟨Pfx.of_framed (rest := []) (by simpa using hfr), by rw [hc.log]; exact LogSorted.nil⟩
  · exact ⟨hl.wire.pfx_nil, hl.log.sorted⟩

theorem LocalPre.toFlush {v : View} {which : Nat} (h : LocalPre v which []) : LocalFlushPre v which := by
  obtain ⟨h1, h2, h3, h4⟩ := h
  refine ⟨h1, h2, h3, ?_⟩
  rcases h4 with ⟨h0, hc, hfr, hcc⟩ | ⟨h0, ha, pre, hl, hfr, hfit⟩
  · rw [List.append_nil] at hfr hcc
    exact Or.inl ⟨h0, hc, hfr, hcc⟩
  · rw [List.append_nil] at hfr hfit
    exact Or.inr ⟨h0, ha, ⟨hl.net, hl.live, hl.sp, hl.wire.close hfr hfit, hl.log, hl.acc, hl.acks, hl.relpub⟩⟩

theorem LocalPre.advance {v : View} {which : Nat} {bytes : Bytes} (h : LocalPre v which bytes) (n : Nat) :
    LocalPre { v with wire := v.wire ++ bytes.take n } which (bytes.drop n) := by
  obtain ⟨h1, h2, h3, h4⟩ := h
  refine ⟨h1, h2, h3, ?_⟩
  rcases h4 with ⟨h0, hc, hfr, hcc⟩ | ⟨h0, ha, pre, hl, hfr, hfit⟩
  · left
    refine ⟨h0, ⟨hc.conn, hc.log, hc.fresh⟩, ?_, ?_⟩
    · show Framed ((v.wire ++ bytes.take n) ++ bytes.drop n)
      rw [List.append_assoc, List.take_append_drop]; exact hfr
    · show IsConnect ((v.wire ++ bytes.take n) ++ bytes.drop n)
      rw [List.append_assoc, List.take_append_drop]; exact hcc
  · right
    refine ⟨h0, ha, pre ++ bytes.take n, ⟨hl.net, hl.live, hl.sp, hl.wire.append _, hl.log, hl.acc, hl.acks, hl.relpub⟩, ?_, ?_⟩
    · rw [List.append_assoc, List.take_append_drop]; exact hfr
    · rw [List.append_assoc, List.take_append_drop]; exact hfit

theorem LocalPre.which {v : View} {which k : Nat} {bytes : Bytes} (h : LocalPre v which bytes) (hw : which ≠ 0) (hk : k ≠ 0) :
    LocalPre v k bytes := by
  obtain ⟨h1, h2, h3, h4⟩ := h
  refine ⟨h1, h2, h3, ?_⟩
  rcases h4 with ⟨h0, _⟩ | ⟨_, h5⟩
  · exact (hw h0).elim
  · exact Or.inr ⟨hk, h5⟩

theorem LocalFlushPre.which {v : View} {which k : Nat} (h : LocalFlushPre v which) (hw : which ≠ 0) (hk : k ≠ 0) :
    LocalFlushPre v k := by
  obtain ⟨h1, h2, h3, h4⟩ := h
  refine ⟨h1, h2, h3, ?_⟩
  rcases h4 with ⟨h0, _⟩ | ⟨_, h5⟩
  · exact (hw h0).elim
  · exact Or.inr ⟨hk, h5⟩

/-- During the handshake the session changes (deadlines cleared, reader fed) but the queues stay fresh. -/
theorem LocalFlushPre.sess {v : View} (h : LocalFlushPre v 0) {s : Session} (hs : SP s)
    (hq : s.data.outbound.AllFresh) : LocalFlushPre { v with sess := s } 0 := by
  obtain ⟨h1, _, _, h4⟩ := h
  refine ⟨h1, hs, hq.quiet, ?_⟩
  rcases h4 with ⟨h0, hc, hfr, hcc⟩ | ⟨h0, _⟩
  · exact Or.inl ⟨h0, ⟨hc.conn, hc.log, hq⟩, hfr, hcc⟩
  · exact (h0 rfl).elim

theorem LocalFlushPre.fresh {v : View} (h : LocalFlushPre v 0) : v.o.AllFresh := by
  rcases h.2.2.2 with ⟨_, hc, _⟩ | ⟨h0, _⟩
  · exact hc.fresh
  · exact (h0 rfl).elim

/-- A local write on a live connection completed: back to the idle state. -/
theorem LocalFlushPre.done {v : View} {which : Nat} (h : LocalFlushPre v which) (hw : which ≠ 0) (now : Nat) :
    FlushPre { v with sess := v.sess.noteActivity now } := by
  obtain ⟨h1, h2, h3, h4⟩ := h
  rcases h4 with ⟨h0, _⟩ | ⟨_, ha, hl⟩
  · exact (hw h0).elim
  · exact ⟨[], hl.sess (SessOK.same hl (closed_SP.noteActivity _ _ h2) rfl rfl (Prim.noteActivity _ _) rfl rfl), .quiet h3, ha⟩

/-! ### Fuel: a potential that every call of a machine function decreases

`pollFuel` is enough: one POLL consumes at most one scripted decision (after that every I/O call is
`Pending`), a complete inbound packet is consumed by the next `drive_packet` round, the timer spin of
`wait_for_progress` is cut off after 64 self-wakes, and `flush_outbound` runs at most twice per operation. -/

/-- A decision is still available to the next I/O call. -/
def mS (w : World) : Nat := if w.slot.isSome then 1 else 0
/-- Self-wakes left in this POLL. -/
def mK (w : World) : Nat := 64 - w.wakes

/-- After probing the fixed header, the bytes read so far are a complete packet. -/
def Reader.complete (r : Reader) : Bool :=
  match r.receiveWindow with
  | some (_, n) => n == 0
  | none => false

/-- Reader potential: a packet that still has to be probed (70), a packet that is available (30). -/
def rwN (r : Reader) : Nat := if r.packetAvailable then 30 else if r.complete then 70 else 0
def vN (r : Reader) : Nat := if r.packetAvailable then 1 else 0
def mRW (w : World) : Nat := rwN w.sess.reader
def mV (w : World) : Nat := vN w.sess.reader

def yN (y : Bool) : Nat := if y then 1 else 0
/-- `recv` loops once more after an `Advanced` round. -/
def aN (outer : Outer) (adv : Bool) : Nat := if outer = .recv ∧ adv = true then 1 else 0
def nN (w : World) : Nat := if w.sess.data.outbound.nextStep.isSome then 1 else 0
def kpN : AfterFlush → Nat
  | .post _ _ => 0
  | _ => 1

def mD (w : World) : Nat := 1000 * mS w + 10 * mK w + mRW w

def φFL (w : World) (k : AfterFlush) : Nat := 1000 * mS w + 40 * kpN k + 5
def φAF (w : World) (k : AfterFlush) : Nat := 1000 * mS w + 40 * kpN k + 4
def φPerf (w : World) : Nat := 1000 * mS w + 2
def φIO (w : World) : Nat := 1000 * mS w + 1
def φLW (w : World) : Nat := 1000 * mS w + 2
/-- `doLocalFlush`: only CONNECT's flush goes on (to `doConnRead`). -/
def φLF (w : World) (which : Nat) : Nat := if which = 0 then φIO w else 1
def φSR (w : World) : StepCtx → Nat
  | .flush k => 1000 * mS w + 40 * kpN k + 6
  | .drive _ _ => mD w + 25
def φDL (w : World) (o : Outer) (adv : Bool) : Nat := mD w + 20 * aN o adv + 3
def φDAS (w : World) (o : Outer) (adv : Bool) : Nat := mD w + 20 * aN o adv + 2 + 2 * nN w
def φDE (w : World) : Nat := mD w + 4
def φDWR (w : World) (y : Bool) : Nat := mD w + 5 * yN y + 5 * mV w + 1

theorem mS_le (w : World) : mS w ≤ 1 := by unfold mS; split <;> omega
theorem mK_le (w : World) : mK w ≤ 64 := by unfold mK; omega
theorem mRW_le (w : World) : mRW w ≤ 70 := by
  unfold mRW rwN
  split
  · omega
  · split <;> omega
theorem mV_le (w : World) : mV w ≤ 1 := by unfold mV vN; split <;> omega
theorem yN_le (y : Bool) : yN y ≤ 1 := by unfold yN; split <;> omega
theorem aN_le (o : Outer) (adv : Bool) : aN o adv ≤ 1 := by unfold aN; split <;> omega
theorem nN_le (w : World) : nN w ≤ 1 := by unfold nN; split <;> omega
theorem kpN_le (k : AfterFlush) : kpN k ≤ 1 := by cases k <;> simp [kpN]
theorem aN_false (o : Outer) : aN o false = 0 := by simp [aN]

theorem mS_of_slot {w w' : World} (h : w'.slot = w.slot) : mS w' = mS w := by unfold mS; rw [h]
theorem mK_of_wakes {w w' : World} (h : w'.wakes = w.wakes) : mK w' = mK w := by unfold mK; rw [h]
theorem mRW_of_reader {w w' : World} (h : w'.sess.reader = w.sess.reader) : mRW w' = mRW w := by unfold mRW; rw [h]
theorem mV_of_reader {w w' : World} (h : w'.sess.reader = w.sess.reader) : mV w' = mV w := by unfold mV; rw [h]

theorem mV_avail {w : World} (h : w.sess.reader.packetAvailable = true) : mV w = 1 ∧ mRW w = 30 := by
  simp [mV, vN, mRW, rwN, h]

theorem mV_not_avail {w : World} (h : w.sess.reader.packetAvailable = false) : mV w = 0 := by
  simp [mV, vN, h]

theorem rwN_empty (r : Reader) (h1 : r.data = []) (h2 : r.packetLength = none) : rwN r = 0 ∧ vN r = 0 := by
  have hav : r.packetAvailable = false := by simp [Reader.packetAvailable, h2]
  have hc : r.complete = false := by
    unfold Reader.complete Reader.receiveWindow
    simp only [h2, Option.isNone_none, if_true]
    have hp : r.probe = some r := by
      unfold Reader.probe
      simp [Reader.readBytes, h1]
    rw [hp]
    simp only [h2, Reader.readBytes, h1, List.length_nil, Nat.zero_add]
    split
    · rename_i heq
      split at heq
      · simp only [Option.some.injEq, Prod.mk.injEq] at heq
        simp [← heq.2]
      · simp at heq
    · rfl
  simp [rwN, vN, hav, hc]

/-! #### What the I/O calls do to the potential -/

theorem ioWrite_slot (w : World) (bs : Bytes) :
    (w.ioWrite bs).1.slot = none ∧ (w.ioWrite bs).1.wakes = w.wakes ∧ (∀ k, (w.ioWrite bs).2 = .ok k → w.slot.isSome = true) := by
  unfold World.ioWrite
  cases hs : w.slot with
  | none => exact ⟨hs, rfl, fun k h => by simp at h⟩
  | some n =>
    simp only []
    repeat' split
    all_goals exact ⟨rfl, rfl, fun _ _ => rfl⟩

theorem ioFlush_slot (w : World) :
    (w.ioFlush).1.slot = none ∧ (w.ioFlush).1.wakes = w.wakes ∧ ((w.ioFlush).2 = .ok → w.slot.isSome = true) := by
  unfold World.ioFlush
  cases hs : w.slot with
  | none => exact ⟨hs, rfl, fun h => by simp at h⟩
  | some n =>
    simp only []
    repeat' split
    all_goals exact ⟨rfl, rfl, fun _ => rfl⟩

theorem ioRead_slot (w : World) (n : Nat) :
    (w.ioRead n).1.slot = none ∧ (w.ioRead n).1.wakes = w.wakes ∧ (∀ bs, (w.ioRead n).2 = .ok bs → w.slot.isSome = true) := by
  unfold World.ioRead
  cases hs : w.slot with
  | none => exact ⟨hs, rfl, fun k h => by simp at h⟩
  | some n =>
    simp only []
    repeat' split
    all_goals exact ⟨rfl, rfl, fun _ _ => rfl⟩

/-- After an I/O call the decision is gone; it succeeded only if there was one. -/
theorem ioWrite_pot {w w' : World} {bs : Bytes} {r : WriteRes} (heq : w.ioWrite bs = (w', r)) :
    mS w' = 0 ∧ mK w' = mK w ∧ mRW w' = mRW w ∧ mV w' = mV w ∧ (∀ k, r = .ok k → mS w = 1) := by
  obtain ⟨h1, h2, h3⟩ := ioWrite_slot w bs
  rw [heq] at h1 h2 h3
  have hs := io_write_sess' heq
  have h1' : w'.slot = none := h1
  refine ⟨by simp [mS, h1'], mK_of_wakes h2, mRW_of_reader (by rw [hs]), mV_of_reader (by rw [hs]), ?_⟩
  intro k hk; simp [mS, h3 k hk]

theorem ioFlush_pot {w w' : World} {r : FlushRes} (heq : w.ioFlush = (w', r)) :
    mS w' = 0 ∧ mK w' = mK w ∧ mRW w' = mRW w ∧ mV w' = mV w ∧ (r = .ok → mS w = 1) := by
  obtain ⟨h1, h2, h3⟩ := ioFlush_slot w
  rw [heq] at h1 h2 h3
  have hs := io_flush_sess' heq
  have h1' : w'.slot = none := h1
  refine ⟨by simp [mS, h1'], mK_of_wakes h2, mRW_of_reader (by rw [hs]), mV_of_reader (by rw [hs]), ?_⟩
  intro hk; simp [mS, h3 hk]

theorem ioRead_pot {w w' : World} {n : Nat} {r : ReadRes} (heq : w.ioRead n = (w', r)) :
    mS w' = 0 ∧ mK w' = mK w ∧ mRW w' = mRW w ∧ mV w' = mV w ∧ (∀ bs, r = .ok bs → mS w = 1) := by
  obtain ⟨h1, h2, h3⟩ := ioRead_slot w n
  rw [heq] at h1 h2 h3
  have hs := io_read_sess' heq
  have h1' : w'.slot = none := h1
  refine ⟨by simp [mS, h1'], mK_of_wakes h2, mRW_of_reader (by rw [hs]), mV_of_reader (by rw [hs]), ?_⟩
  intro k hk; simp [mS, h3 k hk]


/-! #### The reader potential -/

theorem probe_fix {r r2 : Reader} (h : r.probe = some r2) (hn : r2.packetLength = none) : r2.probe = some r2 := by
  unfold Reader.probe at h
  split at h
  · simp only [Option.some.injEq] at h; subst h
    rename_i h1
    unfold Reader.probe; rw [if_pos h1]
  · rename_i h1
    simp only [] at h
    split at h
    · simp at h
    · rename_i h2
      simp only [Option.some.injEq] at h
      subst h
      simp only [] at hn
      simp only [Reader.probe, Reader.readBytes] at h1 h2 ⊢
      simp_all

/-- Probing is idempotent: the reader returned by `receive_buffer` offers the same window again. -/
theorem receiveWindow_idem {r r1 : Reader} {n : Nat} (h : r.receiveWindow = some (r1, n)) :
    r1.receiveWindow = some (r1, n) := by
  unfold Reader.receiveWindow at h
  simp only [] at h
  split at h
  · simp at h
  · rename_i r2 hr2
    have hfix : (if r2.packetLength.isNone = true then r2.probe else some r2) = some r2 := by
      cases hpl : r2.packetLength with
      | some l => simp
      | none =>
        simp only [Option.isNone_none, if_true]
        split at hr2
        · exact probe_fix hr2 hpl
        · rename_i hsome
          simp only [Option.some.injEq] at hr2; subst hr2
          simp [hpl] at hsome
    have hr1 : r1 = r2 := by
      cases hpl : r2.packetLength with
      | none =>
        rw [hpl] at h
        simp only [] at h
        split at h
        · simp only [Option.some.injEq, Prod.mk.injEq] at h; exact h.1.symm
        · simp at h
      | some l =>
        rw [hpl] at h
        simp only [] at h
        split at h
        · simp only [Option.some.injEq, Prod.mk.injEq] at h; exact h.1.symm
        · simp at h
    subst hr1
    unfold Reader.receiveWindow
    simp only []
    rw [hfix]
    exact h

theorem window_idem {s s1 : Session} {n : Nat} (h : s.window = some (s1, n)) : s1.window = some (s1, n) := by
  unfold Session.window at h ⊢
  split at h
  · simp at h
  · rename_i rd m hr
    simp only [Option.some.injEq, Prod.mk.injEq] at h
    obtain ⟨rfl, rfl⟩ := h
    simp only []
    rw [receiveWindow_idem hr]

theorem receiveWindow_zero_avail {r r1 : Reader} (h : r.receiveWindow = some (r1, 0)) : r1.packetAvailable = true := by
  unfold Reader.receiveWindow at h
  simp only [] at h
  split at h
  · simp at h
  · rename_i r2 hr2
    cases hpl : r2.packetLength with
    | none =>
      rw [hpl] at h
      simp only [] at h
      split at h
      · simp only [Option.some.injEq, Prod.mk.injEq] at h
        omega
      · simp at h
    | some l =>
      rw [hpl] at h
      simp only [] at h
      split at h
      · simp only [Option.some.injEq, Prod.mk.injEq] at h
        obtain ⟨rfl, h2⟩ := h
        simp only [Reader.packetAvailable, hpl, decide_eq_true_eq]
        omega
      · simp at h

theorem window_reader {s s1 : Session} {n : Nat} (h : s.window = some (s1, n)) :
    s.reader.receiveWindow = some (s1.reader, n) := by
  unfold Session.window at h
  split at h
  · simp at h
  · rename_i rd k hrw
    simp only [Option.some.injEq, Prod.mk.injEq] at h
    obtain ⟨rfl, rfl⟩ := h
    exact hrw

/-- What probing the reader means for the potential (when no packet is available yet). -/
theorem window_metrics {s s1 : Session} {n : Nat} (h : s.window = some (s1, n)) (hna : s.reader.packetAvailable = false) :
    (n = 0 → rwN s.reader = 70 ∧ rwN s1.reader = 30 ∧ vN s1.reader = 1) ∧
    (n ≠ 0 → rwN s.reader = 0 ∧ rwN s1.reader = 0 ∧ vN s1.reader = 0) := by
  have hr := window_reader h
  have hidem := receiveWindow_idem hr
  constructor
  · intro h0; subst h0
    have hav := receiveWindow_zero_avail hr
    refine ⟨?_, by simp [rwN, hav], by simp [vN, hav]⟩
    simp [rwN, hna, Reader.complete, hr]
  · intro hn
    have hav : s1.reader.packetAvailable = false := window_not_avail h hn
    refine ⟨?_, ?_, by simp [vN, hav]⟩
    · simp [rwN, hna, Reader.complete, hr, hn]
    · simp [rwN, hav, Reader.complete, hidem, hn]

theorem takePkt_reader_empty (s : Session) (h : s.reader.packetAvailable = true) :
    s.takePkt.1.reader.data = [] ∧ s.takePkt.1.reader.packetLength = none := by
  unfold Session.takePkt Reader.takePacket
  cases hp : s.reader.packetLength with
  | none => simp [Reader.packetAvailable, hp] at h
  | some l =>
    simp only []
    split <;> exact ⟨rfl, rfl⟩

/-- Handling the available packet empties the reader and touches neither the decision nor the wake count. -/
theorem process_pot (w : World) (h : w.sess.reader.packetAvailable = true) :
    mS (w.processReceivedPacket).1 = mS w ∧ mK (w.processReceivedPacket).1 = mK w ∧
    mRW (w.processReceivedPacket).1 = 0 ∧ mV (w.processReceivedPacket).1 = 0 := by
  obtain ⟨e1, e2⟩ := takePkt_reader_empty w.sess h
  unfold World.processReceivedPacket
  simp only [h, Bool.not_true, Bool.false_eq_true, if_false]
  have hempty : ∀ (r : Reader), r.data = [] → r.packetLength = none → rwN r = 0 ∧ vN r = 0 := rwN_empty
  split
  · exact ⟨rfl, rfl, (hempty _ rfl rfl).1, (hempty _ rfl rfl).2⟩
  · rename_i len pkt hres
    have hrd : (w.sess.takePkt.1.handle pkt).1.reader = w.sess.takePkt.1.reader := handle_reader _ _
    have hz := hempty (w.sess.takePkt.1.handle pkt).1.reader (by rw [hrd]; exact e1) (by rw [hrd]; exact e2)
    split
    all_goals first
      | exact ⟨rfl, rfl, hz.1, hz.2⟩
      | exact ⟨rfl, rfl, (hempty _ rfl rfl).1, (hempty _ rfl rfl).2⟩


/-! ### The thirteen machine functions -/

/-- The statement proved for all thirteen mutually recursive machine functions at once: given fuel
for its potential and its own precondition, each function ends — when it returns to the caller or
suspends — in a state satisfying the invariant. In particular the fuel never runs out. -/
def MachineW (fuel : Nat) : Prop :=
  (∀ w k, φFL w k ≤ fuel → FlushPre w.view → Post (flushLoop fuel w k)) ∧
  (∀ w ctx step now, φPerf w ≤ fuel → FlushPre w.view → w.view.o.nextStep = some step →
      Post (performStep fuel w ctx step now)) ∧
  (∀ w ctx pkt bytes wr len now, φIO w ≤ fuel → PcOK w.view (.stepWrite ctx pkt bytes wr len now) →
      Post (doStepWrite fuel w ctx pkt bytes wr len now)) ∧
  (∀ w ctx pkt now, φIO w ≤ fuel → PcOK w.view (.stepFlush ctx pkt now) → Post (doStepFlush fuel w ctx pkt now)) ∧
  (∀ w ctx adv, φSR w ctx ≤ fuel → FlushPre w.view → Post (stepReturned fuel w ctx adv)) ∧
  (∀ w k, φAF w k ≤ fuel → QuietPre w.view → w.view.avail = false → Post (afterFlush fuel w k)) ∧
  (∀ w which bytes, φLW w ≤ fuel → LocalPre w.view which bytes → Post (doLocalWrite fuel w which bytes)) ∧
  (∀ w which, φLF w which ≤ fuel → LFPre w.view which → Post (doLocalFlush fuel w which)) ∧
  (∀ w, φIO w ≤ fuel → LocalFlushPre w.view 0 → Post (doConnRead fuel w)) ∧
  (∀ w o adv, φDL w o adv ≤ fuel → DrivePre w.view → Post (driveLoop fuel w o adv)) ∧
  (∀ w o adv, φDAS w o adv ≤ fuel → DrivePre w.view → Post (driveAfterService fuel w o adv)) ∧
  (∀ w o, φDE w ≤ fuel → DrivePre w.view → Post (driveEnter fuel w o)) ∧
  (∀ w o d y, φDWR w y ≤ fuel → IdlePre w.view → d = w.sess.rt.nextDeadline → Post (doWaitRead fuel w o d y))

theorem φSR_le (w : World) (ctx : StepCtx) : φSR w ctx ≤ 1000 * mS w + 735 := by
  have := mK_le w; have := mRW_le w
  cases ctx with
  | flush k => have := kpN_le k; simp only [φSR]; omega
  | drive a o => simp only [φSR, mD]; omega

theorem φDWR_le (w : World) (y : Bool) : φDWR w y ≤ 1000 * mS w + 721 := by
  have := mK_le w; have := mRW_le w; have := mV_le w; have := yN_le y
  simp only [φDWR, mD]; omega

theorem machineW_zero : MachineW 0 := by
  refine ⟨?_, ?_, ?_, ?_, ?_, ?_, ?_, ?_, ?_, ?_, ?_, ?_, ?_⟩
  · intro w k hf; simp only [φFL] at hf; omega
  · intro w ctx step now hf; simp only [φPerf] at hf; omega
  · intro w ctx pkt bytes wr len now hf; simp only [φIO] at hf; omega
  · intro w ctx pkt now hf; simp only [φIO] at hf; omega
  · intro w ctx adv hf; cases ctx <;> simp only [φSR, mD] at hf <;> omega
  · intro w k hf; simp only [φAF] at hf; omega
  · intro w which bytes hf; simp only [φLW] at hf; omega
  · intro w which hf; simp only [φLF, φIO] at hf; split at hf <;> omega
  · intro w hf; simp only [φIO] at hf; omega
  · intro w o adv hf; simp only [φDL] at hf; omega
  · intro w o adv hf; simp only [φDAS] at hf; omega
  · intro w o hf; simp only [φDE] at hf; omega
  · intro w o d y hf; simp only [φDWR] at hf; omega

theorem maybeQueuePingreq_ok {w w' : World} {now : Nat} (h : w.maybeQueuePingreq now = .ok w') :
    ∃ s', w.sess.queuePing now = .ok s' ∧ w' = { w with sess := s' } := by
  unfold World.maybeQueuePingreq at h
  split at h
  · simp at h
  · rename_i s hs
    simp only [Except.ok.injEq] at h
    exact ⟨s, hs, h.symm⟩

theorem prepareStep_done (w : World) (step : Outbound.Step) (h : prepareStep w step = .done) : step.state = .sent := by
  cases step with
  | control a st =>
    cases st with
    | write wr =>
      simp only [prepareStep] at h
      split at h
      · simp at h
      · split at h <;> simp at h
    | flush => simp [prepareStep] at h
    | sent => rfl
  | release id rc st =>
    cases st with
    | write wr =>
      simp only [prepareStep] at h
      split at h
      · simp at h
      · split at h <;> simp at h
    | flush => simp [prepareStep] at h
    | sent => rfl
  | retained id off len st =>
    cases st with
    | write wr =>
      simp only [prepareStep] at h
      split at h <;> simp at h
    | flush => simp [prepareStep] at h
    | sent => rfl

theorem wire_stepReturned (fuel : Nat) (ih : MachineW fuel) :
    ∀ w ctx adv, φSR w ctx ≤ fuel + 1 → FlushPre w.view → Post (stepReturned (fuel + 1) w ctx adv) := by
  intro w ctx adv hfuel h
  obtain ⟨i1, _, _, _, _, _, _, _, _, _, i11, _, _⟩ := ih
  unfold stepReturned
  split
  · rename_i k
    exact i1 _ _ (by simp only [φSR, φFL] at hfuel ⊢; omega) h
  · rename_i advanced outer
    have := aN_le outer (advanced || adv); have := nN_le w
    exact i11 _ _ _ (by simp only [φSR, φDAS] at hfuel ⊢; omega) h.drive

theorem wire_doStepFlush (fuel : Nat) (ih : MachineW fuel) :
    ∀ w ctx pkt now, φIO w ≤ fuel + 1 → PcOK w.view (.stepFlush ctx pkt now) → Post (doStepFlush (fuel + 1) w ctx pkt now) := by
  intro w ctx pkt now hfuel ⟨step, hpre, hpkt⟩
  obtain ⟨_, _, _, _, i5, _⟩ := ih
  simp only [doStepFlush]
  split
  · rename_i w' heq
    have hv := ioFlush_view heq
    apply Post.suspend
    rw [hv]; exact ⟨step, hpre, hpkt⟩
  · rename_i w' k heq
    have hv := ioFlush_view heq
    exact Post.hd_finishErr _ _ (by rw [hv]; exact hpre.pfx)
  · rename_i w' heq
    have hv := ioFlush_view heq
    obtain ⟨p1, _, _, _, p5⟩ := ioFlush_pot heq
    have hs1 := p5 rfl
    apply i5
    · have hb := φSR_le (w'.completeFlush pkt now) ctx
      have e : mS (w'.completeFlush pkt now) = mS w' := rfl
      simp only [φIO] at hfuel; omega
    · show FlushPre { w'.view with sess := w'.view.sess.completeFlush pkt now }
      rw [hv, hpkt]; exact hpre.done now

theorem wire_doStepWrite (fuel : Nat) (ih : MachineW fuel) :
    ∀ w ctx pkt bytes wr len now, φIO w ≤ fuel + 1 → PcOK w.view (.stepWrite ctx pkt bytes wr len now) →
      Post (doStepWrite (fuel + 1) w ctx pkt bytes wr len now) := by
  intro w ctx pkt bytes wr len now hfuel ⟨step, hpre, hpkt, hlen⟩
  obtain ⟨_, _, _, i4, i5, _⟩ := ih
  simp only [doStepWrite]
  split
  · rename_i w' heq
    have hv := ioWrite_view hpre.1.net heq
    simp only [] at hv
    apply Post.suspend
    rw [hv]; exact ⟨step, hpre, hpkt, hlen⟩
  · rename_i w' heq
    have hv := ioWrite_view hpre.1.net heq
    simp only [] at hv
    exact Post.df_finishErr _ _ _ (by rw [hv]; exact hpre.flushPre)
  · rename_i w' k heq
    have hv := ioWrite_view hpre.1.net heq
    simp only [] at hv
    exact Post.hd_finishErr _ _ (by rw [hv]; exact hpre.pfx)
  · rename_i w' count heq
    have hv := ioWrite_view hpre.1.net heq
    simp only [] at hv
    obtain ⟨hc, hv⟩ := hv
    obtain ⟨p1, _, _, _, p5⟩ := ioWrite_pot heq
    have hs1 := p5 count rfl
    have hadv := hpre.advance count hc
    subst hlen hpkt
    have e : mS (w'.setWritten step.flushed (wr + count) bytes.length) = mS w' := rfl
    split
    · rename_i hlt
      apply i5
      · have hb := φSR_le (w'.setWritten step.flushed (wr + count) bytes.length) ctx
        simp only [φIO] at hfuel; omega
      · rw [view_setWritten, if_neg (by omega), hv]; exact hadv.1 hlt
    · rename_i hge
      apply i4
      · simp only [φIO] at hfuel ⊢; omega
      · rw [view_setWritten, if_pos (by omega), hv]; exact ⟨step.withState .flush, hadv.2 hge, by simp⟩

theorem wire_performStep (fuel : Nat) (ih : MachineW fuel) :
    ∀ w ctx step now, φPerf w ≤ fuel + 1 → FlushPre w.view → w.view.o.nextStep = some step →
      Post (performStep (fuel + 1) w ctx step now) := by
  intro w ctx step now hfuel h hn
  obtain ⟨_, _, i3, i4, i5, _⟩ := ih
  have hslot : w.sess.data.outbound.Slot step ∧ SP w.sess := by
    obtain ⟨part, hl, ho, _⟩ := h
    exact ⟨(ho.of_nextStep hl.sp.ids hn).1, hl.sp⟩
  have hio : φIO w ≤ fuel := by simp only [φPerf, φIO] at hfuel ⊢; omega
  simp only [performStep]
  split
  · exact Post.fs_finishErr _ _ _ _ h
  · rename_i hprep
    exact absurd (prepareStep_done w step hprep) (sf_nextStep_not_sent _ _ hn)
  · rename_i pkt hprep
    obtain ⟨hp1, hp2⟩ := prepareStep_flush w step hprep
    split
    · exact Post.df_finishErr _ _ _ h
    · exact i4 _ _ _ _ hio ⟨step, h.flushing hn hp2, hp1⟩
  · rename_i pkt bytes written len hprep
    obtain ⟨q1, q2, q3, q4, q5, q6, q7⟩ := prepareStep_write w step hslot.1 hslot.2 hprep
    split
    · exact Post.df_finishErr _ _ _ h
    · exact i3 _ _ _ _ _ _ _ hio ⟨step, h.writing hn q2 q3 q5 q6 (fits_of_not_tooLarge q7), q1, q4⟩

theorem wire_flushLoop (fuel : Nat) (ih : MachineW fuel) :
    ∀ w k, φFL w k ≤ fuel + 1 → FlushPre w.view → Post (flushLoop (fuel + 1) w k) := by
  intro w k hfuel h
  obtain ⟨_, i2, _, _, _, i6, _⟩ := ih
  simp only [flushLoop]
  split
  · exact Post.df_finishErr _ _ _ h
  · rename_i w' heq
    obtain ⟨s', hq, rfl⟩ := maybeQueuePingreq_ok heq
    have h' : FlushPre ({ w with sess := s' } : World).view := h.queuePing hq
    have e : mS ({ w with sess := s' } : World) = mS w := rfl
    split
    · rename_i hnone
      obtain ⟨a, c⟩ := h'.none hnone
      exact i6 _ _ (by simp only [φFL, φAF] at hfuel ⊢; omega) a c
    · rename_i step hsome
      exact i2 _ _ _ _ (by have := kpN_le k; simp only [φFL, φPerf] at hfuel ⊢; omega) h' hsome

theorem wire_driveEnter (fuel : Nat) (ih : MachineW fuel) :
    ∀ w o, φDE w ≤ fuel + 1 → DrivePre w.view → Post (driveEnter (fuel + 1) w o) := by
  intro w o hfuel h
  obtain ⟨_, _, _, _, _, _, _, _, _, i10, _⟩ := ih
  have hl : w.live = true := by
    obtain ⟨part, hl, _⟩ := h
    exact hl.live
  simp only [driveEnter, hl, Bool.not_true, Bool.false_eq_true, if_false]
  exact i10 _ _ _ (by have := aN_false o; simp only [φDE, φDL] at hfuel ⊢; omega) h

theorem wire_doLocalWrite (fuel : Nat) (ih : MachineW fuel) :
    ∀ w which bytes, φLW w ≤ fuel + 1 → LocalPre w.view which bytes → Post (doLocalWrite (fuel + 1) w which bytes) := by
  intro w which bytes hfuel h
  obtain ⟨_, _, _, _, _, _, i7, i8, _⟩ := ih
  simp only [doLocalWrite]
  split
  · rename_i hemp
    have : bytes = [] := by simpa using hemp
    subst this
    rcases discDone_cases w which with ⟨e, h01⟩ | ⟨e, h0, h1⟩ <;> rw [e]
    · refine i8 _ _ ?_ ?_
      · simp only [φLF, φLW, φIO] at hfuel ⊢; split <;> omega
      · rcases h01 with h0 | h1
        · subst h0; simp only [LFPre, if_true]; exact h.toFlush
        · subst h1; simp only [LFPre]; exact h.toFlush
    · refine i8 _ _ ?_ ?_
      · simp only [φLF, φLW, if_neg h0] at hfuel ⊢; omega
      · simp only [LFPre, if_neg h0, if_neg h1]
        rw [view_handleDisconnect]
        have hlive : w.view.live = true := by
          rcases h.2.2.2 with ⟨hz, _⟩ | ⟨_, _, pre, hl, _⟩
          · exact (h0 hz).elim
          · exact hl.live
        have hsome : w.view.conn.isSome = true := by
          unfold View.live at hlive
          cases hc : w.view.conn with
          | none => rw [hc] at hlive; cases hlive
          | some c => rfl
        refine ⟨h.1, hd_live w.view w.sess.handleDisconnect, h.pfx, ?_⟩
        show (w.view.conn.map _).isSome = true
        rw [Option.isSome_map]; exact hsome
  · split
    · rename_i w' heq
      have hv := ioWrite_view h.1 heq
      simp only [] at hv
      apply Post.suspend
      rw [hv]
      split
      · rename_i h0; subst h0; exact h
      · rename_i h0
        split
        · rename_i h1; subst h1; exact h
        · exact h.which h0 (by decide)
    · rename_i w' n heq
      have hv := ioWrite_view h.1 heq
      simp only [] at hv
      obtain ⟨p1, _, _, _, p5⟩ := ioWrite_pot heq
      have hs1 := p5 n rfl
      apply i7
      · simp only [φLW] at hfuel ⊢; omega
      · rw [hv.2]; exact h.advance n
    · rename_i w' heq
      have hv := ioWrite_view h.1 heq
      simp only [] at hv
      split
      · rename_i h0; subst h0
        exact Post.dead_finishErr _ _ (by rw [hv]; exact h.dead) (by rw [hv]; exact h.pfx)
      · split <;> exact Post.hd_finishErr _ _ (by rw [hv]; exact h.pfx)
    · rename_i w' k heq
      have hv := ioWrite_view h.1 heq
      simp only [] at hv
      split
      · rename_i h0; subst h0
        exact Post.dead_finishErr _ _ (by rw [hv]; exact h.dead) (by rw [hv]; exact h.pfx)
      · split <;> exact Post.hd_finishErr _ _ (by rw [hv]; exact h.pfx)

theorem allFresh_activate (s : Session) (sp : Bool) (block : Bytes) (now : Nat) (h : s.data.outbound.AllFresh) :
    (s.activate sp block now).1.data.outbound.AllFresh := by
  unfold Session.activate
  simp only []
  have h0 : (if (!sp) = true then { s with data := s.data.reset } else s).data.outbound.AllFresh := by
    split
    · constructor <;> simp [SessionData.reset, Outbound.clear]
    · exact h
  generalize (if (!sp) = true then { s with data := s.data.reset } else s) = s0 at h0 ⊢
  split
  · exact handleDisconnect_allFresh _
  · exact h0

theorem activate_post (w : World) (sp : Bool) (block : Bytes) (h : LocalFlushPre w.view 0)
    (hav : w.sess.reader.packetAvailable = false) : Post (World.activate w sp block) := by
  have hpfx := h.pfx
  obtain ⟨h1, h2, h3, h4⟩ := h
  rcases h4 with ⟨_, hc, hfr, hcc⟩ | ⟨h0, _⟩
  · have hlog0 : w.view.log = [] := hc.log
    unfold World.activate
    split
    · rename_i s e heq
      exact Post.dead_finishErr _ _ (hd_live w.view s) hpfx
    · rename_i s heq
      apply Post.live_finish
      have hs : s = (w.sess.activate sp block w.now).1 := by rw [heq]
      have hok : (w.sess.activate sp block w.now).2 = .ok () := by rw [heq]
      refine ⟨[], ⟨h1, rfl, ?_, ?_, ?_, ?_, ?_, ?_⟩, .quiet ?_, ?_⟩
      · show SP s
        rw [hs]; exact closed_SP.activate _ _ _ _ h2
      · show WireIs _ w.view.wire (w.view.log.map (·.bytes)) []
        rw [hlog0]; exact WireIs.first _ hfr hcc
      · show s.data.outbound.Log w.view.ord w.view.log
        rw [hlog0, hs]; exact Log_of_allFresh _ _ (allFresh_activate _ _ _ _ hc.fresh).retained (allFresh_activate _ _ _ _ hc.fresh).release
      · show s.data.everAccepted = true
        rw [hs]; exact ((activate_halfReset _ _ _ _).2.2 ((activate_ok_iff _ _ _ _).1 hok)).2
      · show AckEq s w.view.log
        rw [hlog0, hs]; exact AckEq.activate _ _ _ _ hok (allFresh_activate _ _ _ _ hc.fresh).control
      · show RelPub s w.view.log
        rw [hlog0, hs]; exact RelPub.activate _ _ _ _ hok (closed_SP.activate _ _ _ _ h2).rel
      · show s.data.outbound.Quiet
        rw [hs]; exact Quiet_activate _ _ _ _ h3
      · show s.reader.packetAvailable = false
        rw [hs, activate_reader _ _ _ _ hok]; exact hav
  · exact (h0 rfl).elim

theorem connectGotPacket_post (w : World) (h : LocalFlushPre w.view 0) : Post (World.connectGotPacket w) := by
  have h1 : LocalFlushPre ({ w with sess := w.sess.takePkt.1 } : World).view 0 :=
    h.sess (closed_SP.takePkt _ h.2.1) (handshake_keeps_allFresh _ h.fresh).2.2.2.2
  unfold World.connectGotPacket
  simp only []
  split
  · exact Post.hd_finishErr _ _ h1.pfx
  · split
    · exact Post.dead_finishErr _ _ h1.dead h1.pfx
    · exact activate_post _ _ _ h1 (takePkt_not_avail _)
  · exact Post.hd_finishErr _ _ h1.pfx
  · exact Post.hd_finishErr _ _ h1.pfx

theorem wire_doLocalFlush (fuel : Nat) (ih : MachineW fuel) :
    ∀ w which, φLF w which ≤ fuel + 1 → LFPre w.view which → Post (doLocalFlush (fuel + 1) w which) := by
  intro w which hfuel h
  obtain ⟨_, _, _, _, _, _, _, _, i9, _⟩ := ih
  by_cases h0 : which = 0
  · -- CONNECT
    subst h0
    simp only [LFPre, if_true] at h
    simp only [φLF, if_true] at hfuel
    simp only [doLocalFlush, if_true]
    split
    · rename_i w' heq
      have hv := ioFlush_view heq
      apply Post.suspend
      rw [hv]; exact h
    · rename_i w' k heq
      have hv := ioFlush_view heq
      exact Post.dead_finishErr _ _ (by rw [hv]; exact h.dead) (by rw [hv]; exact h.pfx)
    · rename_i w' heq
      have hv := ioFlush_view heq
      obtain ⟨p1, _, _, _, p5⟩ := ioFlush_pot heq
      have hs1 := p5 rfl
      apply i9
      · have e : mS ({ w' with sess := w'.sess.clearPing } : World) = mS w' := rfl
        simp only [φIO] at hfuel ⊢; omega
      · show LocalFlushPre { w'.view with sess := w'.view.sess.clearPing } 0
        rw [hv]; exact h.sess (closed_SP.clearPing _ h.2.1) (handshake_keeps_allFresh _ h.fresh).2.1
  by_cases h1 : which = 1
  · -- QoS 0 PUBLISH
    subst h1
    simp only [LFPre] at h
    simp only [doLocalFlush]
    split
    · rename_i w' heq
      have hv := ioFlush_view heq
      apply Post.suspend
      rw [hv]; exact h
    · rename_i w' k heq
      have hv := ioFlush_view heq
      exact Post.hd_finishErr _ _ (by rw [hv]; exact h.pfx)
    · rename_i w' heq
      have hv := ioFlush_view heq
      apply Post.live_finish
      show FlushPre { w'.view with sess := w'.view.sess.noteActivity w'.now }
      rw [hv]; exact h.done (by decide) _
  · -- DISCONNECT: the handle is dead already; whatever the flush does, a dead connection is left
    simp only [LFPre, if_neg h0, if_neg h1] at h
    obtain ⟨hnet, hlive, hdead, hconn⟩ := h
    simp only [doLocalFlush, if_neg h0, if_neg h1]
    split
    · rename_i w' heq
      have hv := ioFlush_view heq
      apply Post.suspend
      rw [hv]
      exact ⟨hnet, hlive, hdead, hconn⟩
    · rename_i w' k heq
      have hv := ioFlush_view heq
      exact Post.hd_finishErr _ _ (by rw [hv]; exact hdead)
    · rename_i w' heq
      have hv := ioFlush_view heq
      exact Post.hd_finish _ (by rw [hv]; exact hdead)

theorem wire_doConnRead (fuel : Nat) (ih : MachineW fuel) :
    ∀ w, φIO w ≤ fuel + 1 → LocalFlushPre w.view 0 → Post (doConnRead (fuel + 1) w) := by
  intro w hfuel h
  obtain ⟨_, _, _, _, _, _, _, _, i9, _⟩ := ih
  simp only [doConnRead]
  split
  · exact connectGotPacket_post w h
  · split
    · exact Post.hd_finishErr _ _ h.pfx
    · rename_i s1 window hw
      have h1 : LocalFlushPre ({ w with sess := s1 } : World).view 0 :=
        h.sess (closed_SP.window _ _ _ h.2.1 hw) ((handshake_keeps_allFresh _ h.fresh).2.2.2.1 _ _ hw)
      split
      · exact connectGotPacket_post _ h1
      · split
        · rename_i w' heq
          have hv := ioRead_view h1.1 heq
          apply Post.suspend
          rw [hv]; exact h1
        · rename_i w' heq
          have hv := ioRead_view h1.1 heq
          exact Post.hd_finishErr _ _ (by rw [hv]; exact h1.pfx)
        · rename_i w' k heq
          have hv := ioRead_view h1.1 heq
          exact Post.hd_finishErr _ _ (by rw [hv]; exact h1.pfx)
        · rename_i w' bytes heq
          have hv := ioRead_view h1.1 heq
          obtain ⟨p1, _, _, _, p5⟩ := ioRead_pot heq
          have hs1 : mS w = 1 := p5 bytes rfl
          apply i9
          · have e : mS ({ w' with sess := w'.sess.commit bytes } : World) = mS w' := rfl
            simp only [φIO] at hfuel ⊢; omega
          · show LocalFlushPre { w'.view with sess := w'.view.sess.commit bytes } 0
            rw [hv]; exact h1.sess (closed_SP.commit _ _ h1.2.1) ((handshake_keeps_allFresh _ h1.fresh).2.2.1 bytes)

/-- A complete inbound packet is handled while nothing is in progress; afterwards nothing is in
progress, the reader is empty, and the connection is either as before or dead. -/
theorem processReceivedPacket_spec (w : World) (h : DrivePre w.view) (hav : w.sess.reader.packetAvailable = true) :
    FlushPre (w.processReceivedPacket).1.view ∨
    ((w.processReceivedPacket).1.view.live = false ∧ DeadOK (w.processReceivedPacket).1.view ∧
      ∃ e, (w.processReceivedPacket).2 = .error e) := by
  obtain ⟨part, hl, ho, hq⟩ := h
  obtain ⟨hquiet, hidle⟩ := hq hav
  have hpart := ho.of_quiet hquiet
  subst hpart
  have hsp1 := closed_SP.takePkt _ hl.sp
  have hq1 := Quiet_takePkt _ hquiet
  unfold World.processReceivedPacket
  simp only [hav, Bool.not_true, Bool.false_eq_true, if_false]
  split
  · exact Or.inr ⟨hd_live w.view _, ⟨hl.wire.pfx_nil, hl.log.sorted⟩, _, rfl⟩
  · rename_i len pkt hres
    have hsp2 := closed_SP.handle _ pkt hsp1
    have hq2 := Quiet_handle _ pkt hq1
    have hav2 : (w.sess.takePkt.1.handle pkt).1.reader.packetAvailable = false := by
      rw [handle_reader]; exact takePkt_not_avail _
    have hgood : FlushPre ({ ({ w with sess := w.sess.takePkt.1 } : World) with sess := (w.sess.takePkt.1.handle pkt).1 } : World).view :=
      ⟨[], (hl.sess (SessOK.same hl hsp1 (takePkt_mps _) (by rw [(Session.takePkt_data _).1]) (Prim.takePkt _) (takePkt_inlog _) (takePkt_rmark _))).sess
        ⟨hsp2, handle_mps _ _, Log_handle _ _ _ _ hsp1.arena (by rw [(Session.takePkt_data _).1]; exact hl.log),
         (Prim.handle _ pkt).everAccepted_changes.1 ((Prim.takePkt _).everAccepted_changes.1 hl.acc),
         (hl.acks.same (by rw [(Session.takePkt_data _).1]) (takePkt_inlog _)).handle pkt,
         (hl.relpub.same_out (by rw [(Session.takePkt_data _).1]) (takePkt_rmark _)).handle (k := w.view.ord)
           (by rw [(Session.takePkt_data _).1]; exact hl.log.p) (by rw [(Session.takePkt_data _).1]; exact hidle) pkt⟩,
        .quiet hq2, hav2⟩
    split
    · exact Or.inl hgood
    · exact Or.inl hgood
    · exact Or.inr ⟨hd_live w.view _, ⟨hl.wire.pfx_nil, hl.log.sorted⟩, _, rfl⟩
    · exact Or.inr ⟨hd_live w.view _, ⟨hl.wire.pfx_nil, hl.log.sorted⟩, _, rfl⟩
    · exact Or.inr ⟨hd_live w.view _, ⟨hl.wire.pfx_nil, hl.log.sorted⟩, _, rfl⟩
    · exact Or.inl hgood

theorem process_post (fuel : Nat) (i10 : ∀ w o adv, φDL w o adv ≤ fuel → DrivePre w.view → Post (driveLoop fuel w o adv))
    (w : World) (outer : Outer) (h : DrivePre w.view) (hav : w.sess.reader.packetAvailable = true)
    (hfuel : mD w ≤ fuel + 7) :
    Post (match w.processReceivedPacket with
      | (w, .error e) => w.finishErr (outerName outer) e
      | (w, .ok (some len)) => w.deliver (outerName outer) len
      | (w, .ok none) => driveLoop fuel w outer true) := by
  have hspec := processReceivedPacket_spec w h hav
  obtain ⟨q1, q2, q3, _⟩ := process_pot w hav
  have hrw := (mV_avail hav).2
  split
  · rename_i w' e heq
    rw [heq] at hspec
    rcases hspec with hf | ⟨h1, h2, _⟩
    · exact Post.live_finishErr _ _ hf
    · exact Post.dead_finishErr _ _ h1 h2
  · rename_i w' len heq
    rw [heq] at hspec
    rcases hspec with hf | ⟨_, _, e, h3⟩
    · exact Post.live_deliver _ _ hf
    · cases h3
  · rename_i w' heq
    rw [heq] at hspec q1 q2 q3
    rcases hspec with hf | ⟨_, _, e, h3⟩
    · refine i10 _ _ _ ?_ hf.drive
      have := aN_le outer true
      have e1 : mS w' = mS w := q1
      have e2 : mK w' = mK w := q2
      have e3 : mRW w' = 0 := q3
      simp only [φDL, mD] at hfuel ⊢; omega
    · cases h3

/-- `service(now)` after the ping-timeout check: maybe queue a PINGREQ, then one outbound step. -/
theorem service_post (fuel : Nat) (ih : MachineW fuel) (w : World) (o : Outer) (adv : Bool)
    (hfuel : φDL w o adv ≤ fuel + 1) (hf : FlushPre w.view) :
    Post (match w.maybeQueuePingreq w.now with
      | .error e => w.finishErr (outerName o) e
      | .ok w_1 =>
        match w_1.sess.data.outbound.nextStep with
        | none => driveAfterService fuel w_1 o adv
        | some step => performStep fuel w_1 (.drive adv o) step w.now) := by
  obtain ⟨_, i2, _, _, _, _, _, _, _, _, i11, _, _⟩ := ih
  split
  · exact Post.live_finishErr _ _ hf
  · rename_i w' heq
    obtain ⟨s', hq, rfl⟩ := maybeQueuePingreq_ok heq
    have h' : FlushPre ({ w with sess := s' } : World).view := hf.queuePing hq
    have e1 : mS ({ w with sess := s' } : World) = mS w := rfl
    have e2 : mK ({ w with sess := s' } : World) = mK w := rfl
    have e3 : mRW ({ w with sess := s' } : World) = mRW w := mRW_of_reader (queuePing_reader hq)
    split
    · rename_i hnone
      have e4 : nN ({ w with sess := s' } : World) = 0 := by simp [nN, hnone]
      exact i11 _ _ _ (by simp only [φDL, φDAS, mD] at hfuel ⊢; omega) h'.drive
    · rename_i step hsome
      exact i2 _ _ _ _ (by simp only [φDL, φPerf, mD] at hfuel ⊢; omega) h' hsome

theorem wire_driveLoop (fuel : Nat) (ih : MachineW fuel) :
    ∀ w o adv, φDL w o adv ≤ fuel + 1 → DrivePre w.view → Post (driveLoop (fuel + 1) w o adv) := by
  intro w o adv hfuel h
  have i10 := ih.2.2.2.2.2.2.2.2.2.1
  simp only [driveLoop]
  split
  · rename_i hav
    exact process_post fuel i10 w o h hav (by simp only [φDL] at hfuel; omega)
  · rename_i hna
    have ha : w.view.avail = false := by simpa [View.avail, World.view] using hna
    have hf := h.flush ha
    split
    · split
      · exact Post.hd_finishErr _ _ h.pfx
      · exact service_post fuel ih w o adv hfuel hf
    · split
      · exact Post.hd_finishErr _ _ h.pfx
      · exact service_post fuel ih w o adv hfuel hf

theorem wire_driveAfterService (fuel : Nat) (ih : MachineW fuel) :
    ∀ w o adv, φDAS w o adv ≤ fuel + 1 → DrivePre w.view → Post (driveAfterService (fuel + 1) w o adv) := by
  intro w o adv hfuel h
  obtain ⟨_, _, _, _, _, _, _, _, _, i10, _, i12, i13⟩ := ih
  unfold driveAfterService
  split
  · rename_i hav
    exact process_post fuel i10 w o h hav (by simp only [φDAS] at hfuel; omega)
  · rename_i hna
    have hna' : w.sess.reader.packetAvailable = false := by simpa using hna
    have ha : w.view.avail = false := hna'
    have hf := h.flush ha
    split
    · rename_i hnone
      have hn : w.view.o.nextStep = none := by simpa [View.o, World.view] using hnone
      have e4 : nN w = 0 := by
        have : w.sess.data.outbound.nextStep = none := hn
        simp [nN, this]
      split
      · rename_i hadv
        split
        · exact Post.live_finish _ hf
        · exact Post.live_finish _ hf
        · have ea : aN .recv adv = 1 := by simp [aN, hadv]
          exact i12 _ _ (by simp only [φDAS, φDE] at hfuel ⊢; omega) h
      · split
        · exact Post.live_finish _ hf
        · have ev := mV_not_avail hna'
          exact i13 _ _ _ _ (by simp only [φDAS, φDWR, yN] at hfuel ⊢; simp only [Bool.false_eq_true, if_false]; omega) (h.none hn) rfl
    · rename_i hsome
      have e4 : nN w = 1 := by
        cases hns : w.sess.data.outbound.nextStep with
        | none => simp [hns] at hsome
        | some st => simp [nN, hns]
      exact i10 _ _ _ (by simp only [φDAS, φDL] at hfuel ⊢; omega) h

theorem wire_doWaitRead (fuel : Nat) (ih : MachineW fuel) :
    ∀ w o d y, φDWR w y ≤ fuel + 1 → IdlePre w.view → d = w.sess.rt.nextDeadline →
      Post (doWaitRead (fuel + 1) w o d y) := by
  intro w o d y hfuel h hdl
  obtain ⟨_, _, _, _, _, _, _, _, _, _, _, i12, i13⟩ := ih
  have hy := yN_le y
  simp only [doWaitRead]
  split
  · rename_i hav
    have ev := (mV_avail hav).1
    exact i12 _ _ (by simp only [φDWR, φDE] at hfuel ⊢; omega) h.drive
  · rename_i hna
    have hna' : w.sess.reader.packetAvailable = false := by simpa using hna
    have ev := mV_not_avail hna'
    split
    · exact Post.hd_finishErr _ _ h.1.pfx
    · rename_i s1 window hw
      have h1 : IdlePre ({ w with sess := s1 } : World).view :=
        ⟨⟨h.1.1.sess (SessOK.same h.1.1 (closed_SP.window _ _ _ h.1.1.sp hw) (window_mps hw) (by rw [(window_fields hw).1]; rfl) (Prim.window _ _ _ hw) (window_inlog hw) (window_rmark hw)), by
          show s1.data.outbound.Quiet
          rw [(window_fields hw).1]; exact h.1.2⟩, by
          show s1.data.outbound.nextStep = none
          rw [(window_fields hw).1]; exact h.2⟩
      obtain ⟨wm0, wm1⟩ := window_metrics hw hna'
      have e1 : mS ({ w with sess := s1 } : World) = mS w := rfl
      have e2 : mK ({ w with sess := s1 } : World) = mK w := rfl
      have e3 : mRW ({ w with sess := s1 } : World) = rwN s1.reader := rfl
      have e4 : mV ({ w with sess := s1 } : World) = vN s1.reader := rfl
      have e5 : mRW w = rwN w.sess.reader := rfl
      split
      · rename_i hw0
        obtain ⟨m1, m2, _⟩ := wm0 hw0
        exact i12 _ _ (by simp only [φDWR, φDE, mD] at hfuel ⊢; omega) h1.drive
      · rename_i hw0
        obtain ⟨m1, m2, m3⟩ := wm1 hw0
        have hav1 : ({ w with sess := s1 } : World).view.avail = false := window_not_avail hw hw0
        split
        · rename_i w' heq
          have hv := ioRead_view h1.1.1.net heq
          exact Post.hd_finishErr _ _ (by rw [hv]; exact h1.1.pfx)
        · rename_i w' k heq
          have hv := ioRead_view h1.1.1.net heq
          exact Post.hd_finishErr _ _ (by rw [hv]; exact h1.1.pfx)
        · rename_i w' bytes heq
          have hv := ioRead_view h1.1.1.net heq
          obtain ⟨p1, _, _, _, p5⟩ := ioRead_pot heq
          have hs1 := p5 bytes rfl
          apply i13
          · have hb := φDWR_le ({ w' with sess := w'.sess.commit bytes } : World) y
            have e6 : mS ({ w' with sess := w'.sess.commit bytes } : World) = mS w' := rfl
            simp only [φDWR, mD] at hfuel; omega
          · show IdlePre { w'.view with sess := w'.view.sess.commit bytes }
            rw [hv]; exact ⟨⟨h1.1.1.sess (SessOK.same h1.1.1 (closed_SP.commit _ _ h1.1.1.sp) rfl rfl (Prim.commit _ _) rfl rfl), h1.1.2⟩, h1.2⟩
          · show d = (w'.sess.commit bytes).rt.nextDeadline
            rw [show (w'.sess.commit bytes).rt = w'.sess.rt from rfl, io_read_sess' heq]
            show d = s1.rt.nextDeadline
            rw [(window_fields hw).2]; exact hdl
        · rename_i w' heq
          have hv := ioRead_view h1.1.1.net heq
          obtain ⟨p1, p2, p3, p4, _⟩ := ioRead_pot heq
          have hq' : IdlePre w'.view := by rw [hv]; exact h1
          have ha' : w'.view.avail = false := by rw [hv]; exact hav1
          have hs' : w'.sess = s1 := io_read_sess' heq
          have hd' : d = w'.sess.rt.nextDeadline := by rw [hs', (window_fields hw).2]; exact hdl
          have hro : ∀ dd, dd = d → ReadOK w'.view dd true := fun dd hdd =>
            ⟨rfl, hdd.trans hd', window, hw0, by show w'.sess.window = some (w'.sess, window); rw [hs']; exact window_idem hw⟩
          split
          · exact Post.suspend ⟨hq', ha', hro _ rfl⟩
          · split
            · split
              · rename_i hyield
                have ey : yN y = 1 := by simp [yN, hyield]
                exact i12 _ _ (by simp only [φDWR, φDE, mD] at hfuel ⊢; omega) hq'.drive
              · split
                · exact Post.suspend ⟨hq', ha', hro _ rfl⟩
                · rename_i hwk
                  have ek : mK ({ w' with wakes := w'.wakes + 1 } : World) + 1 = mK w' ∧ 1 ≤ mK ({ w' with wakes := w'.wakes + 1 } : World) := by
                    have e : mK ({ w' with wakes := w'.wakes + 1 } : World) = 64 - (w'.wakes + 1) := rfl
                    have e' : mK w' = 64 - w'.wakes := rfl
                    omega
                  have e6 : mS ({ w' with wakes := w'.wakes + 1 } : World) = mS w' := rfl
                  have e7 : mRW ({ w' with wakes := w'.wakes + 1 } : World) = mRW w' := rfl
                  have e8 : mV ({ w' with wakes := w'.wakes + 1 } : World) = mV w' := rfl
                  have ey : yN true = 1 := rfl
                  exact i13 _ _ _ _ (by simp only [φDWR, mD] at hfuel ⊢; omega) hq' hd'
            · exact Post.suspend ⟨hq', ha', hro _ rfl⟩

/-! ### `afterFlush`: what an operation does once the queues are drained -/

theorem encode_packet_framed {ε : Type} (s : Session) (enc : Nat → (Nat → Nat → Bytes) → Except ε (Nat × Bytes))
    (ha : s.data.outbound.ArenaInv) (he : EncOk enc) {off len : Nat} (hres : (s.encode enc).2 = .ok (off, len)) :
    Framed ((s.encode enc).1.data.outbound.retainedPacket off len) := by
  rw [Session.encode_snd] at hres
  obtain ⟨off0, pkt, hpk, hsl, _⟩ := encodeAt_packet s.data.outbound enc ha he off len hres
  obtain ⟨_, _, hfr⟩ := he _ _ _ _ (fun i n => slice_length_le _ _ _) hpk
  rw [Session.encode_fst]
  show Framed (slice (s.data.outbound.encodeAt enc).1.buf off len)
  rw [hsl]; exact hfr

theorem encode_packet_typ {ε : Type} (s : Session) (enc : Nat → (Nat → Nat → Bytes) → Except ε (Nat × Bytes))
    (ha : s.data.outbound.ArenaInv) (he : EncOk enc) {typ : Nat} (ht : EncTyp enc typ) {off len : Nat}
    (hres : (s.encode enc).2 = .ok (off, len)) :
    ∃ x rest, (s.encode enc).1.data.outbound.retainedPacket off len = x :: rest ∧ x.toNat / 16 = typ := by
  rw [Session.encode_snd] at hres
  obtain ⟨off0, pkt, hpk, hsl, _⟩ := encodeAt_packet s.data.outbound enc ha he off len hres
  obtain ⟨x, rest, hx, hxt⟩ := ht _ _ _ _ hpk
  refine ⟨x, rest, ?_, hxt⟩
  rw [Session.encode_fst]
  show slice (s.data.outbound.encodeAt enc).1.buf off len = _
  rw [hsl]; exact hx

theorem QuietPre.sessQ {v : View} (h : QuietPre v) (ha : v.avail = false) {s : Session} (hs : SessOK v s)
    (hq : s.data.outbound.Quiet) (hr : s.reader = v.sess.reader) :
    QuietPre { v with sess := s } ∧ ({ v with sess := s } : View).avail = false :=
  ⟨⟨h.1.sess hs, hq⟩, by show s.reader.packetAvailable = false; rw [hr]; exact ha⟩

theorem QuietPre.sessF {v : View} (h : QuietPre v) (ha : v.avail = false) {s : Session} (hs : SessOK v s)
    (hq : s.data.outbound.Quiet) (hr : s.reader = v.sess.reader) : FlushPre { v with sess := s } :=
  (h.sessQ ha hs hq hr).1.flushPre (h.sessQ ha hs hq hr).2

theorem wire_afterFlush (fuel : Nat) (ih : MachineW fuel) :
    ∀ w k, φAF w k ≤ fuel + 1 → QuietPre w.view → w.view.avail = false → Post (afterFlush (fuel + 1) w k) := by
  intro w k hfuel h ha
  obtain ⟨i1', _, _, _, _, _, i7', _⟩ := ih
  have hf := h.flushPre ha
  have hsp : SP w.sess := h.1.sp
  have hquiet : w.sess.data.outbound.Quiet := h.2
  have hm2 : ∀ {ε : Type} (enc : Nat → (Nat → Nat → Bytes) → Except ε (Nat × Bytes)),
      (w.sess.alloc.1.encode enc).1.rt.maximumPacketSize = w.sess.rt.maximumPacketSize := fun enc => by rw [alloc_encode_rt]
  have hm2e : ∀ {ε : Type} (enc : Nat → (Nat → Nat → Bytes) → Except ε (Nat × Bytes)),
      (w.sess.encode enc).1.rt.maximumPacketSize = w.sess.rt.maximumPacketSize := fun enc => by rw [encode_rt]
  have hlog : w.sess.data.outbound.Log w.view.ord w.view.log := h.1.log
  have hlogA : w.sess.alloc.1.data.outbound.Log w.view.ord w.view.log := by rw [alloc_outbound]; exact hlog
  have harA : w.sess.alloc.1.data.outbound.ArenaInv := by rw [alloc_outbound]; exact hsp.arena
  -- the session after allocating an identifier and encoding the packet behind the retained ones
  have okAE : ∀ {ε : Type} (enc : Nat → (Nat → Nat → Bytes) → Except ε (Nat × Bytes)), EncOk enc →
      SessOK w.view (w.sess.alloc.1.encode enc).1 := fun enc he =>
    ⟨closed_SP.encodeAfterAlloc w.sess enc he hsp, hm2 enc, Log_encode _ enc harA he hlogA, (Prim.encodeAfterAlloc w.sess enc he).everAccepted_changes.1 h.1.acc, (AckEq.alloc h.1.acks).encode enc, (RelPub.alloc h.1.relpub).encode enc⟩
  have okE : ∀ {ε : Type} (enc : Nat → (Nat → Nat → Bytes) → Except ε (Nat × Bytes)), EncOk enc →
      SessOK w.view (w.sess.encode enc).1 := fun enc he =>
    ⟨closed_SP.encodeScratch w.sess enc he hsp, hm2e enc, Log_encode _ enc hsp.arena he hlog, (Prim.encodeScratch w.sess enc he).everAccepted_changes.1 h.1.acc, AckEq.encode h.1.acks enc, RelPub.encode h.1.relpub enc⟩
  unfold afterFlush
  cases k with
  | post name op => exact Post.live_finishOp _ _ hf
  | discPre d =>
    simp only []
    split
    · exact Post.live_finishErr _ _ hf
    · rename_i off pkt henc
      split
      · exact Post.live_finishErr _ _ hf
      · rename_i hbig
        refine i7' _ _ _ (by show 1000 * mS w + 2 ≤ fuel; simp only [φAF, kpN] at hfuel; omega) ?_
        have hfr := (EncOk_encodeWithOffset _ _ _ _ (fun _ _ => []) _ _ (by simp) henc).2.2
        have hfit : Fits w.sess.rt.maximumPacketSize pkt.length := fits_of_not_tooLarge (by simpa using hbig)
        exact ⟨h.1.net, hsp, h.2, Or.inr ⟨by decide, ha, [], h.1, by simpa using hfr, by rw [List.nil_append]; exact hfit⟩⟩
  | subPre r =>
    simp only []
    split
    · exact Post.live_finishErr _ _ hf
    · have hE := EncOk_encodeWithOffset (subscribeChunks w.sess.alloc.2 (.slice r.props) r.topics) MT_Subscribe FLAGS_Subscribe
      have hsp2 := closed_SP.encodeAfterAlloc w.sess _ hE hsp
      have hq2 := Quiet_encode w.sess.alloc.1 (fun cap _ =>
        encodeWithOffset cap (subscribeChunks w.sess.alloc.2 (.slice r.props) r.topics) MT_Subscribe FLAGS_Subscribe)
        (by rw [alloc_outbound]; exact hquiet)
      have hr2 : (w.sess.alloc.1.encode (fun cap _ =>
        encodeWithOffset cap (subscribeChunks w.sess.alloc.2 (.slice r.props) r.topics) MT_Subscribe FLAGS_Subscribe)).1.reader = w.sess.reader := by
        rw [encode_reader, alloc_reader]
      have hf2 := h.sessF ha (okAE _ hE) hq2 hr2
      split
      · exact Post.live_finishErr _ _ hf2
      · split
        · exact Post.live_finishErr _ _ hf2
        · split
          · exact Post.live_finishErr _ _ hf2
          · rename_i s3 hs3
            refine i1' _ _ (by show 1000 * mS w + 40 * 0 + 5 ≤ fuel; simp only [φAF, kpN] at hfuel; omega) ?_
            rename_i _ off len hres _ _
            have hsp3 := closed_SP.enqueue w.sess _ _ _ false s3 _ hE (EncTyp_encodeWithOffset _ _ _ (by decide)) (by decide) hsp (by simp) hres hs3
            exact h.sessF ha ⟨hsp3, (retain_mps hs3).trans (hm2 _), Log_retain _ _ _ harA hE hlogA _ _ _ _ hres hs3, by rw [retain_acc hs3, alloc_encode_acc]; exact h.1.acc, ((AckEq.alloc h.1.acks).encode _).retain hs3, ((RelPub.alloc h.1.relpub).encode _).retain hs3⟩ (Quiet_retain hq2 hs3) ((retain_reader hs3).trans hr2)
  | unsubPre r =>
    simp only []
    split
    · exact Post.live_finishErr _ _ hf
    · have hE := EncOk_encodeWithOffset (unsubscribeChunks w.sess.alloc.2 (.slice r.props) r.topics) MT_Unsubscribe FLAGS_Unsubscribe
      have hsp2 := closed_SP.encodeAfterAlloc w.sess _ hE hsp
      have hq2 := Quiet_encode w.sess.alloc.1 (fun cap _ =>
        encodeWithOffset cap (unsubscribeChunks w.sess.alloc.2 (.slice r.props) r.topics) MT_Unsubscribe FLAGS_Unsubscribe)
        (by rw [alloc_outbound]; exact hquiet)
      have hr2 : (w.sess.alloc.1.encode (fun cap _ =>
        encodeWithOffset cap (unsubscribeChunks w.sess.alloc.2 (.slice r.props) r.topics) MT_Unsubscribe FLAGS_Unsubscribe)).1.reader = w.sess.reader := by
        rw [encode_reader, alloc_reader]
      have hf2 := h.sessF ha (okAE _ hE) hq2 hr2
      split
      · exact Post.live_finishErr _ _ hf2
      · split
        · exact Post.live_finishErr _ _ hf2
        · split
          · exact Post.live_finishErr _ _ hf2
          · rename_i s3 hs3
            refine i1' _ _ (by show 1000 * mS w + 40 * 0 + 5 ≤ fuel; simp only [φAF, kpN] at hfuel; omega) ?_
            rename_i _ off len hres _ _
            have hsp3 := closed_SP.enqueue w.sess _ _ _ false s3 _ hE (EncTyp_encodeWithOffset _ _ _ (by decide)) (by decide) hsp (by simp) hres hs3
            exact h.sessF ha ⟨hsp3, (retain_mps hs3).trans (hm2 _), Log_retain _ _ _ harA hE hlogA _ _ _ _ hres hs3, by rw [retain_acc hs3, alloc_encode_acc]; exact h.1.acc, ((AckEq.alloc h.1.acks).encode _).retain hs3, ((RelPub.alloc h.1.relpub).encode _).retain hs3⟩ (Quiet_retain hq2 hs3) ((retain_reader hs3).trans hr2)
  | publishPre r =>
    simp only []
    split
    · exact Post.live_finishErr _ _ hf
    · generalize effectiveQos w.sess.rt.maxQos w.sess.downgrade r.qos = qos
      split
      · -- QoS > 0
        have hsp1 := closed_SP.alloc w.sess hsp
        have hq1 : w.sess.alloc.1.data.outbound.Quiet := by rw [alloc_outbound]; exact hquiet
        have hf1 := h.sessF ha (SessOK.same h.1 hsp1 (by rw [alloc_rt]; rfl) (alloc_outbound _) (Prim.alloc _) (alloc_ctl _).2 (alloc_rmark _)) hq1 (alloc_reader _)
        split
        · exact Post.live_finishErr _ _ hf1
        · split
          · exact Post.live_finishErr _ _ hf1
          · rename_i hcan
            have hE := EncOk_encodePublish { topic := r.topic, packetId := some w.sess.alloc.2, props := r.props, retain := r.retain, qos := qos, dup := false } r.payload
            have hsp2 := closed_SP.encodeAfterAlloc w.sess _ hE hsp
            have hq2 := Quiet_encode w.sess.alloc.1 (fun cap fill => encodePublishWithOffset cap
              { topic := r.topic, packetId := some w.sess.alloc.2, props := r.props, retain := r.retain, qos := qos, dup := false } r.payload fill) hq1
            have hr2 : (w.sess.alloc.1.encode (fun cap fill => encodePublishWithOffset cap
              { topic := r.topic, packetId := some w.sess.alloc.2, props := r.props, retain := r.retain, qos := qos, dup := false } r.payload fill)).1.reader = w.sess.reader := by
              rw [encode_reader, alloc_reader]
            have hf2 := h.sessF ha (okAE _ hE) hq2 hr2
            split
            · exact Post.live_finishErr _ _ hf2
            · split
              · exact Post.live_finishErr _ _ hf2
              · split
                · exact Post.live_finishErr _ _ hf2
                · rename_i s3 hs3
                  refine i1' _ _ (by show 1000 * mS w + 40 * 0 + 5 ≤ fuel; simp only [φAF, kpN] at hfuel; omega) ?_
                  rename_i _ off len hres _ _
                  have hsp3 := closed_SP.enqueue w.sess _ _ _ true s3 _ hE (EncTyp_encodePublish _ _) (by decide) hsp (by
                    intro _
                    have hq : qos ≠ 0 := by omega
                    have hcp : canPublishS w.sess.alloc.1.data w.sess.alloc.1.rt qos = true := by
                      simp at hcan; exact hcan.2
                    simp only [canPublishS, hq, if_false, Bool.and_eq_true, ne_eq, decide_eq_true_eq] at hcp
                    have hrt : w.sess.alloc.1.rt = w.sess.rt := rfl
                    rw [hrt] at hcp
                    exact hcp.1) hres hs3
                  exact h.sessF ha ⟨hsp3, (retain_mps hs3).trans (hm2 _), Log_retain _ _ _ harA hE hlogA _ _ _ _ hres hs3, by rw [retain_acc hs3, alloc_encode_acc]; exact h.1.acc, ((AckEq.alloc h.1.acks).encode _).retain hs3, ((RelPub.alloc h.1.relpub).encode _).retain hs3⟩ (Quiet_retain hq2 hs3) ((retain_reader hs3).trans hr2)
      · -- QoS 0
        split
        · exact Post.live_finishErr _ _ hf
        · have hE := EncOk_encodePublish { topic := r.topic, packetId := none, props := r.props, retain := r.retain, qos := 0, dup := false } r.payload
          have hsp2 := closed_SP.encodeScratch w.sess _ hE hsp
          have hq2 := Quiet_encode w.sess (fun cap fill => encodePublishWithOffset cap
            { topic := r.topic, packetId := none, props := r.props, retain := r.retain, qos := 0, dup := false } r.payload fill) hquiet
          have hr2 := encode_reader w.sess (fun cap fill => encodePublishWithOffset cap
            { topic := r.topic, packetId := none, props := r.props, retain := r.retain, qos := 0, dup := false } r.payload fill)
          have hf2 := h.sessF ha (okE _ hE) hq2 hr2
          split
          · exact Post.live_finishErr _ _ hf2
          · split
            · exact Post.live_finishErr _ _ hf2
            · rename_i off len hres hbig
              refine i7' _ _ _ (by show 1000 * mS w + 2 ≤ fuel; simp only [φAF, kpN] at hfuel; omega) ?_
              have hfr := encode_packet_framed w.sess _ hsp.arena hE hres
              have hq' := h.sessQ ha (okE _ hE) hq2 hr2
              refine ⟨h.1.net, hsp2, hq2, Or.inr ⟨by decide, hq'.2, [], hq'.1.1, by simpa using hfr, ?_⟩⟩
              rw [List.nil_append]
              have hb' : (w.sess.encode (fun cap fill => encodePublishWithOffset cap
                  { topic := r.topic, packetId := none, props := r.props, retain := r.retain, qos := 0, dup := false }
                  r.payload fill)).1.rt.packetTooLarge len = false := by simpa using hbig
              exact Fits.mono (fits_of_not_tooLarge hb') (slice_length_le _ off len)


theorem machineW : ∀ fuel, MachineW fuel := by
  intro fuel
  induction fuel with
  | zero => exact machineW_zero
  | succ fuel ih =>
    exact ⟨wire_flushLoop fuel ih, wire_performStep fuel ih, wire_doStepWrite fuel ih,
      wire_doStepFlush fuel ih, wire_stepReturned fuel ih, wire_afterFlush fuel ih,
      wire_doLocalWrite fuel ih, wire_doLocalFlush fuel ih, wire_doConnRead fuel ih,
      wire_driveLoop fuel ih, wire_driveAfterService fuel ih, wire_driveEnter fuel ih,
      wire_doWaitRead fuel ih⟩

end Minimq
