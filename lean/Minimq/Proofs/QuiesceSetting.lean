import Minimq.Proofs.QuiesceKinds
/-
Bounded quiescence (C16, liveness half) — part 8: the setting of the closed loop with the hypotheses that
follow from reachability taken out.

* `clean`, `ctlCap`, `small` hold of every world a program produced (`Proofs/QuiesceInv.lean`).
* `maxq` holds of every world a program produced whose handle is live: the handle becomes live only when
  a CONNACK is accepted (`live_run`, `Proofs/LiftWorld.lean`), and an accepted CONNACK sets the maximum
  send quota to at most 8 (`closed_MaxQ`).
* `kinds` holds of the worlds produced by programs that publish with QoS 0, 1, 2 only
  (`Proofs/QuiesceKinds.lean`); for other programs it can fail, and it stays a hypothesis of `Setting'`.
-/
namespace Minimq
open Gen World Fuel Outbound
namespace Quiesce

theorem closed_everAccepted : Closed (fun s => s.data.everAccepted = true) :=
  (closed_iff_prim _).mpr (fun _ _ hp h => hp.everAccepted_changes.1 h)

/-- On a live handle a CONNACK has been accepted (ghost flag) — whether or not the transport is marked
torn. -/
theorem Produced.accepted {W : World} (h : Produced W) (hl : W.live = true) : W.sess.data.everAccepted = true := by
  obtain ⟨cfg, ds, rfl⟩ := h
  exact live_run closed_everAccepted
    (fun s sp block now hok => ((activate_halfReset s sp block now).2.2 ((activate_ok_iff s sp block now).1 hok)).2)
    cfg ds hl

/-- On a live handle the maximum send quota is the negotiated one, at most 8. -/
theorem Produced.maxq_of_live {W : World} (h : Produced W) (hl : W.live = true) :
    W.sess.rt.maxSendQuota ≤ maxInflight :=
  h.maxQ (h.accepted hl)

/-- **The setting of the closed loop, reduced**: `Setting` without the four hypotheses that hold of every
world a program produced (`clean`, `ctlCap`, `small`; `maxq` given `live`). What is left:

* the connection is live and no I/O decision is left over;
* time stands still, no keep-alive event is due, no PINGREQ is queued;
* every queued packet is within the broker's Maximum Packet Size (F14), `deficit` is clear (F5c), the quota
  books balance;
* the retained packets are QoS 1/2 PUBLISH, SUBSCRIBE or UNSUBSCRIBE packets (`kinds`: true when the program
  publishes with QoS 0, 1, 2 only — `SettingQ` —, false for `publish` with `qos = 3`);
* the receive buffer holds six bytes and the reader is at a packet boundary;
* the broker is up to date. -/
structure Setting' (w : World) : Prop where
  live : w.live = true
  slot : w.slot = none
  calm : KaCalm w.sess.rt w.now
  noPing : ∀ e ∈ w.sess.data.outbound.control, e.action.typ ≠ MT_PingReq
  fits : Fits w.sess
  deficit : w.sess.rt.deficit = false
  quotaEq : w.sess.rt.sendQuota + w.sess.data.outbound.inflightPublishes = w.sess.rt.maxSendQuota
  kinds : KnownKinds w.sess.data.outbound
  cap : 6 ≤ w.sess.reader.cap
  rdData : w.sess.reader.data = []
  rdLen : w.sess.reader.packetLength = none
  sync : ∃ as, w.curNet.rx = enc as ∧ as.Perm (expected w.sess.data.outbound)

theorem setting_of (w : World) (hp : Produced w) (h : Setting' w) : Setting w :=
  ⟨h.live, h.slot, h.calm, hp.ctl.clean, h.noPing, hp.ctl.cap, h.fits, hp.small, h.deficit,
    hp.maxq_of_live h.live, h.quotaEq, h.kinds, h.cap, h.rdData, h.rdLen, h.sync⟩

theorem Setting.reduce {w : World} (h : Setting w) : Setting' w :=
  ⟨h.live, h.slot, h.calm, h.noPing, h.fits, h.deficit, h.quotaEq, h.kinds, h.cap, h.rdData, h.rdLen, h.sync⟩

/-! ### Programs that publish with QoS 0, 1, 2 only -/

/-- `W` is what some program that publishes with QoS 0, 1 or 2 only made of some initial configuration. -/
def ProducedQ (W : World) : Prop :=
  ∃ cfg ds, QosProgram ds ∧ W = List.foldl World.execDirective { sess := Session.new cfg } ds

theorem ProducedQ.produced {W : World} (h : ProducedQ W) : Produced W := by
  obtain ⟨cfg, ds, _, rfl⟩ := h
  exact ⟨cfg, ds, rfl⟩

theorem ProducedQ.run {W : World} (h : ProducedQ W) (ds : List Directive) (hq : QosProgram ds) :
    ProducedQ (ds.foldl World.execDirective W) := by
  obtain ⟨cfg, ds0, h0, rfl⟩ := h
  refine ⟨cfg, ds0 ++ ds, ?_, by rw [List.foldl_append]⟩
  intro r hr
  rcases List.mem_append.mp hr with hr | hr
  · exact h0 r hr
  · exact hq r hr

/-- `connect`, a delivery and decisions are not publishes. -/
theorem ProducedQ.reconnect {W : World} (h : ProducedQ W) (bytes : Bytes) (ks : List Nat) :
    ProducedQ (runDs ks ((W.execDirective .connect).execDirective (.rx bytes))) := by
  have h1 := h.run [.connect, .rx bytes] (by intro r hr; simp at hr)
  exact h1.run (ks.map Directive.d) (by intro r hr; simp at hr)

theorem ProducedQ.kinds {W : World} (h : ProducedQ W) : KnownKinds W.sess.data.outbound := by
  obtain ⟨cfg, ds, hq, rfl⟩ := h
  exact knownKinds_run cfg ds hq

/-- `Setting'` without `kinds`: the setting for a world produced by a program that publishes with QoS 0, 1,
2 only. -/
structure SettingQ (w : World) : Prop where
  live : w.live = true
  slot : w.slot = none
  calm : KaCalm w.sess.rt w.now
  noPing : ∀ e ∈ w.sess.data.outbound.control, e.action.typ ≠ MT_PingReq
  fits : Fits w.sess
  deficit : w.sess.rt.deficit = false
  quotaEq : w.sess.rt.sendQuota + w.sess.data.outbound.inflightPublishes = w.sess.rt.maxSendQuota
  cap : 6 ≤ w.sess.reader.cap
  rdData : w.sess.reader.data = []
  rdLen : w.sess.reader.packetLength = none
  sync : ∃ as, w.curNet.rx = enc as ∧ as.Perm (expected w.sess.data.outbound)

theorem Setting'.dropKinds {w : World} (h : Setting' w) : SettingQ w :=
  ⟨h.live, h.slot, h.calm, h.noPing, h.fits, h.deficit, h.quotaEq, h.cap, h.rdData, h.rdLen, h.sync⟩

theorem setting'_of_qos (w : World) (hp : ProducedQ w) (h : SettingQ w) : Setting' w :=
  ⟨h.live, h.slot, h.calm, h.noPing, h.fits, h.deficit, h.quotaEq, hp.kinds, h.cap, h.rdData, h.rdLen, h.sync⟩

theorem setting_of_qos (w : World) (hp : ProducedQ w) (h : SettingQ w) : Setting w :=
  setting_of w hp.produced (setting'_of_qos w hp h)

end Quiesce
end Minimq
